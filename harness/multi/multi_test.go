// Package multi: engine SCHED over the real channel/multi Funder and Adjudicator (C20).
// Every configuration (asset list over three ledgers incl. repeats and a plain asset, every
// subset of registered ledgers, every subset of failing ones, method, egoistic index) is run
// under EVERY schedule (no bound): the completion order of the concurrent sub-calls is the
// scheduler's choice. A second, "wide" family has six distinct ledgers (more than any plausible
// cap on parallel sub-calls) with one ledger missing / failing in first or last position, under a
// preemption bound.
package multi

import (
	"context"
	"fmt"
	"math/big"
	"sort"
	"strconv"
	"strings"
	stdsync "sync"
	"sync/atomic"
	"testing"
	"time"

	_ "perun.network/go-perun/backend/sim"
	"perun.network/go-perun/channel"
	"perun.network/go-perun/channel/multi"
	"perun.network/go-perun/wallet"
	"verif/engine/explore"
	"verif/engine/report"
	"verif/engine/schedrun"
	"verif/engine/vsched"
)

type lid struct {
	backend uint32
	ledger  string
}

func (l lid) BackendID() uint32        { return l.backend }
func (l lid) LedgerID() multi.LedgerID { return lkey(l.ledger) }

type lkey string

func (k lkey) MapKey() multi.LedgerIDMapKey { return multi.LedgerIDMapKey(k) }

type masset struct{ l lid }

func (a masset) MarshalBinary() ([]byte, error)         { return []byte(a.l.ledger), nil }
func (a *masset) UnmarshalBinary([]byte) error          { return nil }
func (a masset) Equal(b channel.Asset) bool             { o, ok := b.(*masset); return ok && o.l == a.l }
func (a masset) Address() []byte                        { return []byte(a.l.ledger) }
func (a masset) LedgerBackendID() multi.LedgerBackendID { return a.l }

// plain is an asset that is not a multi-ledger asset.
type plain struct{}

func (plain) MarshalBinary() ([]byte, error) { return []byte("plain"), nil }
func (*plain) UnmarshalBinary([]byte) error  { return nil }
func (plain) Equal(b channel.Asset) bool     { _, ok := b.(*plain); return ok }
func (plain) Address() []byte                { return []byte("plain") }

// two backend ids, so that deduplication by ledger id only and by backend id only both show
// Indices 4..9 form the "wide" family: six distinct ledgers on one backend, more than any bound on
// the number of parallel sub-calls an implementation may have (index 3 is the plain asset, the
// entry at that position is never registered).
var ledgers = []lid{{0, "L0"}, {0, "L1"}, {1, "L0"}, {9, "unused"}, {0, "W0"}, {0, "W1"}, {0, "W2"}, {0, "W3"}, {0, "W4"}, {0, "W5"}}

var wide = []int{4, 5, 6, 7, 8, 9}

const plainIdx = 3

func lname(i int) string { return fmt.Sprintf("%d/%s", ledgers[i].backend, ledgers[i].ledger) }

type call struct {
	ledger     string
	method     string
	start, end int
}

type rec struct {
	mu    stdsync.Mutex // only contended in the free-running race audit; never held across a scheduling point
	clock int
	calls []*call
}

func (r *rec) do(ledger, method string, fail bool) error {
	r.mu.Lock()
	r.clock++
	c := &call{ledger: ledger, method: method, start: r.clock}
	r.calls = append(r.calls, c)
	r.mu.Unlock()
	vsched.PointOp("ledger-call." + ledger) // completion order is a scheduler choice
	r.mu.Lock()
	r.clock++
	c.end = r.clock
	r.mu.Unlock()
	if fail {
		return fmt.Errorf("%s on %s failed", method, ledger)
	}
	return nil
}

type sfunder struct {
	r    *rec
	name string
	fail bool
}

func (f *sfunder) Fund(context.Context, channel.FundingReq) error {
	return f.r.do(f.name, "fund", f.fail)
}

type sadj struct {
	r    *rec
	name string
	fail bool
}

func (a *sadj) Register(context.Context, channel.AdjudicatorReq, []channel.SignedState) error {
	return a.r.do(a.name, "register", a.fail)
}
func (a *sadj) Withdraw(context.Context, channel.AdjudicatorReq, channel.StateMap) error {
	return a.r.do(a.name, "withdraw", a.fail)
}
func (a *sadj) Progress(context.Context, channel.ProgressReq) error {
	return a.r.do(a.name, "progress", a.fail)
}
func (a *sadj) Subscribe(context.Context, channel.ID) (channel.AdjudicatorSubscription, error) {
	return nil, fmt.Errorf("not driven")
}

type config struct {
	method   string // fund, register, progress, withdraw
	assets   []int  // indices into ledgers; plainIdx = plain asset
	reg      uint   // bitmask of registered ledgers
	fail     uint   // bitmask of failing ledgers
	egoistic int    // -1 unset
}

func (c config) name() string {
	var as []string
	for _, a := range c.assets {
		as = append(as, strconv.Itoa(a))
	}
	return fmt.Sprintf("%s/a=%s/r=%d/f=%d/e=%d", c.method, strings.Join(as, "."), c.reg, c.fail, c.egoistic)
}

func parse(n string) config {
	p := strings.Split(n, "/")
	c := config{method: p[0]}
	for _, a := range strings.Split(strings.TrimPrefix(p[1], "a="), ".") {
		i, _ := strconv.Atoi(a)
		c.assets = append(c.assets, i)
	}
	r, _ := strconv.Atoi(strings.TrimPrefix(p[2], "r="))
	f, _ := strconv.Atoi(strings.TrimPrefix(p[3], "f="))
	c.reg, c.fail = uint(r), uint(f)
	c.egoistic, _ = strconv.Atoi(strings.TrimPrefix(p[4], "e="))
	return c
}

type observation struct {
	calls []*call
	err   error
}

func exec(t *testing.T, ssc schedrun.Scenario, o vsched.Options) (*vsched.Sched, any) {
	cfg := parse(ssc.Name)
	obs := &observation{}
	s := vsched.Run(t, o, func() { body(cfg, obs) })
	return s, obs
}

// body is one run of a configuration (under the scheduler, or free-running in the race audit).
func body(cfg config, obs *observation) {
	{
		r := &rec{}
		var as []channel.Asset
		var bals channel.Balances
		var bk []wallet.BackendID
		for _, a := range cfg.assets {
			if a == plainIdx {
				as = append(as, &plain{})
			} else {
				as = append(as, &masset{ledgers[a]})
			}
			// participant 0 (the one that calls) owns nothing of every other asset: a ledger is called
			// because the channel has an asset there, not because the caller has a balance on it
			bals = append(bals, []channel.Bal{big.NewInt(int64(len(bals) % 2)), big.NewInt(1)})
			bk = append(bk, 0)
		}
		params := &channel.Params{ChallengeDuration: 60}
		st := &channel.State{Allocation: channel.Allocation{Assets: as, Backends: bk, Balances: bals}}
		ctx := context.Background()
		if cfg.method == "fund" && cfg.fail&1 != 0 {
			// half of the failing configurations run with a funding deadline that has passed already:
			// a failed sub-call is a failure whatever the clock says
			var cancel context.CancelFunc
			ctx, cancel = context.WithDeadline(ctx, time.Now().Add(-time.Second))
			defer cancel()
		}
		if cfg.method == "fund" {
			f := multi.NewFunder()
			for i, l := range ledgers {
				if cfg.reg&(1<<i) != 0 {
					f.RegisterFunder(l, &sfunder{r: r, name: lname(i), fail: cfg.fail&(1<<i) != 0})
				}
			}
			if cfg.egoistic >= 0 {
				f.SetEgoisticPart(cfg.egoistic)
			}
			obs.err = f.Fund(ctx, channel.FundingReq{Params: params, State: st, Idx: 0, Agreement: bals})
		} else {
			a := multi.NewAdjudicator()
			for i, l := range ledgers {
				if cfg.reg&(1<<i) != 0 {
					a.RegisterAdjudicator(l, &sadj{r: r, name: lname(i), fail: cfg.fail&(1<<i) != 0})
				}
			}
			req := channel.AdjudicatorReq{Params: params, Tx: channel.Transaction{State: st}}
			switch cfg.method {
			case "register":
				obs.err = a.Register(ctx, req, nil)
			case "withdraw":
				obs.err = a.Withdraw(ctx, req, nil)
			case "progress":
				// the ledgers of a progression are those of the channel's registered transaction; the
				// state progressed into is given a different asset list here so that reading the
				// ledgers from it shows (first asset moved to the next ledger, one more asset on a
				// ledger that may be unregistered or failing)
				ns := &channel.State{Allocation: channel.Allocation{
					Assets:   append(append([]channel.Asset{}, as...), &masset{ledgers[2]}),
					Backends: append(append([]wallet.BackendID{}, bk...), 0),
					Balances: append(append(channel.Balances{}, bals...), []channel.Bal{big.NewInt(1), big.NewInt(1)}),
				}}
				if len(cfg.assets) > 0 && cfg.assets[0] != plainIdx && cfg.assets[0] < 3 {
					ns.Assets[0] = &masset{ledgers[(cfg.assets[0]+1)%3]}
				}
				obs.err = a.Progress(ctx, channel.ProgressReq{AdjudicatorReq: req, NewState: ns})
			}
		}
		if vsched.Active() {
			vsched.Sleep(time.Second) // let sub-calls that outlive an early error return finish
		} else {
			time.Sleep(200 * time.Microsecond)
		}
		r.mu.Lock()
		obs.calls = append([]*call{}, r.calls...)
		r.mu.Unlock()
	}
}

// TestRace is the free-running race audit (DESIGN.md 2.3 (b)): every configuration of the quick
// family runs a few times with real goroutines under Go's race detector; reports become
// violations C20:data-race:<functions>. Nothing else is judged here.
func TestRace(t *testing.T) {
	res := report.New("C20", "multi-race")
	defer res.Write() //nolint:errcheck
	iters := 3
	if res.Thorough() {
		iters = 30
	}
	scs := scenarios(res)
	var wg stdsync.WaitGroup
	var hung atomic.Bool
	next := make(chan string)
	for k := 0; k < 8; k++ {
		wg.Add(1)
		go func() {
			defer wg.Done()
			for n := range next {
				for i := 0; i < iters && !hung.Load(); i++ {
					done := make(chan struct{})
					go func() { body(parse(n), &observation{}); close(done) }()
					select {
					case <-done:
					case <-time.After(20 * time.Second):
						// free-running, a deadlock is a hang: deadlocks are the business of the exploration
						// stage, the audit only gives up
						if !hung.Swap(true) {
							res.Cap("race audit abandoned: a free-running run of %s did not end within 20 s (deadlocks are judged by the exploration stage)", n)
						}
					}
				}
			}
		}()
	}
	for _, sc := range scs {
		next <- sc.Name
		res.Count("evaluations", int64(iters))
		res.Count("scenarios", 1)
	}
	close(next)
	wg.Wait()
	res.Counters["distinct_nontrivial"] = res.Counters["scenarios"]
	res.Note("race audit: %d free-running iterations of each of %d configurations under -race", iters, len(scs))
}

func check(ssc schedrun.Scenario, s *vsched.Sched, o any) []schedrun.Verdict {
	cfg := parse(ssc.Name)
	obs := o.(*observation)
	site := cfg.method
	if cfg.egoistic >= 0 {
		site += "/egoistic"
	}
	var out []schedrun.Verdict
	add := func(clause, detail string) {
		out = append(out, schedrun.Verdict{Property: "C20", Clause: clause, Site: site, Detail: fmt.Sprintf("%s: %s", ssc.Name, detail)})
	}
	if len(s.Panics) > 0 {
		add("panic", firstLines(s.Panics[0], 10))
		return out
	}
	if s.Deadlock {
		add("deadlock", s.Dump())
		return out
	}
	hasPlain := false
	var distinct []int
	seen := map[int]bool{}
	for _, a := range cfg.assets {
		if a == plainIdx {
			hasPlain = true
			continue
		}
		if !seen[a] {
			seen[a] = true
			distinct = append(distinct, a)
		}
	}
	count := map[string]int{}
	byName := map[string]*call{}
	for _, c := range obs.calls {
		count[c.ledger]++
		byName[c.ledger] = c
		if c.method != cfg.method {
			add("wrong-method", fmt.Sprintf("%s forwarded as %s", cfg.method, c.method))
		}
	}
	if hasPlain { // refused before any dispatch
		if obs.err == nil {
			add("plain-asset-accepted", "request with a non-multi-ledger asset succeeded")
		}
		if len(obs.calls) > 0 {
			add("plain-asset-dispatched", fmt.Sprintf("%d sub-calls for a request that must be refused", len(obs.calls)))
		}
		return out
	}
	selected := -1
	if cfg.method == "fund" && cfg.egoistic >= 0 && cfg.egoistic < len(distinct) {
		selected = distinct[cfg.egoistic]
	}
	othersOK := true
	for _, d := range distinct {
		if d != selected && (cfg.reg&(1<<d) == 0 || cfg.fail&(1<<d) != 0) {
			othersOK = false
		}
	}
	wantErr := !othersOK
	for _, d := range distinct {
		registered := cfg.reg&(1<<d) != 0
		want := 0
		if registered {
			want = 1
		}
		if d == selected && !othersOK {
			want = 0 // the egoistic ledger is funded only after all others succeeded
		}
		if count[lname(d)] != want {
			add("call-count", fmt.Sprintf("ledger %s called %d times, want %d", lname(d), count[lname(d)], want))
		}
		if (!registered || cfg.fail&(1<<d) != 0) && (d != selected || othersOK) {
			wantErr = true
		}
	}
	for n := range count {
		ok := false
		for _, d := range distinct {
			ok = ok || lname(d) == n
		}
		if !ok {
			add("foreign-ledger-called", "call to ledger "+n+" which is not among the channel's assets")
		}
	}
	if (obs.err != nil) != wantErr {
		add("result", fmt.Sprintf("result err=%v, want error=%v", obs.err, wantErr))
	}
	if selected >= 0 && count[lname(selected)] == 1 {
		for _, d := range distinct {
			if d != selected && count[lname(d)] == 1 && byName[lname(d)].end > byName[lname(selected)].start {
				add("egoistic-order", fmt.Sprintf("egoistic ledger %s was funded before funding on %s had returned", lname(selected), lname(d)))
			}
		}
	}
	return out
}

func firstLines(s string, n int) string {
	l := strings.Split(s, "\n")
	if len(l) > n {
		l = l[:n]
	}
	return strings.Join(l, "\n")
}

func digest(_ schedrun.Scenario, s *vsched.Sched, o any) string {
	obs := o.(*observation)
	var cs []string
	for _, c := range obs.calls {
		cs = append(cs, fmt.Sprintf("%s@%d-%d", c.ledger, c.start, c.end))
	}
	sort.Strings(cs)
	return fmt.Sprintf("%v|%v", cs, obs.err != nil)
}

func scenarios(res *report.Result) []schedrun.Scenario {
	maxLen, plainLen, bound3 := 3, 2, 2
	if res.Thorough() {
		maxLen, plainLen, bound3 = 4, 3, 3
	}
	var lists [][]int
	var gen func(cur []int)
	gen = func(cur []int) {
		if len(cur) > 0 {
			hasPlain := false
			for _, a := range cur {
				hasPlain = hasPlain || a == plainIdx
			}
			if !hasPlain || len(cur) <= plainLen {
				lists = append(lists, append([]int{}, cur...))
			}
		}
		if len(cur) == maxLen {
			return
		}
		for i := 0; i <= plainIdx; i++ {
			gen(append(cur, i))
		}
	}
	gen(nil)
	var out []schedrun.Scenario
	for _, as := range lists {
		nd := map[int]bool{}
		for _, a := range as {
			nd[a] = true
		}
		for reg := uint(0); reg < 8; reg++ {
			for fail := uint(0); fail < 8; fail++ {
				if fail&^reg != 0 {
					continue
				}
				if nd[plainIdx] && (reg != 7 || fail != 0) {
					continue // refused before dispatch: the registration does not matter
				}
				for _, m := range []string{"fund", "register", "progress", "withdraw"} {
					egos := []int{-1}
					if m == "fund" {
						egos = []int{-1, 0, 1, 2, 3}
					}
					for _, e := range egos {
						c := config{m, as, reg, fail, e}
						// up to two distinct ledgers: EVERY schedule; three concurrent sub-calls: preemption-bounded
						// (all 6 completion orders need at most 2 preemptions; unbounded = 10^5..10^6 schedules per configuration)
						bound := -1
						calls := 0
						for a := range nd {
							if a != plainIdx && reg&(1<<uint(a)) != 0 {
								calls++
							}
						}
						if calls >= 3 {
							bound = bound3
						}
						out = append(out, schedrun.Scenario{Name: c.name(), Mode: explore.Preempt, Bound: bound, MaxSteps: 5000, Weight: 1 << uint(2*calls)})
					}
				}
			}
		}
	}
	// wide family: all six ledgers registered / one (first, last) missing, none / one (first, last)
	// failing; the sub-calls overlap under the default schedule already (every call has a
	// scheduling point between its start and its return, and which of the waiting threads runs
	// next is a free choice), preemption bound 0 (1 in thorough)
	wb := 0
	if res.Thorough() {
		wb = 1
	}
	all := uint(0)
	for _, a := range wide {
		all |= 1 << uint(a)
	}
	for _, m := range []string{"fund", "register", "progress", "withdraw"} {
		for _, miss := range []int{-1, wide[0], wide[len(wide)-1]} {
			for _, fl := range []int{-1, wide[0], wide[len(wide)-1]} {
				if miss >= 0 && miss == fl {
					continue
				}
				reg, fail := all, uint(0)
				if miss >= 0 {
					reg &^= 1 << uint(miss)
				}
				if fl >= 0 {
					fail = 1 << uint(fl)
				}
				egos := []int{-1}
				if m == "fund" {
					egos = []int{-1, 0, 2, 5}
				}
				for _, e := range egos {
					c := config{m, wide, reg, fail, e}
					out = append(out, schedrun.Scenario{Name: c.name(), Mode: explore.Preempt, Bound: wb, MaxSteps: 5000, Weight: 64})
				}
			}
		}
	}
	return out
}

func TestCheck(t *testing.T) {
	schedrun.Main(t, schedrun.Harness{Name: "multi", Scenarios: scenarios, Exec: exec, Check: check, Digest: digest, MaxExecsPerProcess: 100000})
}
