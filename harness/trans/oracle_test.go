package trans

// The reference predicate of C02, written from the property statement and from the
// documentation of the types (allocation.go: dimensions and limits; payment/app.go: "money
// flows only from the actor to the other participants"). It deliberately uses nothing of the
// code under test: no Allocation.Valid, no Allocation.Sum, no AssertAssetsEqual, no
// AppShouldEqual, no machine.ValidTransition.

import (
	"crypto/sha1"
	"fmt"
	"math"
	"math/big"
	"strings"

	"perun.network/go-perun/channel"
)

// Documented limits of an allocation (allocation.go: MaxNumAssets, MaxNumParts,
// MaxNumSubAllocations). Written out so that a change of the constants is noticed.
const (
	limAssets    = 1024
	limParts     = 1024
	limSubAllocs = 1024
)

// chanInfo is what the predicate knows about the channel: fixed at channel creation.
type chanInfo struct {
	ID     channel.ID
	App    string // "noapp" | "payment"
	AppKey string // key of the app definition ("" for noapp)
	N      int
}

func appKind(a channel.App) (kind, key string) {
	if channel.IsNoApp(a) {
		return "noapp", ""
	}
	return "app", string(a.Def().Key())
}

func assetKey(a channel.Asset) string {
	if a == nil {
		return "<nil>"
	}
	b, err := a.MarshalBinary()
	if err != nil {
		return "ERR:" + err.Error()
	}
	return fmt.Sprintf("%x", b)
}

// wellFormed: "" if the allocation is well-formed for a channel of n participants, else the
// first reason. One balance row per asset, one column per participant, nothing negative, every
// sub-allocation has one amount per asset, documented limits respected.
func wellFormed(a *channel.Allocation, n int) string {
	switch {
	case n < 1 || n > limParts:
		return "participant count out of range"
	case len(a.Assets) == 0:
		return "no assets"
	case len(a.Assets) > limAssets:
		return "too many assets"
	case len(a.Balances) != len(a.Assets):
		return fmt.Sprintf("%d balance rows for %d assets", len(a.Balances), len(a.Assets))
	case len(a.Locked) > limSubAllocs:
		return "too many sub-allocations"
	}
	for i, row := range a.Balances {
		if len(row) != n {
			return fmt.Sprintf("asset %d has %d balance columns, channel has %d participants", i, len(row), n)
		}
		for j, b := range row {
			if b == nil || b.Sign() < 0 {
				return fmt.Sprintf("balance[%d][%d] negative", i, j)
			}
		}
	}
	for k, l := range a.Locked {
		if len(l.Bals) != len(a.Assets) {
			return fmt.Sprintf("sub-allocation %d has %d amounts for %d assets", k, len(l.Bals), len(a.Assets))
		}
		for i, b := range l.Bals {
			if b == nil || b.Sign() < 0 {
				return fmt.Sprintf("sub-allocation %d amount %d negative", k, i)
			}
		}
	}
	return ""
}

// total of asset i over participants and locked funds (allocation must be well-formed).
func total(a *channel.Allocation, i int) *big.Int {
	t := new(big.Int)
	for _, b := range a.Balances[i] {
		t.Add(t, b)
	}
	for _, l := range a.Locked {
		t.Add(t, l.Bals[i])
	}
	return t
}

// validSuccessor returns the violated conditions of the statement (none = the candidate is a
// valid successor of cur proposed by actor).
func validSuccessor(ci chanInfo, cur, to *channel.State, actor channel.Index) (reasons []string) {
	add := func(r string) { reasons = append(reasons, r) }
	if to.ID != ci.ID {
		add("id")
	}
	kind, key := appKind(to.App)
	if (ci.App == "noapp") != (kind == "noapp") || key != ci.AppKey {
		add("app")
	}
	if cur.IsFinal {
		add("predecessor-final")
	}
	if cur.Version == math.MaxUint64 || to.Version != cur.Version+1 {
		add("version")
	}
	sameAssets := len(to.Assets) == len(cur.Assets)
	if sameAssets {
		for i := range cur.Assets {
			if assetKey(cur.Assets[i]) != assetKey(to.Assets[i]) {
				sameAssets = false
			}
		}
	}
	if !sameAssets {
		add("assets")
	}
	wf := wellFormed(&to.Allocation, ci.N)
	if wf != "" {
		add("well-formed(" + wf + ")")
	}
	if wf == "" && len(to.Assets) == len(cur.Assets) {
		for i := range cur.Assets {
			if total(&cur.Allocation, i).Cmp(total(&to.Allocation, i)) != 0 {
				add(fmt.Sprintf("total(asset %d)", i))
			}
		}
	}
	if int(actor) >= ci.N {
		add("actor")
	}
	if ci.App == "payment" && wf == "" && len(to.Assets) == len(cur.Assets) && int(actor) < ci.N {
		// the actor's balances never grow, nobody else's balance shrinks
	rule:
		for i := range cur.Balances {
			for p := range cur.Balances[i] {
				c := to.Balances[i][p].Cmp(cur.Balances[i][p])
				if (p == int(actor) && c > 0) || (p != int(actor) && c < 0) {
					add("app-rule")
					break rule
				}
			}
		}
	}
	return reasons
}

// backendsChanged: the candidate names another backend for an asset the current state has.
// The statement speaks of the asset list only; such candidates are recorded, not judged, when
// every stated condition holds.
func backendsChanged(cur, to *channel.Allocation) bool {
	for i := range to.Backends {
		if i < len(cur.Backends) && to.Backends[i] != cur.Backends[i] {
			return true
		}
	}
	return false
}

func balString(row []channel.Bal) string {
	p := make([]string, len(row))
	for i, b := range row {
		if b == nil {
			p[i] = "nil"
		} else {
			p[i] = b.String()
		}
	}
	return "[" + strings.Join(p, " ") + "]"
}

// dumpAlloc is a canonical text of an allocation (independent of Allocation.Encode, which
// refuses malformed values). maxLocked < 0: all sub-allocations.
func dumpAlloc(a *channel.Allocation, maxLocked int) string {
	var sb strings.Builder
	sb.WriteString("assets=[")
	for i, as := range a.Assets {
		if i > 0 {
			sb.WriteString(" ")
		}
		sb.WriteString(assetKey(as))
	}
	fmt.Fprintf(&sb, "] backends=%v bals=[", a.Backends)
	for _, row := range a.Balances {
		sb.WriteString(balString(row))
	}
	fmt.Fprintf(&sb, "] locked(%d)=[", len(a.Locked))
	for k, l := range a.Locked {
		if maxLocked >= 0 && k >= maxLocked {
			fmt.Fprintf(&sb, "...+%d", len(a.Locked)-k)
			break
		}
		fmt.Fprintf(&sb, "{%x %s %v}", l.ID[:2], balString(l.Bals), l.IndexMap)
	}
	sb.WriteString("]")
	return sb.String()
}

func dumpState(s *channel.State, maxLocked int) string {
	if s == nil {
		return "<nil>"
	}
	kind, key := appKind(s.App)
	return fmt.Sprintf("id=%x v=%d final=%v app=%s:%x data=%T %s", s.ID[:], s.Version, s.IsFinal, kind, key, s.Data, dumpAlloc(&s.Allocation, maxLocked))
}

// brief is dumpState for humans: short id, at most three sub-allocations.
func brief(s *channel.State) string {
	if s == nil {
		return "<nil>"
	}
	kind, key := appKind(s.App)
	if len(key) > 4 {
		key = key[:4]
	}
	return fmt.Sprintf("id=%x.. v=%d final=%v app=%s:%x %s", s.ID[:4], s.Version, s.IsFinal, kind, key, dumpAlloc(&s.Allocation, 3))
}

func hash16(s string) string {
	h := sha1.Sum([]byte(s))
	return fmt.Sprintf("%x", h[:8])
}
