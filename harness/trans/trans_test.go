// Package trans: engine ENUM for property C02 ("only valid successor states can be staged").
//
// For every reachable current state of the catalogue (bases_test.go; reached by driving the
// real channel.StateMachine) and every candidate successor built from the mutation catalogue
// (catalogue_test.go; the unchanged successor, every single mutation, every pair; thorough adds
// every triple and the three-party channels) the real StateMachine.Update and StateMachine.CheckUpdate are
// called, each on its own copy of the machine, and compared with the reference predicate
// written from the statement (oracle_test.go). The Init path is enumerated the same way over
// the allocation mutations. Nothing is sampled: the loops are deterministic and complete.
package trans

import (
	"encoding/json"
	"errors"
	"fmt"
	"os"
	"sort"
	"strings"
	"testing"
	"time"

	"perun.network/go-perun/channel"
	"perun.network/go-perun/wallet"
	"verif/engine/report"
	"verif/harness/fx"
)

const prop = "C02"

// clause names in priority order: the first failing clause of a candidate is its verdict.
var clauseOrder = []string{
	"panic", "accepted-invalid", "accepted-invalid-after-check", "refused-valid", "refusal-changed-machine", "signed-after-refusal", "staged-differs",
	"checkupdate-panic", "checkupdate-accepted-invalid", "checkupdate-refused-valid", "checkupdate-changed-machine",
}

type replay struct {
	Harness   string   `json:"harness"`
	Path      string   `json:"path"` // "update" | "init"
	Base      string   `json:"base"`
	Mutations []string `json:"mutations"`
	Actor     int      `json:"actor"`
}

// outcome of one candidate.
type outcome struct {
	Applied  bool
	Key      string // distinctness key of the candidate (hash of its canonical text + actor)
	Cand     string // brief text of the candidate
	Actor    int
	Want     bool
	Reasons  []string // violated conditions of the statement
	Unjudged bool     // backend id changed and nothing else wrong: verdict recorded, not judged
	Update   string   // "accepted" | "refused: <err>" | "PANIC: <value>"
	Check    string
	Accepted bool
	Panicked bool
	Clauses  []string
	Detail   []string
}

func (o *outcome) fail(clause, format string, a ...interface{}) {
	o.Clauses = append(o.Clauses, clause)
	o.Detail = append(o.Detail, clause+": "+fmt.Sprintf(format, a...))
}

// primary is the first failing clause in priority order ("" = the candidate is handled correctly).
func (o *outcome) primary(prefix string) string {
	for _, c := range clauseOrder {
		for _, f := range o.Clauses {
			if f == c {
				return prefix + c
			}
		}
	}
	return ""
}

type snap struct {
	Phase    channel.Phase
	Cur, Stg string
	CurSigs  string
	StgSigs  string
}

func sigSlots(tx channel.Transaction) string {
	p := make([]string, len(tx.Sigs))
	for i, s := range tx.Sigs {
		if s == nil {
			p[i] = "-"
		} else {
			p[i] = hash16(string(s))
		}
	}
	return strings.Join(p, ",")
}

func snapshot(m *channel.StateMachine) snap {
	c, s := m.CurrentTX(), m.StagingTX()
	return snap{m.Phase(), dumpState(c.State, -1), dumpState(s.State, -1), sigSlots(c), sigSlots(s)}
}

// sameButSigBytes compares two snapshots up to the signature bytes (ECDSA signatures differ from replay to replay).
func sameButSigBytes(a, b snap) bool {
	return a.Phase == b.Phase && a.Cur == b.Cur && a.Stg == b.Stg && strings.Count(a.CurSigs, "-") == strings.Count(b.CurSigs, "-") && a.StgSigs == b.StgSigs
}

func guard(f func() error) (err error, pan interface{}) {
	defer func() { pan = recover() }()
	return f(), nil
}

func short(v interface{}) string {
	s := fmt.Sprint(v)
	if len(s) > 300 {
		s = s[:300] + "..."
	}
	return s
}

// searcher holds the per-base data of the update path.
type searcher struct {
	res   *report.Result
	w     *world // the base machine (never handed to the code under test: only copies are)
	x     *mctx
	fresh bool // rebuild the machine by replaying the history for every call (replay mode, spot checks)
	trace bool
}

func (s *searcher) machine() *channel.StateMachine {
	if s.fresh {
		w, err := build(s.w.b)
		if err != nil {
			panic("engine: " + err.Error())
		}
		return w.m
	}
	return s.w.m.Clone()
}

func (s *searcher) say(format string, a ...interface{}) {
	if s.trace {
		fmt.Printf("  "+format+"\n", a...)
	}
}

// candidate builds the candidate of a combination from the current state.
func (s *searcher) candidate(combo []int) (*cand, bool) {
	start := s.w.m.State().Clone()
	start.Version++
	return apply(start, s.x, combo)
}

// evalUpdate runs one candidate through Update and CheckUpdate and judges every clause.
func (s *searcher) evalUpdate(combo []int) *outcome {
	o := &outcome{}
	c, ok := s.candidate(combo)
	if !ok {
		return o
	}
	o.Applied = true
	cur := s.w.m.State()
	text := dumpState(c.S, -1)
	o.Key = hash16(fmt.Sprintf("%s|%d", text, c.Actor))
	o.Cand, o.Actor = brief(c.S), int(c.Actor)
	o.Reasons = validSuccessor(s.w.ci, cur, c.S, c.Actor)
	o.Want = len(o.Reasons) == 0
	o.Unjudged = o.Want && backendsChanged(&cur.Allocation, &c.S.Allocation)
	s.say("current   %s (phase %v)", brief(cur), s.w.m.Phase())
	s.say("candidate %s actor=%d", o.Cand, c.Actor)
	s.say("predicate valid=%v violated=%v unjudged(backend id)=%v", o.Want, o.Reasons, o.Unjudged)

	// --- Update on its own machine
	m := s.machine()
	before := snapshot(m)
	err, pan := guard(func() error { return m.Update(c.S, c.Actor) })
	switch {
	case pan != nil:
		o.Panicked = true
		o.Update = "PANIC: " + short(pan)
		o.fail("panic", "Update panicked instead of returning an error: %s (predicate: valid=%v %v)", short(pan), o.Want, o.Reasons)
	case err == nil:
		o.Accepted = true
		o.Update = "accepted"
		if !o.Want {
			sig, serr := m.Sig()
			o.fail("accepted-invalid", "Update accepted a candidate that violates %v; Sig() afterwards: signature=%v err=%v", o.Reasons, sig != nil, serr)
		}
		after := snapshot(m)
		if m.StagingState() == nil || after.Stg != text || m.Phase() != channel.Signing || after.Cur != before.Cur || after.CurSigs != before.CurSigs {
			o.fail("staged-differs", "after an accepted Update: phase %v, staged %s, want phase Signing and the candidate staged, current unchanged", m.Phase(), brief(m.StagingState()))
		}
	default:
		o.Update = "refused: " + short(err)
		if o.Want && !o.Unjudged {
			o.fail("refused-valid", "Update refused a candidate that satisfies every condition: %s", short(err))
		}
		if after := snapshot(m); after != before {
			o.fail("refusal-changed-machine", "Update returned an error but changed the machine: phase %v->%v staged %s", before.Phase, after.Phase, brief(m.StagingState()))
		}
		sig, serr, span := func() (sig wallet.Sig, err error, pan interface{}) {
			defer func() { pan = recover() }()
			sig, err = m.Sig()
			return
		}()
		if sig != nil || serr == nil || span != nil {
			o.fail("signed-after-refusal", "after a refused Update Sig() returned signature=%v err=%v panic=%v", sig != nil, serr, span)
		}
	}
	s.say("Update      -> %s; phase %v, staged %s", o.Update, m.Phase(), brief(m.StagingState()))

	// --- CheckUpdate with a valid signature of the peer, on its own machine and its own copy of the candidate
	c2, _ := s.candidate(combo)
	sigIdx := (s.w.b.Idx + 1) % s.w.b.N
	sig, serr := channel.Sign(fx.Accs[sigIdx], c2.S, 0)
	if serr != nil { // not encodable, hence not signable: any signature will do, the candidate must be refused before
		sig = make([]byte, 64)
		s.res.Count("unsignable_candidates", 1)
	}
	m2 := s.machine()
	before2 := snapshot(m2)
	err, pan = guard(func() error { return m2.CheckUpdate(c2.S, c2.Actor, sig, channel.Index(sigIdx)) })
	switch {
	case pan != nil:
		o.Check = "PANIC: " + short(pan)
		o.fail("checkupdate-panic", "CheckUpdate panicked instead of returning an error: %s", short(pan))
	case err == nil:
		o.Check = "accepted"
		if !o.Want {
			o.fail("checkupdate-accepted-invalid", "CheckUpdate accepted a candidate that violates %v", o.Reasons)
		}
	default:
		o.Check = "refused: " + short(err)
		if o.Want && !o.Unjudged {
			o.fail("checkupdate-refused-valid", "CheckUpdate (signature of participant %d, signable=%v) refused a candidate that satisfies every condition: %s", sigIdx, serr == nil, short(err))
		}
	}
	if after2 := snapshot(m2); after2 != before2 {
		o.fail("checkupdate-changed-machine", "CheckUpdate changed the machine: phase %v->%v staged %s", before2.Phase, after2.Phase, brief(m2.StagingState()))
	}
	s.say("CheckUpdate -> %s (signature by participant %d, signable=%v)", o.Check, sigIdx, serr == nil)

	// --- a verdict of CheckUpdate does not outlive the content it was given for: the plain
	// successor passes CheckUpdate, the SAME object is then overwritten with the candidate and
	// handed to Update, which must judge what it is given
	if v, ok := s.candidate(nil); ok {
		if vsig, verr := channel.Sign(fx.Accs[sigIdx], v.S, 0); verr == nil {
			m3 := s.machine()
			if err, pan := guard(func() error { return m3.CheckUpdate(v.S, c.Actor, vsig, channel.Index(sigIdx)) }); err == nil && pan == nil {
				c3, _ := s.candidate(combo)
				*v.S = *c3.S
				err, pan := guard(func() error { return m3.Update(v.S, c3.Actor) })
				if pan == nil && err == nil && !o.Want {
					o.fail("accepted-invalid-after-check", "Update accepted a candidate that violates %v: the object had passed CheckUpdate with other content before", o.Reasons)
				}
			}
		}
	}
	return o
}

// evalInit runs one allocation of the Init catalogue on a machine that has no state yet.
func evalInit(res *report.Result, ib initBase, combo []int, trace bool) *outcome {
	say := func(format string, a ...interface{}) {
		if trace {
			fmt.Printf("  "+format+"\n", a...)
		}
	}
	o := &outcome{}
	x := &mctx{N: ib.N}
	mk := func() (*cand, bool) {
		return apply(&channel.State{Allocation: ib.alloc(), App: channel.NoApp(), Data: channel.NoData()}, x, combo)
	}
	c, ok := mk()
	if !ok {
		return o
	}
	o.Applied = true
	text := dumpAlloc(&c.S.Allocation, -1)
	o.Key = hash16(text)
	o.Cand = dumpAlloc(&c.S.Allocation, 3)
	wf := wellFormed(&c.S.Allocation, ib.N)
	o.Want = wf == ""
	if !o.Want {
		o.Reasons = []string{"well-formed(" + wf + ")"}
	}
	for _, b := range c.S.Backends {
		if b != 0 && o.Want {
			o.Unjudged = true
		}
	}
	w, err := newMachine(ib.asBase())
	if err != nil {
		panic("engine: " + err.Error())
	}
	m := w.m
	say("allocation %s", o.Cand)
	say("predicate well-formed with one balance per participant=%v %v unjudged(backend id)=%v", o.Want, o.Reasons, o.Unjudged)
	before := snapshot(m)
	err, pan := guard(func() error { return m.Init(c.S.Allocation, channel.NoData()) })
	switch {
	case pan != nil:
		o.Panicked = true
		o.Update = "PANIC: " + short(pan)
		o.fail("panic", "Init panicked instead of returning an error: %s", short(pan))
	case err == nil:
		o.Accepted = true
		o.Update = "accepted"
		if !o.Want {
			o.fail("accepted-invalid", "Init accepted an allocation that is not well-formed for %d participants: %v", ib.N, o.Reasons)
		}
		st := m.StagingState()
		kind, key := "", ""
		if st != nil {
			kind, key = appKind(st.App)
		}
		switch {
		case st == nil || m.Phase() != channel.InitSigning:
			o.fail("staged-differs", "after an accepted Init: phase %v, staged %s", m.Phase(), brief(st))
		case st.Version != 0 || st.ID != w.ci.ID || st.IsFinal || (kind == "noapp") != (ib.App == "noapp") || key != w.ci.AppKey:
			o.fail("staged-differs", "initial state does not have version 0 / the channel's id / app / non-final: %s", brief(st))
		case dumpAlloc(&st.Allocation, -1) != text:
			o.fail("staged-differs", "initial state does not carry the given allocation: %s", brief(st))
		}
	default:
		o.Update = "refused: " + short(err)
		if o.Want && !o.Unjudged {
			o.fail("refused-valid", "Init refused a well-formed allocation: %s", short(err))
		}
		if after := snapshot(m); after != before {
			o.fail("refusal-changed-machine", "Init returned an error but changed the machine: phase %v->%v staged %s", before.Phase, after.Phase, brief(m.StagingState()))
		}
		sig, serr, span := func() (sig wallet.Sig, err error, pan interface{}) {
			defer func() { pan = recover() }()
			sig, err = m.Sig()
			return
		}()
		if sig != nil || serr == nil || span != nil {
			o.fail("signed-after-refusal", "after a refused Init Sig() returned signature=%v err=%v panic=%v", sig != nil, serr, span)
		}
	}
	say("Init -> %s; phase %v, staged %s", o.Update, m.Phase(), brief(m.StagingState()))
	return o
}

func comboNames(combo []int) []string {
	n := make([]string, len(combo))
	for i, k := range combo {
		n[i] = catalogue[k].Name
	}
	return n
}

func comboKey(combo []int) string { return fmt.Sprint(combo) }

func site(combo []int) string {
	if len(combo) == 0 {
		return "none"
	}
	n := comboNames(combo)
	sort.Strings(n)
	return strings.Join(n, "+")
}

// subsets returns the proper sub-combinations of combo, smallest first (the empty one included).
func subsets(combo []int) [][]int {
	var out [][]int
	n := len(combo)
	for size := 0; size < n; size++ {
		for mask := 0; mask < 1<<n; mask++ {
			var sub []int
			for i := 0; i < n; i++ {
				if mask&(1<<i) != 0 {
					sub = append(sub, combo[i])
				}
			}
			if len(sub) == size {
				out = append(out, sub)
			}
		}
	}
	return out
}

// attribute: a combination that fails with a clause is attributed to its smallest
// sub-combination that fails with the same clause on the same base state (so that one defect
// reachable by a single mutation is not reported once per pair it takes part in).
func attribute(combo []int, clause string, clauseOf func(sub []int) string) []int {
	for _, sub := range subsets(combo) {
		if clauseOf(sub) == clause {
			return sub
		}
	}
	return combo
}

// combos enumerates all combinations of at most k catalogue indices from idx, in size order.
func combos(idx []int, k int, f func(combo []int) bool) {
	var rec func(start int, cur []int, size int) bool
	rec = func(start int, cur []int, size int) bool {
		if len(cur) == size {
			return f(append([]int{}, cur...))
		}
		for i := start; i < len(idx); i++ {
			if !rec(i+1, append(cur, idx[i]), size) {
				return false
			}
		}
		return true
	}
	for size := 0; size <= k; size++ {
		if !rec(0, nil, size) {
			return
		}
	}
}

type run struct {
	res      *report.Result
	deadline time.Time
	capped   bool
	nEval    int64
	singles  map[string]map[string]int // per single mutation: how the real code and the predicate answered (printed with VERIF_VERBOSE)
	seen     map[string]bool           // distinct candidates of the current base state
	unit     int                       // index of the current base state in the enumeration order
	holes    int                       // base states that could not be reached
}

func (r *run) expired() bool {
	if r.capped {
		return true
	}
	if !r.deadline.IsZero() && r.nEval%64 == 0 && time.Now().After(r.deadline) {
		r.capped = true
		r.res.Cap("internal deadline reached after %d candidates", r.nEval)
	}
	return r.capped
}

// unreachable books a base state whose history the real machine did not accept (see historyErr);
// false = the failure is not an observation about C02 (engine error).
func (r *run) unreachable(b base, err error) bool {
	var he *historyErr
	if !errors.As(err, &he) {
		return false
	}
	r.res.Count("evaluations", 1)
	r.res.Count("base_states_unreachable", 1)
	r.holes++
	r.res.Count("clause:"+he.Clause, 1)
	r.res.Cap("base state %s not reachable: its candidates were not enumerated", b.Name)
	r.res.ViolateC(prop, fmt.Sprintf("%s:%s:%s/history:%s", prop, he.Clause, b.App, he.Step), "["+b.Name+"] "+he.Text,
		replay{"trans", "update", b.Name, []string{}, 0}, r.unit)
	return true
}

var sampleAt = map[int64]bool{0: true, 5: true, 31: true, 36: true, 58: true, 301: true, 777: true, 2500: true, 6001: true, 12345: true, 20011: true, 30011: true}

// record books one evaluated candidate; returns its primary clause.
func (r *run) record(path, baseName, app string, combo []int, o *outcome, clauseOf func([]int) string) string {
	res := r.res
	pfx := ""
	if path == "init" {
		pfx = "init-"
	}
	res.Count("evaluations", 1)
	res.Count("candidates_"+path, 1)
	res.Count(fmt.Sprintf("candidates_with_%d_mutations", len(combo)), 1)
	// distinct non-trivial candidates: distinct by (base state, canonical text of the candidate, actor), the unchanged
	// successor / unchanged allocation (enumerated first) excluded. Base states are disjoint between workers, so the
	// counter summed over workers is the size of the union.
	if !r.seen[o.Key] {
		r.seen[o.Key] = true
		if len(combo) > 0 {
			res.Count("distinct_nontrivial", 1)
		}
	}
	switch {
	case o.Panicked:
		res.Count("panicked", 1)
	case o.Accepted:
		res.Count("accepted", 1)
	default:
		res.Count("refused", 1)
	}
	if o.Want {
		res.Count("predicate_valid", 1)
	} else {
		res.Count("predicate_invalid", 1)
		if len(o.Reasons) == 1 {
			res.Count("predicate_invalid_exactly_one_condition", 1)
		}
	}
	if o.Unjudged {
		if o.Accepted {
			res.Count("backend_id_changed_otherwise_valid_accepted", 1)
		} else {
			res.Count("backend_id_changed_otherwise_valid_refused", 1)
		}
	}
	for _, c := range o.Clauses {
		res.Count("clause:"+pfx+c, 1)
	}
	if len(combo) <= 1 && r.singles != nil {
		name := path + "/" + site(combo)
		if r.singles[name] == nil {
			r.singles[name] = map[string]int{}
		}
		switch {
		case o.Panicked:
			r.singles[name]["panicked"]++
		case o.Accepted:
			r.singles[name]["accepted"]++
		default:
			r.singles[name]["refused"]++
		}
		if o.Want {
			r.singles[name]["predicate_valid"]++
		}
	}
	verdict := "agrees with the predicate"
	clause := o.primary(pfx)
	if clause != "" {
		verdict = "VIOLATION " + clause
		at := attribute(combo, clause, clauseOf)
		sig := fmt.Sprintf("%s:%s:%s/%s", prop, clause, app, site(at))
		detail := fmt.Sprintf("[%s] mutations %v actor %d: candidate %s; predicate valid=%v violated=%v; Update/Init -> %s; CheckUpdate -> %s; %s",
			baseName, comboNames(combo), o.Actor, o.Cand, o.Want, o.Reasons, o.Update, o.Check, strings.Join(o.Detail, " | "))
		// cost: fewest mutations first, then the earliest base state - the driver keeps the cheapest counterexample per
		// signature, so the replay file does not depend on which worker finished first
		res.ViolateC(prop, sig, detail, replay{"trans", path, baseName, comboNames(combo), o.Actor}, len(combo)*1000+r.unit)
	}
	if sampleAt[r.nEval] {
		res.Sample(12, map[string]interface{}{"path": path, "base": baseName, "mutations": comboNames(combo), "actor": o.Actor, "candidate": o.Cand,
			"predicate_valid": o.Want, "violated_conditions": o.Reasons, "update_or_init": o.Update, "checkupdate": o.Check, "verdict": verdict})
	}
	r.nEval++
	return clause
}

// maxMut: quick = the unchanged successor, every single mutation, every pair; thorough adds every triple.
func maxMut(thorough bool) int {
	if thorough {
		return 3
	}
	return 2
}

func search(t *testing.T, res *report.Result) {
	thorough := res.Thorough()
	r := &run{res: res, deadline: report.Deadline(), singles: map[string]map[string]int{}}
	shard, nshards := report.Shard()
	k := maxMut(thorough)
	all := make([]int, len(catalogue))
	var allocOnly []int
	for i := range catalogue {
		all[i] = i
		if catalogue[i].Alloc {
			allocOnly = append(allocOnly, i)
		}
	}
	unit := 0
	for _, b := range bases(thorough) {
		unit++
		if (unit-1)%nshards != shard || r.capped {
			continue
		}
		r.unit = unit
		w, err := build(b)
		if err != nil {
			if !r.unreachable(b, err) {
				t.Fatalf("engine error: base state %s is not reachable: %v", b.Name, err)
			}
			continue
		}
		// the copies handed to the code under test must be indistinguishable from a replayed machine
		if w2, err := build(b); err != nil || !sameButSigBytes(snapshot(w2.m), snapshot(w.m.Clone())) {
			t.Fatalf("engine error: clone of base %s differs from a replay", b.Name)
		}
		res.Count("base_states", 1)
		res.Seen("base", b.Name)
		s := &searcher{res: res, w: w, x: &mctx{N: b.N, Cur: w.m.State()}}
		viol := map[string]string{}
		clauseOf := func(sub []int) string { return viol[comboKey(sub)] }
		r.seen, r.unit = map[string]bool{}, unit
		curText := snapshot(w.m)
		combos(all, k, func(combo []int) bool {
			if r.expired() {
				return false
			}
			s.fresh = len(combo) <= 1 // the unchanged successor and the single mutations run on machines rebuilt by replay, the pairs on clones
			o := s.evalUpdate(combo)
			if !o.Applied {
				res.Count("combinations_not_applicable", 1)
				return true
			}
			if c := r.record("update", b.Name, b.App, combo, o, clauseOf); c != "" {
				viol[comboKey(combo)] = c
			}
			return true
		})
		if snapshot(w.m) != curText {
			t.Fatalf("engine error: the base machine of %s was modified during the enumeration", b.Name)
		}
		res.Note("update path, base %s (history %v): current %s", b.Name, w.hist, brief(w.m.State()))
	}
	for _, ib := range initBases(thorough) {
		unit++
		if (unit-1)%nshards != shard || r.capped {
			continue
		}
		res.Count("init_bases", 1)
		res.Seen("base", ib.Name)
		viol := map[string]string{}
		clauseOf := func(sub []int) string { return viol[comboKey(sub)] }
		r.seen, r.unit = map[string]bool{}, unit
		combos(allocOnly, k, func(combo []int) bool {
			if r.expired() {
				return false
			}
			o := evalInit(res, ib, combo, false)
			if !o.Applied {
				res.Count("combinations_not_applicable", 1)
				return true
			}
			if c := r.record("init", ib.Name, ib.App, combo, o, clauseOf); c != "" {
				viol[comboKey(combo)] = c
			}
			return true
		})
	}
	res.Extra["exhaustive"] = !r.capped && r.holes == 0
	if os.Getenv("VERIF_VERBOSE") != "" {
		var names []string
		for n := range r.singles {
			names = append(names, n)
		}
		sort.Strings(names)
		for _, n := range names {
			fmt.Printf("%-40s %v\n", n, r.singles[n])
		}
	}
	res.Extra["bound"] = fmt.Sprintf("catalogue of %d mutations (%d of them on the allocation, used for Init); every combination of at most %d; base states listed in the notes", len(catalogue), len(allocOnly), k)
}

func runReplay(t *testing.T, res *report.Result, path string) {
	raw, err := os.ReadFile(path)
	if err != nil {
		t.Fatal(err)
	}
	var f struct {
		Replay replay `json:"replay"`
	}
	if err := json.Unmarshal(raw, &f); err != nil {
		t.Fatal(err)
	}
	rp := f.Replay
	if rp.Harness == "" { // a bare replay value
		if err := json.Unmarshal(raw, &rp); err != nil {
			t.Fatal(err)
		}
	}
	var combo []int
	for _, n := range rp.Mutations {
		k, ok := mutIndex[n]
		if !ok {
			t.Fatalf("unknown mutation %q", n)
		}
		combo = append(combo, k)
	}
	sort.Ints(combo)
	r := &run{res: res, seen: map[string]bool{}}
	fmt.Printf("REPLAY %s path=%s base=%s mutations=%v actor=%d\n", prop, rp.Path, rp.Base, comboNames(combo), rp.Actor)
	var o *outcome
	var clauseOf func(sub []int) string
	app := ""
	switch rp.Path {
	case "update":
		var b *base
		for _, c := range bases(true) {
			if c.Name == rp.Base {
				c := c
				b = &c
			}
		}
		if b == nil {
			t.Fatalf("unknown base state %q", rp.Base)
		}
		w, err := build(*b)
		if err != nil {
			if !r.unreachable(*b, err) {
				t.Fatalf("engine error: base state %s is not reachable: %v", b.Name, err)
			}
			fmt.Printf("  %v\n", err)
			for _, v := range res.Violations {
				fmt.Printf("  VERDICT %s\n", v.Signature)
			}
			return
		}
		fmt.Printf("  base reached by the real machine through %v\n", w.hist)
		s := &searcher{res: res, w: w, x: &mctx{N: b.N, Cur: w.m.State()}, fresh: true, trace: true}
		o = s.evalUpdate(combo)
		quiet := &searcher{res: res, w: w, x: s.x, fresh: true}
		clauseOf = func(sub []int) string {
			so := quiet.evalUpdate(sub)
			if !so.Applied {
				return ""
			}
			return so.primary("")
		}
		app = b.App
	case "init":
		var ib *initBase
		for _, c := range initBases(true) {
			if c.Name == rp.Base {
				c := c
				ib = &c
			}
		}
		if ib == nil {
			t.Fatalf("unknown init base %q", rp.Base)
		}
		o = evalInit(res, *ib, combo, true)
		clauseOf = func(sub []int) string {
			so := evalInit(res, *ib, sub, false)
			if !so.Applied {
				return ""
			}
			return so.primary("init-")
		}
		app = ib.App
	default:
		t.Fatalf("unknown path %q", rp.Path)
	}
	if !o.Applied {
		fmt.Println("  VERDICT none: the mutations do not apply to this base state")
		return
	}
	if o.Actor != rp.Actor {
		fmt.Printf("  note: the mutations give actor %d, the file says %d\n", o.Actor, rp.Actor)
	}
	clause := r.record(rp.Path, rp.Base, app, combo, o, clauseOf)
	if clause == "" {
		fmt.Println("  VERDICT none: the real code agrees with the predicate on this candidate")
		return
	}
	for _, d := range o.Detail {
		fmt.Printf("  FAILED %s\n", d)
	}
	for _, v := range res.Violations {
		fmt.Printf("  VERDICT %s\n", v.Signature)
	}
}

func TestCheck(t *testing.T) {
	res := report.New(prop, "trans")
	defer func() {
		if err := res.Write(); err != nil {
			t.Fatal(err)
		}
	}()
	if p := report.ReplayFile(); p != "" {
		runReplay(t, res, p)
		return
	}
	search(t, res)
}
