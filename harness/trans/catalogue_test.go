package trans

// The mutation catalogue of C02 (DESIGN.md section 3). A candidate starts as the unchanged
// successor (clone of the current state, version+1, actor 0 - valid for both apps); every
// mutation edits it in place and reports whether it applied (false = the shape does not allow
// it or it would change nothing; such combinations are skipped, not counted).
//
// Restrictions kept by every mutation (values a peer can put on the wire / an API user can
// build inside the documented contracts): App is never a nil interface, Data stays NoData,
// Backends has one entry per asset, no balance is a nil *big.Int.
//
// Combinations apply their members in catalogue order: value edits first, then
// sub-allocations, then the shape of the allocation, then the non-allocation fields.

import (
	"math"
	"math/big"

	"perun.network/go-perun/apps/payment"
	"perun.network/go-perun/channel"
	"verif/harness/fx"
)

type cand struct {
	S     *channel.State
	Actor channel.Index
}

type mctx struct {
	N   int            // participants of the channel
	Cur *channel.State // current state (nil on the Init path)
}

type mutation struct {
	Name  string
	Alloc bool // edits only the allocation: also used for the Init catalogue
	F     func(c *cand, x *mctx) bool
}

func zeros(n int) []channel.Bal {
	r := make([]channel.Bal, n)
	for i := range r {
		r[i] = bi(0)
	}
	return r
}

// has reports whether balance [a][p] exists.
func has(s *channel.State, a, p int) bool {
	return a >= 0 && p >= 0 && a < len(s.Balances) && p < len(s.Balances[a])
}

func move(s *channel.State, a, from, to int, amt int64) bool {
	if !has(s, a, from) || !has(s, a, to) || s.Balances[a][from].Cmp(bi(amt)) < 0 {
		return false
	}
	s.Balances[a][from].Sub(s.Balances[a][from], bi(amt))
	s.Balances[a][to].Add(s.Balances[a][to], bi(amt))
	return true
}

func fillLocked(s *channel.State, upto int) bool {
	if len(s.Locked) >= upto {
		return false
	}
	for i := len(s.Locked); i < upto; i++ {
		s.Locked = append(s.Locked, *channel.NewSubAlloc(channel.ID{0xF0, byte(i >> 8), byte(i)}, zeros(len(s.Assets)), nil))
	}
	return true
}

func setVersion(c *cand, v uint64) bool {
	if c.S.Version == v {
		return false
	}
	c.S.Version = v
	return true
}

func setApp(c *cand, a channel.App) bool {
	k0, key0 := appKind(c.S.App)
	k1, key1 := appKind(a)
	if k0 == k1 && key0 == key1 {
		return false
	}
	c.S.App = a
	return true
}

func setActor(c *cand, a channel.Index) bool {
	if c.Actor == a {
		return false
	}
	c.Actor = a
	return true
}

var catalogue = []mutation{
	// --- balances: funds moved between participants, totals changed
	{"pay1", true, func(c *cand, _ *mctx) bool { return move(c.S, 0, 0, 1, 1) }},
	{"payall", true, func(c *cand, _ *mctx) bool {
		if !has(c.S, 0, 1) || c.S.Balances[0][0].Sign() <= 0 {
			return false
		}
		return move(c.S, 0, 0, 1, c.S.Balances[0][0].Int64())
	}},
	{"pay1-last-asset", true, func(c *cand, _ *mctx) bool {
		return len(c.S.Balances) > 1 && move(c.S, len(c.S.Balances)-1, 0, 1, 1)
	}},
	{"pay1-to-last-part", true, func(c *cand, _ *mctx) bool {
		return has(c.S, 0, 2) && move(c.S, 0, 0, len(c.S.Balances[0])-1, 1)
	}},
	{"steal1", true, func(c *cand, _ *mctx) bool { return move(c.S, 0, 1, 0, 1) }}, // payment rule broken for actor 0
	{"neg", true, func(c *cand, _ *mctx) bool { // one balance negative, total kept
		if !has(c.S, 0, 1) {
			return false
		}
		old := c.S.Balances[0][0]
		c.S.Balances[0][1].Add(c.S.Balances[0][1], new(big.Int).Add(old, bi(1)))
		c.S.Balances[0][0] = bi(-1)
		return true
	}},
	{"sum+1", true, func(c *cand, _ *mctx) bool {
		if !has(c.S, 0, 0) {
			return false
		}
		l := len(c.S.Balances[0]) - 1
		c.S.Balances[0][l].Add(c.S.Balances[0][l], bi(1))
		return true
	}},
	{"sum-1", true, func(c *cand, _ *mctx) bool {
		if !has(c.S, 0, 0) || c.S.Balances[0][0].Sign() <= 0 {
			return false
		}
		c.S.Balances[0][0].Sub(c.S.Balances[0][0], bi(1))
		return true
	}},
	{"sum+1-last-asset", true, func(c *cand, _ *mctx) bool {
		a := len(c.S.Balances) - 1
		if a < 1 || !has(c.S, a, 0) {
			return false
		}
		l := len(c.S.Balances[a]) - 1
		c.S.Balances[a][l].Add(c.S.Balances[a][l], bi(1))
		return true
	}},
	{"sum-1-last-asset", true, func(c *cand, _ *mctx) bool {
		a := len(c.S.Balances) - 1
		if a < 1 || !has(c.S, a, 0) || c.S.Balances[a][0].Sign() <= 0 {
			return false
		}
		c.S.Balances[a][0].Sub(c.S.Balances[a][0], bi(1))
		return true
	}},
	{"cross-asset", true, func(c *cand, _ *mctx) bool { // one unit leaves asset 0 and appears in asset 1
		if !has(c.S, 0, 0) || !has(c.S, 1, 0) || c.S.Balances[0][0].Sign() <= 0 {
			return false
		}
		c.S.Balances[0][0].Sub(c.S.Balances[0][0], bi(1))
		c.S.Balances[1][0].Add(c.S.Balances[1][0], bi(1))
		return true
	}},

	// --- sub-allocations
	{"lock-new", true, func(c *cand, _ *mctx) bool { // participant 0 -> new sub-allocation
		if !has(c.S, 0, 0) || c.S.Balances[0][0].Sign() <= 0 || len(c.S.Assets) == 0 {
			return false
		}
		c.S.Balances[0][0].Sub(c.S.Balances[0][0], bi(1))
		b := zeros(len(c.S.Assets))
		b[0] = bi(1)
		c.S.Locked = append(c.S.Locked, *channel.NewSubAlloc(channel.ID{7}, b, nil))
		return true
	}},
	{"lock-more", true, func(c *cand, _ *mctx) bool { // participant 0 -> existing sub-allocation
		if len(c.S.Locked) == 0 || len(c.S.Locked[0].Bals) == 0 || !has(c.S, 0, 0) || c.S.Balances[0][0].Sign() <= 0 {
			return false
		}
		c.S.Balances[0][0].Sub(c.S.Balances[0][0], bi(1))
		c.S.Locked[0].Bals[0].Add(c.S.Locked[0].Bals[0], bi(1))
		return true
	}},
	{"unlock-to-0", true, func(c *cand, _ *mctx) bool { return unlock(c.S, 0) }},
	{"unlock-to-1", true, func(c *cand, _ *mctx) bool { return unlock(c.S, 1) }},
	{"unlock-all", true, func(c *cand, _ *mctx) bool { // sub-allocation dissolved, funds to participant 1
		if len(c.S.Locked) == 0 {
			return false
		}
		l := c.S.Locked[0]
		for a := range l.Bals {
			if !has(c.S, a, 1) {
				return false
			}
		}
		for a, b := range l.Bals {
			c.S.Balances[a][1].Add(c.S.Balances[a][1], b)
		}
		c.S.Locked = c.S.Locked[1:]
		return true
	}},
	{"locked-drop", true, func(c *cand, _ *mctx) bool { // sub-allocation removed, its funds vanish
		if len(c.S.Locked) == 0 {
			return false
		}
		c.S.Locked = c.S.Locked[1:]
		return true
	}},
	{"locked-neg", true, func(c *cand, _ *mctx) bool { // negative amount, total kept
		if !has(c.S, 0, 0) || len(c.S.Assets) == 0 {
			return false
		}
		b := zeros(len(c.S.Assets))
		b[0] = bi(-1)
		c.S.Balances[0][0].Add(c.S.Balances[0][0], bi(1))
		c.S.Locked = append(c.S.Locked, *channel.NewSubAlloc(channel.ID{6}, b, nil))
		return true
	}},
	{"locked-dim+", true, func(c *cand, _ *mctx) bool {
		c.S.Locked = append(c.S.Locked, *channel.NewSubAlloc(channel.ID{5}, zeros(len(c.S.Assets)+1), nil))
		return true
	}},
	{"locked-dim-", true, func(c *cand, _ *mctx) bool {
		if len(c.S.Assets) == 0 {
			return false
		}
		c.S.Locked = append(c.S.Locked, *channel.NewSubAlloc(channel.ID{4}, zeros(len(c.S.Assets)-1), nil))
		return true
	}},
	{"locked-fill-1024", true, func(c *cand, _ *mctx) bool { return fillLocked(c.S, limSubAllocs) }},   // at the limit: still well-formed
	{"locked-fill-1025", true, func(c *cand, _ *mctx) bool { return fillLocked(c.S, limSubAllocs+1) }}, // over the limit

	// --- asset list
	{"asset-replace", true, func(c *cand, _ *mctx) bool {
		if len(c.S.Assets) == 0 {
			return false
		}
		c.S.Assets[0] = fx.Assets[2]
		return true
	}},
	{"asset-twin", true, func(c *cand, _ *mctx) bool { // same address, other ledger: an asset's identity is more than its address
		if len(c.S.Assets) == 0 || c.S.Assets[0] == nil {
			return false
		}
		c.S.Assets[0] = twinAsset{c.S.Assets[0], 1}
		return true
	}},
	{"asset-swap", true, func(c *cand, _ *mctx) bool {
		if len(c.S.Assets) < 2 {
			return false
		}
		c.S.Assets[0], c.S.Assets[1] = c.S.Assets[1], c.S.Assets[0]
		return true
	}},
	{"asset-dup", true, func(c *cand, _ *mctx) bool {
		if len(c.S.Assets) < 2 {
			return false
		}
		c.S.Assets[1] = c.S.Assets[0]
		return true
	}},
	{"asset-append", true, func(c *cand, x *mctx) bool { // a well-formed allocation over one more asset
		cols := x.N
		if len(c.S.Balances) > 0 {
			cols = len(c.S.Balances[0])
		}
		c.S.Assets = append(c.S.Assets, fx.Assets[2])
		c.S.Backends = append(c.S.Backends, 0)
		c.S.Balances = append(c.S.Balances, zeros(cols))
		for i := range c.S.Locked {
			c.S.Locked[i].Bals = append(c.S.Locked[i].Bals, bi(0))
		}
		return true
	}},
	{"asset-append-norow", true, func(c *cand, _ *mctx) bool {
		c.S.Assets = append(c.S.Assets, fx.Assets[2])
		c.S.Backends = append(c.S.Backends, 0)
		return true
	}},
	{"asset-drop", true, func(c *cand, _ *mctx) bool { // a well-formed allocation over one asset less
		n := len(c.S.Assets)
		if n < 2 {
			return false
		}
		if len(c.S.Balances) == n {
			c.S.Balances = c.S.Balances[:n-1]
		}
		for i := range c.S.Locked {
			if len(c.S.Locked[i].Bals) == n {
				c.S.Locked[i].Bals = c.S.Locked[i].Bals[:n-1]
			}
		}
		c.S.Assets, c.S.Backends = c.S.Assets[:n-1], c.S.Backends[:n-1]
		return true
	}},
	{"asset-drop-norow", true, func(c *cand, _ *mctx) bool {
		n := len(c.S.Assets)
		if n < 2 {
			return false
		}
		c.S.Assets, c.S.Backends = c.S.Assets[:n-1], c.S.Backends[:n-1]
		return true
	}},
	{"backend-change", true, func(c *cand, _ *mctx) bool { // recorded, not judged
		if len(c.S.Backends) == 0 || c.S.Backends[0] == 1 {
			return false
		}
		c.S.Backends[0] = 1
		return true
	}},

	// --- participant dimension
	{"drop-column", true, func(c *cand, _ *mctx) bool { // last participant's funds merged into participant 0: totals kept
		ok := false
		for a, row := range c.S.Balances {
			if l := len(row) - 1; l >= 1 {
				row[0].Add(row[0], row[l])
				c.S.Balances[a] = row[:l]
				ok = true
			}
		}
		return ok
	}},
	{"drop-column-lock", true, func(c *cand, _ *mctx) bool { // last participant's funds moved to a new sub-allocation: totals kept, nobody else gains
		if len(c.S.Balances) == 0 || len(c.S.Balances) != len(c.S.Assets) {
			return false
		}
		for _, row := range c.S.Balances {
			if len(row) < 2 {
				return false
			}
		}
		b := zeros(len(c.S.Assets))
		for a, row := range c.S.Balances {
			l := len(row) - 1
			b[a] = new(big.Int).Set(row[l])
			c.S.Balances[a] = row[:l]
		}
		c.S.Locked = append(c.S.Locked, *channel.NewSubAlloc(channel.ID{8}, b, nil))
		return true
	}},
	{"add-column", true, func(c *cand, _ *mctx) bool {
		if len(c.S.Balances) == 0 {
			return false
		}
		for a := range c.S.Balances {
			c.S.Balances[a] = append(c.S.Balances[a], bi(0))
		}
		return true
	}},
	{"ragged", true, func(c *cand, _ *mctx) bool { // only the last asset gets an extra column
		a := len(c.S.Balances) - 1
		if a < 1 {
			return false
		}
		c.S.Balances[a] = append(c.S.Balances[a], bi(0))
		return true
	}},
	{"balances-none", true, func(c *cand, _ *mctx) bool {
		if len(c.S.Balances) == 0 {
			return false
		}
		c.S.Balances = nil
		return true
	}},
	{"balances-zero-columns", true, func(c *cand, _ *mctx) bool {
		ok := false
		for a := range c.S.Balances {
			if len(c.S.Balances[a]) > 0 {
				c.S.Balances[a] = []channel.Bal{}
				ok = true
			}
		}
		return ok
	}},
	{"alloc-empty", true, func(c *cand, _ *mctx) bool {
		if len(c.S.Assets) == 0 && len(c.S.Balances) == 0 && len(c.S.Locked) == 0 {
			return false
		}
		c.S.Allocation = channel.Allocation{}
		return true
	}},

	// --- fields outside the allocation
	{"final", false, func(c *cand, _ *mctx) bool {
		if c.S.IsFinal {
			return false
		}
		c.S.IsFinal = true
		return true
	}},
	{"unfinal", false, func(c *cand, _ *mctx) bool { // only after a final current state: the successor drops the flag
		if !c.S.IsFinal {
			return false
		}
		c.S.IsFinal = false
		return true
	}},
	{"id-flip-first", false, func(c *cand, _ *mctx) bool { c.S.ID[0] ^= 0x01; return true }},
	{"id-flip-last", false, func(c *cand, _ *mctx) bool { c.S.ID[len(c.S.ID)-1] ^= 0x80; return true }},
	{"ver-same", false, func(c *cand, x *mctx) bool { return setVersion(c, x.Cur.Version) }},
	{"ver+2", false, func(c *cand, x *mctx) bool { return setVersion(c, x.Cur.Version+2) }},
	{"ver0", false, func(c *cand, _ *mctx) bool { return setVersion(c, 0) }},
	{"vermax", false, func(c *cand, _ *mctx) bool { return setVersion(c, math.MaxUint64) }},
	{"app-none", false, func(c *cand, _ *mctx) bool { return setApp(c, channel.NoApp()) }},
	{"app-payment", false, func(c *cand, _ *mctx) bool { return setApp(c, fx.PayApp) }},
	{"app-other", false, func(c *cand, _ *mctx) bool { return setApp(c, fx.OtherApp) }},
	{"app-same-def-copy", false, func(c *cand, _ *mctx) bool { // another object with the channel's app definition: the same app
		p, ok := c.S.App.(*payment.App)
		if !ok {
			return false
		}
		c.S.App = &payment.App{ID: p.ID}
		return true
	}},
	{"actor1", false, func(c *cand, _ *mctx) bool { return setActor(c, 1) }},
	{"actor2", false, func(c *cand, _ *mctx) bool { return setActor(c, 2) }},
	{"actor3", false, func(c *cand, _ *mctx) bool { return setActor(c, 3) }},
	{"actor65535", false, func(c *cand, _ *mctx) bool { return setActor(c, 65535) }},
}

func unlock(s *channel.State, to int) bool { // sub-allocation -> participant
	if len(s.Locked) == 0 || len(s.Locked[0].Bals) == 0 || s.Locked[0].Bals[0].Sign() <= 0 || !has(s, 0, to) {
		return false
	}
	s.Locked[0].Bals[0].Sub(s.Locked[0].Bals[0], bi(1))
	s.Balances[0][to].Add(s.Balances[0][to], bi(1))
	return true
}

var mutIndex = func() map[string]int {
	m := map[string]int{}
	for i, mu := range catalogue {
		if _, dup := m[mu.Name]; dup {
			panic("duplicate mutation name " + mu.Name)
		}
		m[mu.Name] = i
	}
	return m
}()

// apply builds the candidate for a combination (indices into the catalogue, ascending).
// ok=false: some member did not apply.
func apply(start *channel.State, x *mctx, combo []int) (c *cand, ok bool) {
	c = &cand{S: start}
	for _, k := range combo {
		if !catalogue[k].F(c, x) {
			return c, false
		}
	}
	return c, true
}

// twinAsset is an asset whose identity is more than its address (like the assets of multi-ledger
// channels: ledger id + address): it has the address of another asset but lives on another ledger.
type twinAsset struct {
	inner  channel.Asset
	ledger byte
}

func (a twinAsset) MarshalBinary() ([]byte, error) {
	b, err := a.inner.MarshalBinary()
	return append(b, a.ledger), err
}
func (a twinAsset) UnmarshalBinary([]byte) error { return nil }
func (a twinAsset) Address() []byte              { return a.inner.Address() }
func (a twinAsset) Equal(b channel.Asset) bool {
	o, ok := b.(twinAsset)
	return ok && o.ledger == a.ledger && a.inner.Equal(o.inner)
}
