package trans

// Reachable current states. Every base state is reached by driving the real
// channel.StateMachine through Init / Sig / AddSig / EnableInit / SetFunded and accepted
// Update / EnableUpdate / EnableFinal rounds, so it is genuinely reachable.

import (
	"fmt"
	"math/big"

	"perun.network/go-perun/channel"
	"verif/harness/fx"
)

func bi(x int64) *big.Int { return big.NewInt(x) }

type base struct {
	Name   string
	App    string // "noapp" | "payment"
	N      int    // participants
	Idx    int    // own index of the machine
	NAsset int
	Locked bool // one sub-allocation installed by an accepted update
	NUpd   int  // accepted payment updates after that
	Final  bool // current state is final (phase Final)
}

func (b base) app() channel.App {
	if b.App == "payment" {
		return fx.PayApp
	}
	return channel.NoApp()
}

func b2i(b bool) int {
	if b {
		return 1
	}
	return 0
}

// bases lists the current states of the update path: quick = two participants, thorough adds
// the three-party channels (own index 2).
func bases(thorough bool) []base {
	ns := []int{2}
	if thorough {
		ns = []int{2, 3}
	}
	var out []base
	for _, n := range ns {
		idx := 0
		if n == 3 {
			idx = 2
		}
		for _, app := range []string{"noapp", "payment"} {
			for _, na := range []int{1, 2} {
				mk := func(locked bool, nupd int, final bool) {
					name := fmt.Sprintf("%dp-%s-a%d-l%d-u%d", n, app, na, b2i(locked), nupd)
					if final {
						name += "-final"
					}
					out = append(out, base{name, app, n, idx, na, locked, nupd, final})
				}
				for _, locked := range []bool{false, true} {
					for _, nupd := range []int{0, 1, 2} {
						mk(locked, nupd, false)
					}
				}
				mk(false, 0, true)
				mk(true, 1, true)
			}
		}
	}
	return out
}

// initRows: asset 0 holds 10 per participant, asset 1 holds 7,5,3 (different totals per asset,
// so that swapped or shifted assets cannot cancel out).
func initRows(nAsset, n int) [][]int64 {
	rows := [][]int64{make([]int64, n)}
	for i := range rows[0] {
		rows[0][i] = 10
	}
	if nAsset > 1 {
		rows = append(rows, []int64{7, 5, 3}[:n])
	}
	return rows
}

type world struct {
	b      base
	ci     chanInfo
	params *channel.Params
	m      *channel.StateMachine
	hist   []string
}

// signAndEnable completes the staged round: own signature from the machine, the others'
// from their accounts, then the enabling call that fits the phase.
func signAndEnable(w *world) error {
	m := w.m
	if _, err := m.Sig(); err != nil {
		return fmt.Errorf("Sig: %w", err)
	}
	for i := 0; i < w.b.N; i++ {
		if i == w.b.Idx {
			continue
		}
		if err := m.AddSig(channel.Index(i), fx.Sig(i, m.StagingState())); err != nil {
			return fmt.Errorf("AddSig(%d): %w", i, err)
		}
	}
	switch {
	case m.Phase() == channel.InitSigning:
		if err := m.EnableInit(); err != nil {
			return fmt.Errorf("EnableInit: %w", err)
		}
		w.hist = append(w.hist, "Sig,AddSig*,EnableInit,SetFunded")
		return m.SetFunded()
	case m.StagingState().IsFinal:
		w.hist = append(w.hist, "Sig,AddSig*,EnableFinal")
		return m.EnableFinal()
	default:
		w.hist = append(w.hist, "Sig,AddSig*,EnableUpdate")
		return m.EnableUpdate()
	}
}

func newMachine(b base) (*world, error) {
	p := fx.Params(b.N, b.app(), 7, true, false)
	m, err := channel.NewStateMachine(fx.AccMap(b.Idx), *p.Clone())
	if err != nil {
		return nil, err
	}
	w := &world{b: b, params: p, m: m}
	w.ci = chanInfo{ID: p.ID(), App: b.App, N: b.N}
	if b.App == "payment" {
		_, w.ci.AppKey = appKind(fx.PayApp)
	}
	return w, nil
}

// historyErr: the real machine did not accept an update of a base state's history although the
// reference predicate says it is a valid successor. That is an observation about the code under
// test (C02, clause refused-valid / panic), not an engine error.
type historyErr struct {
	Step   string // stable short name of the history step
	Clause string // "refused-valid" | "panic"
	Text   string
}

func (e *historyErr) Error() string { return e.Text }

// build replays the history of a base state on a new machine.
func build(b base) (*world, error) {
	w, err := newMachine(b)
	if err != nil {
		return nil, err
	}
	m := w.m
	if err := m.Init(fx.Alloc(initRows(b.NAsset, b.N)...), channel.NoData()); err != nil {
		return nil, fmt.Errorf("Init: %w", err)
	}
	w.hist = append(w.hist, "Init")
	if err := signAndEnable(w); err != nil {
		return nil, err
	}
	update := func(step, what string, actor int, f func(s *channel.State)) error {
		s := m.State().Clone()
		s.Version++
		f(s)
		if r := validSuccessor(w.ci, m.State(), s, channel.Index(actor)); len(r) != 0 {
			return fmt.Errorf("engine: history step %q is not a valid successor: %v", what, r)
		}
		err, pan := guard(func() error { return m.Update(s, channel.Index(actor)) })
		if pan != nil {
			return &historyErr{step, "panic", fmt.Sprintf("Update(%s, actor %d) of the history %v panicked: %v; candidate %s", what, actor, w.hist, pan, brief(s))}
		}
		if err != nil {
			return &historyErr{step, "refused-valid", fmt.Sprintf("Update(%s, actor %d) after the history %v was refused although the candidate satisfies every condition: %v; candidate %s", what, actor, w.hist, err, brief(s))}
		}
		w.hist = append(w.hist, fmt.Sprintf("Update(%s,actor=%d)", what, actor))
		return signAndEnable(w)
	}
	if b.Locked {
		// participant 0 locks 2 of every asset into a sub-channel
		err := update("lock", "lock 2 of every asset", 0, func(s *channel.State) {
			bals := make([]channel.Bal, b.NAsset)
			for a := range bals {
				s.Balances[a][0].Sub(s.Balances[a][0], bi(2))
				bals[a] = bi(2)
			}
			s.Locked = []channel.SubAlloc{*channel.NewSubAlloc(channel.ID{9}, bals, nil)}
		})
		if err != nil {
			return nil, err
		}
	}
	for i := 0; i < b.NUpd; i++ {
		var err error
		if i == 0 {
			err = update("pay", "0 pays 1 of asset 0 to 1", 0, func(s *channel.State) {
				s.Balances[0][0].Sub(s.Balances[0][0], bi(1))
				s.Balances[0][1].Add(s.Balances[0][1], bi(1))
			})
		} else {
			last := b.NAsset - 1
			err = update("pay-back", fmt.Sprintf("1 pays 1 of asset %d to 0", last), 1, func(s *channel.State) {
				s.Balances[last][1].Sub(s.Balances[last][1], bi(1))
				s.Balances[last][0].Add(s.Balances[last][0], bi(1))
			})
		}
		if err != nil {
			return nil, err
		}
	}
	if b.Final {
		if err := update("final", "final", 0, func(s *channel.State) { s.IsFinal = true }); err != nil {
			return nil, err
		}
	}
	want := channel.Acting
	if b.Final {
		want = channel.Final
	}
	if m.Phase() != want || m.State() == nil || m.StagingState() != nil {
		return nil, fmt.Errorf("base %s: phase %v, want %v", b.Name, m.Phase(), want)
	}
	return w, nil
}

// initBase is a machine before Init plus the allocation the Init catalogue starts from.
type initBase struct {
	Name      string
	App       string
	N         int
	Idx       int
	NAsset    int
	PreLocked bool
}

func initBases(thorough bool) []initBase {
	ns := []int{2}
	if thorough {
		ns = []int{2, 3}
	}
	var out []initBase
	for _, n := range ns {
		idx := 0
		if n == 3 {
			idx = 2
		}
		for _, app := range []string{"noapp", "payment"} {
			for _, na := range []int{1, 2} {
				for _, pl := range []bool{false, true} {
					out = append(out, initBase{fmt.Sprintf("init-%dp-%s-a%d-pl%d", n, app, na, b2i(pl)), app, n, idx, na, pl})
				}
			}
		}
	}
	return out
}

func (ib initBase) asBase() base {
	return base{Name: ib.Name, App: ib.App, N: ib.N, Idx: ib.Idx, NAsset: ib.NAsset}
}

func (ib initBase) alloc() channel.Allocation {
	a := fx.Alloc(initRows(ib.NAsset, ib.N)...)
	if ib.PreLocked {
		bals := make([]channel.Bal, ib.NAsset)
		for i := range bals {
			bals[i] = bi(2)
		}
		a.Locked = []channel.SubAlloc{*channel.NewSubAlloc(channel.ID{9}, bals, nil)}
	}
	return a
}
