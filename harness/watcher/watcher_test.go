// Package watcher: engine SCHED over the real watcher/local.Watcher (C05). A scripted
// RegisterSubscriber feeds adjudicator events and logs Register calls; a client thread
// publishes transactions and stops watching; reader threads drain the event streams. All
// enumerated (client program x chain program) pairs are explored under every schedule up to
// the delay bound, including "the 1 ms drain timer fires first".
package watcher

import (
	"context"
	"fmt"
	"math/big"
	"sort"
	"strings"
	"testing"
	"time"

	"perun.network/go-perun/channel"
	"perun.network/go-perun/wallet"
	pwatcher "perun.network/go-perun/watcher"
	"perun.network/go-perun/watcher/local"
	"verif/engine/explore"
	"verif/engine/report"
	"verif/engine/schedrun"
	"verif/engine/vsched"
	"verif/harness/fx"
)

type fakeSub struct {
	ev     chan channel.AdjudicatorEvent
	closed chan struct{}
	w      *world
	ch     string
}

func (s *fakeSub) Next() channel.AdjudicatorEvent {
	sel := vsched.NewSelect(false)
	vsched.AddRecv(sel, s.ev)
	vsched.AddRecv(sel, s.closed)
	switch sel.Run() {
	case 0:
		e := vsched.As((<-chan channel.AdjudicatorEvent)(s.ev), sel)
		s.w.tick()
		s.w.delivered = append(s.w.delivered, dlv{s.ch, e, s.w.clock})
		return e
	default:
		return nil
	}
}
func (s *fakeSub) Err() error   { return nil }
func (s *fakeSub) Close() error { vsched.Close(s.closed); return nil }

type dlv struct {
	ch string
	e  channel.AdjudicatorEvent
	at int
}
type regCall struct {
	parent uint64
	locked []string // names of the sub-channels locked in the registered parent transaction
	subs   []int64  // version or -1 for nil state
	subIDs []string // channel the sub-state belongs to ("?" if nil)
	at     int
	failed bool // refused by the adjudicator (scenario.regFail)
	// parameters that do not belong to the state they come with (an adjudicator derives the
	// channel id and the signers from the parameters): "" or a description
	badParams string
}
type pubRec struct {
	ch        string
	v         uint64
	call, ret int
}
type stopRec struct {
	ch        string
	call, ret int
	err       string
}

type world struct {
	clock     int
	subs      map[channel.ID]*fakeSub
	names     map[channel.ID]string
	regs      []regCall
	delivered []dlv
	pubs      []pubRec
	stops     []stopRec
	starts    []stopRec // re-starts of a sub-channel's watching (sequential histories only)
	relayed   map[string][]string
	regFail   int
}

func (w *world) tick() { w.clock++ }

func (w *world) Subscribe(_ context.Context, id channel.ID) (channel.AdjudicatorSubscription, error) {
	s := &fakeSub{ev: make(chan channel.AdjudicatorEvent, 8), closed: make(chan struct{}), w: w, ch: w.names[id]}
	w.subs[id] = s
	return s, nil
}

func (w *world) Register(_ context.Context, req channel.AdjudicatorReq, subs []channel.SignedState) error {
	vsched.PointOp("register")
	w.tick()
	r := regCall{parent: req.Tx.Version, at: w.clock}
	for _, l := range req.Tx.Locked {
		r.locked = append(r.locked, w.names[l.ID])
	}
	if req.Params == nil || req.Tx.State == nil || req.Params.ID() != req.Tx.ID {
		r.badParams = "request"
	}
	for _, s := range subs {
		if s.State == nil {
			r.subs = append(r.subs, -1)
			r.subIDs = append(r.subIDs, "?")
		} else {
			r.subs = append(r.subs, int64(s.State.Version))
			r.subIDs = append(r.subIDs, w.names[s.State.ID])
			if (s.Params == nil || s.Params.ID() != s.State.ID) && r.badParams == "" {
				r.badParams = "sub-state of " + w.names[s.State.ID]
			}
		}
	}
	if w.regFail > 0 && len(w.regs)+1 == w.regFail {
		r.failed = true
		w.regs = append(w.regs, r)
		return fmt.Errorf("register: refused by the adjudicator (scripted fault)")
	}
	w.regs = append(w.regs, r)
	return nil
}

// client operations: pub<ch><v> publishes version v of channel ch; stop<ch> stops watching.
type cop struct {
	Kind string // pub, stop
	Ch   string // P, S, T
	V    uint64
}

func (o cop) String() string {
	if o.Kind == "pub" {
		return fmt.Sprintf("pub%s%d", o.Ch, o.V)
	}
	return "stop" + o.Ch
}

// chain events
type eop struct {
	Ch   string // P, S, T
	Kind string // reg, prog, conc
	V    uint64
}

func (o eop) String() string { return fmt.Sprintf("%s.%s%d", o.Ch, o.Kind, o.V) }

type scenario struct {
	nsubs int // 1 or 2 sub-channels (S, T)
	cprog []cop
	eprog []eop
	// sequential histories: one thread performs publishes, stops and chain events in program
	// order and lets the watcher settle (5 ms of virtual time) after every step
	script []step
	p0     uint64 // version of the parent transaction the watching starts with
	// lag: the client does not read its event streams until the chain program has ended (more
	// events than the watcher buffers for it are pending by then)
	lag bool
	// regFail: the k-th Register call is refused by the adjudicator (0: none); a refused call
	// registered nothing, the obligation to refute stays in force for the next trigger
	regFail int
	// late: sub-channel S is locked in the parent's transactions from the start, but it is not
	// watched until a start step (the client calls Watch on a sub-channel only once its opening
	// has returned)
	late bool
	// finalSub: every sub-channel state from version 1 on is final (a finalised sub-channel whose
	// settlement in the parent has not happened: the parent's transactions still lock it)
	finalSub bool
}

// step of a sequential history: Kind in {pub, stop, reg, prog, conc}
type step struct {
	Kind string
	Ch   string
	V    uint64
}

func (o step) String() string {
	switch o.Kind {
	case "pub":
		return fmt.Sprintf("pub%s%d", o.Ch, o.V)
	case "stop":
		return "stop" + o.Ch
	case "start":
		return fmt.Sprintf("start%s%d", o.Ch, o.V)
	}
	return fmt.Sprintf("%s.%s%d", o.Ch, o.Kind, o.V)
}

var table = map[string]scenario{}

func exec(t *testing.T, ssc schedrun.Scenario, o vsched.Options) (*vsched.Sched, any) {
	sc := lookup(ssc.Name)
	w := &world{subs: map[channel.ID]*fakeSub{}, names: map[channel.ID]string{}, relayed: map[string][]string{}, regFail: sc.regFail}
	s := vsched.Run(t, o, func() {
		parts := []map[wallet.BackendID]wallet.Address{fx.Addr(0), fx.Addr(1)}
		mk := func(nonce int64, ledger bool) *channel.Params {
			p, err := channel.NewParams(60, parts, channel.NoApp(), big.NewInt(nonce), ledger, false, channel.ZeroAux)
			if err != nil {
				panic(err)
			}
			return p
		}
		pp := mk(7, true)
		subNames := []string{"S", "T"}[:sc.nsubs]
		subParams := map[string]*channel.Params{}
		w.names[pp.ID()] = "P"
		for i, n := range subNames {
			subParams[n] = mk(int64(99+i), false)
			w.names[subParams[n].ID()] = n
		}
		mkAlloc := func(a, b int64, locked bool) channel.Allocation {
			al := fx.Alloc([]int64{a, b})
			if locked {
				for _, n := range subNames {
					al.Locked = append(al.Locked, *channel.NewSubAlloc(subParams[n].ID(), []channel.Bal{big.NewInt(2)}, nil))
				}
			}
			return al
		}
		tx := func(ch string, v uint64) channel.Transaction {
			if ch == "P" {
				return channel.Transaction{State: &channel.State{ID: pp.ID(), Version: v, App: channel.NoApp(), Data: channel.NoData(), Allocation: mkAlloc(4, 4, true)}, Sigs: make([]wallet.Sig, 2)}
			}
			return channel.Transaction{State: &channel.State{ID: subParams[ch].ID(), Version: v, App: channel.NoApp(), Data: channel.NoData(), Allocation: mkAlloc(1, 1, false), IsFinal: sc.finalSub && v >= 1}, Sigs: make([]wallet.Sig, 2)}
		}
		params := func(ch string) *channel.Params {
			if ch == "P" {
				return pp
			}
			return subParams[ch]
		}
		wt, _ := local.NewWatcher(w)
		ctx := context.Background()
		pubs := map[string]pwatcher.StatesPub{}
		evs := map[string]pwatcher.AdjudicatorSub{}
		p0 := tx("P", sc.p0)
		var err error
		pubs["P"], evs["P"], err = wt.StartWatchingLedgerChannel(ctx, channel.SignedState{Params: pp, State: p0.State, Sigs: p0.Sigs})
		if err != nil {
			panic(err)
		}
		w.pubs = append(w.pubs, pubRec{"P", sc.p0, 0, 0})
		for _, n := range subNames {
			if sc.late {
				continue
			}
			s0 := tx(n, 0)
			pubs[n], evs[n], err = wt.StartWatchingSubChannel(ctx, pp.ID(), channel.SignedState{Params: subParams[n], State: s0.State, Sigs: s0.Sigs})
			if err != nil {
				panic(err)
			}
			w.pubs = append(w.pubs, pubRec{n, 0, 0, 0})
		}
		chainDone := false
		for _, n := range append([]string{"P"}, subNames...) {
			n, st := n, evs[n]
			if st == nil {
				continue // (late: not watched yet)
			}
			vsched.GoNamed("reader-"+n, func() {
				if sc.lag {
					vsched.WaitCond("reader.lag", func() bool { return chainDone })
				}
				for {
					e, ok := vsched.Recv2(st.EventStream())
					if !ok {
						return
					}
					w.relayed[n] = append(w.relayed[n], fmt.Sprintf("%s:%d", evKind(e), e.Version()))
				}
			})
		}
		done := make(chan struct{}, 2)
		var doClient func(o cop)
		var doChain func(o eop)
		if sc.script != nil {
			vsched.GoNamed("script", func() {
				for _, st := range sc.script {
					switch st.Kind {
					case "pub", "stop", "start":
						doClient(cop{st.Kind, st.Ch, st.V})
					default:
						doChain(eop{st.Ch, st.Kind, st.V})
					}
					vsched.Sleep(5 * time.Millisecond) // let the watcher settle: a sequential history
				}
				vsched.Send(done, struct{}{})
				vsched.Send(done, struct{}{})
			})
		}
		doClient = func(o cop) {
			{
				switch o.Kind {
				case "pub":
					w.tick()
					r := pubRec{ch: o.Ch, v: o.V, call: w.clock}
					pubs[o.Ch].Publish(ctx, tx(o.Ch, o.V)) //nolint:errcheck
					w.tick()
					r.ret = w.clock
					w.pubs = append(w.pubs, r)
				case "stop":
					w.tick()
					r := stopRec{ch: o.Ch, call: w.clock}
					if err := wt.StopWatching(ctx, params(o.Ch).ID()); err != nil {
						r.err = "err:" + err.Error()
						if local.IsErrSubChannelsPresent(err) {
							r.err = "subs-present"
						}
					}
					w.tick()
					r.ret = w.clock
					w.stops = append(w.stops, r)
				case "start": // watch a de-registered sub-channel again, starting from its newest transaction
					w.tick()
					r := stopRec{ch: o.Ch, call: w.clock}
					s0 := tx(o.Ch, o.V)
					pub, ev, err := wt.StartWatchingSubChannel(ctx, pp.ID(), channel.SignedState{Params: subParams[o.Ch], State: s0.State, Sigs: s0.Sigs})
					if err != nil {
						r.err = "err:" + err.Error()
					} else {
						pubs[o.Ch], evs[o.Ch] = pub, ev
						gen := fmt.Sprintf("%s#%d", o.Ch, len(w.starts)+2) // a new event stream
						vsched.GoNamed("reader-"+gen, func() {
							for {
								e, ok := vsched.Recv2(ev.EventStream())
								if !ok {
									return
								}
								w.relayed[gen] = append(w.relayed[gen], fmt.Sprintf("%s:%d", evKind(e), e.Version()))
							}
						})
					}
					w.tick()
					r.ret = w.clock
					w.starts = append(w.starts, r)
					w.pubs = append(w.pubs, pubRec{o.Ch, o.V, r.call, r.ret})
				}
			}
		}
		doChain = func(o eop) {
			{
				id := params(o.Ch).ID()
				var e channel.AdjudicatorEvent
				switch o.Kind {
				case "reg":
					e = channel.NewRegisteredEvent(id, &channel.ElapsedTimeout{}, o.V, nil, nil)
				case "prog":
					e = channel.NewProgressedEvent(id, &channel.ElapsedTimeout{}, tx(o.Ch, o.V).State, 0)
				default:
					e = channel.NewConcludedEvent(id, &channel.ElapsedTimeout{}, o.V)
				}
				sub := w.subs[id]
				sel := vsched.NewSelect(false)
				vsched.AddSend(sel, sub.ev, e)
				vsched.AddRecv(sel, sub.closed)
				sel.Run()
			}
		}
		if sc.script == nil {
			vsched.GoNamed("client", func() {
				for _, o := range sc.cprog {
					doClient(o)
				}
				vsched.Send(done, struct{}{})
			})
			vsched.GoNamed("chain", func() {
				for _, o := range sc.eprog {
					doChain(o)
				}
				chainDone = true
				vsched.Send(done, struct{}{})
			})
		}
		vsched.Recv(done)
		vsched.Recv(done)
		vsched.Sleep(time.Second)
	})
	return s, w
}

func evKind(e channel.AdjudicatorEvent) string {
	switch e.(type) {
	case *channel.RegisteredEvent:
		return "reg"
	case *channel.ProgressedEvent:
		return "prog"
	case *channel.ConcludedEvent:
		return "conc"
	}
	return fmt.Sprintf("%T", e)
}

type verdict struct{ clause, detail string }

// ---- oracle (DESIGN.md section 3, C05) ----
func (w *world) check(sc scenario) []verdict {
	var v []verdict
	add := func(clause, format string, a ...any) { v = append(v, verdict{clause, fmt.Sprintf(format, a...)}) }
	// a successful stop of ch (or of its parent) was CALLED before time `before` and is not
	// superseded by a re-start of ch that had returned by time `at`
	restarted := func(ch string, after, by int) bool {
		for _, st := range w.starts {
			if st.ch == ch && st.err == "" && st.call > after && st.ret <= by {
				return true
			}
		}
		return false
	}
	stoppedFor := func(ch string, before, at int) bool {
		for _, s := range w.stops {
			if s.err == "" && (s.ch == ch || s.ch == "P") && s.call < before && !(s.ch == ch && restarted(ch, s.call, at)) {
				return true
			}
		}
		return false
	}
	everStopped := func(ch string) bool { return stoppedFor(ch, 1<<30, 1<<30) }
	// stopTime: call time of the successful stop of ch that is in force at time `at` (1<<30: live)
	stopTime := func(ch string, at int) int {
		for _, s := range w.stops {
			if s.ch == ch && s.err == "" && s.call < at && !restarted(ch, s.call, at) {
				return s.call
			}
		}
		return 1 << 30
	}
	lower := func(ch string, at int) uint64 { // newest version whose Publish returned before `at`
		m := uint64(0)
		for _, p := range w.pubs {
			if p.ch == ch && p.ret <= at && p.v > m {
				m = p.v
			}
		}
		return m
	}
	upper := func(ch string, at int) uint64 { // newest version whose Publish was called before `at`
		m := uint64(0)
		for _, p := range w.pubs {
			if p.ch == ch && p.call <= at && p.v > m {
				m = p.v
			}
		}
		return m
	}
	subNames := []string{"S", "T"}[:sc.nsubs]
	// every Register call: attributable to a delivered registered event, versions within the window
	for _, r := range w.regs {
		var trig *dlv
		for i := range w.delivered {
			d := &w.delivered[i]
			if _, ok := d.e.(*channel.RegisteredEvent); ok && d.at < r.at {
				trig = d
			}
		}
		if trig == nil {
			add("register-without-event", "Register(parent v%d) without a preceding registered event", r.parent)
			continue
		}
		if r.badParams != "" {
			add("register-params-mismatch", "Register: the parameters of the %s are not those of the channel the state belongs to", r.badParams)
		}
		if r.parent < lower("P", trig.at) || r.parent > upper("P", r.at) {
			add("register-stale-parent", "Register with parent v%d outside [%d,%d]", r.parent, lower("P", trig.at), upper("P", r.at))
		}
		if len(r.subs) != len(subNames) {
			add("register-substates-count", "Register with %d sub-states, the parent transaction locks %d", len(r.subs), len(subNames))
			continue
		}
		for i, n := range subNames {
			switch {
			case r.subs[i] < 0:
				add("register-nil-substate", "Register with a nil sub-state for %s", n)
			case r.subIDs[i] != n:
				add("register-substate-order", "sub-state %d belongs to %s, the parent locks %s at this index", i, r.subIDs[i], n)
			default:
				lo := lower(n, min(trig.at, stopTime(n, trig.at)))
				if uint64(r.subs[i]) < lo || uint64(r.subs[i]) > upper(n, r.at) {
					add("register-stale-substate", "Register with %s v%d outside [%d,%d]", n, r.subs[i], lo, upper(n, r.at))
				}
			}
		}
	}
	// obligations per delivered registered event
	for _, d := range w.delivered {
		re, ok := d.e.(*channel.RegisteredEvent)
		if !ok {
			continue
		}
		ve := re.Version()
		maxReg := int64(-1) // newest version of d.ch the watcher itself registered before this delivery
		for _, r := range w.regs {
			if r.at < d.at && !r.failed {
				if d.ch == "P" {
					maxReg = max(maxReg, int64(r.parent))
				} else {
					for i, n := range r.subIDs {
						if n == d.ch {
							maxReg = max(maxReg, r.subs[i])
						}
					}
				}
			}
		}
		after := 0
		for _, r := range w.regs {
			if r.at > d.at {
				after++
			}
		}
		if sc.late {
			// the tree cannot be registered before the locked sub-channel is known to the watcher;
			// once it is (a start step that returned), the event must have been refuted
			known := false
			for _, st := range w.starts {
				known = known || (st.ch == "S" && st.err == "" && st.ret > d.at)
			}
			if !known {
				continue
			}
		}
		if !stoppedFor(d.ch, 1<<30, d.at) && ve < lower(d.ch, d.at) && int64(ve) >= maxReg && after == 0 {
			add("no-refutation", "%s registered with v%d on chain, newest published v%d, watcher registered nothing", d.ch, ve, lower(d.ch, d.at))
		}
	}
	// prohibition: nothing newer known -> no Register
	allNewer := true
	for _, d := range w.delivered {
		if re, ok := d.e.(*channel.RegisteredEvent); ok && re.Version() < upper(d.ch, 1<<30) {
			allNewer = false
		}
	}
	if allNewer && len(w.regs) > 0 {
		add("needless-register", "Register although no registered version was older than what was published")
	}
	// relay: registered events at most once and strictly increasing; progressed / concluded always relayed
	for ch, evs := range w.relayed {
		last := int64(-1)
		for _, e := range evs {
			if strings.HasPrefix(e, "reg:") {
				var ver int64
				fmt.Sscanf(e[4:], "%d", &ver)
				if ver <= last {
					add("relay-order", "registered events on %s not strictly increasing: %v", ch, evs)
				}
				last = ver
			}
		}
	}
	for _, kind := range []string{"prog", "conc"} {
		for _, ch := range append([]string{"P"}, subNames...) {
			if everStopped(ch) {
				continue
			}
			want, got := 0, 0
			for _, d := range w.delivered {
				if d.ch == ch && evKind(d.e) == kind {
					want++
				}
			}
			for key, evs := range w.relayed { // all event streams of the channel (a re-start opens a new one)
				if key != ch && !strings.HasPrefix(key, ch+"#") {
					continue
				}
				for _, e := range evs {
					if strings.HasPrefix(e, kind+":") {
						got++
					}
				}
			}
			if got != want {
				add("relay-missing-"+kind, "%s events on %s: relayed %d of %d delivered", kind, ch, got, want)
			}
		}
	}
	// a refused stop is reported as such, leaves the channel watched, and can be repeated
	stopped := map[string]bool{}
	ops := append([]stopRec{}, w.stops...)
	for _, st := range w.starts {
		st.err = "START:" + st.err
		ops = append(ops, st)
	}
	sort.Slice(ops, func(i, j int) bool { return ops[i].call < ops[j].call })
	for _, s := range ops {
		if strings.HasPrefix(s.err, "START:") {
			if s.err != "START:" {
				add("restart-failed", "StartWatchingSubChannel(%s) after its de-registration returned %s", s.ch, s.err[6:])
			} else {
				stopped[s.ch] = false
			}
			continue
		}
		if s.ch != "P" {
			if s.err == "" {
				stopped[s.ch] = true
			} else if !stopped[s.ch] {
				add("stop-sub-failed", "StopWatching(%s) returned %s", s.ch, s.err)
			}
			continue
		}
		open := 0
		for _, n := range subNames {
			if !stopped[n] {
				open++
			}
		}
		switch {
		case stopped["P"]:
			if s.err == "" {
				add("stop-twice-succeeded", "StopWatching(parent) succeeded twice")
			}
		case open > 0 && s.err != "subs-present":
			add("stop-parent-not-refused", "StopWatching(parent) with %d watched sub-channels returned %q", open, s.err)
		case open == 0 && s.err != "":
			add("stop-parent-failed", "StopWatching(parent) after all sub-channels were stopped returned %s", s.err)
		case open == 0:
			stopped["P"] = true
		}
	}
	return v
}

func progString(sc scenario) (string, string) {
	var c, e []string
	for _, o := range sc.cprog {
		c = append(c, o.String())
	}
	for _, o := range sc.eprog {
		e = append(e, o.String())
	}
	return strings.Join(c, ","), strings.Join(e, ",")
}

func check(ssc schedrun.Scenario, s *vsched.Sched, o any) []schedrun.Verdict {
	sc := lookup(ssc.Name)
	w := o.(*world)
	// site: the kinds of client operations (without versions) and of chain events
	var ck, ek []string
	for _, o := range sc.cprog {
		ck = append(ck, o.Kind+o.Ch)
	}
	for _, o := range sc.eprog {
		ek = append(ek, o.Ch+"."+o.Kind)
	}
	site := fmt.Sprintf("%dsub/%s/%s", sc.nsubs, strings.Join(ck, ","), strings.Join(ek, ","))
	if sc.script != nil {
		var ks []string
		for _, st := range sc.script {
			if st.Kind == "pub" || st.Kind == "stop" || st.Kind == "start" {
				ks = append(ks, st.Kind+st.Ch)
			} else {
				ks = append(ks, st.Ch+"."+st.Kind)
			}
		}
		site = "script/" + strings.Join(ks, ",")
	}
	var out []schedrun.Verdict
	mk := func(clause, detail string) {
		out = append(out, schedrun.Verdict{Property: "C05", Clause: clause, Site: site,
			Detail: fmt.Sprintf("%s\n    registers=%+v relayed=%v stops=%+v pubs=%+v", detail, w.regs, w.relayed, w.stops, w.pubs)})
	}
	if len(s.Panics) > 0 {
		mk("panic", firstLines(s.Panics[0], 14))
		return out
	}
	if s.Deadlock {
		mk("deadlock", "the driver cannot finish:\n"+s.Dump())
		return out
	}
	if s.Capped {
		return nil
	}
	seen := map[string]bool{}
	for _, v := range w.check(sc) {
		if !seen[v.clause] {
			seen[v.clause] = true
			mk(v.clause, v.detail)
		}
	}
	return out
}

func firstLines(s string, n int) string {
	l := strings.Split(s, "\n")
	if len(l) > n {
		l = l[:n]
	}
	return strings.Join(l, "\n")
}

func digest(_ schedrun.Scenario, s *vsched.Sched, o any) string {
	w := o.(*world)
	var rel []string
	for ch, e := range w.relayed {
		rel = append(rel, ch+"="+strings.Join(e, ","))
	}
	sort.Strings(rel)
	var regs []string
	for _, r := range w.regs {
		regs = append(regs, fmt.Sprintf("%d%v%v", r.parent, r.subs, r.failed))
	}
	var st []string
	for _, x := range w.stops {
		st = append(st, x.ch+":"+x.err)
	}
	return fmt.Sprintf("%v|%v|%v|%v|%v", regs, rel, st, len(s.Panics) > 0, s.Deadlock)
}

func describe(ssc schedrun.Scenario, s *vsched.Sched, o any) string {
	w := o.(*world)
	return fmt.Sprintf("  registers=%+v\n  relayed=%v\n  stops=%+v\n  pubs=%+v\n  delivered=%d panics=%d deadlock=%v", w.regs, w.relayed, w.stops, w.pubs, len(w.delivered), len(s.Panics), s.Deadlock)
}

func programs(thorough bool) (cprogs [][]cop, eprogs [][]eop, cprogs2 [][]cop, eprogs2 [][]eop) {
	pub := func(ch string, v uint64) cop { return cop{"pub", ch, v} }
	stop := func(ch string) cop { return cop{"stop", ch, 0} }
	cprogs = [][]cop{
		{pub("P", 1)},
		{pub("P", 1), pub("P", 2)},
		{pub("S", 1)},
		{pub("P", 1), pub("S", 1)},
		{pub("P", 1), stop("P")},
		{pub("P", 1), stop("P"), stop("P")},
		{pub("P", 1), pub("S", 1), stop("S")},
		{pub("P", 1), stop("S"), stop("P")},
		{stop("P"), pub("P", 1)},
		{stop("S"), pub("P", 1)},
		{pub("S", 1), stop("S"), pub("P", 1)},
		{pub("P", 1), pub("P", 2), pub("P", 3)}, // more states than the watcher's internal signals buffer while a Register call is pending
	}
	reg := func(ch string, v uint64) eop { return eop{ch, "reg", v} }
	eprogs = [][]eop{
		{reg("P", 0)},
		{reg("P", 1)},
		{reg("S", 0)},
		{reg("P", 0), reg("P", 1)},
		{reg("P", 0), reg("S", 0)},
		{reg("P", 1), reg("P", 0)},
		{reg("P", 0), {"P", "conc", 0}},
		{reg("P", 2)},
		{{"P", "prog", 1}},
		{reg("S", 1), {"S", "prog", 2}},
	}
	if thorough {
		cprogs = append(cprogs,
			[]cop{pub("P", 1), pub("P", 2), pub("S", 1), stop("S")},
			[]cop{pub("P", 1), stop("P"), stop("S"), stop("P")},
			[]cop{pub("S", 1), pub("S", 2), pub("P", 1)},
			[]cop{pub("P", 1), pub("S", 1), stop("S"), stop("P")},
		)
		eprogs = append(eprogs,
			[]eop{reg("P", 0), reg("P", 1), reg("P", 2)},
			[]eop{reg("S", 0), reg("P", 0), {"P", "conc", 1}},
			[]eop{reg("P", 0), reg("P", 0)},
			[]eop{reg("S", 0), reg("S", 1)},
		)
	}
	// two sub-channels
	cprogs2 = [][]cop{
		{pub("P", 1), pub("T", 1)},
		{pub("S", 1), pub("T", 1), stop("T")},
		{pub("P", 1), stop("S"), stop("P")},
		{stop("T"), stop("S"), stop("P")},
	}
	eprogs2 = [][]eop{
		{reg("P", 0)},
		{reg("T", 0)},
		{reg("S", 0), reg("T", 0)},
	}
	return
}

func scenarios(res *report.Result) []schedrun.Scenario {
	var out []schedrun.Scenario
	add := func(nsubs int, cps [][]cop, eps [][]eop, bound func(c []cop, e []eop) int) {
		for _, cp := range cps {
			for _, ep := range eps {
				sc := scenario{nsubs: nsubs, cprog: cp, eprog: ep}
				c, e := progString(sc)
				n := fmt.Sprintf("%dsub/%s/%s", nsubs, c, e)
				table[n] = sc
				b := bound(cp, ep)
				w := 1
				for i := 0; i < b; i++ {
					w *= 150
				}
				out = append(out, schedrun.Scenario{Name: n, Mode: explore.Delay, Bound: b, MaxSteps: 40000, Weight: w, Postpone: true})
			}
		}
	}
	maxLen := 4
	if res.Thorough() {
		maxLen = 5
	}
	for _, sc := range scripts(maxLen) {
		var ks []string
		for _, st := range sc.script {
			ks = append(ks, st.String())
		}
		n := fmt.Sprintf("script/p0=%d/%s", sc.p0, strings.Join(ks, ","))
		table[n] = sc
		out = append(out, schedrun.Scenario{Name: n, Mode: explore.Delay, Bound: 0, MaxSteps: 40000, Weight: 1})
	}
	// a refused Register call: every sequential history up to length 3 (thorough: 4) once more with
	// the first Register call failing
	failLen := 3
	if res.Thorough() {
		failLen = 4
	}
	for _, sc := range scripts(failLen) {
		var ks []string
		for _, st := range sc.script {
			ks = append(ks, st.String())
		}
		sc.regFail = 1
		n := fmt.Sprintf("script/p0=%d/%s/fail1", sc.p0, strings.Join(ks, ","))
		table[n] = sc
		out = append(out, schedrun.Scenario{Name: n, Mode: explore.Delay, Bound: 0, MaxSteps: 40000, Weight: 1})
	}
	// a finalised sub-channel (final from version 1 on) that the parent still locks: the histories
	// up to length 3 (thorough: 4) in which the sub-channel publishes and is stopped
	for _, sc := range scripts(failLen) {
		var ks []string
		pubS, stopS := false, false
		for _, st := range sc.script {
			ks = append(ks, st.String())
			pubS = pubS || st.Kind == "pub" && st.Ch == "S"
			stopS = stopS || st.Kind == "stop"
		}
		if !pubS || !stopS {
			continue
		}
		sc.finalSub = true
		n := fmt.Sprintf("script/p0=%d/%s/finalsub", sc.p0, strings.Join(ks, ","))
		table[n] = sc
		out = append(out, schedrun.Scenario{Name: n, Mode: explore.Delay, Bound: 0, MaxSteps: 40000, Weight: 1})
	}
	// a sub-channel that is locked in the parent but not watched yet when the event arrives
	for _, sc := range []scenario{
		{nsubs: 1, late: true, script: []step{{"pub", "P", 1}, {"reg", "P", 0}}},
		{nsubs: 1, late: true, script: []step{{"pub", "P", 1}, {"reg", "P", 0}, {"start", "S", 0}}},
		{nsubs: 1, late: true, script: []step{{"pub", "P", 1}, {"reg", "P", 0}, {"start", "S", 1}, {"pub", "S", 2}}},
		{nsubs: 1, late: true, script: []step{{"reg", "P", 0}, {"pub", "P", 1}, {"start", "S", 0}}},
	} {
		var ks []string
		for _, st := range sc.script {
			ks = append(ks, st.String())
		}
		n := "late/" + strings.Join(ks, ",")
		table[n] = sc
		out = append(out, schedrun.Scenario{Name: n, Mode: explore.Delay, Bound: 1, MaxSteps: 40000, Weight: 20, Postpone: true})
	}
	// lagging client: 13 events for one channel (the watcher buffers 10 per channel for the client)
	// are delivered before the client starts to read; all of them must be relayed, in order
	for _, ch := range []string{"P", "S"} {
		for _, first := range []string{"reg", "prog"} {
			ep := []eop{{ch, first, 1}}
			for v := uint64(2); v <= 12; v++ {
				ep = append(ep, eop{ch, "prog", v})
			}
			ep = append(ep, eop{ch, "conc", 12})
			sc := scenario{nsubs: 1, eprog: ep, lag: true}
			n := fmt.Sprintf("lag/%s/%s..conc12", ch, first)
			table[n] = sc
			b := 0
			if res.Thorough() {
				b = 1
			}
			out = append(out, schedrun.Scenario{Name: n, Mode: explore.Delay, Bound: b, MaxSteps: 40000, Weight: 50, Postpone: b > 0})
		}
	}
	cp, ep, cp2, ep2 := programs(res.Thorough())
	if res.Thorough() {
		add(1, cp, ep, func(c []cop, e []eop) int {
			if len(c) <= 3 && len(e) <= 2 {
				return 2
			}
			return 1
		})
		add(2, cp2, ep2, func(c []cop, e []eop) int { return 1 })
	} else {
		add(1, cp, ep, func(c []cop, e []eop) int {
			// two deviations on the smallest programs (one or two publishes, one event) only (every channel has three goroutines in
			// the watcher since the repair f4261e2; the rest of the bound-2 family is thorough)
			if len(e) == 1 && (len(c) == 1 || len(c) == 2 && c[0].Kind == "pub" && c[1].Kind == "pub") {
				return 2
			}
			return 1
		})
		add(2, cp2, ep2, func(c []cop, e []eop) int { return 1 })
	}
	return out
}

// scripts enumerates every sequential history up to the given length over the alphabet
// {publish parent / sub-channel with version +1 or +2 (cap 3), registered event for parent /
// sub-channel with version 0..2, stop watching the sub-channel} that contains a registered event.
func scripts(maxLen int) (out []scenario) {
	for _, p0 := range []uint64{0, 2} {
		var gen func(cur []step, cp, cs uint64, stopped bool, events int)
		gen = func(cur []step, cp, cs uint64, stopped bool, events int) {
			if len(cur) > 0 && events > 0 && cur[len(cur)-1].Kind == "reg" {
				out = append(out, scenario{nsubs: 1, script: append([]step{}, cur...), p0: p0})
			}
			if len(cur) == maxLen {
				return
			}
			for d := uint64(1); d <= 2; d++ {
				if cp+d <= 3 {
					gen(append(cur, step{"pub", "P", cp + d}), cp+d, cs, stopped, events)
				}
				if !stopped && cs+d <= 3 {
					gen(append(cur, step{"pub", "S", cs + d}), cp, cs+d, stopped, events)
				}
			}
			for v := uint64(0); v <= 2; v++ {
				gen(append(cur, step{"reg", "P", v}), cp, cs, stopped, events+1)
				if !stopped {
					gen(append(cur, step{"reg", "S", v}), cp, cs, stopped, events+1)
				}
			}
			if !stopped {
				gen(append(cur, step{"stop", "S", 0}), cp, cs, true, events)
			} else if !restartedOnce(cur) {
				gen(append(cur, step{"start", "S", cs}), cp, cs, false, events)
			}
		}
		gen(nil, p0, 0, false, 0)
	}
	return out
}

func restartedOnce(cur []step) bool {
	for _, st := range cur {
		if st.Kind == "start" {
			return true
		}
	}
	return false
}

func lookup(n string) scenario {
	if sc, ok := table[n]; ok {
		return sc
	}
	for _, tier := range []string{"quick", "thorough"} {
		r := report.New("C05", "watcher")
		r.Tier = tier
		scenarios(r)
	}
	sc, ok := table[n]
	if !ok {
		panic("unknown scenario " + n)
	}
	return sc
}

func TestCheck(t *testing.T) {
	schedrun.Main(t, schedrun.Harness{Name: "watcher", Scenarios: scenarios, Exec: exec, Check: check, Digest: digest, Describe: describe, MaxExecsPerProcess: 8000})
}
