package watcher

// Free-running race audit (DESIGN.md 2.3 (b)): the cooperative scheduler's hand-offs are
// happens-before edges, so unsynchronised accesses inside watcher/local are invisible to the
// exploration. The same client / chain programs and sequential histories are therefore run
// once more with real goroutines under Go's race detector; its reports become violations
// (signature C05:data-race:<functions>). This pass decides nothing else: no oracle, no
// schedule control. The world below is a separate, internally synchronised copy of the
// scripted adjudicator so that the harness itself has no races.

import (
	"context"
	"math/big"
	"os"
	stdsync "sync"
	"sync/atomic"
	"testing"
	"time"

	"perun.network/go-perun/channel"
	"perun.network/go-perun/wallet"
	pwatcher "perun.network/go-perun/watcher"
	"perun.network/go-perun/watcher/local"
	"verif/engine/report"
	"verif/harness/fx"
)

type rsub struct {
	ev     chan channel.AdjudicatorEvent
	closed chan struct{}
	once   stdsync.Once
}

func (s *rsub) Next() channel.AdjudicatorEvent {
	select {
	case e := <-s.ev:
		return e
	case <-s.closed:
		return nil
	}
}
func (s *rsub) Err() error   { return nil }
func (s *rsub) Close() error { s.once.Do(func() { close(s.closed) }); return nil }

type rworld struct {
	mu   stdsync.Mutex
	subs map[channel.ID]*rsub
	regs int
}

func (w *rworld) Subscribe(_ context.Context, id channel.ID) (channel.AdjudicatorSubscription, error) {
	s := &rsub{ev: make(chan channel.AdjudicatorEvent, 8), closed: make(chan struct{})}
	w.mu.Lock()
	w.subs[id] = s
	w.mu.Unlock()
	return s, nil
}

func (w *rworld) Register(context.Context, channel.AdjudicatorReq, []channel.SignedState) error {
	w.mu.Lock()
	w.regs++
	w.mu.Unlock()
	return nil
}

func (w *rworld) sub(id channel.ID) *rsub {
	w.mu.Lock()
	defer w.mu.Unlock()
	return w.subs[id]
}

// raceBody runs one scenario with real goroutines and real (short) waits.
func raceBody(sc scenario) {
	w := &rworld{subs: map[channel.ID]*rsub{}}
	parts := []map[wallet.BackendID]wallet.Address{fx.Addr(0), fx.Addr(1)}
	mk := func(nonce int64, ledger bool) *channel.Params {
		p, err := channel.NewParams(60, parts, channel.NoApp(), big.NewInt(nonce), ledger, false, channel.ZeroAux)
		if err != nil {
			panic(err)
		}
		return p
	}
	pp := mk(7, true)
	subNames := []string{"S", "T"}[:sc.nsubs]
	subParams := map[string]*channel.Params{}
	for i, n := range subNames {
		subParams[n] = mk(int64(99+i), false)
	}
	params := func(ch string) *channel.Params {
		if ch == "P" {
			return pp
		}
		return subParams[ch]
	}
	tx := func(ch string, v uint64) channel.Transaction {
		al := fx.Alloc([]int64{1, 1})
		if ch == "P" {
			al = fx.Alloc([]int64{4, 4})
			for _, n := range subNames {
				al.Locked = append(al.Locked, *channel.NewSubAlloc(subParams[n].ID(), []channel.Bal{big.NewInt(2)}, nil))
			}
		}
		return channel.Transaction{State: &channel.State{ID: params(ch).ID(), Version: v, App: channel.NoApp(), Data: channel.NoData(), Allocation: al}, Sigs: make([]wallet.Sig, 2)}
	}
	wt, _ := local.NewWatcher(w)
	ctx := context.Background()
	var pmu stdsync.Mutex // the script replaces a re-started sub-channel's publisher
	pubs := map[string]pwatcher.StatesPub{}
	var readers stdsync.WaitGroup
	read := func(ev pwatcher.AdjudicatorSub) {
		readers.Add(1)
		go func() {
			defer readers.Done()
			for range ev.EventStream() {
			}
		}()
	}
	p0 := tx("P", sc.p0)
	pub, ev, err := wt.StartWatchingLedgerChannel(ctx, channel.SignedState{Params: pp, State: p0.State, Sigs: p0.Sigs})
	if err != nil {
		panic(err)
	}
	pubs["P"] = pub
	read(ev)
	for _, n := range subNames {
		s0 := tx(n, 0)
		pub, ev, err := wt.StartWatchingSubChannel(ctx, pp.ID(), channel.SignedState{Params: subParams[n], State: s0.State, Sigs: s0.Sigs})
		if err != nil {
			panic(err)
		}
		pubs[n] = pub
		read(ev)
	}
	doClient := func(o cop) {
		switch o.Kind {
		case "pub":
			pmu.Lock()
			p := pubs[o.Ch]
			pmu.Unlock()
			pctx, cancel := context.WithTimeout(ctx, 20*time.Millisecond) // a publish after a stop must not hang the audit
			p.Publish(pctx, tx(o.Ch, o.V))                                //nolint:errcheck
			cancel()
		case "stop":
			wt.StopWatching(ctx, params(o.Ch).ID()) //nolint:errcheck
		case "start":
			s0 := tx(o.Ch, o.V)
			if pub, ev, err := wt.StartWatchingSubChannel(ctx, pp.ID(), channel.SignedState{Params: subParams[o.Ch], State: s0.State, Sigs: s0.Sigs}); err == nil {
				pmu.Lock()
				pubs[o.Ch] = pub
				pmu.Unlock()
				read(ev)
			}
		}
	}
	doChain := func(o eop) {
		id := params(o.Ch).ID()
		var e channel.AdjudicatorEvent
		switch o.Kind {
		case "reg":
			e = channel.NewRegisteredEvent(id, &channel.ElapsedTimeout{}, o.V, nil, nil)
		case "prog":
			e = channel.NewProgressedEvent(id, &channel.ElapsedTimeout{}, tx(o.Ch, o.V).State, 0)
		default:
			e = channel.NewConcludedEvent(id, &channel.ElapsedTimeout{}, o.V)
		}
		s := w.sub(id)
		select {
		case s.ev <- e:
		case <-s.closed:
		}
	}
	var progs stdsync.WaitGroup
	if sc.script != nil {
		for _, st := range sc.script {
			switch st.Kind {
			case "pub", "stop", "start":
				doClient(cop{st.Kind, st.Ch, st.V})
			default:
				doChain(eop{st.Ch, st.Kind, st.V})
			}
			time.Sleep(200 * time.Microsecond)
		}
	} else {
		progs.Add(2)
		go func() {
			defer progs.Done()
			for _, o := range sc.cprog {
				doClient(o)
			}
		}()
		go func() {
			defer progs.Done()
			for _, o := range sc.eprog {
				doChain(o)
			}
		}()
		progs.Wait()
	}
	time.Sleep(3 * time.Millisecond) // the 1 ms drain timer and the handlers it wakes
	// wind down: stop whatever is still watched (sub-channels first) so that no goroutine outlives the run
	for _, n := range subNames {
		wt.StopWatching(ctx, subParams[n].ID()) //nolint:errcheck
	}
	wt.StopWatching(ctx, pp.ID()) //nolint:errcheck
	readers.Wait()
}

func TestRace(t *testing.T) {
	res := report.New("C05", "watcher-race")
	defer res.Write() //nolint:errcheck
	iters, maxScript := 10, 3
	if res.Thorough() {
		iters, maxScript = 30, 4
	}
	var scs []scenario
	cp, ep, cp2, ep2 := programs(res.Thorough())
	for _, c := range cp {
		for _, e := range ep {
			scs = append(scs, scenario{nsubs: 1, cprog: c, eprog: e})
		}
	}
	for _, c := range cp2 {
		for _, e := range ep2 {
			scs = append(scs, scenario{nsubs: 2, cprog: c, eprog: e})
		}
	}
	scs = append(scs, scripts(maxScript)...)
	// independent watcher instances: the scenarios are spread over a few workers
	var wg stdsync.WaitGroup
	var hung atomic.Bool
	next := make(chan scenario)
	for k := 0; k < 8; k++ {
		wg.Add(1)
		go func() {
			defer wg.Done()
			for sc := range next {
				for i := 0; i < iters && !hung.Load(); i++ {
					done := make(chan struct{})
					go func() { raceBody(sc); close(done) }()
					select {
					case <-done:
					case <-time.After(20 * time.Second):
						// free-running, a deadlock of the watcher is a hang: deadlocks are the business of the
						// exploration stage, the audit only gives up (its goroutines are left behind)
						if !hung.Swap(true) {
							res.Cap("race audit abandoned: a free-running run of %v did not end within 20 s (deadlocks are judged by the exploration stage)", sc)
						}
					}
				}
			}
		}()
	}
	for _, sc := range scs {
		next <- sc
		res.Count("evaluations", int64(iters))
		res.Count("scenarios", 1)
	}
	close(next)
	wg.Wait()
	res.Counters["distinct_nontrivial"] = res.Counters["scenarios"]
	res.Note("race audit: %d free-running iterations of each of %d scenarios under -race (GORACE log: %s)", iters, len(scs), os.Getenv("GORACE"))
}
