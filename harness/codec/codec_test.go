// Package codec: engine ENUM over the repository's two envelope serializers and the native
// value codecs. C14: encode/decode round trip (structural comparison), exact consumption,
// agreement of the serializers, stable native encoding. C16: framing independent of how the
// transport delivers the bytes (all cut sets of the families of DESIGN.md enumerated).
// The inputs come from the deterministic catalogue verif/harness/codec/cat.
package codec

import (
	"encoding/json"
	"fmt"
	"os"
	"testing"

	"verif/engine/report"
	"verif/harness/codec/cat"
)

type replayFile struct {
	Replay struct {
		Harness    string   `json:"harness"`
		Property   string   `json:"property"`
		Kind       string   `json:"kind"`
		Entry      string   `json:"entry"`
		Entries    []string `json:"entries"`
		Serializer string   `json:"serializer"`
		Clause     string   `json:"clause"`
		Failing    string   `json:"failing"`
		Cuts       []int    `json:"cuts"`
		Chunk      int      `json:"chunk"`
	} `json:"replay"`
}

func serByName(n string) (cat.Ser, bool) {
	for _, s := range cat.Sers {
		if s.String() == n {
			return s, true
		}
	}
	return 0, false
}

func runReplay(t *testing.T, res *report.Result, path string) {
	b, err := os.ReadFile(path)
	if err != nil {
		t.Fatal(err)
	}
	var f replayFile
	if err := json.Unmarshal(b, &f); err != nil {
		t.Fatal(err)
	}
	rp := f.Replay
	envs := append(append(cat.Envelopes(), cat.ExtraEnvelopes()...), cat.LimitEnvelopes()...)
	if rp.Property == "C14" {
		cat.RegisterSecondChannelBackend()
		envs = append(envs, cat.BackendEnvelopes()...)
	}
	switch rp.Property {
	case "C14":
		h := &c14{res: res, verbose: true}
		fmt.Printf("replay C14 %s entry %q serializer %s (clause reported: %s)\n", rp.Kind, rp.Entry, rp.Serializer, rp.Clause)
		if rp.Kind == "after-failed-encode" {
			s, ok := serByName(rp.Serializer)
			if !ok {
				t.Fatalf("unknown serializer %q", rp.Serializer)
			}
			for _, f := range cat.FailingEnvelopes() {
				for _, e := range envs {
					if f.Name != rp.Failing || e.Name != rp.Entry {
						continue
					}
					ref, _, err, _ := encodeEnv(s, e.New()) // this process has not seen a failing encode yet
					if err != nil {
						t.Fatalf("the entry does not encode: %v", err)
					}
					fmt.Printf("  clean encoding: %d bytes %s\n  then %d rounds of: encode %s (must fail), encode %s\n", len(ref), hexPrefix(ref), failRounds, f.Name, e.Name)
					if !h.afterFailure(s, f, e, ref) {
						fmt.Printf("  the %s serializer does not refuse %s\n", rp.Serializer, f.Name)
					}
				}
			}
		} else if rp.Kind == "value" {
			vals := append(append(cat.Values(), cat.LimitValues()...), cat.BackendValues()...)
			for i := range vals {
				if vals[i].Name == rp.Entry {
					h.checkValue(vals, i)
				}
			}
		} else {
			for i := range envs {
				if envs[i].Name == rp.Entry {
					h.checkEnvelope(envs, i)
					fmt.Printf("  original: %s\n", dump(envs[i].New()))
				}
			}
		}
	case "C16":
		s, ok := serByName(rp.Serializer)
		if !ok {
			t.Fatalf("unknown serializer %q", rp.Serializer)
		}
		byName := map[string]cat.Envelope{}
		for _, e := range envs {
			byName[e.Name] = e
		}
		sc, err := buildStream(byName, rp.Entries, s)
		if err != nil {
			t.Fatal(err)
		}
		cs := cutSet{Cuts: rp.Cuts, Chunk: rp.Chunk}
		fmt.Printf("replay C16 stream %s: %d bytes, frame ends %v, encoder writes at %v\n  cuts %v chunk %d\n  bytes %x\n", sc.name(), len(sc.data), sc.ends, sc.starts, cs.Cuts, cs.Chunk, sc.data)
		h := &c16{res: res, verbose: true, n: 1}
		h.try(sc, cs)
	default:
		t.Fatalf("replay file is not for this harness: %+v", rp)
	}
	if res.NViolations() == 0 {
		fmt.Println("  VERDICT none: the case no longer violates")
	}
	for _, v := range res.Violations {
		fmt.Printf("  VERDICT %s\n    %s\n", v.Signature, v.Detail)
	}
}

func dump(v interface{}) string {
	b, err := json.Marshal(v)
	if err != nil {
		return fmt.Sprintf("%+v", v)
	}
	if len(b) > 3000 {
		b = append(b[:3000], "..."...)
	}
	return string(b)
}

func TestCheck(t *testing.T) {
	prop := os.Getenv("VERIF_PROP")
	if prop == "" {
		prop = "C14"
	}
	res := report.New(prop, "codec")
	defer func() {
		if err := res.Write(); err != nil {
			t.Fatal(err)
		}
	}()
	if p := report.ReplayFile(); p != "" {
		runReplay(t, res, p)
		return
	}
	switch prop {
	case "C14":
		runC14(res)
	case "C16":
		runC16(res)
	default:
		t.Fatalf("harness codec does not serve %s", prop)
	}
}
