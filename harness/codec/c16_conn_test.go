package codec

import (
	"bytes"
	"fmt"

	"perun.network/go-perun/wire"
	wirenet "perun.network/go-perun/wire/net"
	"verif/harness/codec/cat"
)

// Two families of C16 that involve more than one connection. A serializer (and whatever the
// connection type keeps per process) is shared by all connections of an endpoint, so what one
// stream delivers must not depend on what happens on another one.
//
//   - interleaved: while connection A waits for the rest of its envelope (every single cut of
//     A's frame), connection B of the SAME serializer instance receives a complete envelope.
//     One goroutine suffices to model it: A's reader performs B's Recv when it reaches the cut.
//   - send-after-failed-send: an envelope that cannot be encoded is refused by Send on one
//     connection; the next Send of a well-formed envelope on another connection writes exactly
//     the bytes it writes without the preceding failure (3 rounds).

type sink struct{ bytes.Buffer }

func (*sink) Read([]byte) (int, error) { return 0, errPastFrame }
func (*sink) Close() error             { return nil }

// hookConn delivers data[:cut], then calls hook once, then the rest.
type hookConn struct {
	stream
	hook func()
}

func (c *hookConn) Read(p []byte) (int, error) {
	if c.hook != nil && len(c.cuts) == 1 && c.pos == c.cuts[0] {
		h := c.hook
		c.hook = nil
		h()
	}
	return c.stream.Read(p)
}
func (*hookConn) Write([]byte) (int, error) { return 0, errPastFrame }
func (*hookConn) Close() error              { return nil }

func (h *c16) connFamilies(byName map[string]cat.Envelope, envs []cat.Envelope) {
	if h.shard != 0 {
		return
	}
	report := func(clause, site, detail string) {
		sig := fmt.Sprintf("C16:%s:%s", clause, site)
		if h.seen == nil {
			h.seen = map[string]bool{}
		}
		if h.seen[sig] && !h.verbose {
			h.res.Violate("C16", sig, "", nil)
			return
		}
		h.seen[sig] = true
		h.res.Violate("C16", sig, detail, map[string]string{"harness": "codec", "property": "C16", "note": "re-run the check: the multi-connection families are cheap and run as a whole"})
	}
	var reps []cat.Envelope
	for _, e := range envs {
		if e.Rep && !e.Addr2 {
			reps = append(reps, e)
		}
	}
	for _, s := range cat.Sers {
		var ping *streamCase
		for _, e := range reps {
			if e.Msg == "PingMsg" {
				ping, _ = buildStream(byName, []string{e.Name}, s)
			}
		}
		for _, a := range reps {
			if a.Ser != cat.Both && a.Ser != s {
				continue
			}
			sa, err := buildStream(byName, []string{a.Name}, s)
			if err != nil {
				continue
			}
			// --- interleaved
			for _, sb := range []*streamCase{sa, ping} {
				if sb == nil {
					continue
				}
				for cut := 1; cut < len(sa.data); cut++ {
					h.res.Count("evaluations", 1)
					h.res.Count("interleaved_cases", 1)
					ser := s.Serializer() // ONE instance for both connections
					var envB *wire.Envelope
					var errB error
					connB := wirenet.NewIoConn(openConn{&stream{data: sb.data}}, ser)
					ra := &hookConn{stream: stream{data: sa.data, cuts: []int{cut}}}
					ra.hook = func() { errB, _ = guard(func() (e error) { envB, e = connB.Recv(); return }) }
					connA := wirenet.NewIoConn(ra, ser)
					var envA *wire.Envelope
					errA, _ := guard(func() (e error) { envA, e = connA.Recv(); return })
					site := fmt.Sprintf("%s/%s", s, a.Msg)
					switch {
					case errA != nil:
						report("interleaved-decode-fails", site, fmt.Sprintf("[%s cut at %d of %d, another connection of the same serializer receives %s meanwhile] the envelope does not decode: %v", a.Name, cut, len(sa.data), sb.Entries[0], errA))
					case errB != nil:
						report("interleaved-decode-fails", site, fmt.Sprintf("[%s cut at %d, other connection %s] the OTHER connection's envelope does not decode: %v", a.Name, cut, sb.Entries[0], errB))
					case len(structDiff(sa.ref[0], envA)) > 0:
						report("interleaved-decode-differs", site, fmt.Sprintf("[%s cut at %d of %d, another connection of the same serializer receives %s meanwhile] decodes differently: %s", a.Name, cut, len(sa.data), sb.Entries[0], diffPaths(structDiff(sa.ref[0], envA))))
					case len(structDiff(sb.ref[0], envB)) > 0:
						report("interleaved-decode-differs", site, fmt.Sprintf("[%s cut at %d, other connection %s] the OTHER connection's envelope decodes differently: %s", a.Name, cut, sb.Entries[0], diffPaths(structDiff(sb.ref[0], envB))))
					}
				}
			}
			// --- send after a failed send
			for _, f := range cat.FailingEnvelopes() {
				for round := 0; round < 3; round++ {
					h.res.Count("evaluations", 1)
					h.res.Count("send_after_failed_send_cases", 1)
					ser := s.Serializer()
					bad := &sink{}
					errF, _ := guard(func() error { return wirenet.NewIoConn(bad, ser).Send(f.New()) })
					if errF == nil {
						h.res.Count("failing_envelopes_not_refused_by_send", 1) // (protobuf encodes what its decoder refuses: C14's note)
					}
					good := &sink{}
					errG, _ := guard(func() error { return wirenet.NewIoConn(good, ser).Send(byName[a.Name].New()) })
					site := fmt.Sprintf("%s/after=%s", s, f.Name)
					if errG != nil {
						report("send-after-failed-send", site, fmt.Sprintf("[%s, round %d] Send of a well-formed envelope fails after a refused Send on another connection: %v", a.Name, round, errG))
						continue
					}
					if !bytes.Equal(good.Bytes(), sa.data) {
						env, err, _ := decodeEnv(s, &stream{data: good.Bytes()})
						if err != nil || len(structDiff(sa.ref[0], env)) > 0 {
							report("send-after-failed-send", site, fmt.Sprintf("[%s, round %d] after a refused Send on another connection, Send writes %d bytes (%s) instead of the %d bytes of the envelope's encoding (%s); they decode to err=%v", a.Name, round, good.Len(), hexPrefix(good.Bytes()), len(sa.data), hexPrefix(sa.data), err))
						}
					}
				}
			}
		}
	}
}
