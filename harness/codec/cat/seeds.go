package cat

import (
	"bytes"
	"fmt"

	"perun.network/go-perun/wire"
)

// Seed is one valid encoding of a catalogue entry, for harnesses that mutate encodings (C13).
type Seed struct {
	Name string // "<kind>/<entry name>"
	Kind string // "native-envelope" | "protobuf-envelope" | "value:<type>"
	Rep  bool   // the entry is a representative of its type (a small subset suitable for dense mutation)
	// Unstable: repeated encodings of the entry differed (an encoder iterating a Go map); Bytes
	// is then the smallest encoding seen and may vary from run to run.
	Unstable bool
	Bytes    []byte
}

// EncodeEnvelope encodes an envelope with one serializer; a panic of the encoder is returned as an error.
func EncodeEnvelope(s Ser, env *wire.Envelope) (b []byte, err error) {
	defer func() {
		if r := recover(); r != nil {
			err = fmt.Errorf("panic: %v", r)
		}
	}()
	var buf bytes.Buffer
	err = s.Serializer().Encode(&buf, env)
	return buf.Bytes(), err
}

// EncodeValue encodes a value with its native encoder; a panic of the encoder is returned as an error.
func EncodeValue(v Codec) (b []byte, err error) {
	defer func() {
		if r := recover(); r != nil {
			err = fmt.Errorf("panic: %v", r)
		}
	}()
	var buf bytes.Buffer
	err = v.Encode(&buf)
	return buf.Bytes(), err
}

// stable returns the smallest of 16 encodings and whether they differed, so that a seed depends
// as little as possible on the iteration order of a Go map inside an encoder.
func stable(enc func() ([]byte, error)) (best []byte, unstable bool, err error) {
	if best, err = enc(); err != nil {
		return nil, false, err
	}
	for i := 0; i < 15; i++ {
		b, err := enc()
		if err != nil {
			continue
		}
		if c := bytes.Compare(b, best); c != 0 {
			unstable = true
			if c < 0 {
				best = b
			}
		}
	}
	return best, unstable, nil
}

// Seeds returns valid encodings of the whole catalogue: every envelope with every serializer
// that can express it, every value with its native encoder. Entries whose encoder fails are skipped.
func Seeds() (out []Seed) {
	for _, e := range Envelopes() {
		for _, s := range Sers {
			if e.Ser&s == 0 {
				continue
			}
			e, s := e, s
			if b, u, err := stable(func() ([]byte, error) { return EncodeEnvelope(s, e.New()) }); err == nil {
				out = append(out, Seed{Name: s.String() + "-envelope/" + e.Name, Kind: s.String() + "-envelope", Rep: e.Rep, Unstable: u, Bytes: b})
			}
		}
	}
	for _, v := range Values() {
		v := v
		if b, u, err := stable(func() ([]byte, error) { return EncodeValue(v.New()) }); err == nil {
			out = append(out, Seed{Name: "value:" + v.Name, Kind: "value:" + v.Type, Rep: v.Rep, Unstable: u, Bytes: b})
		}
	}
	return
}

// RepSeeds returns the seeds of the representative entries only.
func RepSeeds() (out []Seed) {
	for _, s := range Seeds() {
		if s.Rep {
			out = append(out, s)
		}
	}
	return
}
