// Package cat is the deterministic catalogue of well-formed wire values and envelopes used by
// the codec harnesses (C14 round trip / consumption / stability, C16 chunked framing, C13
// mutation seeds). Everything is produced by nested loops over small dimensions; no random
// number generator is involved anywhere, and - unlike verif/harness/fx, whose ECDSA keys are
// not reproducible from a seeded math/rand under go1.26 - every fixture here is a pure function of
// constants, so names, values and (for stable encoders) bytes are identical from run to run.
//
// Every catalogue entry carries a constructor that returns a FRESH value on each call.
package cat

import (
	"crypto/elliptic"
	"crypto/sha256"
	"crypto/sha512"
	"fmt"
	"math/big"

	"perun.network/go-perun/apps/payment"
	_ "perun.network/go-perun/backend/sim" // registers the sim backends under id 0
	simchannel "perun.network/go-perun/backend/sim/channel"
	simwallet "perun.network/go-perun/backend/sim/wallet"
	simwire "perun.network/go-perun/backend/sim/wire"
	"perun.network/go-perun/channel"
	_ "perun.network/go-perun/client" // registers the decoders of the client message types
	"perun.network/go-perun/wallet"
	"perun.network/go-perun/wire"
)

// SecondBackend is the wallet backend id that cat registers in addition to the sim backend's
// id 0, so that two-entry wallet address maps {0: a, 1: b} can be decoded
// (wallet.AddressDecMap.Decode looks the address type up by the key).
const SecondBackend wallet.BackendID = 1

// SecondBackendRegistered reports whether a wallet backend is available under SecondBackend.
var SecondBackendRegistered bool

// Apps of the catalogue, all registered with channel.RegisterApp under fixed ids.
var (
	// PayApp is the repository's payment app (its data is always channel.NoData).
	PayApp channel.App
	// DataApp is a state app whose data is an arbitrary byte string (states "with app data").
	DataApp channel.App
	// MockApp is the repository's channel.MockApp (8 byte data).
	MockApp channel.App
)

const nPoints = 12

var points [nPoints][2]*big.Int // valid P-256 points; points[nPoints-1] has an X coordinate with a leading zero byte

func init() {
	func() {
		defer func() {
			if recover() != nil {
				SecondBackendRegistered = true // somebody else registered id 1 already
			}
		}()
		wallet.SetBackend(new(simwallet.Backend), int(SecondBackend))
		SecondBackendRegistered = true
	}()
	c := elliptic.P256()
	for i := 0; i < nPoints-1; i++ {
		x, y := c.ScalarBaseMult(big.NewInt(int64(1000 + 17*i)).Bytes())
		points[i] = [2]*big.Int{x, y}
	}
	for k := int64(5000); ; k++ { // deterministic search: first scalar whose X needs left padding
		x, y := c.ScalarBaseMult(big.NewInt(k).Bytes())
		if x.BitLen() <= 248 {
			points[nPoints-1] = [2]*big.Int{x, y}
			break
		}
	}
	PayApp = &payment.App{ID: simchannel.AppID{Address: WalletAddr(8)}}
	DataApp = &dataApp{id: simchannel.AppID{Address: WalletAddr(9)}}
	MockApp = channel.NewMockApp(simchannel.AppID{Address: WalletAddr(10)})
	channel.RegisterApp(PayApp)
	channel.RegisterApp(DataApp)
	channel.RegisterApp(MockApp)
}

// WalletAddr returns a fresh copy of the i-th fixed sim wallet address (a valid P-256 public
// key). WalletAddr(PaddedAddr) has an X coordinate shorter than 32 bytes.
func WalletAddr(i int) *simwallet.Address {
	p := points[i%nPoints]
	return &simwallet.Address{Curve: elliptic.P256(), X: new(big.Int).Set(p[0]), Y: new(big.Int).Set(p[1])}
}

// PaddedAddr is the index of the wallet address whose X coordinate has a leading zero byte.
const PaddedAddr = nPoints - 1

// WireAddr returns a fresh copy of the i-th fixed sim wire address.
func WireAddr(i int) *simwire.Address {
	a := simwire.Address(sha256.Sum256([]byte(fmt.Sprintf("cat/wire-address/%d", i))))
	return &a
}

// Asset returns a fresh copy of the i-th sim asset.
func Asset(i int) channel.Asset { return &simchannel.Asset{ID: uint64(0xA0 + i)} }

// ID32 derives a fixed 32 byte identifier from a label.
func ID32(label string) [32]byte { return sha256.Sum256([]byte("cat/id/" + label)) }

// Sig returns a fixed well-formed (64 byte) sim signature for a label. The codecs do not verify
// signatures; the bytes are sha512(label), which makes every slot distinguishable.
func Sig(label string) wallet.Sig {
	h := sha512.Sum512([]byte("cat/sig/" + label))
	return append([]byte{}, h[:]...)
}

// BalKinds is the number of balance values of Bal.
const BalKinds = 4

// Bal returns a fresh balance: 0, 1, 2^64, 2^1023 (the last needs the maximal 128 bytes).
func Bal(k int) channel.Bal {
	switch k % BalKinds {
	case 0:
		return big.NewInt(0)
	case 1:
		return big.NewInt(1)
	case 2:
		return new(big.Int).Lsh(big.NewInt(1), 64)
	default:
		return new(big.Int).Lsh(big.NewInt(1), 1023)
	}
}

// MapKind enumerates the shapes of an address map.
type MapKind int

// Shapes of address maps: nil, empty, one entry under backend 0, one entry under backend 1,
// two entries {0, 1}.
const (
	MapNil MapKind = iota
	MapEmpty
	MapOne0
	MapOne1
	MapTwo
	NumMapKinds
)

func (k MapKind) String() string {
	return [...]string{"nil", "empty", "one@0", "one@1", "two"}[k]
}

// Entries is the number of entries of a map of this kind.
func (k MapKind) Entries() int { return [...]int{0, 0, 1, 1, 2}[k] }

// WalletMap builds a fresh wallet address map of the given shape from the fixed addresses i, i+1.
func WalletMap(k MapKind, i int) map[wallet.BackendID]wallet.Address {
	switch k {
	case MapNil:
		return nil
	case MapEmpty:
		return map[wallet.BackendID]wallet.Address{}
	case MapOne0:
		return map[wallet.BackendID]wallet.Address{0: WalletAddr(i)}
	case MapOne1:
		return map[wallet.BackendID]wallet.Address{SecondBackend: WalletAddr(i)}
	default:
		return map[wallet.BackendID]wallet.Address{0: WalletAddr(i), SecondBackend: WalletAddr(i + 1)}
	}
}

// WireMap builds a fresh wire address map of the given shape from the fixed addresses i, i+1.
func WireMap(k MapKind, i int) map[wallet.BackendID]wire.Address {
	switch k {
	case MapNil:
		return nil
	case MapEmpty:
		return map[wallet.BackendID]wire.Address{}
	case MapOne0:
		return map[wallet.BackendID]wire.Address{0: WireAddr(i)}
	case MapOne1:
		return map[wallet.BackendID]wire.Address{SecondBackend: WireAddr(i)}
	default:
		return map[wallet.BackendID]wire.Address{0: WireAddr(i), SecondBackend: WireAddr(i + 1)}
	}
}

// IdxKind enumerates the shapes of an index map.
type IdxKind int

// Shapes of index maps.
const (
	IdxNil IdxKind = iota
	IdxEmpty
	IdxIdentity
	IdxSwapped
	NumIdxKinds
)

func (k IdxKind) String() string { return [...]string{"nil", "empty", "id", "swap"}[k] }

// IndexMap builds a fresh index map over n participants.
func IndexMap(k IdxKind, n int) []channel.Index {
	switch k {
	case IdxNil:
		return nil
	case IdxEmpty:
		return []channel.Index{}
	}
	m := make([]channel.Index, n)
	for i := range m {
		m[i] = channel.Index(i)
	}
	if k == IdxSwapped && n >= 2 {
		m[0], m[1] = 1, 0
	}
	return m
}

// AppKind enumerates the apps (and app data) of states, proposals and parameters.
type AppKind int

// Apps: none (NoApp/NoData), payment (NoData), data app with 0 / 1 / 300 bytes, mock app.
const (
	AppNone AppKind = iota
	AppPayment
	AppData0
	AppData1
	AppData300
	AppMock
	NumAppKinds
)

func (k AppKind) String() string {
	return [...]string{"none", "payment", "data0", "data1", "data300", "mock"}[k]
}

// App returns the app of this kind.
func (k AppKind) App() channel.App {
	switch k {
	case AppNone:
		return channel.NoApp()
	case AppPayment:
		return PayApp
	case AppMock:
		return MockApp
	default:
		return DataApp
	}
}

// Data returns fresh app data of this kind.
func (k AppKind) Data() channel.Data {
	switch k {
	case AppNone, AppPayment:
		return channel.NoData()
	case AppMock:
		return channel.NewMockOp(channel.MockOp(0x0102030405060708))
	case AppData0:
		return &BytesData{}
	case AppData1:
		return &BytesData{B: []byte{0x5a}}
	default:
		return LongData(300)
	}
}

// LongData returns DataApp data of n bytes (fixed pattern).
func LongData(n int) *BytesData {
	b := make([]byte, n)
	for i := range b {
		b[i] = byte(i*7 + 3)
	}
	return &BytesData{B: b}
}

// BytesData is the data of DataApp: an arbitrary byte string.
type BytesData struct{ B []byte }

// MarshalBinary returns the bytes.
func (d *BytesData) MarshalBinary() ([]byte, error) { return append([]byte{}, d.B...), nil }

// UnmarshalBinary stores the bytes.
func (d *BytesData) UnmarshalBinary(b []byte) error { d.B = append([]byte{}, b...); return nil }

// Clone copies the data.
func (d *BytesData) Clone() channel.Data { return &BytesData{B: append([]byte{}, d.B...)} }

type dataApp struct{ id channel.AppID }

func (a *dataApp) Def() channel.AppID                              { return a.id }
func (a *dataApp) NewData() channel.Data                           { return &BytesData{} }
func (a *dataApp) ValidInit(*channel.Params, *channel.State) error { return nil }
func (a *dataApp) ValidTransition(*channel.Params, *channel.State, *channel.State, channel.Index) error {
	return nil
}

// Aux returns the auxiliary data of a kind: 0 = zero, otherwise a fixed non-zero pattern.
func Aux(kind int) channel.Aux {
	var a channel.Aux
	if kind != 0 {
		for i := range a {
			a[i] = byte(i + kind)
		}
	}
	return a
}

// Nonce returns a nonce whose big-endian representation has exactly n bytes (n in 1..32).
func Nonce(n int) channel.Nonce {
	b := make([]byte, n)
	for i := range b {
		b[i] = byte(0x80 | (i + n))
	}
	return new(big.Int).SetBytes(b)
}
