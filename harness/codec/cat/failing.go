package cat

import (
	"math"
	"math/big"

	"perun.network/go-perun/channel"
	"perun.network/go-perun/client"
	"perun.network/go-perun/wire"
)

// Failing is an envelope whose message an encoder must REFUSE, and refuses only part-way:
// by the time the offending field is met, the type byte and the fields in front of it have
// already been produced. The envelopes are not well-formed and are never judged themselves;
// they are the first half of the sequences "an encoding fails, then a well-formed envelope
// is encoded" of C14 (an encoder must not carry anything over from a failed call into the
// next one).
type Failing struct {
	Name string // "<message type>.<what is wrong>"
	New  func() *wire.Envelope
}

func failingEnv(m wire.Msg) *wire.Envelope {
	return &wire.Envelope{Sender: WireMap(MapOne0, 0), Recipient: WireMap(MapOne0, 2), Msg: m}
}

// FailingEnvelopes lists the failing envelopes: strings one byte longer than their 16 bit
// length field (after 0, 32 and 40 bytes of other fields), an update whose allocation is
// invalid (negative balance: refused by Allocation.Valid after id and version of the state),
// an update and a funding agreement with an amount of 129 bytes (refused by the big integer
// codec in the middle of the balances, in the proposal after the whole initial allocation).
// Which of them a serializer really refuses is observed, not assumed (the protobuf converters
// refuse fewer). An update with 1025 sub-allocations is refused at the same point as the
// negative balance and is left out: Allocation.Encode formats the whole invalid allocation
// into its error, which costs 3 ms per call.
func FailingEnvelopes() []Failing {
	long := Text(math.MaxUint16 + 1)
	tooBig := new(big.Int).Lsh(big.NewInt(1), 8*LimAmountBytes) // 2^1024: 129 bytes
	upd := func(edit func(a *channel.Allocation)) func() *wire.Envelope {
		return func() *wire.Envelope {
			d := LimAlloc{Name: "failing", Assets: 2, Parts: 2, Locked: 1, Idx: IdxIdentity}
			m := limUpdate(d, AppData1, 1)
			edit(&m.State.Allocation)
			return failingEnv(&m)
		}
	}
	return []Failing{
		{"ShutdownMsg.reason=65536-bytes", func() *wire.Envelope { return failingEnv(&wire.ShutdownMsg{Reason: long}) }},
		{"ChannelProposalRejMsg.reason=65536-bytes", func() *wire.Envelope {
			return failingEnv(&client.ChannelProposalRejMsg{ProposalID: ID32("failing/rej"), Reason: long})
		}},
		{"ChannelUpdateRejMsg.reason=65536-bytes", func() *wire.Envelope {
			return failingEnv(&client.ChannelUpdateRejMsg{ChannelID: ID32("failing/updrej"), Version: 7, Reason: long})
		}},
		{"ChannelUpdateMsg.negative-balance", upd(func(a *channel.Allocation) { a.Balances[1][1] = big.NewInt(-1) })},
		{"ChannelUpdateMsg.balance=129-bytes", upd(func(a *channel.Allocation) { a.Balances[1][0] = new(big.Int).Set(tooBig) })},
		{"LedgerChannelProposalMsg.funding-agreement=129-bytes", func() *wire.Envelope {
			d := LimAlloc{Name: "failing", Assets: 2, Parts: 2}
			fa := d.Balances()
			fa[1][1] = new(big.Int).Set(tooBig)
			return failingEnv(&client.LedgerChannelProposalMsg{BaseChannelProposal: limProposal(d, fa), Participant: WalletMap(MapOne0, 1), Peers: limPeers(2)})
		}},
	}
}
