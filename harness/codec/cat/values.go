package cat

import (
	"fmt"
	"io"
	"math"
	"math/big"
	"strings"
	"time"

	"perun.network/go-perun/channel"
	"perun.network/go-perun/wallet"
	"perun.network/go-perun/wire"
	"perun.network/go-perun/wire/perunio"
)

// Codec is a value with a native (perunio) encoding: every value entry hands out pointers that
// implement both directions.
type Codec interface {
	perunio.Encoder
	perunio.Decoder
}

// Value is one entry of a value catalogue.
type Value struct {
	Name string
	Type string       // value type, e.g. "channel.State"
	Rep  bool         // small representative of its type (used to pick seeds for mutation)
	New  func() Codec // a fresh instance of the value
	Zero func() Codec // a fresh zero value of the same type to decode into
}

// BalPatterns is the number of balance patterns of AllocSpec.Bal: 0..3 fill every cell with
// Bal(p); 4..7 rotate the four values over the cells starting at a different one.
const BalPatterns = 8

func balAt(pattern, cell int) channel.Bal {
	if pattern < BalKinds {
		return Bal(pattern)
	}
	return Bal(cell + pattern)
}

// AllocSpec describes an allocation.
type AllocSpec struct {
	Assets, Parts int
	Subs          int        // number of sub-allocations (0..2)
	Maps          [2]IdxKind // index map shape of each sub-allocation
	Bal           int        // balance pattern 0..BalPatterns-1
}

// Name is the stable name of the spec.
func (s AllocSpec) Name() string {
	subs := ""
	for i := 0; i < s.Subs; i++ {
		if i > 0 {
			subs += ","
		}
		subs += s.Maps[i].String()
	}
	return fmt.Sprintf("a%dp%ds%d(%s)b%d", s.Assets, s.Parts, s.Subs, subs, s.Bal)
}

// Balances builds the balances of the spec.
func (s AllocSpec) Balances() channel.Balances {
	b := make(channel.Balances, s.Assets)
	for i := range b {
		b[i] = make([]channel.Bal, s.Parts)
		for j := range b[i] {
			b[i][j] = balAt(s.Bal, i*s.Parts+j)
		}
	}
	return b
}

// Build builds the allocation.
func (s AllocSpec) Build() *channel.Allocation {
	a := &channel.Allocation{Balances: s.Balances()}
	for i := 0; i < s.Assets; i++ {
		a.Backends = append(a.Backends, 0)
		a.Assets = append(a.Assets, Asset(i))
	}
	for k := 0; k < s.Subs; k++ {
		a.Locked = append(a.Locked, *SubAllocSpec{Assets: s.Assets, Parts: s.Parts, Map: s.Maps[k], Bal: s.Bal + k + 1, Label: fmt.Sprintf("%s/%d", s.Name(), k)}.Build())
	}
	return a
}

// SubAllocSpec describes a sub-allocation.
type SubAllocSpec struct {
	Assets, Parts int
	Map           IdxKind
	Bal           int
	Label         string
}

// Build builds the sub-allocation (as a struct literal: NewSubAlloc would turn a nil index map into an empty one).
func (s SubAllocSpec) Build() *channel.SubAlloc {
	sa := &channel.SubAlloc{ID: ID32("sub/" + s.Label), IndexMap: IndexMap(s.Map, s.Parts)}
	for i := 0; i < s.Assets; i++ {
		sa.Bals = append(sa.Bals, balAt(s.Bal%BalPatterns, i))
	}
	return sa
}

// subConfigs enumerates the sub-allocation configurations: none, one (4 index map shapes), two (16).
func subConfigs() (out []struct {
	N    int
	Maps [2]IdxKind
}) {
	add := func(n int, a, b IdxKind) {
		out = append(out, struct {
			N    int
			Maps [2]IdxKind
		}{n, [2]IdxKind{a, b}})
	}
	add(0, 0, 0)
	for a := IdxKind(0); a < NumIdxKinds; a++ {
		add(1, a, 0)
	}
	for a := IdxKind(0); a < NumIdxKinds; a++ {
		for b := IdxKind(0); b < NumIdxKinds; b++ {
			add(2, a, b)
		}
	}
	return
}

// AllocSpecs enumerates assets 1..3 x participants 2..3 x sub-allocation configurations x balance patterns.
func AllocSpecs() (out []AllocSpec) {
	for a := 1; a <= 3; a++ {
		for p := 2; p <= 3; p++ {
			for _, sc := range subConfigs() {
				for b := 0; b < BalPatterns; b++ {
					out = append(out, AllocSpec{Assets: a, Parts: p, Subs: sc.N, Maps: sc.Maps, Bal: b})
				}
			}
		}
	}
	return
}

// StateSpec describes a state.
type StateSpec struct {
	AllocSpec
	App     AppKind
	Final   bool
	DataLen int // > 0: DataApp with that many bytes of data (overrides App)
}

// Name is the stable name of the spec.
func (s StateSpec) Name() string {
	n := s.AllocSpec.Name() + "/" + s.App.String()
	if s.DataLen > 0 {
		n = fmt.Sprintf("%s/data%d", s.AllocSpec.Name(), s.DataLen)
	}
	if s.Final {
		n += "/final"
	}
	return n
}

var versions = [...]uint64{0, 1, 1 << 40, math.MaxUint64}

// Build builds the state. ID and version are functions of the spec.
func (s StateSpec) Build() *channel.State {
	st := &channel.State{
		ID:         ID32("state/" + s.Name()),
		Version:    versions[(s.Assets+s.Parts+s.Subs+s.Bal+int(s.App))%len(versions)],
		Allocation: *s.AllocSpec.Build(),
		App:        s.App.App(),
		Data:       s.App.Data(),
		IsFinal:    s.Final,
	}
	if s.DataLen > 0 {
		st.App, st.Data = DataApp, LongData(s.DataLen)
	}
	return st
}

// StateSpecs is the full product AllocSpecs x apps x final flag.
func StateSpecs() (out []StateSpec) {
	for _, a := range AllocSpecs() {
		for app := AppKind(0); app < NumAppKinds; app++ {
			for _, fin := range []bool{false, true} {
				out = append(out, StateSpec{AllocSpec: a, App: app, Final: fin})
			}
		}
	}
	return
}

// MsgStateSpecs is the subset of the state space used inside messages: every combination of
// (assets, participants, sub-allocation configuration); balance pattern, app and final flag
// cycle with the position so that each of their values occurs with every dimension.
func MsgStateSpecs() (out []StateSpec) {
	i := 0
	for a := 1; a <= 3; a++ {
		for p := 2; p <= 3; p++ {
			for _, sc := range subConfigs() {
				out = append(out, StateSpec{AllocSpec: AllocSpec{Assets: a, Parts: p, Subs: sc.N, Maps: sc.Maps, Bal: (i + a) % BalPatterns},
					App: AppKind((i + p) % int(NumAppKinds)), Final: (i/3)%2 == 1})
				i++
			}
		}
	}
	return
}

// SmallStateSpecs is a 12-element subset (assets {1,3} x participants {2,3} x three sub-allocation configurations).
func SmallStateSpecs() (out []StateSpec) {
	i := 0
	for _, a := range []int{1, 3} {
		for p := 2; p <= 3; p++ {
			for _, sc := range []struct {
				n    int
				maps [2]IdxKind
			}{{0, [2]IdxKind{}}, {1, [2]IdxKind{IdxIdentity}}, {2, [2]IdxKind{IdxNil, IdxSwapped}}} {
				out = append(out, StateSpec{AllocSpec: AllocSpec{Assets: a, Parts: p, Subs: sc.n, Maps: sc.maps, Bal: (2*i + 5) % BalPatterns},
					App: AppKind(i % int(NumAppKinds)), Final: i%2 == 1})
				i++
			}
		}
	}
	return
}

// Big states: BigState1500 encodes to more than 1500 bytes, BigState4096 (long app data) and
// BigStateAssets (24 assets) to more than 4096 bytes.
var (
	BigState1500   = StateSpec{AllocSpec: AllocSpec{Assets: 3, Parts: 3, Subs: 2, Maps: [2]IdxKind{IdxIdentity, IdxSwapped}, Bal: 3}, App: AppPayment}
	BigState4096   = StateSpec{AllocSpec: AllocSpec{Assets: 2, Parts: 2, Subs: 1, Maps: [2]IdxKind{IdxSwapped}, Bal: 6}, DataLen: 4200}
	BigStateAssets = StateSpec{AllocSpec: AllocSpec{Assets: 24, Parts: 3, Subs: 1, Maps: [2]IdxKind{IdxIdentity}, Bal: 3}, App: AppMock, Final: true}
)

// ParamsSpec describes channel parameters.
type ParamsSpec struct {
	Parts    int
	NonceLen int // bytes: 1, 31, 32
	App      AppKind
	Ledger   bool
	Virtual  bool
	Duration uint64
	Aux      int
}

// Name is the stable name of the spec.
func (s ParamsSpec) Name() string {
	return fmt.Sprintf("p%dn%d/%s/l%vv%v/d%d/aux%d", s.Parts, s.NonceLen, s.App, b2i(s.Ledger), b2i(s.Virtual), s.Duration, s.Aux)
}

func b2i(b bool) int {
	if b {
		return 1
	}
	return 0
}

// Build builds the parameters through channel.NewParams.
func (s ParamsSpec) Build() *channel.Params {
	parts := make([]map[wallet.BackendID]wallet.Address, s.Parts)
	for i := range parts {
		parts[i] = WalletMap(MapOne0, i)
	}
	if s.Parts == 3 {
		parts[2] = WalletMap(MapOne0, PaddedAddr)
	}
	p, err := channel.NewParams(s.Duration, parts, s.App.App(), Nonce(s.NonceLen), s.Ledger, s.Virtual, Aux(s.Aux))
	if err != nil {
		panic("cat: " + err.Error())
	}
	return p
}

// ParamsSpecs enumerates participants 2..3 x nonce lengths {1,31,32} x apps x flags x duration x aux.
func ParamsSpecs() (out []ParamsSpec) {
	for p := 2; p <= 3; p++ {
		for _, nl := range []int{1, 31, 32} {
			for _, app := range []AppKind{AppNone, AppPayment, AppData0, AppMock} {
				for fl := 0; fl < 4; fl++ {
					for _, d := range []uint64{1, 60, math.MaxUint64} {
						for aux := 0; aux < 2; aux++ {
							out = append(out, ParamsSpec{Parts: p, NonceLen: nl, App: app, Ledger: fl&1 != 0, Virtual: fl&2 != 0, Duration: d, Aux: aux})
						}
					}
				}
			}
		}
	}
	return
}

// SmallParamsSpecs: participants x nonce lengths, the rest cycling.
func SmallParamsSpecs(parts int) (out []ParamsSpec) {
	for i, nl := range []int{1, 31, 32} {
		out = append(out, ParamsSpec{Parts: parts, NonceLen: nl, App: []AppKind{AppNone, AppPayment, AppData0}[i], Ledger: i != 1, Virtual: i == 1, Duration: uint64(60 + i), Aux: i % 2})
	}
	return
}

// SigSubset returns n signature slots of which exactly those with a set bit in mask are filled
// (the others are nil = absent).
func SigSubset(label string, n int, mask int) []wallet.Sig {
	sigs := make([]wallet.Sig, n)
	for i := range sigs {
		if mask&(1<<i) != 0 {
			sigs[i] = Sig(fmt.Sprintf("%s/%d", label, i))
		}
	}
	return sigs
}

func maskName(n, mask int) string {
	s := ""
	for i := 0; i < n; i++ {
		if mask&(1<<i) != 0 {
			s += "S"
		} else {
			s += "-"
		}
	}
	return s
}

// TxSpec describes a transaction: a state with one signature slot per participant, any subset
// filled; Empty is the transaction without state.
type TxSpec struct {
	State StateSpec
	Mask  int
	Empty bool
}

// Name is the stable name of the spec.
func (s TxSpec) Name() string {
	if s.Empty {
		return "empty"
	}
	return s.State.Name() + "/sigs=" + maskName(s.State.Parts, s.Mask)
}

// Build builds the transaction.
func (s TxSpec) Build() *channel.Transaction {
	if s.Empty {
		return &channel.Transaction{}
	}
	return &channel.Transaction{State: s.State.Build(), Sigs: SigSubset("tx/"+s.Name(), s.State.Parts, s.Mask)}
}

// TxSpecs: the small state subset x every subset of signatures, plus the empty transaction.
func TxSpecs() (out []TxSpec) {
	out = append(out, TxSpec{Empty: true})
	for _, st := range SmallStateSpecs() {
		for mask := 0; mask < 1<<st.Parts; mask++ {
			out = append(out, TxSpec{State: st, Mask: mask})
		}
	}
	return
}

func val[T any, P interface {
	*T
	Codec
}](typ, name string, rep bool, mk func() P) Value {
	return Value{Name: typ + "/" + name, Type: typ, Rep: rep, New: func() Codec { return mk() }, Zero: func() Codec { return P(new(T)) }}
}

// States is the state catalogue (full product plus the big ones).
func States() (out []Value) {
	for i, s := range StateSpecs() {
		s := s
		out = append(out, val("channel.State", s.Name(), i == 1000, s.Build))
	}
	for _, s := range []StateSpec{BigState1500, BigState4096, BigStateAssets} {
		s := s
		out = append(out, val("channel.State", "big/"+s.Name(), false, s.Build))
	}
	return
}

// Allocations is the allocation catalogue.
func Allocations() (out []Value) {
	for i, s := range AllocSpecs() {
		s := s
		out = append(out, val("channel.Allocation", s.Name(), i == 500, s.Build))
	}
	return
}

// Balances is the catalogue of balances (including the empty one).
func Balances() (out []Value) {
	out = append(out, val("channel.Balances", "empty", false, func() *channel.Balances { return &channel.Balances{} }))
	for a := 1; a <= 3; a++ {
		for p := 2; p <= 3; p++ {
			for b := 0; b < BalPatterns; b++ {
				s := AllocSpec{Assets: a, Parts: p, Bal: b}
				out = append(out, val("channel.Balances", fmt.Sprintf("a%dp%db%d", a, p, b), a == 2 && p == 2 && b == 5, func() *channel.Balances { x := s.Balances(); return &x }))
			}
		}
	}
	return
}

// SubAllocs is the catalogue of sub-allocations.
func SubAllocs() (out []Value) {
	for a := 1; a <= 3; a++ {
		for k := IdxKind(0); k < NumIdxKinds; k++ {
			for b := 0; b < BalPatterns; b++ {
				s := SubAllocSpec{Assets: a, Parts: 2 + b%2, Map: k, Bal: b, Label: "value"}
				out = append(out, val("channel.SubAlloc", fmt.Sprintf("a%d/%s/b%d", a, k, b), a == 2 && k == IdxSwapped && b == 5, s.Build))
			}
		}
	}
	return
}

// Params is the catalogue of channel parameters.
func Params() (out []Value) {
	for i, s := range ParamsSpecs() {
		s := s
		out = append(out, val("channel.Params", s.Name(), i == 100, s.Build))
	}
	return
}

// Transactions is the catalogue of transactions.
func Transactions() (out []Value) {
	for i, s := range TxSpecs() {
		s := s
		out = append(out, val("channel.Transaction", s.Name(), i == 0 || i == 20, s.Build))
	}
	return
}

// arrShapes enumerates the shapes of address map arrays: every sequence of up to two map
// kinds, and one of length three.
func arrShapes() (out [][]MapKind) {
	out = append(out, nil, []MapKind{})
	for a := MapKind(0); a < NumMapKinds; a++ {
		out = append(out, []MapKind{a})
		for b := MapKind(0); b < NumMapKinds; b++ {
			out = append(out, []MapKind{a, b})
		}
	}
	out = append(out, []MapKind{MapOne0, MapTwo, MapOne1})
	return
}

func shapeName(sh []MapKind) string {
	if sh == nil {
		return "nil"
	}
	var p []string
	for _, k := range sh {
		p = append(p, k.String())
	}
	return "[" + strings.Join(p, ",") + "]"
}

// AddressMaps is the catalogue of wallet and wire address maps (0, 1, 2 entries) and arrays of them.
func AddressMaps() (out []Value) {
	for k := MapKind(0); k < NumMapKinds; k++ {
		k := k
		out = append(out,
			val("wallet.AddressDecMap", k.String(), k == MapTwo, func() *wallet.AddressDecMap { m := wallet.AddressDecMap(WalletMap(k, 2)); return &m }),
			val("wire.AddressDecMap", k.String(), k == MapTwo, func() *wire.AddressDecMap { m := wire.AddressDecMap(WireMap(k, 2)); return &m }))
		if k == MapOne0 {
			out = append(out, val("wallet.AddressDecMap", k.String()+"/padded", false, func() *wallet.AddressDecMap { m := wallet.AddressDecMap(WalletMap(k, PaddedAddr)); return &m }))
		}
	}
	for _, sh := range arrShapes() {
		sh := sh
		rep := len(sh) == 2 && sh[0] == MapOne0 && sh[1] == MapTwo
		out = append(out,
			val("wallet.AddressMapArray", shapeName(sh), rep, func() *wallet.AddressMapArray {
				a := &wallet.AddressMapArray{}
				if sh != nil {
					a.Addr = []map[wallet.BackendID]wallet.Address{}
				}
				for i, k := range sh {
					a.Addr = append(a.Addr, WalletMap(k, 2*i))
				}
				return a
			}),
			val("wire.AddressMapArray", shapeName(sh), rep, func() *wire.AddressMapArray {
				var a wire.AddressMapArray
				if sh != nil {
					a = wire.AddressMapArray{}
				}
				for i, k := range sh {
					a = append(a, WireMap(k, 2*i))
				}
				return &a
			}))
	}
	return
}

// Scalars is the catalogue of the small codecs: Index, Phase, big integers, strings, times.
func Scalars() (out []Value) {
	for _, i := range []channel.Index{0, 1, 255, 256, math.MaxUint16} {
		i := i
		out = append(out, val("channel.Index", fmt.Sprint(i), i == 256, func() *channel.Index { x := i; return &x }))
	}
	for p := 0; p <= channel.LastPhase+1; p++ {
		ph := channel.Phase(p)
		if p == channel.LastPhase+1 {
			ph = math.MaxUint8
		}
		out = append(out, val("channel.Phase", fmt.Sprint(uint8(ph)), p == 3, func() *channel.Phase { x := ph; return &x }))
	}
	bigs := []*big.Int{big.NewInt(0), big.NewInt(1), big.NewInt(255), big.NewInt(256), Bal(2), Bal(3),
		new(big.Int).Sub(new(big.Int).Lsh(big.NewInt(1), 1024), big.NewInt(1))}
	for i, b := range bigs {
		b := b
		out = append(out, val("perunio.BigInt", fmt.Sprintf("%d/%dbit", i, b.BitLen()), i == 4, func() *perunio.BigInt { return &perunio.BigInt{Int: new(big.Int).Set(b)} }))
	}
	for _, n := range []int{0, 1, 255, 256, math.MaxUint16} {
		n := n
		out = append(out, val("cat.String", fmt.Sprintf("len%d", n), n == 255, func() *String { s := String(Text(n)); return &s }))
	}
	for _, n := range []int64{0, 1, -1, 1_700_000_000_123_456_789, math.MaxInt64, math.MinInt64} {
		n := n
		out = append(out, val("cat.Time", fmt.Sprint(n), n == 1, func() *Time { t := Time(time.Unix(0, n)); return &t }))
	}
	return
}

// Values is the concatenation of all value catalogues.
func Values() (out []Value) {
	for _, f := range []func() []Value{States, Allocations, Balances, SubAllocs, Params, Transactions, AddressMaps, Scalars} {
		out = append(out, f()...)
	}
	return
}

// Text returns a fixed printable string of n bytes.
func Text(n int) string {
	const alphabet = "the quick brown fox jumps over the lazy dog 0123456789 "
	var sb strings.Builder
	for sb.Len() < n {
		sb.WriteString(alphabet)
	}
	return sb.String()[:n]
}

// String and Time give perunio's string and time codecs (perunio.Encode / perunio.Decode) the Codec shape.
type (
	String string
	Time   time.Time
)

// Encode encodes the string.
func (s String) Encode(w io.Writer) error { return perunio.Encode(w, string(s)) }

// Decode decodes the string.
func (s *String) Decode(r io.Reader) error { return perunio.Decode(r, (*string)(s)) }

// Encode encodes the time.
func (t Time) Encode(w io.Writer) error { return perunio.Encode(w, time.Time(t)) }

// Decode decodes the time.
func (t *Time) Decode(r io.Reader) error { return perunio.Decode(r, (*time.Time)(t)) }
