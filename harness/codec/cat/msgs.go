package cat

import (
	"fmt"
	"math"
	"time"

	"perun.network/go-perun/channel"
	"perun.network/go-perun/client"
	"perun.network/go-perun/wallet"
	"perun.network/go-perun/wire"
	perunioserializer "perun.network/go-perun/wire/perunio/serializer"
	"perun.network/go-perun/wire/protobuf"
)

// Ser is a set of envelope serializers.
type Ser uint8

// The two envelope serializers of the repository.
const (
	Native   Ser = 1
	Protobuf Ser = 2
	Both         = Native | Protobuf
)

// Sers lists the serializers in a fixed order.
var Sers = []Ser{Native, Protobuf}

func (s Ser) String() string {
	switch s {
	case Native:
		return "native"
	case Protobuf:
		return "protobuf"
	case Both:
		return "native+protobuf"
	}
	return fmt.Sprintf("ser(%d)", uint8(s))
}

// Serializer returns the repository's envelope serializer.
func (s Ser) Serializer() wire.EnvelopeSerializer {
	if s == Protobuf {
		return protobuf.Serializer()
	}
	return perunioserializer.Serializer()
}

// Envelope is one entry of the envelope catalogue.
type Envelope struct {
	Name string    // "<message type>/<variant>"
	Msg  string    // message type, e.g. "ChannelUpdateMsg"
	Type wire.Type // wire type byte
	Ser  Ser       // serializers that can express the message
	Rep  bool      // representative of its message type for stream tests (rich but small)
	Big  int       // 1500 / 4096: the native encoding is longer than that many bytes (0: not a designated big entry)
	// Addr2: the envelope contains a two-entry address map (whose native encoding depends on
	// map iteration order in the pinned tree); stream tests avoid these entries.
	Addr2 bool
	// NoStream marks a big entry that is too long for the quick tier of the chunked stream tests.
	NoStream bool
	New      func() *wire.Envelope
}

// MsgTypes lists the 17 message types in wire type order.
var MsgTypes = []string{"PingMsg", "PongMsg", "ShutdownMsg", "AuthResponseMsg", "LedgerChannelProposalMsg", "LedgerChannelProposalAccMsg",
	"SubChannelProposalMsg", "SubChannelProposalAccMsg", "VirtualChannelProposalMsg", "VirtualChannelProposalAccMsg", "ChannelProposalRejMsg",
	"ChannelUpdateMsg", "VirtualChannelFundingProposalMsg", "VirtualChannelSettlementProposalMsg", "ChannelUpdateAccMsg", "ChannelUpdateRejMsg",
	"ChannelSyncMsg"}

type builder struct{ out []Envelope }

// add appends an entry whose envelope has one-entry sender and recipient maps.
func (b *builder) add(msg, variant string, mk func() wire.Msg) *Envelope {
	return b.addAddr(msg, variant, MapOne0, MapOne0, mk)
}

func (b *builder) addAddr(msg, variant string, sender, recipient MapKind, mk func() wire.Msg) *Envelope {
	b.out = append(b.out, Envelope{Name: msg + "/" + variant, Msg: msg, Type: mk().Type(), Ser: Both, Addr2: sender == MapTwo || recipient == MapTwo,
		New: func() *wire.Envelope {
			return &wire.Envelope{Sender: WireMap(sender, 0), Recipient: WireMap(recipient, 2), Msg: mk()}
		}})
	return &b.out[len(b.out)-1]
}

// PropSpec describes the common part of a channel proposal.
type PropSpec struct {
	Assets, Parts int
	Bal           int
	App           AppKind
	Funding       int // 0: funding agreement equals the balances; 1: columns reversed (same sums)
	Aux           int
}

// Name is the stable name of the spec.
func (s PropSpec) Name() string {
	return fmt.Sprintf("a%dp%db%d/%s/fa%d/aux%d", s.Assets, s.Parts, s.Bal, s.App, s.Funding, s.Aux)
}

// Build builds the base proposal (initial allocations never have locked funds).
func (s PropSpec) Build() client.BaseChannelProposal {
	alloc := AllocSpec{Assets: s.Assets, Parts: s.Parts, Bal: s.Bal}
	fa := alloc.Balances()
	if s.Funding == 1 {
		for _, row := range fa {
			for i, j := 0, len(row)-1; i < j; i, j = i+1, j-1 {
				row[i], row[j] = row[j], row[i]
			}
		}
	}
	return client.BaseChannelProposal{
		ProposalID:        ID32("proposal/" + s.Name()),
		ChallengeDuration: []uint64{1, 60, math.MaxUint64}[(s.Assets+s.Bal)%3],
		NonceShare:        ID32("nonceshare/" + s.Name()),
		App:               s.App.App(),
		InitData:          s.App.Data(),
		InitBals:          alloc.Build(),
		FundingAgreement:  fa,
		Aux:               Aux(s.Aux),
	}
}

func propSpecs(bals []int, apps []AppKind) (out []PropSpec) {
	i := 0
	for a := 1; a <= 3; a++ {
		for p := 2; p <= 3; p++ {
			for _, b := range bals {
				for _, app := range apps {
					for fa := 0; fa < 2; fa++ {
						out = append(out, PropSpec{Assets: a, Parts: p, Bal: b, App: app, Funding: fa, Aux: i % 2})
						i++
					}
				}
			}
		}
	}
	return
}

func repProp(ps PropSpec, bal int, app AppKind, funding int) bool {
	return ps.Assets == 2 && ps.Parts == 2 && ps.Bal == bal && ps.App == app && ps.Funding == funding
}

func peers(n int, k MapKind) []map[wallet.BackendID]wire.Address {
	out := make([]map[wallet.BackendID]wire.Address, n)
	for i := range out {
		out[i] = WireMap(k, 3+2*i)
	}
	return out
}

func parents(n int, label string) []channel.ID {
	out := make([]channel.ID, n)
	for i := range out {
		out[i] = ID32(fmt.Sprintf("parent/%s/%d", label, i))
	}
	return out
}

func allApps() (out []AppKind) {
	for k := AppKind(0); k < NumAppKinds; k++ {
		out = append(out, k)
	}
	return
}

func allBals() (out []int) {
	for b := 0; b < BalPatterns; b++ {
		out = append(out, b)
	}
	return
}

func update(st StateSpec, actor int) client.ChannelUpdateMsg {
	return client.ChannelUpdateMsg{
		ChannelUpdate: client.ChannelUpdate{State: st.Build(), ActorIdx: channel.Index(actor)},
		Sig:           Sig("update/" + st.Name()),
	}
}

// signedState builds a signed state whose state carries the ID of its parameters.
func signedState(ps ParamsSpec, st StateSpec, mask int, label string) channel.SignedState {
	p, s := ps.Build(), st.Build()
	s.ID = p.ID()
	return channel.SignedState{Params: p, State: s, Sigs: SigSubset(label, st.Parts, mask)}
}

// Envelopes is the envelope catalogue: every message type, built from the value catalogues.
func Envelopes() []Envelope {
	b := &builder{}
	times := []int64{0, 1, -1, 1_700_000_000_123_456_789, math.MaxInt64}

	// Ping / Pong, and on Ping the shapes of the envelope's own address maps.
	for i, n := range times {
		n := n
		b.add("PingMsg", fmt.Sprintf("t=%d", n), func() wire.Msg { return &wire.PingMsg{PingPongMsg: wire.PingPongMsg{Created: time.Unix(0, n)}} }).Rep = i == 3
		b.add("PongMsg", fmt.Sprintf("t=%d", n), func() wire.Msg { return &wire.PongMsg{PingPongMsg: wire.PingPongMsg{Created: time.Unix(0, n)}} }).Rep = i == 3
	}
	for s := MapKind(0); s < NumMapKinds; s++ {
		for r := MapKind(0); r < NumMapKinds; r++ {
			if s == MapOne0 && r == MapOne0 {
				continue
			}
			b.addAddr("PingMsg", fmt.Sprintf("sender=%s,recipient=%s", s, r), s, r, func() wire.Msg {
				return &wire.PingMsg{PingPongMsg: wire.PingPongMsg{Created: time.Unix(0, 42)}}
			})
		}
	}

	// Shutdown
	for _, n := range []int{0, 1, 40, 300, 5000, math.MaxUint16} {
		n := n
		e := b.add("ShutdownMsg", fmt.Sprintf("reason%d", n), func() wire.Msg { return &wire.ShutdownMsg{Reason: Text(n)} })
		e.Rep = n == 40
		if n == math.MaxUint16 {
			e.Ser = Native // a protobuf frame holds at most 65535 bytes in total
		}
		if n == 5000 {
			e.Big = 4096
		}
	}

	// AuthResponse
	for _, n := range []int{-1, 0, 12, 64, 5000} {
		n := n
		name := fmt.Sprintf("sig%d", n)
		if n < 0 {
			name = "signil"
		}
		b.add("AuthResponseMsg", name, func() wire.Msg {
			m := &wire.AuthResponseMsg{}
			if n == 12 {
				m.Signature = []byte("Authenticate")
			} else if n >= 0 {
				m.Signature = LongData(n).B
			}
			return m
		}).Rep = n == 12
	}

	// Ledger channel proposals
	for i, ps := range propSpecs(allBals(), allApps()) {
		ps := ps
		for _, k := range []MapKind{MapOne0, MapTwo} {
			k := k
			if k == MapTwo && i%4 != 0 {
				continue
			}
			e := b.add("LedgerChannelProposalMsg", fmt.Sprintf("%s/addr=%s", ps.Name(), k), func() wire.Msg {
				return &client.LedgerChannelProposalMsg{BaseChannelProposal: ps.Build(), Participant: WalletMap(k, 1), Peers: peers(ps.Parts, k)}
			})
			e.Rep, e.Addr2 = repProp(ps, 5, AppPayment, 1) && k == MapOne0, k == MapTwo
		}
	}
	accVariants := func(msg string, mk func(acc client.BaseChannelProposalAcc, m map[wallet.BackendID]wallet.Address) wire.Msg) {
		for k := MapKind(0); k < NumMapKinds; k++ {
			k := k
			e := b.add(msg, "addr="+k.String(), func() wire.Msg {
				return mk(client.BaseChannelProposalAcc{ProposalID: ID32(msg + "/pid/" + k.String()), NonceShare: ID32(msg + "/ns/" + k.String())}, WalletMap(k, 4))
			})
			e.Rep, e.Addr2 = k == MapOne0, k == MapTwo
		}
		b.add(msg, "addr=one@0/padded,zero-ids", func() wire.Msg { return mk(client.BaseChannelProposalAcc{}, WalletMap(MapOne0, PaddedAddr)) })
	}
	accVariants("LedgerChannelProposalAccMsg", func(acc client.BaseChannelProposalAcc, m map[wallet.BackendID]wallet.Address) wire.Msg {
		return &client.LedgerChannelProposalAccMsg{BaseChannelProposalAcc: acc, Participant: m}
	})

	// Sub-channel proposals
	for _, ps := range propSpecs(allBals(), allApps()) {
		ps := ps
		if ps.Funding == 1 {
			continue // sub-channels do not support funding agreements
		}
		b.add("SubChannelProposalMsg", ps.Name(), func() wire.Msg {
			return &client.SubChannelProposalMsg{BaseChannelProposal: ps.Build(), Parent: ID32("subparent/" + ps.Name())}
		}).Rep = repProp(ps, 6, AppData1, 0)
	}
	for i := 0; i < 3; i++ {
		i := i
		b.add("SubChannelProposalAccMsg", fmt.Sprint(i), func() wire.Msg {
			acc := client.BaseChannelProposalAcc{}
			if i > 0 {
				acc = client.BaseChannelProposalAcc{ProposalID: ID32(fmt.Sprint("subacc/pid/", i)), NonceShare: ID32(fmt.Sprint("subacc/ns/", i))}
			}
			return &client.SubChannelProposalAccMsg{BaseChannelProposalAcc: acc}
		}).Rep = i == 1
	}

	// Virtual channel proposals: index maps per participant in every uniform shape and two mixed ones.
	idxShapes := [][]IdxKind{{IdxNil, IdxNil, IdxNil}, {IdxEmpty, IdxEmpty, IdxEmpty}, {IdxIdentity, IdxIdentity, IdxIdentity},
		{IdxSwapped, IdxSwapped, IdxSwapped}, {IdxIdentity, IdxSwapped, IdxNil}, {IdxEmpty, IdxIdentity, IdxSwapped}}
	for i, ps := range propSpecs([]int{1, 3, 5, 6}, []AppKind{AppNone, AppPayment, AppData300}) {
		ps := ps
		for j, sh := range idxShapes {
			sh := sh
			k := MapOne0
			if (i+j)%5 == 0 {
				k = MapTwo
			}
			e := b.add("VirtualChannelProposalMsg", fmt.Sprintf("%s/addr=%s/idx=%v", ps.Name(), k, sh[:ps.Parts]), func() wire.Msg {
				m := &client.VirtualChannelProposalMsg{BaseChannelProposal: ps.Build(), Proposer: WalletMap(k, 1), Peers: peers(ps.Parts, k),
					Parents: parents(ps.Parts, ps.Name())}
				for p := 0; p < ps.Parts; p++ {
					m.IndexMaps = append(m.IndexMaps, IndexMap(sh[p], ps.Parts))
				}
				return m
			})
			e.Rep, e.Addr2 = repProp(ps, 5, AppPayment, 1) && j == 4, k == MapTwo
		}
	}
	b.add("VirtualChannelProposalMsg", "no-parents-no-indexmaps", func() wire.Msg {
		ps := PropSpec{Assets: 1, Parts: 2, Bal: 1}
		return &client.VirtualChannelProposalMsg{BaseChannelProposal: ps.Build(), Proposer: WalletMap(MapOne0, 1), Peers: peers(2, MapOne0)}
	})
	accVariants("VirtualChannelProposalAccMsg", func(acc client.BaseChannelProposalAcc, m map[wallet.BackendID]wallet.Address) wire.Msg {
		return &client.VirtualChannelProposalAccMsg{BaseChannelProposalAcc: acc, Responder: m}
	})

	// Proposal rejection
	for _, n := range []int{0, 1, 40, 300} {
		n := n
		b.add("ChannelProposalRejMsg", fmt.Sprintf("reason%d", n), func() wire.Msg {
			return &client.ChannelProposalRejMsg{ProposalID: ID32(fmt.Sprint("rej/", n)), Reason: Text(n)}
		}).Rep = n == 40
	}

	// Channel updates over the message state subset, and the big ones.
	repState := StateSpec{AllocSpec: AllocSpec{Assets: 2, Parts: 2, Subs: 1, Maps: [2]IdxKind{IdxSwapped}, Bal: 5}, App: AppData1, Final: true}
	for i, st := range MsgStateSpecs() {
		st, actor := st, (i%2)*(st.Parts-1)
		b.add("ChannelUpdateMsg", fmt.Sprintf("%s/actor=%d", st.Name(), actor), func() wire.Msg { m := update(st, actor); return &m })
	}
	b.add("ChannelUpdateMsg", "rep/"+repState.Name(), func() wire.Msg { m := update(repState, 1); return &m }).Rep = true
	b.add("ChannelUpdateMsg", "big1500/"+BigState1500.Name(), func() wire.Msg { m := update(BigState1500, 2); return &m }).Big = 1500
	b.add("ChannelUpdateMsg", "big4096/"+BigState4096.Name(), func() wire.Msg { m := update(BigState4096, 0); return &m }).Big = 4096
	e := b.add("ChannelUpdateMsg", "bigassets/"+BigStateAssets.Name(), func() wire.Msg { m := update(BigStateAssets, 0); return &m })
	e.Big, e.NoStream = 4096, true
	b.add("ChannelUpdateMsg", "actor=65535", func() wire.Msg { m := update(repState, math.MaxUint16); return &m })

	// Virtual channel funding / settlement proposals: parent update x signed state of the
	// virtual channel (2..3 participants, every subset of signatures) x index map shape.
	small := SmallStateSpecs()
	for pi := 0; pi < len(small); pi += 2 {
		parent := small[pi]
		for n := 2; n <= 3; n++ {
			inner := small[(pi+3*n)%len(small)]
			inner.Parts, inner.Subs = n, 0
			for mask := 0; mask < 1<<n; mask++ {
				pspec := SmallParamsSpecs(n)[(pi/2+mask)%3]
				pspec.Virtual, pspec.Ledger = true, false
				for k := IdxKind(0); k < NumIdxKinds; k++ {
					mask, k, inner, pspec := mask, k, inner, pspec
					name := fmt.Sprintf("parent=%s/initial=%s,%s/sigs=%s/idx=%s", parent.Name(), pspec.Name(), inner.Name(), maskName(n, mask), k)
					b.add("VirtualChannelFundingProposalMsg", name, func() wire.Msg {
						return &client.VirtualChannelFundingProposalMsg{ChannelUpdateMsg: update(parent, 0),
							Initial: signedState(pspec, inner, mask, "vcf/"+name), IndexMap: IndexMap(k, n)}
					})
				}
				mask, inner, pspec := mask, inner, pspec
				inner.Final = true
				name := fmt.Sprintf("parent=%s/final=%s,%s/sigs=%s", parent.Name(), pspec.Name(), inner.Name(), maskName(n, mask))
				b.add("VirtualChannelSettlementProposalMsg", name, func() wire.Msg {
					return &client.VirtualChannelSettlementProposalMsg{ChannelUpdateMsg: update(parent, 1), Final: signedState(pspec, inner, mask, "vcs/"+name)}
				})
			}
		}
	}
	repInner := StateSpec{AllocSpec: AllocSpec{Assets: 2, Parts: 2, Bal: 4}, App: AppNone}
	repParams := ParamsSpec{Parts: 2, NonceLen: 31, App: AppNone, Virtual: true, Duration: 60}
	b.add("VirtualChannelFundingProposalMsg", "rep", func() wire.Msg {
		return &client.VirtualChannelFundingProposalMsg{ChannelUpdateMsg: update(repState, 0), Initial: signedState(repParams, repInner, 1, "vcf/rep"), IndexMap: IndexMap(IdxSwapped, 2)}
	}).Rep = true
	b.add("VirtualChannelSettlementProposalMsg", "rep", func() wire.Msg {
		return &client.VirtualChannelSettlementProposalMsg{ChannelUpdateMsg: update(repState, 1), Final: signedState(repParams, repInner, 2, "vcs/rep")}
	}).Rep = true
	b.add("VirtualChannelFundingProposalMsg", "big", func() wire.Msg {
		inner := BigState1500
		inner.Subs = 0
		return &client.VirtualChannelFundingProposalMsg{ChannelUpdateMsg: update(BigState1500, 0),
			Initial: signedState(ParamsSpec{Parts: 3, NonceLen: 32, App: AppPayment, Virtual: true, Duration: 60, Aux: 1}, inner, 5, "vcf/big"), IndexMap: IndexMap(IdxIdentity, 3)}
	}).Big = 1500

	// Update responses
	for i, v := range []uint64{0, 1, math.MaxUint64} {
		v := v
		for j := 0; j < 2; j++ {
			j := j
			b.add("ChannelUpdateAccMsg", fmt.Sprintf("v%d/sig%d", v, j), func() wire.Msg {
				return &client.ChannelUpdateAccMsg{ChannelID: ID32(fmt.Sprint("acc/", v)), Version: v, Sig: Sig(fmt.Sprint("acc/", v, j))}
			}).Rep = i == 1 && j == 0
		}
		for _, n := range []int{0, 40, 300} {
			n := n
			b.add("ChannelUpdateRejMsg", fmt.Sprintf("v%d/reason%d", v, n), func() wire.Msg {
				return &client.ChannelUpdateRejMsg{ChannelID: ID32(fmt.Sprint("rej/", v)), Version: v, Reason: Text(n)}
			}).Rep = i == 1 && n == 40
		}
	}

	// Channel sync: every transaction of the catalogue with a cycling phase, every phase with one transaction.
	for i, tx := range TxSpecs() {
		tx, ph := tx, channel.Phase(i%(channel.LastPhase+1))
		e := b.add("ChannelSyncMsg", fmt.Sprintf("phase=%d/%s", ph, tx.Name()), func() wire.Msg { return &client.ChannelSyncMsg{Phase: ph, CurrentTX: *tx.Build()} })
		if tx.Empty {
			// A sync message without state has no channel ID (ChannelSyncMsg.ID dereferences the
			// state); the protobuf conversion cannot express it. The native codec can.
			e.Ser = Native
		}
	}
	repTx := TxSpec{State: repState, Mask: 2}
	for p := 0; p <= channel.LastPhase; p++ {
		ph := channel.Phase(p)
		b.add("ChannelSyncMsg", fmt.Sprintf("phase=%d/rep", p), func() wire.Msg { return &client.ChannelSyncMsg{Phase: ph, CurrentTX: *repTx.Build()} }).Rep = p == int(channel.Acting)
	}
	return b.out
}

// ExtraEnvelopes is the thorough-tier extension of the catalogue: a channel update and a sync
// message for EVERY state of the full product StateSpecs (the regular catalogue uses the
// subset MsgStateSpecs inside messages); the signature subset of the sync message cycles.
func ExtraEnvelopes() []Envelope {
	b := &builder{}
	for i, st := range StateSpecs() {
		st, actor, mask := st, (i%2)*(st.Parts-1), i%(1<<st.Parts)
		b.add("ChannelUpdateMsg", fmt.Sprintf("full/%s/actor=%d", st.Name(), actor), func() wire.Msg { m := update(st, actor); return &m })
		tx, ph := TxSpec{State: st, Mask: mask}, channel.Phase(i%(channel.LastPhase+1))
		b.add("ChannelSyncMsg", fmt.Sprintf("full/phase=%d/%s", ph, tx.Name()), func() wire.Msg { return &client.ChannelSyncMsg{Phase: ph, CurrentTX: *tx.Build()} })
	}
	return b.out
}
