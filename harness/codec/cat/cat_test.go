package cat

import (
	"bytes"
	"testing"
)

// TestCatalogue checks the catalogue's own promises: unique names, fresh values from every
// constructor, all message types with exactly one representative, the big envelopes, seeds.
func TestCatalogue(t *testing.T) {
	names := map[string]bool{}
	reps := map[string]int{}
	big := map[int]int{}
	envs := Envelopes()
	for _, e := range envs {
		if names["e/"+e.Name] {
			t.Errorf("duplicate envelope name %s", e.Name)
		}
		names["e/"+e.Name] = true
		a, b := e.New(), e.New()
		if a == b || a.Msg == b.Msg {
			t.Errorf("%s: constructor does not return fresh values", e.Name)
		}
		if e.Rep {
			reps[e.Msg]++
		}
		if e.Big > 0 {
			enc, err := EncodeEnvelope(Native, e.New())
			if err != nil || len(enc) <= e.Big {
				t.Errorf("%s: marked > %d bytes, encodes to %d (%v)", e.Name, e.Big, len(enc), err)
			}
			big[e.Big]++
		}
	}
	for _, m := range MsgTypes {
		if reps[m] != 1 {
			t.Errorf("message type %s has %d representatives", m, reps[m])
		}
	}
	if len(MsgTypes) != 17 || big[1500] == 0 || big[4096] == 0 {
		t.Errorf("message types %d, big entries %v", len(MsgTypes), big)
	}
	for _, e := range ExtraEnvelopes() {
		if names["e/"+e.Name] {
			t.Errorf("duplicate envelope name %s", e.Name)
		}
		names["e/"+e.Name] = true
	}
	for _, e := range LimitEnvelopes() {
		if names["e/"+e.Name] {
			t.Errorf("duplicate envelope name %s", e.Name)
		}
		names["e/"+e.Name] = true
		if a, b := e.New(), e.New(); a == b || a.Msg == b.Msg {
			t.Errorf("%s: constructor does not return fresh values", e.Name)
		}
		if _, err := EncodeEnvelope(Native, e.New()); err != nil {
			t.Errorf("%s: the native encoder refuses a value at the documented limit: %v", e.Name, err)
		}
	}
	vals := Values()
	for _, v := range LimitValues() {
		if names["v/"+v.Name] {
			t.Errorf("duplicate value name %s", v.Name)
		}
		names["v/"+v.Name] = true
		if a, b := v.New(), v.New(); a == b {
			t.Errorf("%s: constructor does not return fresh values", v.Name)
		}
	}
	types := map[string]int{}
	for _, v := range vals {
		if names["v/"+v.Name] {
			t.Errorf("duplicate value name %s", v.Name)
		}
		names["v/"+v.Name] = true
		types[v.Type]++
		if a, b := v.New(), v.New(); a == b {
			t.Errorf("%s: constructor does not return fresh values", v.Name)
		}
	}
	seeds := Seeds()
	kinds := map[string]int{}
	nrep, unstable := 0, 0
	for _, s := range seeds {
		kinds[s.Kind]++
		if s.Rep {
			nrep++
		}
		if s.Unstable {
			unstable++
		}
		if len(s.Bytes) == 0 {
			t.Errorf("seed %s is empty", s.Name)
		}
	}
	// every stable seed is reproduced by a second call
	again := map[string][]byte{}
	for _, s := range Seeds() {
		again[s.Name] = s.Bytes
	}
	for _, s := range seeds {
		if !s.Unstable && !bytes.Equal(again[s.Name], s.Bytes) {
			t.Errorf("seed %s differs between two calls although its encoder looked stable", s.Name)
		}
	}
	t.Logf("%d envelopes, %d values of %d types %v, %d seeds (%d representative, %d from unstable encoders) by kind %v; second wallet backend registered: %v",
		len(envs), len(vals), len(types), types, len(seeds), nrep, unstable, kinds, SecondBackendRegistered)
}
