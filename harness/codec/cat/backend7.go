package cat

import (
	"encoding/binary"
	"errors"
	"fmt"

	"perun.network/go-perun/channel"
	"perun.network/go-perun/client"
	"perun.network/go-perun/wallet"
	"perun.network/go-perun/wire"
)

// The backend catalogue: allocations whose assets belong to DIFFERENT channel backends (a
// cross-ledger channel). The repository registers one channel backend (sim, id 0), so every
// allocation of the other catalogues has Backends = [0, 0, ..] and a codec that mixes up the
// per-asset backend ids cannot show. RegisterSecondChannelBackend installs a second, minimal
// channel backend under id 7 whose only ability is to make assets of its own type; it is NOT
// registered by this package's init (the decode harness shares the package: there the asset
// backend ids >= 1 are the unknown ones) but by the harness that runs this catalogue. The
// entries are a catalogue of their own (BackendValues, BackendEnvelopes), not part of Values /
// Envelopes / Seeds.

// SecondChannelBackend is the id of the second channel backend.
const SecondChannelBackend wallet.BackendID = 7

// Asset7 is the asset type of the second channel backend: 12 bytes (a 4 byte ledger id and an
// 8 byte token id), so that its binary form cannot be taken for a sim asset's 8 bytes.
type Asset7 struct {
	Ledger uint32
	Token  uint64
}

const asset7Len = 12

// MarshalBinary returns the 12 byte form.
func (a Asset7) MarshalBinary() ([]byte, error) {
	b := make([]byte, asset7Len)
	binary.BigEndian.PutUint32(b, a.Ledger)
	binary.BigEndian.PutUint64(b[4:], a.Token)
	return b, nil
}

// UnmarshalBinary accepts exactly the 12 byte form.
func (a *Asset7) UnmarshalBinary(b []byte) error {
	if len(b) != asset7Len {
		return fmt.Errorf("asset of backend 7: unexpected length %d, want %d", len(b), asset7Len)
	}
	a.Ledger, a.Token = binary.BigEndian.Uint32(b), binary.BigEndian.Uint64(b[4:])
	return nil
}

// Equal compares with another asset of backend 7.
func (a Asset7) Equal(b channel.Asset) bool {
	o, ok := b.(*Asset7)
	return ok && *o == a
}

// Address returns the binary form.
func (a Asset7) Address() []byte { b, _ := a.MarshalBinary(); return b }

type channelBackend7 struct{}

var errBackend7 = errors.New("channel backend 7 only makes assets")

func (channelBackend7) CalcID(*channel.Params) (channel.ID, error)             { return channel.ID{}, errBackend7 }
func (channelBackend7) Sign(wallet.Account, *channel.State) (wallet.Sig, error) { return nil, errBackend7 }
func (channelBackend7) Verify(wallet.Address, *channel.State, wallet.Sig) (bool, error) {
	return false, errBackend7
}
func (channelBackend7) NewAsset() channel.Asset          { return &Asset7{} }
func (channelBackend7) NewAppID() (channel.AppID, error) { return nil, errBackend7 }

var secondChannelBackend bool

// RegisterSecondChannelBackend registers the second channel backend under id 7 (once). App
// identifiers are still made by the sim backend (channel.NewAppID takes the first backend that
// can; this one cannot), channel ids by the backends of the participants' addresses.
func RegisterSecondChannelBackend() {
	if !secondChannelBackend {
		channel.SetBackend(channelBackend7{}, int(SecondChannelBackend))
		secondChannelBackend = true
	}
}

// SecondChannelBackendRegistered reports whether RegisterSecondChannelBackend was called.
func SecondChannelBackendRegistered() bool { return secondChannelBackend }

// BackendShapes are the per-asset backend ids of the catalogue: two different backends in both
// orders, alternating, a single foreign one, all foreign, and an all-sim control.
var BackendShapes = [][]wallet.BackendID{{0, 7}, {7, 0}, {7, 0, 7, 0}, {0, 0, 7}, {7}, {7, 7}, {0, 0, 0}}

// BackendAlloc describes an allocation by the backends of its assets.
type BackendAlloc struct {
	Backends []wallet.BackendID
	Parts    int
	Locked   int
}

// Name is the stable name of the spec.
func (d BackendAlloc) Name() string {
	return fmt.Sprintf("backends=%v/p%ds%d", d.Backends, d.Parts, d.Locked)
}

func assetOf(b wallet.BackendID, i int) channel.Asset {
	if b == SecondChannelBackend {
		return &Asset7{Ledger: uint32(0x700 + i), Token: uint64(0xB0 + i)}
	}
	return Asset(i)
}

// Build builds the allocation: distinct balances, sub-allocations with one balance per asset.
func (d BackendAlloc) Build() *channel.Allocation {
	n := len(d.Backends)
	a := &channel.Allocation{Backends: append([]wallet.BackendID{}, d.Backends...)}
	for i, b := range d.Backends {
		a.Assets = append(a.Assets, assetOf(b, i))
	}
	spec := AllocSpec{Assets: n, Parts: d.Parts, Bal: 5}
	a.Balances = spec.Balances()
	for k := 0; k < d.Locked; k++ {
		a.Locked = append(a.Locked, *SubAllocSpec{Assets: n, Parts: d.Parts, Map: IdxKind(k % int(NumIdxKinds)), Bal: 6 + k, Label: d.Name() + fmt.Sprint("/", k)}.Build())
	}
	return a
}

// State builds a state around the allocation.
func (d BackendAlloc) State(app AppKind, final bool) *channel.State {
	return &channel.State{ID: ID32("backends/state/" + d.Name()), Version: 3, Allocation: *d.Build(), App: app.App(), Data: app.Data(), IsFinal: final}
}

// BackendAllocs: every shape with 2 participants and one sub-allocation, and with 3
// participants and none.
func BackendAllocs() (out []BackendAlloc) {
	for _, sh := range BackendShapes {
		out = append(out, BackendAlloc{Backends: sh, Parts: 2, Locked: 1}, BackendAlloc{Backends: sh, Parts: 3})
	}
	return
}

// BackendValues is the value part of the backend catalogue.
func BackendValues() (out []Value) {
	for _, d := range BackendAllocs() {
		d := d
		out = append(out,
			val("channel.Allocation", d.Name(), false, d.Build),
			val("channel.State", d.Name(), false, func() *channel.State { return d.State(AppData1, true) }),
			val("channel.Transaction", d.Name(), false, func() *channel.Transaction {
				return &channel.Transaction{State: d.State(AppPayment, false), Sigs: SigSubset("backends/tx/"+d.Name(), d.Parts, 1)}
			}))
	}
	return
}

// BackendEnvelopes is the envelope part: every message type that carries an allocation.
func BackendEnvelopes() []Envelope {
	b := &builder{}
	small := BackendAlloc{Backends: []wallet.BackendID{0}, Parts: 2}
	upd := func(d BackendAlloc, actor int) client.ChannelUpdateMsg {
		return client.ChannelUpdateMsg{ChannelUpdate: client.ChannelUpdate{State: d.State(AppData1, false), ActorIdx: channel.Index(actor)}, Sig: Sig("backends/update/" + d.Name())}
	}
	signed := func(d BackendAlloc, final bool, label string) channel.SignedState {
		p := ParamsSpec{Parts: d.Parts, NonceLen: 31, App: AppPayment, Virtual: true, Duration: 60}.Build()
		inner := d
		inner.Locked = 0
		st := inner.State(AppPayment, final)
		st.ID = p.ID()
		return channel.SignedState{Params: p, State: st, Sigs: SigSubset(label, d.Parts, 2)}
	}
	prop := func(d BackendAlloc) client.BaseChannelProposal {
		init := d
		init.Locked = 0
		return client.BaseChannelProposal{ProposalID: ID32("backends/proposal/" + d.Name()), ChallengeDuration: 60, NonceShare: ID32("backends/ns/" + d.Name()),
			App: AppPayment.App(), InitData: AppPayment.Data(), InitBals: init.Build(), FundingAgreement: init.Build().Balances, Aux: Aux(1)}
	}
	for _, d := range BackendAllocs() {
		d := d
		name := d.Name()
		b.add("ChannelUpdateMsg", name, func() wire.Msg { m := upd(d, 1); return &m })
		b.add("ChannelSyncMsg", name, func() wire.Msg {
			return &client.ChannelSyncMsg{Phase: channel.Acting, CurrentTX: channel.Transaction{State: d.State(AppNone, true), Sigs: SigSubset("backends/sync/"+name, d.Parts, 2)}}
		})
		b.add("VirtualChannelFundingProposalMsg", "parent/"+name, func() wire.Msg {
			return &client.VirtualChannelFundingProposalMsg{ChannelUpdateMsg: upd(d, 0), Initial: signed(small, false, "backends/vcf/"+name), IndexMap: IndexMap(IdxSwapped, 2)}
		})
		b.add("VirtualChannelFundingProposalMsg", "initial/"+name, func() wire.Msg {
			return &client.VirtualChannelFundingProposalMsg{ChannelUpdateMsg: upd(small, 0), Initial: signed(d, false, "backends/vcf-i/"+name), IndexMap: IndexMap(IdxIdentity, d.Parts)}
		})
		b.add("VirtualChannelSettlementProposalMsg", "parent/"+name, func() wire.Msg {
			return &client.VirtualChannelSettlementProposalMsg{ChannelUpdateMsg: upd(d, 1), Final: signed(small, true, "backends/vcs/"+name)}
		})
		b.add("VirtualChannelSettlementProposalMsg", "final/"+name, func() wire.Msg {
			return &client.VirtualChannelSettlementProposalMsg{ChannelUpdateMsg: upd(small, 1), Final: signed(d, true, "backends/vcs-f/"+name)}
		})
		if d.Locked > 0 {
			continue // proposals have no locked funds: one entry per shape
		}
		b.add("LedgerChannelProposalMsg", name, func() wire.Msg {
			return &client.LedgerChannelProposalMsg{BaseChannelProposal: prop(d), Participant: WalletMap(MapOne0, 1), Peers: peers(d.Parts, MapOne0)}
		})
		b.add("SubChannelProposalMsg", name, func() wire.Msg {
			return &client.SubChannelProposalMsg{BaseChannelProposal: prop(d), Parent: ID32("backends/subparent/" + name)}
		})
		b.add("VirtualChannelProposalMsg", name, func() wire.Msg {
			m := &client.VirtualChannelProposalMsg{BaseChannelProposal: prop(d), Proposer: WalletMap(MapOne0, 1), Peers: peers(d.Parts, MapOne0), Parents: parents(d.Parts, "backends/"+name)}
			for p := 0; p < d.Parts; p++ {
				m.IndexMaps = append(m.IndexMaps, IndexMap(IdxIdentity, d.Parts))
			}
			return m
		})
	}
	return b.out
}
