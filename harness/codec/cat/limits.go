package cat

import (
	"fmt"
	"math/big"

	"perun.network/go-perun/channel"
	"perun.network/go-perun/client"
	"perun.network/go-perun/wallet"
	"perun.network/go-perun/wire"
	"perun.network/go-perun/wire/perunio"
)

// The limit catalogue: well-formed values and envelopes that sit EXACTLY on one documented
// limit - one dimension at the limit per entry, every other dimension small - so that an
// encoder / decoder pair that disagrees about whether a limit is inclusive shows as a failed
// round trip. It is a catalogue of its own (LimitValues, LimitEnvelopes): the entries are up to
// 85 KB long and are deliberately NOT part of Values / Envelopes / Seeds, whose entries are
// mutated byte by byte (C13) and cut into chunks (C16).
//
// The documented limits (channel/allocation.go MaxNumAssets, MaxNumParts,
// MaxNumSubAllocations; wire/perunio/bigint.go MaxBigIntLength; channel/params.go MaxNonceLen),
// written down here independently of the constants of the code under test. All of them are
// inclusive ("maximum").
const (
	LimAssets      = 1024
	LimParts       = 1024
	LimLocked      = 1024
	LimAmountBytes = 128
	LimNonceBytes  = 32
)

// Amount returns the amount of exactly LimAmountBytes bytes whose first byte is top and whose
// remaining bytes are 0xff if fill, else zero: top=0xff, fill -> 2^1024-1 (the largest amount),
// top=0x01 -> 2^1016 (the smallest that needs all 128 bytes).
func Amount(top byte, fill bool) *big.Int { return bytesInt(LimAmountBytes, top, fill) }

func bytesInt(n int, top byte, fill bool) *big.Int {
	b := make([]byte, n)
	if fill {
		for i := range b {
			b[i] = 0xff
		}
	}
	b[0] = top
	return new(big.Int).SetBytes(b)
}

// LimAlloc describes an allocation with at most one dimension at its limit.
type LimAlloc struct {
	Name                  string
	Assets, Parts, Locked int
	Idx                   IdxKind  // index map of every sub-allocation (over Parts participants)
	Bal, SubBal           *big.Int // if set: balance [0][0] / first balance of the first sub-allocation (all others are 1)
}

func (d LimAlloc) bal(i, j int) channel.Bal {
	if i == 0 && j == 0 && d.Bal != nil {
		return new(big.Int).Set(d.Bal)
	}
	return big.NewInt(1)
}

// Balances builds the balances.
func (d LimAlloc) Balances() channel.Balances {
	b := make(channel.Balances, d.Assets)
	for i := range b {
		b[i] = make([]channel.Bal, d.Parts)
		for j := range b[i] {
			b[i][j] = d.bal(i, j)
		}
	}
	return b
}

// Sub builds the k-th sub-allocation.
func (d LimAlloc) Sub(k int) *channel.SubAlloc {
	s := &channel.SubAlloc{ID: ID32(fmt.Sprintf("limit/%s/sub/%d", d.Name, k)), IndexMap: IndexMap(d.Idx, d.Parts)}
	for i := 0; i < d.Assets; i++ {
		if k == 0 && i == 0 && d.SubBal != nil {
			s.Bals = append(s.Bals, new(big.Int).Set(d.SubBal))
		} else {
			s.Bals = append(s.Bals, big.NewInt(1))
		}
	}
	return s
}

// Build builds the allocation.
func (d LimAlloc) Build() *channel.Allocation {
	a := &channel.Allocation{Balances: d.Balances()}
	for i := 0; i < d.Assets; i++ {
		a.Backends = append(a.Backends, 0)
		a.Assets = append(a.Assets, Asset(i))
	}
	for k := 0; k < d.Locked; k++ {
		a.Locked = append(a.Locked, *d.Sub(k))
	}
	return a
}

// State builds a state around the allocation.
func (d LimAlloc) State(app AppKind, final bool) *channel.State {
	return &channel.State{ID: ID32("limit/state/" + d.Name), Version: 1 << 40, Allocation: *d.Build(), App: app.App(), Data: app.Data(), IsFinal: final}
}

// LimAllocs lists the allocations at a limit: 1024 assets (with one sub-allocation, which then
// has 1024 balances), 1024 participants (with one sub-allocation whose index map has 1024
// entries), 1024 sub-allocations, and 128 byte amounts (first byte 0x01, 0x80, 0xff) as a
// balance and as a locked balance.
func LimAllocs() []LimAlloc {
	return []LimAlloc{
		{Name: "assets=1024", Assets: LimAssets, Parts: 2, Locked: 1, Idx: IdxSwapped},
		{Name: "participants=1024", Assets: 1, Parts: LimParts, Locked: 1, Idx: IdxSwapped},
		{Name: "sub-allocations=1024", Assets: 1, Parts: 2, Locked: LimLocked, Idx: IdxIdentity},
		{Name: "balance=2^1024-1", Assets: 2, Parts: 2, Locked: 1, Idx: IdxNil, Bal: Amount(0xff, true)},
		{Name: "balance=2^1016", Assets: 1, Parts: 2, Bal: Amount(0x01, false)},
		{Name: "locked-balance=2^1024-1", Assets: 2, Parts: 2, Locked: 2, Idx: IdxIdentity, SubBal: Amount(0xff, true)},
		{Name: "locked-balance=2^1016", Assets: 1, Parts: 3, Locked: 1, Idx: IdxEmpty, SubBal: Amount(0x01, false)},
	}
}

// limParts returns n one-entry participant maps (the 12 fixed addresses in turn; the codecs do
// not require distinct participants).
func limParts(n int) []map[wallet.BackendID]wallet.Address {
	out := make([]map[wallet.BackendID]wallet.Address, n)
	for i := range out {
		out[i] = WalletMap(MapOne0, i)
	}
	return out
}

func limPeers(n int) []map[wallet.BackendID]wire.Address {
	out := make([]map[wallet.BackendID]wire.Address, n)
	for i := range out {
		out[i] = WireMap(MapOne0, i)
	}
	return out
}

// LimParams describes channel parameters with the participants or the nonce at the limit.
type LimParams struct {
	Name  string
	Parts int
	Nonce *big.Int
}

// Build builds the parameters through channel.NewParams.
func (s LimParams) Build() *channel.Params {
	p, err := channel.NewParams(60, limParts(s.Parts), AppPayment.App(), new(big.Int).Set(s.Nonce), false, true, Aux(1))
	if err != nil {
		panic("cat: " + err.Error())
	}
	return p
}

// LimParamsList: 1024 participants; 32 byte nonces with first byte 0xff (2^256-1) and 0x01 (2^248).
func LimParamsList() []LimParams {
	return []LimParams{
		{Name: "participants=1024", Parts: LimParts, Nonce: Nonce(31)},
		{Name: "nonce=2^256-1", Parts: 2, Nonce: bytesInt(LimNonceBytes, 0xff, true)},
		{Name: "nonce=2^248", Parts: 3, Nonce: bytesInt(LimNonceBytes, 0x01, false)},
	}
}

// limSigs: n signature slots, the first and the last filled (all: every slot filled).
func limSigs(label string, n int, all bool) []wallet.Sig {
	sigs := make([]wallet.Sig, n)
	for i := range sigs {
		if all || i == 0 || i == n-1 {
			sigs[i] = Sig(fmt.Sprintf("limit/%s/%d", label, i))
		}
	}
	return sigs
}

// LimitValues is the value part of the limit catalogue.
func LimitValues() (out []Value) {
	for _, d := range LimAllocs() {
		d := d
		out = append(out,
			val("channel.Allocation", "limit/"+d.Name, false, d.Build),
			val("channel.State", "limit/"+d.Name, false, func() *channel.State { return d.State(AppData1, true) }),
			val("channel.Balances", "limit/"+d.Name, false, func() *channel.Balances { b := d.Balances(); return &b }))
		if d.Locked > 0 {
			out = append(out, val("channel.SubAlloc", "limit/"+d.Name, false, func() *channel.SubAlloc { return d.Sub(0) }))
		}
	}
	// transactions: one signature slot per participant
	for _, all := range []bool{false, true} {
		all := all
		d := LimAllocs()[1]
		name := "limit/" + d.Name + "/sigs=first+last"
		if all {
			name = "limit/" + d.Name + "/sigs=all"
		}
		out = append(out, val("channel.Transaction", name, false, func() *channel.Transaction {
			return &channel.Transaction{State: d.State(AppNone, false), Sigs: limSigs("tx", d.Parts, all)}
		}))
	}
	d := LimAllocs()[2]
	out = append(out, val("channel.Transaction", "limit/"+d.Name, false, func() *channel.Transaction {
		return &channel.Transaction{State: d.State(AppPayment, false), Sigs: limSigs("tx", d.Parts, true)}
	}))
	for _, p := range LimParamsList() {
		p := p
		out = append(out, val("channel.Params", "limit/"+p.Name, false, p.Build))
	}
	out = append(out,
		val("wallet.AddressMapArray", "limit/participants=1024", false, func() *wallet.AddressMapArray { return &wallet.AddressMapArray{Addr: limParts(LimParts)} }),
		val("wire.AddressMapArray", "limit/participants=1024", false, func() *wire.AddressMapArray { a := wire.AddressMapArray(limPeers(LimParts)); return &a }),
		val("perunio.BigInt", "limit/2^1016", false, func() *perunio.BigInt { return &perunio.BigInt{Int: Amount(0x01, false)} }),
		val("perunio.BigInt", "limit/2^1024-2^1016", false, func() *perunio.BigInt { return &perunio.BigInt{Int: Amount(0xff, false)} }))
	return out
}

func limUpdate(d LimAlloc, app AppKind, actor int) client.ChannelUpdateMsg {
	return client.ChannelUpdateMsg{ChannelUpdate: client.ChannelUpdate{State: d.State(app, false), ActorIdx: channel.Index(actor)}, Sig: Sig("limit/update/" + d.Name)}
}

func limSigned(p LimParams, d LimAlloc, final bool) channel.SignedState {
	params := p.Build()
	st := d.State(AppPayment, final)
	st.ID = params.ID()
	return channel.SignedState{Params: params, State: st, Sigs: limSigs("signed/"+p.Name, d.Parts, false)}
}

func limProposal(d LimAlloc, fa channel.Balances) client.BaseChannelProposal {
	init := d
	init.Locked = 0 // initial allocations never have locked funds
	return client.BaseChannelProposal{ProposalID: ID32("limit/proposal/" + d.Name), ChallengeDuration: 60, NonceShare: ID32("limit/nonceshare/" + d.Name),
		App: AppPayment.App(), InitData: AppPayment.Data(), InitBals: init.Build(), FundingAgreement: fa, Aux: Aux(1)}
}

// LimitEnvelopes is the envelope part of the limit catalogue: every message type that carries
// an allocation, balances, parameters or per-participant lists, with one dimension at its limit.
// An entry that the protobuf serializer cannot express (its frame holds at most 65535 bytes:
// 1024 participants with 64 byte wallet addresses or signatures do not fit) is native only.
func LimitEnvelopes() []Envelope {
	b := &builder{}
	allocs := LimAllocs()
	small := LimAlloc{Name: "small", Assets: 1, Parts: 2}
	for _, d := range allocs {
		d := d
		// channel update and sync message with the allocation
		b.add("ChannelUpdateMsg", "limit/"+d.Name, func() wire.Msg { m := limUpdate(d, AppData1, 1); return &m })
		b.add("ChannelSyncMsg", "limit/"+d.Name, func() wire.Msg {
			return &client.ChannelSyncMsg{Phase: channel.Acting, CurrentTX: channel.Transaction{State: d.State(AppNone, true), Sigs: limSigs("sync", d.Parts, false)}}
		})
		// virtual channel funding / settlement: the parent's update carries the allocation (a hub
		// with 1024 locked sub-allocations); the virtual channel's own state carries it
		b.add("VirtualChannelFundingProposalMsg", "limit/parent/"+d.Name, func() wire.Msg {
			return &client.VirtualChannelFundingProposalMsg{ChannelUpdateMsg: limUpdate(d, AppNone, 0),
				Initial: limSigned(LimParams{Name: "small", Parts: 2, Nonce: Nonce(31)}, small, false), IndexMap: IndexMap(IdxSwapped, 2)}
		})
		b.add("VirtualChannelSettlementProposalMsg", "limit/parent/"+d.Name, func() wire.Msg {
			return &client.VirtualChannelSettlementProposalMsg{ChannelUpdateMsg: limUpdate(d, AppNone, 1),
				Final: limSigned(LimParams{Name: "small", Parts: 2, Nonce: Nonce(31)}, small, true)}
		})
		if d.Locked == LimLocked || d.SubBal != nil {
			continue // proposals and initial states have no locked funds
		}
		inner := d
		inner.Locked = 0
		e := b.add("VirtualChannelFundingProposalMsg", "limit/initial/"+d.Name, func() wire.Msg {
			return &client.VirtualChannelFundingProposalMsg{ChannelUpdateMsg: limUpdate(small, AppNone, 0),
				Initial: limSigned(LimParams{Name: "for-" + d.Name, Parts: d.Parts, Nonce: Nonce(32)}, inner, false), IndexMap: IndexMap(IdxIdentity, d.Parts)}
		})
		if d.Parts == LimParts {
			e.Ser = Native
		}
		e = b.add("VirtualChannelSettlementProposalMsg", "limit/final/"+d.Name, func() wire.Msg {
			return &client.VirtualChannelSettlementProposalMsg{ChannelUpdateMsg: limUpdate(small, AppNone, 1),
				Final: limSigned(LimParams{Name: "for-" + d.Name, Parts: d.Parts, Nonce: Nonce(32)}, inner, true)}
		})
		if d.Parts == LimParts {
			e.Ser = Native
		}
		// proposals: initial balances (and the funding agreement, which has their shape) at the limit
		b.add("LedgerChannelProposalMsg", "limit/"+d.Name, func() wire.Msg {
			return &client.LedgerChannelProposalMsg{BaseChannelProposal: limProposal(d, d.Balances()), Participant: WalletMap(MapOne0, 1), Peers: limPeers(d.Parts)}
		})
		b.add("SubChannelProposalMsg", "limit/"+d.Name, func() wire.Msg {
			return &client.SubChannelProposalMsg{BaseChannelProposal: limProposal(d, d.Balances()), Parent: ID32("limit/subparent/" + d.Name)}
		})
		e = b.add("VirtualChannelProposalMsg", "limit/"+d.Name, func() wire.Msg {
			m := &client.VirtualChannelProposalMsg{BaseChannelProposal: limProposal(d, d.Balances()), Proposer: WalletMap(MapOne0, 1), Peers: limPeers(d.Parts),
				Parents: parents(d.Parts, "limit/"+d.Name)}
			for p := 0; p < d.Parts; p++ {
				k := IdxNil // one full index map, the others absent: 1024 x 1024 entries would be 2 MB
				if p == 0 || d.Parts < LimParts {
					k = IdxIdentity
				}
				m.IndexMaps = append(m.IndexMaps, IndexMap(k, d.Parts))
			}
			return m
		})
		if d.Parts == LimParts {
			e.Ser = Native // 1024 peers and 1024 parent ids (32 bytes each) alone are 64 KiB: 90 585 bytes as a protobuf frame
		}
		if d.Bal != nil { // the funding agreement alone at the limit
			fa := LimAlloc{Assets: d.Assets, Parts: d.Parts}.Balances()
			fa[d.Assets-1][d.Parts-1] = new(big.Int).Set(d.Bal)
			only := LimAlloc{Name: "funding-agreement-" + d.Name, Assets: d.Assets, Parts: d.Parts}
			b.add("LedgerChannelProposalMsg", "limit/funding-agreement/"+d.Name, func() wire.Msg {
				return &client.LedgerChannelProposalMsg{BaseChannelProposal: limProposal(only, fa.Clone()), Participant: WalletMap(MapOne0, 1), Peers: limPeers(d.Parts)}
			})
		}
	}
	// parameters at the limit inside the signed state of the virtual channel messages
	for _, p := range LimParamsList() {
		p := p
		inner := LimAlloc{Name: "for-" + p.Name, Assets: 1, Parts: p.Parts}
		e := b.add("VirtualChannelFundingProposalMsg", "limit/params/"+p.Name, func() wire.Msg {
			return &client.VirtualChannelFundingProposalMsg{ChannelUpdateMsg: limUpdate(small, AppNone, 0), Initial: limSigned(p, inner, false), IndexMap: IndexMap(IdxIdentity, 2)}
		})
		if p.Parts == LimParts {
			e.Ser = Native
		}
		e = b.add("VirtualChannelSettlementProposalMsg", "limit/params/"+p.Name, func() wire.Msg {
			return &client.VirtualChannelSettlementProposalMsg{ChannelUpdateMsg: limUpdate(small, AppNone, 1), Final: limSigned(p, inner, true)}
		})
		if p.Parts == LimParts {
			e.Ser = Native
		}
	}
	return b.out
}
