package codec

import (
	"bytes"
	"fmt"

	"verif/harness/codec/cat"
)

// C14, family "encoding after a failed encoding". The statement's "decoding its encoding
// yields an equal value" quantifies over every encoding a process produces, not only over the
// first one: an encoder that keeps anything between calls (a buffer that is reused, a cached
// prefix) must not let a call that FAILED part-way leak into the next one. The family is the
// product (failing envelope of cat.FailingEnvelopes) x (catalogue envelope, limit catalogue
// included) x serializer; per member the sequence "encode the failing envelope (the serializer
// must refuse it), then encode the catalogue envelope" is run failRounds times in a row,
// because a reusing encoder may or may not be handed the same buffer again (sync.Pool).
//
// Oracle: the second encoding is byte-identical to the encoding of the same entry obtained in
// the main pass, i.e. before the process had seen any failing encode (native serializer,
// whose encoding the statement claims to be stable); for the protobuf serializer, whose
// encoding of two-entry maps is not a function of the value, a differing encoding is accepted
// iff it decodes, is consumed exactly and decodes to a value structurally equal to what the
// clean encoding decodes to.

const failRounds = 3

func refKey(ser, entry string) string { return ser + "|" + entry }

// afterFailure runs one member: entry e after the failing envelope f, with serializer s. ref
// is the clean encoding of e. Returns false if the serializer does not refuse f at all.
func (h *c14) afterFailure(s cat.Ser, f cat.Failing, e cat.Envelope, ref []byte) bool {
	sub := envSubject(e, s)
	fenv := f.New()
	for round := 0; round < failRounds; round++ {
		if _, _, err, _ := encodeEnv(s, fenv); err == nil {
			return false
		}
		h.eval("after-failed-encode")
		b, _, err, panicked := encodeEnv(s, e.New())
		site := "after=" + f.Name
		rp := map[string]interface{}{"harness": "codec", "property": "C14", "kind": "after-failed-encode", "entry": e.Name, "serializer": s.String(), "failing": f.Name, "clause": "encode-after-failed-encode"}
		report := func(detail string) {
			sig := fmt.Sprintf("C14:encode-after-failed-encode:%s/%s", s.String(), site)
			if h.verbose {
				fmt.Printf("  VIOLATION %s\n    %s\n", sig, detail)
			}
			h.res.Violate("C14", sig, fmt.Sprintf("[%s after %s, round %d of %d] %s", e.Name, f.Name, round+1, failRounds, detail), rp)
		}
		switch {
		case err != nil:
			report(fmt.Sprintf("the well-formed envelope is refused after the failed encoding although it was encoded before: %v (panic=%v)", err, panicked))
			return true
		case bytes.Equal(b, ref):
			continue
		}
		d0, _, _ := sub.dec(&stream{data: ref})
		rd := &stream{data: b}
		d1, derr, _ := sub.dec(rd)
		what := fmt.Sprintf("%d bytes instead of %d, first difference at offset %d: clean %s, now %s", len(b), len(ref), firstDiff(ref, b), hexPrefix(ref), hexPrefix(b))
		switch {
		case derr != nil:
			report("the encoding differs from the one obtained before any failed encoding (" + what + ") and does not decode: " + derr.Error())
		case rd.pos != len(b):
			report(fmt.Sprintf("the encoding differs from the one obtained before any failed encoding (%s); the decoder consumes %d of its %d bytes", what, rd.pos, len(b)))
		case len(structDiff(d0, d1)) > 0:
			report("the encoding differs from the one obtained before any failed encoding (" + what + ") and decodes to another value: " + diffPaths(structDiff(d0, d1)))
		case sub.stable:
			report("the native encoding differs from the one obtained before any failed encoding (" + what + ") although it decodes to an equal value")
		default:
			h.res.Count("after_failed_encode_other_but_equivalent_encoding_"+s.String(), 1)
			continue
		}
		return true
	}
	return true
}

// runAfterFailure enumerates the family; refs holds the clean encodings of the main pass.
func (h *c14) runAfterFailure(envs []cat.Envelope) {
	fails := cat.FailingEnvelopes()
	for _, s := range cat.Sers {
		refused := 0
		for _, f := range fails {
			n := 0
			ok := true
			for _, e := range envs {
				ref, have := h.refs[refKey(s.String(), e.Name)]
				if e.Ser&s == 0 || !have {
					continue
				}
				if ok = h.afterFailure(s, f, e, ref); !ok {
					break
				}
				n++
			}
			if !ok {
				h.res.Count("failing_envelopes_not_refused_"+s.String(), 1)
				h.res.Note("after-failed-encode family: the %s serializer does not refuse %s (it is not a failing envelope for it; no sequences run)", s.String(), f.Name)
				continue
			}
			refused++
			h.res.Count("cases_after_failed_encode_"+s.String(), int64(n))
		}
		h.res.Count("failing_envelopes_refused_"+s.String(), int64(refused))
	}
}
