package codec

import (
	"bytes"
	"errors"
	"fmt"
	"io"

	"perun.network/go-perun/wire"
	"verif/harness/codec/cat"
)

// errPastFrame is what the stream reader returns when a decoder asks for bytes after
// everything written has been delivered: on an open connection that Read would block for ever.
var errPastFrame = errors.New("HARNESS: decoder read past its frame (the stream is open, this Read would block)")

// stream is an io.Reader over a byte string that models an open connection delivering the
// bytes in chunks: a Read never crosses the next cut, never returns (0, nil) for a non-empty
// buffer, never reports EOF. Cuts are either an explicit ascending list of offsets or a
// uniform chunk size.
type stream struct {
	data  []byte
	pos   int
	cuts  []int // explicit cut offsets, ascending
	chunk int   // > 0: cuts at every multiple of chunk
	past  bool  // a Read was issued with nothing left
	reads int
}

func (s *stream) Read(p []byte) (int, error) {
	if len(p) == 0 {
		return 0, nil // like a net.Conn: an empty read returns at once
	}
	if s.pos >= len(s.data) {
		s.past = true
		return 0, errPastFrame
	}
	s.reads++
	limit := len(s.data)
	if s.chunk > 0 {
		if l := (s.pos/s.chunk + 1) * s.chunk; l < limit {
			limit = l
		}
	}
	for _, c := range s.cuts {
		if c > s.pos {
			if c < limit {
				limit = c
			}
			break
		}
	}
	n := copy(p, s.data[s.pos:limit])
	s.pos += n
	return n, nil
}

// openConn makes a stream the io.ReadWriteCloser of a wire/net connection that is only read.
type openConn struct{ *stream }

func (openConn) Write([]byte) (int, error) { return 0, errors.New("HARNESS: read-only connection") }
func (openConn) Close() error              { return nil }

// recorder is an io.Writer that remembers the offset at which every Write call started: the
// encoder's own field boundaries.
type recorder struct {
	buf    bytes.Buffer
	starts []int
}

func (r *recorder) Write(p []byte) (int, error) {
	if len(p) > 0 {
		r.starts = append(r.starts, r.buf.Len())
	}
	return r.buf.Write(p)
}

func guard(f func() error) (err error, panicked bool) {
	defer func() {
		if r := recover(); r != nil {
			err, panicked = fmt.Errorf("panic: %v", r), true
		}
	}()
	return f(), false
}

// encodeEnv encodes an envelope, recording the write offsets.
func encodeEnv(s cat.Ser, env *wire.Envelope) (b []byte, starts []int, err error, panicked bool) {
	rec := &recorder{}
	err, panicked = guard(func() error { return s.Serializer().Encode(rec, env) })
	return rec.buf.Bytes(), rec.starts, err, panicked
}

func decodeEnv(s cat.Ser, r io.Reader) (env *wire.Envelope, err error, panicked bool) {
	err, panicked = guard(func() error {
		var e error
		env, e = s.Serializer().Decode(r)
		return e
	})
	return
}

func encodeVal(v cat.Codec) (b []byte, err error, panicked bool) {
	var buf bytes.Buffer
	err, panicked = guard(func() error { return v.Encode(&buf) })
	return buf.Bytes(), err, panicked
}

func decodeVal(into cat.Codec, r io.Reader) (err error, panicked bool) {
	return guard(func() error { return into.Decode(r) })
}

func hexPrefix(b []byte) string {
	if len(b) > 24 {
		return fmt.Sprintf("%x..", b[:24])
	}
	return fmt.Sprintf("%x", b)
}
