package codec

import (
	"bytes"
	"encoding"
	"fmt"
	"math/big"
	"reflect"
	"sort"
	"time"
	"unsafe"

	"perun.network/go-perun/channel"
)

// difference is one structural difference between two values. Path is index-free (slice, array
// and map positions are written "[]") and is what goes into a violation signature; Where is
// the concrete position.
type difference struct {
	Path, Where, Detail string
}

func (d difference) String() string { return d.Where + ": " + d.Detail }

const maxDiffs = 24

var (
	bigIntPtrType = reflect.TypeOf((*big.Int)(nil))
	timeType      = reflect.TypeOf(time.Time{})
	appType       = reflect.TypeOf((*channel.App)(nil)).Elem()
	txType        = reflect.TypeOf(channel.Transaction{})
	signedType    = reflect.TypeOf(channel.SignedState{})
)

// structDiff compares two values structurally, field by field (never through their own
// encoders or Equal methods, so a field that the codec drops in both directions still shows):
//   - *big.Int by numeric value; time.Time by instant (UnixNano), location ignored;
//   - slices, byte strings and maps: nil and empty are the same, EXCEPT the elements of the Sigs
//     field of channel.Transaction and channel.SignedState, where nil means "no signature"
//     and []byte{} does not (wallet.EncodeSparseSigs defines presence by non-nil);
//   - channel.App by NoApp-ness and the binary form of Def();
//   - other interface values by dynamic type and, if they implement
//     encoding.BinaryMarshaler (addresses, assets, app data), by their MarshalBinary bytes,
//     otherwise structurally;
//   - unexported fields (channel.Params.id) are read through unsafe and compared like exported ones.
func structDiff(a, b interface{}) []difference {
	d := &differ{}
	va, vb := reflect.ValueOf(a), reflect.ValueOf(b)
	if !va.IsValid() || !vb.IsValid() {
		if va.IsValid() != vb.IsValid() {
			d.add("%v vs %v", a, b)
		}
		return d.out
	}
	d.walk(addressable(va), addressable(vb), false)
	return d.out
}

// seg is one step of the position inside a value: a field name, or an index / map key.
type seg struct {
	field string
	index string // "#": slice / array step (position i); "k": map step (key)
	i     int
	key   reflect.Value
}

type differ struct {
	out   []difference
	stack []seg // the current position; formatted only when a difference is recorded
}

func (d *differ) add(format string, a ...interface{}) {
	if len(d.out) >= maxDiffs {
		return
	}
	path, where := "", ""
	for _, s := range d.stack {
		switch {
		case s.index == "#":
			path += "[]"
			where += fmt.Sprintf("[%d]", s.i)
		case s.index != "":
			path += "[]"
			where += "[" + fmt.Sprint(s.key) + "]"
		case path == "":
			path, where = s.field, s.field
		default:
			path += "." + s.field
			where += "." + s.field
		}
	}
	d.out = append(d.out, difference{Path: path, Where: where, Detail: fmt.Sprintf(format, a...)})
}

func (d *differ) push(s seg) { d.stack = append(d.stack, s) }
func (d *differ) pop()       { d.stack = d.stack[:len(d.stack)-1] }

func addressable(v reflect.Value) reflect.Value {
	if v.CanAddr() {
		return v
	}
	c := reflect.New(v.Type()).Elem()
	c.Set(v)
	return c
}

// field returns field i of an addressable struct, readable even if unexported.
func field(v reflect.Value, i int) reflect.Value {
	f := v.Field(i)
	if v.Type().Field(i).PkgPath != "" {
		f = reflect.NewAt(f.Type(), unsafe.Pointer(f.UnsafeAddr())).Elem()
	}
	return f
}

func short(b []byte) string {
	if b == nil {
		return "nil"
	}
	if len(b) > 12 {
		return fmt.Sprintf("%x..(%d bytes)", b[:12], len(b))
	}
	return fmt.Sprintf("%x(%d bytes)", b, len(b))
}

func appString(v reflect.Value) string {
	if v.IsNil() {
		return "nil"
	}
	app := v.Interface().(channel.App)
	if channel.IsNoApp(app) {
		return "NoApp"
	}
	def := app.Def()
	if def == nil {
		return fmt.Sprintf("%T(nil def)", app)
	}
	b, err := def.MarshalBinary()
	if err != nil {
		return fmt.Sprintf("%T(def error %v)", app, err)
	}
	return fmt.Sprintf("%T(def %x)", app, b)
}

func (d *differ) walk(a, b reflect.Value, sigSlot bool) {
	if len(d.out) >= maxDiffs {
		return
	}
	if a.Type() != b.Type() {
		d.add("type %s vs %s", a.Type(), b.Type())
		return
	}
	t := a.Type()
	switch {
	case t == bigIntPtrType:
		x, y := a.Interface().(*big.Int), b.Interface().(*big.Int)
		if (x == nil) != (y == nil) {
			d.add("big.Int %v vs %v", x, y)
		} else if x != nil && x.Cmp(y) != 0 {
			d.add("big.Int %v vs %v", x, y)
		}
		return
	case t.Kind() == reflect.Struct && t.ConvertibleTo(timeType) && timeType.ConvertibleTo(t):
		x, y := a.Convert(timeType).Interface().(time.Time), b.Convert(timeType).Interface().(time.Time)
		if !x.Equal(y) || x.UnixNano() != y.UnixNano() {
			d.add("time %d vs %d (UnixNano)", x.UnixNano(), y.UnixNano())
		}
		return
	case t == appType:
		if x, y := appString(a), appString(b); x != y {
			d.add("app %s vs %s", x, y)
		}
		return
	}
	switch t.Kind() {
	case reflect.Bool:
		if a.Bool() != b.Bool() {
			d.add("%v vs %v", a.Bool(), b.Bool())
		}
	case reflect.Int, reflect.Int8, reflect.Int16, reflect.Int32, reflect.Int64:
		if a.Int() != b.Int() {
			d.add("%d vs %d", a.Int(), b.Int())
		}
	case reflect.Uint, reflect.Uint8, reflect.Uint16, reflect.Uint32, reflect.Uint64, reflect.Uintptr:
		if a.Uint() != b.Uint() {
			d.add("%d vs %d", a.Uint(), b.Uint())
		}
	case reflect.Float32, reflect.Float64:
		if a.Float() != b.Float() {
			d.add("%v vs %v", a.Float(), b.Float())
		}
	case reflect.String:
		if a.String() != b.String() {
			d.add("string (%d bytes) vs (%d bytes)", a.Len(), b.Len())
		}
	case reflect.Array:
		if t.Elem().Kind() == reflect.Uint8 {
			x, y := make([]byte, a.Len()), make([]byte, b.Len())
			reflect.Copy(reflect.ValueOf(x), a)
			reflect.Copy(reflect.ValueOf(y), b)
			if !bytes.Equal(x, y) {
				d.add("%s vs %s", short(x), short(y))
			}
			return
		}
		for i := 0; i < a.Len(); i++ {
			d.push(seg{index: "#", i: i})
			d.walk(a.Index(i), b.Index(i), false)
			d.pop()
		}
	case reflect.Slice:
		if t.Elem().Kind() == reflect.Uint8 {
			x, y := a.Bytes(), b.Bytes()
			if sigSlot && (x == nil) != (y == nil) {
				d.add("signature slot %s vs %s (nil = no signature)", short(x), short(y))
			} else if !bytes.Equal(x, y) {
				d.add("%s vs %s", short(x), short(y))
			}
			return
		}
		if a.Len() != b.Len() {
			d.add("length %d vs %d", a.Len(), b.Len())
			return
		}
		for i := 0; i < a.Len(); i++ {
			d.push(seg{index: "#", i: i})
			d.walk(a.Index(i), b.Index(i), sigSlot)
			d.pop()
		}
	case reflect.Map:
		if a.Len() != b.Len() {
			d.add("map with %d vs %d entries", a.Len(), b.Len())
			return
		}
		keys := a.MapKeys()
		if len(keys) > 1 {
			sort.Slice(keys, func(i, j int) bool { return fmt.Sprint(keys[i]) < fmt.Sprint(keys[j]) })
		}
		for _, k := range keys {
			y := b.MapIndex(k)
			if !y.IsValid() {
				d.add("key %v missing", k)
				continue
			}
			d.push(seg{index: "k", key: k})
			d.walk(addressable(a.MapIndex(k)), addressable(y), false)
			d.pop()
		}
	case reflect.Ptr:
		if a.IsNil() || b.IsNil() {
			if a.IsNil() != b.IsNil() {
				d.add("pointer nil=%v vs nil=%v", a.IsNil(), b.IsNil())
			}
			return
		}
		d.walk(a.Elem(), b.Elem(), false)
	case reflect.Interface:
		if a.IsNil() || b.IsNil() {
			if a.IsNil() != b.IsNil() {
				d.add("interface nil=%v vs nil=%v", a.IsNil(), b.IsNil())
			}
			return
		}
		x, y := a.Elem(), b.Elem()
		if x.Type() != y.Type() {
			d.add("dynamic type %s vs %s", x.Type(), y.Type())
			return
		}
		if mx, ok := a.Interface().(encoding.BinaryMarshaler); ok {
			bx, ex := mx.MarshalBinary()
			by, ey := b.Interface().(encoding.BinaryMarshaler).MarshalBinary()
			if ex != nil || ey != nil {
				d.add("MarshalBinary errors %v / %v", ex, ey)
			} else if !bytes.Equal(bx, by) {
				d.add("%s %s vs %s", x.Type(), short(bx), short(by))
			}
			return
		}
		d.walk(addressable(x), addressable(y), false)
	case reflect.Struct:
		for i := 0; i < t.NumField(); i++ {
			name := t.Field(i).Name
			slots := name == "Sigs" && (t == txType || t == signedType)
			d.push(seg{field: name})
			d.walk(field(a, i), field(b, i), slots)
			d.pop()
		}
	default:
		d.add("comparator: unsupported kind %s", t.Kind())
	}
}

func diffPaths(ds []difference) string {
	s := ""
	for i, d := range ds {
		if i > 0 {
			s += "; "
		}
		s += d.String()
	}
	return s
}
