package codec

import (
	"bytes"
	"crypto/sha1"
	"fmt"
	"io"

	"perun.network/go-perun/wire"
	"verif/engine/report"
	"verif/harness/codec/cat"
)

// C14: round trip, exact consumption, serializer agreement, stable native encoding.

const (
	repeatEncodings = 64
	sentinelLen     = 7
)

var sentinel = []byte{0xA5, 0x5A, 0xC3, 0x3C, 0x96, 0x69, 0xF0}

// subject is one (catalogue entry, codec) pair: an envelope with one of the two serializers, or a
// value with its native encoder.
type subject struct {
	kind   string // "envelope" | "value"
	ser    string // "native" | "protobuf" | "value"
	typ    string // message type / value type
	name   string // catalogue entry name
	stable bool   // the statement claims a stable encoding (native codecs)
	fresh  func() interface{}
	enc    func(v interface{}) ([]byte, error, bool)
	dec    func(r io.Reader) (interface{}, error, bool)
}

func envSubject(e cat.Envelope, s cat.Ser) subject {
	return subject{kind: "envelope", ser: s.String(), typ: e.Msg, name: e.Name, stable: s == cat.Native,
		fresh: func() interface{} { return e.New() },
		enc: func(v interface{}) ([]byte, error, bool) {
			b, _, err, p := encodeEnv(s, v.(*wire.Envelope))
			return b, err, p
		},
		dec: func(r io.Reader) (interface{}, error, bool) {
			env, err, p := decodeEnv(s, r)
			return env, err, p
		}}
}

func valSubject(v cat.Value) subject {
	return subject{kind: "value", ser: "value", typ: v.Type, name: v.Name, stable: true,
		fresh: func() interface{} { return v.New() },
		enc:   func(x interface{}) ([]byte, error, bool) { return encodeVal(x.(cat.Codec)) },
		dec: func(r io.Reader) (interface{}, error, bool) {
			z := v.Zero()
			err, p := decodeVal(z, r)
			return z, err, p
		}}
}

type c14 struct {
	res     *report.Result
	verbose bool
	// refs: the encoding of every envelope entry per serializer as obtained in the main pass,
	// before the process has run any encode that fails (c14_fail_test.go); nil: not kept
	refs map[string][]byte
}

func (h *c14) eval(clause string) {
	h.res.Count("evaluations", 1)
	h.res.Count("checks_"+clause, 1)
}

func (h *c14) violate(s subject, clause, path, detail string) {
	sig := fmt.Sprintf("C14:%s:%s/%s", clause, s.ser, s.typ)
	if path != "" {
		sig += "/" + path
	}
	if h.verbose {
		fmt.Printf("  VIOLATION %s\n    %s\n", sig, detail)
	}
	h.res.Violate("C14", sig, fmt.Sprintf("[%s] %s", s.name, detail),
		map[string]interface{}{"harness": "codec", "property": "C14", "kind": s.kind, "entry": s.name, "serializer": s.ser, "clause": clause})
}

func (h *c14) fail(s subject, what string, err error, panicked bool) {
	clause := what + "-error"
	if panicked {
		clause = "panic"
	}
	h.violate(s, clause, "", fmt.Sprintf("%s of a well-formed %s failed: %v", what, s.typ, err))
}

// check runs every clause of C14 for one subject; partner is another subject of the same codec
// used as the second message of the concatenated stream. It returns the decoded value (nil if
// the round trip did not get that far).
func (h *c14) check(s, partner subject) interface{} {
	// encode
	h.eval("encode")
	b, err, panicked := s.enc(s.fresh())
	if err != nil {
		h.fail(s, "encode", err, panicked)
		return nil
	}
	sum := sha1.Sum(b)
	if h.res.Seen("nontrivial", fmt.Sprintf("%x", sum[:8])) && len(b) > 0 {
		h.res.Count("distinct_encodings_"+s.ser, 1)
	}
	if h.refs != nil && s.kind == "envelope" {
		h.refs[refKey(s.ser, s.name)] = b
	}
	h.res.Count("bytes_encoded", int64(len(b)))
	if int64(len(b)) > h.res.Counters["max_encoding_len"] {
		h.res.Counters["max_encoding_len"] = int64(len(b))
	}
	if h.verbose {
		fmt.Printf("  %s %s: encoding %d bytes %x\n", s.ser, s.name, len(b), b)
	}

	// decode: round trip and consumption on the bare encoding
	h.eval("roundtrip")
	rd := &stream{data: b}
	d, err, panicked := s.dec(rd)
	if err != nil {
		if rd.past {
			h.eval("consumed")
			h.violate(s, "consumed-wrong", "", fmt.Sprintf("decoder asked for more than the %d bytes that were written (%v)", len(b), err))
		} else {
			h.fail(s, "decode", err, panicked)
		}
		return nil
	}
	if h.verbose {
		fmt.Printf("  %s %s: decoded %s\n", s.ser, s.name, dump(d))
	}
	for _, df := range structDiff(s.fresh(), d) {
		h.violate(s, "roundtrip-differs", df.Path, "dec(enc(v)) differs from v at "+df.String())
	}
	h.eval("consumed")
	if rd.pos != len(b) {
		h.violate(s, "consumed-wrong", "", fmt.Sprintf("decoder consumed %d of the %d bytes written", rd.pos, len(b)))
	}

	// concatenated stream: enc(v1) || enc(v2) || sentinel
	h.eval("consumed-stream")
	b2, err2, _ := partner.enc(partner.fresh())
	if err2 == nil {
		rd = &stream{data: append(append(append([]byte{}, b...), b2...), sentinel...)}
		d1, e1, p1 := s.dec(rd)
		switch {
		case e1 != nil:
			h.violate(s, "consumed-wrong", "", fmt.Sprintf("first message of enc(v1)||enc(v2)||sentinel does not decode although enc(v1) alone does: %v (panic=%v)", e1, p1))
		case len(structDiff(d, d1)) > 0:
			h.violate(s, "consumed-wrong", "", "first message of enc(v1)||enc(v2)||sentinel decodes to a different value than from enc(v1) alone: "+diffPaths(structDiff(d, d1)))
		case rd.pos != len(b):
			h.violate(s, "consumed-wrong", "", fmt.Sprintf("first message of the stream: decoder consumed %d bytes, the encoding has %d", rd.pos, len(b)))
		default:
			d2, e2, p2 := partner.dec(rd)
			rest := rd.data[rd.pos:]
			switch {
			case e2 != nil:
				h.violate(s, "consumed-wrong", "", fmt.Sprintf("second message (%s) of the stream does not decode: %v (panic=%v)", partner.name, e2, p2))
			case !bytes.Equal(rest, sentinel):
				h.violate(s, "consumed-wrong", "", fmt.Sprintf("after decoding v1, v2 the stream has %d bytes left (%x), expected exactly the %d sentinel bytes", len(rest), rest, sentinelLen))
			default:
				// v2 must be what partner decodes on its own (its own round trip is judged in its own turn)
				rdp := &stream{data: b2}
				if dp, ep, _ := partner.dec(rdp); ep == nil {
					if ds := structDiff(dp, d2); len(ds) > 0 {
						h.violate(s, "consumed-wrong", "", fmt.Sprintf("second message (%s) of the stream decodes differently than alone: %s", partner.name, diffPaths(ds)))
					}
				}
			}
		}
	}

	if s.stable {
		// enc(dec(b)) == b. If the encoder is not a function (see unstable-encoding) any of its outputs counts.
		h.eval("reencode")
		var re []byte
		ok := false
		for i := 0; i < repeatEncodings && !ok; i++ {
			var e error
			var p bool
			re, e, p = s.enc(d)
			if e != nil {
				h.violate(s, "reencode-differs", "", fmt.Sprintf("re-encoding the decoded value failed: %v (panic=%v)", e, p))
				break
			}
			ok = bytes.Equal(re, b)
		}
		if !ok && re != nil {
			h.violate(s, "reencode-differs", "", fmt.Sprintf("enc(dec(b)) != b in %d attempts: b=%s (%d bytes), re-encoding %s (%d bytes), first difference at offset %d",
				repeatEncodings, hexPrefix(b), len(b), hexPrefix(re), len(re), firstDiff(b, re)))
		}
		// enc(v) repeated is constant
		h.eval("stable")
		v := s.fresh()
		distinct := map[string]bool{string(b): true}
		for i := 0; i < repeatEncodings; i++ {
			bi, e, _ := s.enc(v)
			if e != nil {
				break
			}
			distinct[string(bi)] = true
		}
		if len(distinct) > 1 {
			h.violate(s, "unstable-encoding", "", fmt.Sprintf("%d encodings of one value produced %d different byte strings", repeatEncodings+1, len(distinct)))
		}
	}
	return d
}

func firstDiff(a, b []byte) int {
	for i := 0; i < len(a) && i < len(b); i++ {
		if a[i] != b[i] {
			return i
		}
	}
	if len(a) < len(b) {
		return len(a)
	}
	return len(b)
}

// checkEnvelope runs C14 for one envelope entry with every serializer that can express it,
// and compares what the two serializers decoded.
func (h *c14) checkEnvelope(all []cat.Envelope, i int) {
	e := all[i]
	decoded := map[cat.Ser]interface{}{}
	for _, s := range cat.Sers {
		if e.Ser&s == 0 {
			h.res.Count("entries_not_expressible_"+s.String(), 1)
			continue
		}
		// partner: the closest earlier entry (cyclically) that this serializer can express
		j := (i + len(all) - 1) % len(all)
		for all[j].Ser&s == 0 {
			j = (j + len(all) - 1) % len(all)
		}
		decoded[s] = h.check(envSubject(e, s), envSubject(all[j], s))
		h.res.Count("cases_envelope_"+s.String(), 1)
	}
	if dn, dp := decoded[cat.Native], decoded[cat.Protobuf]; dn != nil && dp != nil {
		h.eval("agreement")
		s := envSubject(e, cat.Native)
		s.ser = "native-vs-protobuf"
		for _, df := range structDiff(dn, dp) {
			h.violate(s, "serializers-disagree", df.Path, "the native and the protobuf serializer decode the same envelope differently at "+df.String())
		}
	}
	if e.Rep || e.Big > 0 {
		if b, err := cat.EncodeEnvelope(cat.Native, e.New()); err == nil {
			h.res.Sample(12, map[string]interface{}{"entry": e.Name, "serializer": "native", "len": len(b), "hex_prefix": hexPrefix(b)})
		}
	}
}

func (h *c14) checkValue(all []cat.Value, i int) {
	j := (i + len(all) - 1) % len(all)
	h.check(valSubject(all[i]), valSubject(all[j]))
	h.res.Count("cases_value", 1)
	h.res.Seen("value_types", all[i].Type)
}

func runC14(res *report.Result) {
	h := &c14{res: res, refs: map[string][]byte{}}
	envs, vals := cat.Envelopes(), cat.Values()
	checkCatalogue(res, envs)
	if res.Thorough() {
		envs = append(envs, cat.ExtraEnvelopes()...)
	}
	// the limit catalogue: one dimension exactly at a documented limit per entry; judged like
	// every other entry (what the encoder accepts must round-trip, both serializers must agree)
	nLimE, nLimV := len(cat.LimitEnvelopes()), len(cat.LimitValues())
	envs = append(envs, cat.LimitEnvelopes()...)
	vals = append(vals, cat.LimitValues()...)
	res.Count("catalogue_limit_envelopes", int64(nLimE))
	res.Count("catalogue_limit_values", int64(nLimV))
	for i := range envs {
		h.checkEnvelope(envs, i)
		res.Seen("message_types", envs[i].Msg)
	}
	for i := range vals {
		h.checkValue(vals, i)
	}
	// the backend catalogue: allocations whose assets belong to two different channel backends.
	// The second backend (id 7) is registered only now, so that everything above ran in a
	// process that knows the sim backend alone, like the other harnesses that share the catalogue.
	cat.RegisterSecondChannelBackend()
	benvs, bvals := cat.BackendEnvelopes(), cat.BackendValues()
	for i := range benvs {
		h.checkEnvelope(benvs, i)
	}
	for i := range bvals {
		h.checkValue(bvals, i)
	}
	res.Count("catalogue_backend_envelopes", int64(len(benvs)))
	res.Count("catalogue_backend_values", int64(len(bvals)))
	// last, because from here on the process has seen failing encodes: every envelope once more
	// after each failing envelope (c14_fail_test.go)
	h.runAfterFailure(append(append([]cat.Envelope{}, envs...), benvs...))
	res.Count("catalogue_envelopes", int64(len(envs)))
	res.Count("catalogue_values", int64(len(vals)))
	res.Extra["exhaustive"] = true
	res.Extra["bound"] = fmt.Sprintf("catalogue of %d envelopes (17 message types) x 2 serializers and %d values, of which %d envelopes and %d values exactly at one documented limit (1024 assets / participants / sub-allocations, 128 byte amounts, 32 byte nonces), see harness/codec/cat; %d envelopes and %d values with assets of two different channel backends (ids 0 and 7); every envelope again after each of %d failing envelopes, %d rounds each", len(envs), len(vals), nLimE, nLimV, len(benvs), len(bvals), len(cat.FailingEnvelopes()), failRounds)
	res.Note("second wallet backend id %d registered in-process: %v (needed for two-entry wallet address maps)", cat.SecondBackend, cat.SecondBackendRegistered)
	res.Note("not expressible by the protobuf serializer (run with the native one only): ShutdownMsg with a 65535 byte reason (frame limit), ChannelSyncMsg without state (FromState dereferences the nil state)")
	res.Note("limit catalogue: entries with 1024 participants that carry a 64 byte wallet address or signature per participant exceed the 65535 byte protobuf frame and are run with the native serializer only (entries_not_expressible_protobuf)")
	res.Note("two-entry participant maps inside channel.Params are not constructible with the sim backend (Address.BackendID() is the constant 0, NewParams refuses the key 1)")
}

// checkCatalogue asserts the catalogue's own promises (engine errors, not verdicts): all 17
// message types present with a representative, a > 1500 and a > 4096 byte envelope.
func checkCatalogue(res *report.Result, envs []cat.Envelope) {
	reps, big := map[string]int{}, map[int]int{}
	for _, e := range envs {
		if e.Rep {
			reps[e.Msg]++
		}
		if e.Big > 0 {
			if b, err := cat.EncodeEnvelope(cat.Native, e.New()); err == nil {
				if len(b) <= e.Big {
					panic(fmt.Sprintf("catalogue: %s is marked > %d bytes but encodes to %d", e.Name, e.Big, len(b)))
				}
				big[e.Big]++
			}
		}
	}
	for _, m := range cat.MsgTypes {
		if reps[m] != 1 {
			panic(fmt.Sprintf("catalogue: message type %s has %d representatives", m, reps[m]))
		}
	}
	if big[1500] == 0 || big[4096] == 0 {
		panic("catalogue: big envelopes missing")
	}
}
