package codec

import (
	"fmt"
	"sort"
	"time"

	"perun.network/go-perun/wire"
	wirenet "perun.network/go-perun/wire/net"
	"verif/engine/report"
	"verif/harness/codec/cat"
)

// C16: framing independent of how the transport chunks the bytes.

const nearField = 8 // for long streams: pairs of cuts within this many bytes of an encoder write boundary

// streamCase is one byte stream: one or two consecutive envelopes written by one serializer.
type streamCase struct {
	Entries []string // catalogue entry names, in stream order
	Ser     cat.Ser
	msg     string // message type of the first envelope (signature site)
	data    []byte
	ends    []int // frame ends (cumulative)
	starts  []int // offsets at which the encoder started a Write
	ref     []*wire.Envelope
}

func (sc *streamCase) name() string {
	return fmt.Sprintf("%s:%v", sc.Ser, sc.Entries)
}

// cutSet is one way to deliver a stream: explicit cuts or a uniform chunk size.
type cutSet struct {
	Cuts  []int `json:"cuts,omitempty"`
	Chunk int   `json:"chunk,omitempty"`
}

type c16Replay struct {
	Harness    string   `json:"harness"`
	Property   string   `json:"property"`
	Entries    []string `json:"entries"`
	Serializer string   `json:"serializer"`
	cutSet
}

type c16 struct {
	res      *report.Result
	verbose  bool
	shard, n int
	unit     int64 // running number of the cut set over the whole plan (identical in every shard)
	done     int64 // cut sets run by this worker
	deadline time.Time
	capped   bool
	seen     map[string]bool
}

func buildStream(byName map[string]cat.Envelope, names []string, s cat.Ser) (*streamCase, error) {
	sc := &streamCase{Entries: names, Ser: s}
	for i, n := range names {
		e, ok := byName[n]
		if !ok {
			return nil, fmt.Errorf("unknown catalogue entry %q", n)
		}
		if i == 0 {
			sc.msg = e.Msg
		}
		// The encoding of a two-entry address map depends on map iteration order (C14); take the
		// smallest of several encodings so that a stream is the same bytes in every worker and replay.
		var best []byte
		var bestStarts []int
		tries := 1
		if e.Addr2 {
			tries = 64 // only reachable through a replay file or a changed plan: the plan avoids these entries
		}
		for k := 0; k < tries; k++ {
			b, starts, err, _ := encodeEnv(s, e.New())
			if err != nil {
				return nil, fmt.Errorf("encoding %s: %v", n, err)
			}
			if best == nil || string(b) < string(best) {
				best, bestStarts = b, starts
			}
		}
		for _, st := range bestStarts {
			sc.starts = append(sc.starts, len(sc.data)+st)
		}
		sc.data = append(sc.data, best...)
		sc.ends = append(sc.ends, len(sc.data))
	}
	// reference: every envelope decoded alone from exactly its own frame. (The stream delivered
	// all at once is one of the deliveries the statement names - it is judged like every other
	// cut set, not used as the reference: a decoder that reads ahead loses the following
	// envelopes precisely in that delivery.)
	for i := range names {
		start := 0
		if i > 0 {
			start = sc.ends[i-1]
		}
		rd := &stream{data: sc.data[start:sc.ends[i]]}
		env, err, _ := decodeEnv(s, rd)
		if err != nil || rd.pos != len(rd.data) {
			return nil, fmt.Errorf("decoding envelope %d alone from its own frame failed (C14's business): err=%v consumed=%d frame length=%d", i, err, rd.pos, len(rd.data))
		}
		sc.ref = append(sc.ref, env)
	}
	return sc, nil
}

// run delivers the stream with one cut set and judges the result; returns the clause violated ("" = none).
func (h *c16) run(sc *streamCase, cs cutSet) (clause, detail string) {
	rd := &stream{data: sc.data, cuts: cs.Cuts, chunk: cs.Chunk}
	// the stream is read the way a client reads it: through the real connection type of wire/net
	// (one connection for the whole stream), which hands the reader to the serializer
	conn := wirenet.NewIoConn(openConn{rd}, sc.Ser.Serializer())
	for i := range sc.ref {
		var env *wire.Envelope
		err, panicked := guard(func() (e error) { env, e = conn.Recv(); return })
		switch {
		case rd.past:
			return "read-past-frame", fmt.Sprintf("envelope %d: the decoder issued a Read after all %d bytes had been delivered (err=%v)", i, len(sc.data), err)
		case err != nil:
			return "chunked-decode-fails", fmt.Sprintf("envelope %d (frame %d..%d) does not decode: %v (panic=%v)", i, sc.ends[i]-frameLen(sc, i), sc.ends[i], err, panicked)
		}
		if ds := structDiff(sc.ref[i], env); len(ds) > 0 {
			return "chunked-decode-differs", fmt.Sprintf("envelope %d decodes differently than from the unchunked stream: %s", i, diffPaths(ds))
		}
		if rd.pos != sc.ends[i] {
			return "chunked-decode-differs", fmt.Sprintf("envelope %d: decoder stopped at offset %d, the frame ends at %d", i, rd.pos, sc.ends[i])
		}
	}
	return "", ""
}

func frameLen(sc *streamCase, i int) int {
	if i == 0 {
		return sc.ends[0]
	}
	return sc.ends[i] - sc.ends[i-1]
}

// inside reports whether at least one cut of the set falls strictly inside a frame.
func (sc *streamCase) inside(cs cutSet) bool {
	isEnd := func(c int) bool {
		for _, e := range sc.ends {
			if c == e {
				return true
			}
		}
		return c <= 0
	}
	if cs.Chunk > 0 {
		for c := cs.Chunk; c < len(sc.data); c += cs.Chunk {
			if !isEnd(c) {
				return true
			}
		}
		return false
	}
	for _, c := range cs.Cuts {
		if !isEnd(c) {
			return true
		}
	}
	return false
}

// try is one unit of work; with sharding each worker takes every n-th unit.
func (h *c16) try(sc *streamCase, cs cutSet) {
	h.unit++
	if h.capped || int(h.unit%int64(h.n)) != h.shard {
		return
	}
	if h.done++; h.done%1024 == 0 && !h.deadline.IsZero() && time.Now().After(h.deadline) {
		h.capped = true
		h.res.Cap("deadline reached in stream %s", sc.name())
		return
	}
	h.res.Count("evaluations", 1)
	if sc.inside(cs) {
		h.res.Count("distinct_nontrivial", 1)
	}
	clause, detail := h.run(sc, cs)
	if clause == "" {
		return
	}
	sig := fmt.Sprintf("C16:%s:%s/%s", clause, sc.Ser, sc.msg)
	if h.seen[sig] && !h.verbose {
		h.res.Violate("C16", sig, "", nil) // counted; the first case of a signature carries detail and replay
		return
	}
	if h.seen == nil {
		h.seen = map[string]bool{}
	}
	h.seen[sig] = true
	h.res.Violate("C16", sig, fmt.Sprintf("[%s, %d bytes, cuts %v chunk %d] %s", sc.name(), len(sc.data), cs.Cuts, cs.Chunk, detail),
		c16Replay{Harness: "codec", Property: "C16", Entries: sc.Entries, Serializer: sc.Ser.String(), cutSet: cs})
}

// family counts the size of a family of cut sets; these are properties of the plan, so only
// shard 0 reports them (the driver adds the counters of all workers).
func (h *c16) family(name string, n int64) {
	if h.shard == 0 {
		h.res.Count(name, n)
	}
}

// enumerate runs every cut set of the families for one stream.
func (h *c16) enumerate(sc *streamCase, pairLimit int) {
	n := len(sc.data)
	// positions within nearField bytes of an encoder write boundary (or of a frame end)
	near := map[int]bool{}
	for _, b := range append(append([]int{0}, sc.starts...), sc.ends...) {
		for c := b - nearField; c <= b+nearField; c++ {
			if c >= 1 && c <= n-1 {
				near[c] = true
			}
		}
	}
	var nearList []int
	for c := range near {
		nearList = append(nearList, c)
	}
	sort.Ints(nearList)
	allPairs := n <= pairLimit

	h.try(sc, cutSet{}) // all at once (the reference delivery)
	h.family("cutsets_unchunked", 1)
	for c := 1; c < n; c++ { // every single cut
		h.try(sc, cutSet{Cuts: []int{c}})
	}
	h.family("cutsets_single", int64(n-1))
	for k := 1; k < n; k++ { // every uniform chunk size (k >= n is the unchunked delivery)
		switch m := (n - 1) / k; { // number of cuts
		case m == 1:
			continue // same as the single cut k
		case m == 2 && (allPairs || (near[k] && near[2*k])):
			continue // same as the pair (k, 2k)
		}
		h.try(sc, cutSet{Chunk: k})
		h.family("cutsets_uniform", 1)
	}
	if allPairs {
		for c1 := 1; c1 < n; c1++ {
			for c2 := c1 + 1; c2 < n; c2++ {
				h.try(sc, cutSet{Cuts: []int{c1, c2}})
			}
		}
		h.family("cutsets_pairs_all", int64((n-1)*(n-2)/2))
		h.family("streams_with_all_pairs", 1)
	} else {
		for i, c1 := range nearList {
			for _, c2 := range nearList[i+1:] {
				h.try(sc, cutSet{Cuts: []int{c1, c2}})
			}
		}
		h.family("cutsets_pairs_near_field_boundaries", int64(len(nearList)*(len(nearList)-1)/2))
		h.family("streams_with_near_boundary_pairs", 1)
	}
}

// streamPlan lists the streams: per message type the representative alone and followed by a
// second envelope of the same type, with both serializers; the designated big envelopes alone
// and followed by their type's representative.
func streamPlan(envs []cat.Envelope, thorough bool) (plan [][]string) {
	rep, second := map[string]string{}, map[string]string{}
	for _, e := range envs {
		if e.Rep {
			rep[e.Msg] = e.Name
		}
	}
	for _, e := range envs {
		if !e.Rep && e.Big == 0 && e.Ser == cat.Both && !e.Addr2 && second[e.Msg] == "" {
			second[e.Msg] = e.Name
		}
	}
	for _, m := range cat.MsgTypes {
		plan = append(plan, []string{rep[m]}, []string{rep[m], second[m]})
	}
	for _, e := range envs {
		if e.Big == 0 || (e.NoStream && !thorough) {
			continue
		}
		plan = append(plan, []string{e.Name})
		if thorough || e.Big < 4096 {
			plan = append(plan, []string{e.Name, rep[e.Msg]}, []string{rep[e.Msg], e.Name})
		}
	}
	return
}

func runC16(res *report.Result) {
	h := &c16{res: res, deadline: report.Deadline()}
	h.shard, h.n = report.Shard()
	pairLimit := 200
	if res.Thorough() {
		pairLimit = 600
	}
	envs := cat.Envelopes()
	checkCatalogue(res, envs)
	byName := map[string]cat.Envelope{}
	for _, e := range envs {
		byName[e.Name] = e
	}
	for _, names := range streamPlan(envs, res.Thorough()) {
		for _, s := range cat.Sers {
			sc, err := buildStream(byName, names, s)
			if err != nil {
				if h.shard == 0 {
					res.Cap("stream %v/%s skipped: %v", names, s, err)
				}
				continue
			}
			before := h.unit
			h.enumerate(sc, pairLimit)
			if h.shard == 0 {
				res.Count("streams", 1)
				res.Count("stream_bytes", int64(len(sc.data)))
				if int64(len(sc.data)) > res.Counters["max_stream_len"] {
					res.Counters["max_stream_len"] = int64(len(sc.data))
				}
				res.Seen("message_types", sc.msg)
				res.Note("stream %s: %d bytes, %d encoder writes, %d cut sets", sc.name(), len(sc.data), len(sc.starts), h.unit-before)
				res.Sample(12, map[string]interface{}{"stream": sc.name(), "len": len(sc.data), "hex_prefix": hexPrefix(sc.data), "frame_ends": sc.ends, "encoder_writes": len(sc.starts)})
			}
		}
	}
	h.connFamilies(byName, envs)
	res.Extra["exhaustive"] = !h.capped
	res.Extra["bound"] = fmt.Sprintf("every single cut, every uniform chunk size, every pair of cuts for streams <= %d bytes, pairs within %d bytes of an encoder write boundary for longer streams", pairLimit, nearField)
}
