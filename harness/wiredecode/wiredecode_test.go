// Package wiredecode: second stage of C13 - the native envelope decoder in a process that does
// NOT link perun.network/go-perun/client.
//
// The decoders of the message types 4..16 (LedgerChannelProposal .. ChannelSync) are registered
// with package wire by init functions of package client. A process that only links wire and the
// perunio serializer (a relay, a tool that only speaks ping / shutdown / authentication, any
// test binary of package wire itself) has no decoder for them, so what wire.DecodeMsg does with
// such a type byte depends on how "is this a type I can decode" is decided - a question that
// does not arise in harness/decode, which links client through its seed catalogue. This
// binary therefore must not import client, directly or indirectly (checked with
// `go list -deps ./harness/wiredecode`, and by the probe at the end of the run: registering a
// decoder for each of the types 4..16 must succeed, i.e. none was registered before).
//
// Family (enumerated, no random choice): a valid envelope header (sender and recipient address
// maps written by the real encoder) followed by every type byte 0..255 and every payload of a
// fixed list (empty, single bytes, runs of 0x00 / 0xff, a 64 and a 300 byte fixed pattern, the
// valid payloads of the four messages package wire itself defines and their truncations),
// decoded by the perunio envelope serializer; and the same type byte + payload given to
// wire.DecodeMsg directly. Oracle of C13: a value or an error, never a panic. The four
// messages of package wire must decode from their valid payloads (control).
package wiredecode

import (
	"bytes"
	"encoding/hex"
	"encoding/json"
	"fmt"
	"io"
	"os"
	"runtime"
	"strings"
	"testing"
	"time"

	simwire "perun.network/go-perun/backend/sim/wire"
	"perun.network/go-perun/wallet"
	"perun.network/go-perun/wire"
	"perun.network/go-perun/wire/perunio"
	perunioserializer "perun.network/go-perun/wire/perunio/serializer"
	"verif/engine/report"
)

const perunPrefix = "perun.network/go-perun/"

func fixedAddr(seed byte) map[wallet.BackendID]wire.Address {
	a := simwire.NewAddress()
	for i := range a {
		a[i] = seed + byte(i)*7
	}
	return map[wallet.BackendID]wire.Address{0: a}
}

// header is the encoding of the sender and recipient maps of an envelope by the real encoder.
func header() []byte {
	var buf bytes.Buffer
	if err := perunio.Encode(&buf, wire.AddressDecMap(fixedAddr(1)), wire.AddressDecMap(fixedAddr(2))); err != nil {
		panic("engine error: the envelope header does not encode: " + err.Error())
	}
	return buf.Bytes()
}

func pattern(n int) []byte {
	b := make([]byte, n)
	for i := range b {
		b[i] = byte(i*37 + 11)
	}
	return b
}

type payload struct {
	name string
	b    []byte
}

// encodeMsgPayload returns what the real encoder writes for a message after its type byte.
func encodeMsgPayload(m wire.Msg) []byte {
	var buf bytes.Buffer
	if err := wire.EncodeMsg(m, &buf); err != nil {
		panic("engine error: " + err.Error())
	}
	return buf.Bytes()[1:]
}

// ownMsgs are the messages package wire defines itself (decoders registered by its own init).
func ownMsgs() map[wire.Type]wire.Msg {
	t := time.Unix(0, 1_700_000_000_123_456_789)
	return map[wire.Type]wire.Msg{
		wire.Ping:         &wire.PingMsg{PingPongMsg: wire.PingPongMsg{Created: t}},
		wire.Pong:         &wire.PongMsg{PingPongMsg: wire.PingPongMsg{Created: t}},
		wire.Shutdown:     &wire.ShutdownMsg{Reason: "the quick brown fox"},
		wire.AuthResponse: &wire.AuthResponseMsg{Signature: []byte("Authenticate")},
	}
}

func payloads() []payload {
	out := []payload{
		{"empty", nil},
		{"00", []byte{0}},
		{"01", []byte{1}},
		{"ff", []byte{0xff}},
		{"00x8", make([]byte, 8)},
		{"ffx8", bytes.Repeat([]byte{0xff}, 8)},
		{"pattern64", pattern(64)},
		{"pattern300", pattern(300)},
		{"00x300", make([]byte, 300)},
	}
	for _, t := range []wire.Type{wire.Ping, wire.Pong, wire.Shutdown, wire.AuthResponse} {
		p := encodeMsgPayload(ownMsgs()[t])
		out = append(out, payload{fmt.Sprintf("valid-%v", t), p})
		if len(p) > 1 {
			out = append(out, payload{fmt.Sprintf("valid-%v-cut%d", t, len(p)/2), p[:len(p)/2]}, payload{fmt.Sprintf("valid-%v-cut%d", t, len(p)-1), p[:len(p)-1]})
		}
	}
	return out
}

type outcome struct {
	status, err, site, stack string
	msg                      wire.Msg
}

// observe runs one decoder call; a panic is recovered and attributed to the innermost function
// of the module under test on the stack.
func observe(f func() (wire.Msg, error)) (o outcome) {
	defer func() {
		if p := recover(); p != nil {
			o.status, o.err = "panic", fmt.Sprint(p)
			pcs := make([]uintptr, 64)
			frames := runtime.CallersFrames(pcs[:runtime.Callers(3, pcs)])
			var lines []string
			for {
				fr, more := frames.Next()
				if strings.Contains(fr.Function, "harness/wiredecode.observe") {
					break
				}
				if fr.Function != "" {
					lines = append(lines, fmt.Sprintf("%s (%s:%d)", fr.Function, fr.File[strings.LastIndex(fr.File, "/")+1:], fr.Line))
					if rest := strings.TrimPrefix(fr.Function, perunPrefix); o.site == "" && rest != fr.Function && !strings.HasPrefix(rest, "log.") {
						o.site = rest
					}
				}
				if !more {
					break
				}
			}
			if o.site == "" {
				o.site = "outside-module"
			}
			o.stack = strings.Join(lines, "\n")
		}
	}()
	m, err := f()
	if err != nil {
		return outcome{status: "error", err: err.Error()}
	}
	return outcome{status: "ok", msg: m}
}

type replay struct {
	Harness string `json:"harness"`
	Decoder string `json:"decoder"` // "native-envelope" | "wire.DecodeMsg"
	Type    int    `json:"type"`
	Payload string `json:"payload"`
	Hex     string `json:"hex"` // the whole input
}

func decoderCall(kind string, input []byte) func() (wire.Msg, error) {
	if kind == "wire.DecodeMsg" {
		return func() (wire.Msg, error) { return wire.DecodeMsg(bytes.NewReader(input)) }
	}
	return func() (wire.Msg, error) {
		env, err := perunioserializer.Serializer().Decode(bytes.NewReader(input))
		if err != nil {
			return nil, err
		}
		return env.Msg, nil
	}
}

func judge(res *report.Result, kind string, t int, p payload, input []byte, verbose bool) {
	o := observe(decoderCall(kind, input))
	res.Count("evaluations", 1)
	res.Count("dec_"+kind, 1)
	res.Count("result_"+o.status, 1)
	if o.status != "error" {
		res.Count("distinct_nontrivial", 1) // the decoder of the type ran (value or panic)
	}
	rp := replay{"wiredecode", kind, t, p.name, hex.EncodeToString(input)}
	if verbose {
		fmt.Printf("  %s type %d payload %s (%d bytes input): %s %s\n", kind, t, p.name, len(input), o.status, o.err)
	}
	if o.status == "panic" {
		res.Violate("C13", "C13:panic:"+kind+"(without-client)/"+o.site,
			fmt.Sprintf("decoder panicked in a process that does not link package client: %s\n%s, message type byte %d (%v), payload %s, input %d bytes %x\nstack (innermost first):\n%s",
				o.err, kind, t, wire.Type(t), p.name, len(input), input, o.stack), rp)
	}
	// control: the messages package wire defines decode from their valid payloads
	if want, own := ownMsgs()[wire.Type(t)]; own && p.name == fmt.Sprintf("valid-%v", wire.Type(t)) {
		if o.status == "ok" && o.msg != nil && o.msg.Type() == want.Type() {
			res.Count("own_message_controls_ok", 1)
		} else if o.status != "panic" {
			res.Violate("C13", "C13:own-message-not-decoded:"+kind+"(without-client)/"+wire.Type(t).String(),
				fmt.Sprintf("the valid encoding of a %v message is not decoded in a process that does not link package client: %s %s", wire.Type(t), o.status, o.err), rp)
		}
	}
}

func run(res *report.Result) {
	hdr := header()
	pls := payloads()
	for t := 0; t < 256; t++ {
		for _, p := range pls {
			body := append([]byte{byte(t)}, p.b...)
			judge(res, "native-envelope", t, p, append(append([]byte{}, hdr...), body...), false)
			judge(res, "wire.DecodeMsg", t, p, body, false)
		}
	}
	res.Count("type_bytes", 256)
	res.Count("payloads", int64(len(pls)))
	res.Extra["exhaustive"] = true
	res.Extra["bound"] = fmt.Sprintf("wiredecode stage: 256 type bytes x %d payloads x 2 entry points (native envelope decoder, wire.DecodeMsg) in a binary without package client", len(pls))
}

// probeNoClient: none of the types whose decoders package client registers has a decoder in
// this process (RegisterDecoder panics if one is set). Runs last: it registers dummies.
func probeNoClient(t *testing.T, res *report.Result) {
	for ty := wire.LedgerChannelProposal; ty < wire.LastType; ty++ {
		func() {
			defer func() {
				if r := recover(); r != nil {
					t.Fatalf("engine error: a decoder for message type %v is registered in this binary (%v): it links package client or another package that registers decoders, the family says nothing about a process without them", ty, r)
				}
			}()
			wire.RegisterDecoder(ty, func(io.Reader) (wire.Msg, error) { return nil, io.ErrUnexpectedEOF })
		}()
	}
	res.Note("wiredecode stage: no decoder was registered for the message types %d..%d in this binary (package client is not linked)", int(wire.LedgerChannelProposal), int(wire.LastType)-1)
}

func TestCheck(t *testing.T) {
	if p := os.Getenv("VERIF_PROP"); p != "" && p != "C13" {
		t.Fatalf("harness wiredecode does not serve %s", p)
	}
	res := report.New("C13", "wiredecode")
	defer func() {
		if err := res.Write(); err != nil {
			t.Fatal(err)
		}
	}()
	if path := report.ReplayFile(); path != "" {
		b, err := os.ReadFile(path)
		if err != nil {
			t.Fatal(err)
		}
		var f struct {
			Replay replay `json:"replay"`
		}
		if err := json.Unmarshal(b, &f); err != nil {
			t.Fatal(err)
		}
		input, err := hex.DecodeString(f.Replay.Hex)
		if err != nil {
			t.Fatal(err)
		}
		fmt.Printf("C13 replay (wiredecode): %s, type byte %d, payload %s\n", f.Replay.Decoder, f.Replay.Type, f.Replay.Payload)
		judge(res, f.Replay.Decoder, f.Replay.Type, payload{name: f.Replay.Payload}, input, true)
		if res.NViolations() == 0 {
			fmt.Println("  VERDICT none: the case no longer violates")
		}
		for _, v := range res.Violations {
			fmt.Printf("  VERDICT %s\n    %s\n", v.Signature, strings.ReplaceAll(v.Detail, "\n", "\n    "))
		}
		probeNoClient(t, res)
		return
	}
	run(res)
	probeNoClient(t, res)
}
