// Package relay: engine SCHED over the real wire.Relay / wire.Cache / wire.Receiver (C18).
// Thread programs over {Put, Subscribe, Cache, ReleaseCache, consumer Close} with overlapping
// predicates are enumerated; every schedule up to the preemption bound is executed on the
// real code and the recorded call/return history is checked for linearizability against a
// sequential reference model (brute force over the <= 7 events), plus direct invariants.
package relay

import (
	"context"
	"fmt"
	"os"
	"sort"
	"strings"
	stdsync "sync"
	"testing"
	"time"

	_ "perun.network/go-perun/backend/sim"
	"perun.network/go-perun/wire"
	psync "polycry.pt/poly-go/sync"
	"verif/engine/explore"
	"verif/engine/report"
	"verif/engine/schedrun"
	"verif/engine/vsched"
)

// recCons is a recording consumer on a real poly-go Closer.
type recCons struct {
	psync.Closer
	mu  stdsync.Mutex // only contended in the free-running race audit (under the scheduler one thread runs at a time)
	got []string
}

func (c *recCons) Put(e *wire.Envelope) {
	c.mu.Lock()
	c.got = append(c.got, name(e))
	c.mu.Unlock()
}

func name(e *wire.Envelope) string { return e.Msg.(*wire.ShutdownMsg).Reason }
func env(s string) *wire.Envelope  { return &wire.Envelope{Msg: &wire.ShutdownMsg{Reason: s}} }

// overlapping predicates over envelope names
var preds = map[string]func(*wire.Envelope) bool{
	"all": func(*wire.Envelope) bool { return true },
	"e1":  func(e *wire.Envelope) bool { return name(e) == "e1" },
	"e12": func(e *wire.Envelope) bool { return name(e) == "e1" || name(e) == "e2" },
}

type op struct {
	Kind string `json:"k"` // put, sub, cache, release, close
	Arg  string `json:"a"` // envelope name / consumer name
	Pred string `json:"p"`
}

func (o op) String() string { return o.Kind + "(" + o.Arg + "," + o.Pred + ")" }

type event struct {
	op        op
	thread    int
	call, ret int
	err       string
}

type observation struct {
	cons  map[string][]string
	def   []string
	cache int
	evs   []*event
}

type scenario struct {
	init     string
	progs    [][]op
	consumer string // "rec" or "receiver"
}

var inits = map[string][]op{
	"empty":     nil,
	"cacheall":  {{"cache", "", "all"}},
	"sub-c0":    {{"sub", "c0", "e12"}},
	"cached-e1": {{"cache", "", "all"}, {"put", "e1", ""}},
}
var initOrder = []string{"empty", "cacheall", "sub-c0", "cached-e1"}

// fullC0: consumer c0 is subscribed and its queue is full (a Receiver buffers 16 envelopes and
// nobody reads): a further Put blocks on it until it is closed. Real Receivers only, and only
// programs that close c0.
func init() {
	ops := []op{{"sub", "c0", "all"}}
	for i := 0; i < 16; i++ {
		ops = append(ops, op{"put", "e2", ""})
	}
	inits["full-c0"] = ops
}

var alphabet = []op{{"put", "e1", ""}, {"put", "e2", ""}, {"sub", "c1", "all"}, {"sub", "c2", "e1"}, {"release", "", "all"}, {"close", "c0", ""}, {"cache", "", "e1"}}

// subClosed: subscribing a consumer that may already be closed (refused: must leave the cache alone)
var subC0 = op{"sub", "c0", "all"}

var table = map[string]scenario{}

func progName(p [][]op) string {
	var ths []string
	for _, th := range p {
		var os []string
		for _, o := range th {
			os = append(os, o.String())
		}
		ths = append(ths, strings.Join(os, ";"))
	}
	return strings.Join(ths, " || ")
}

func validProg(init []op, pr [][]op) bool {
	// a consumer may be subscribed only once (a duplicate subscription panics by contract)
	subs := map[string]int{}
	for _, o := range init {
		if o.Kind == "sub" {
			subs[o.Arg]++
		}
	}
	for _, th := range pr {
		for _, o := range th {
			if o.Kind == "sub" {
				subs[o.Arg]++
				if subs[o.Arg] > 1 {
					return false
				}
			}
		}
	}
	return true
}

func scenarios(res *report.Result) []schedrun.Scenario {
	var progs [][][]op
	// two threads, one op each
	for i, a := range alphabet {
		for _, b := range alphabet[i:] {
			progs = append(progs, [][]op{{a}, {b}})
		}
	}
	// two threads, two ops in the first: put;put and put;sub style sequences against one op
	seqs := [][]op{{alphabet[0], alphabet[1]}, {alphabet[0], alphabet[2]}, {alphabet[2], alphabet[0]}, {alphabet[6], alphabet[0]}, {alphabet[0], alphabet[4]},
		{alphabet[5], subC0}, {subC0, alphabet[5]}}
	for _, sq := range seqs {
		for _, b := range alphabet {
			progs = append(progs, [][]op{sq, {b}})
		}
	}
	bound2, bound3 := 2, 0
	if res.Thorough() {
		bound2, bound3 = 3, 2
		for i, a := range alphabet {
			for j, b := range alphabet[i:] {
				for _, c := range alphabet[i+j:] {
					progs = append(progs, [][]op{{a}, {b}, {c}})
				}
			}
		}
	} else {
		// quick: the three-thread programs over the five simplest ops
		for i, a := range alphabet[:5] {
			for j, b := range alphabet[i:5] {
				for _, c := range alphabet[i+j : 5] {
					progs = append(progs, [][]op{{a}, {b}, {c}})
				}
			}
		}
		bound3 = 1
	}
	var out []schedrun.Scenario
	for _, pr := range [][][]op{{{alphabet[0]}, {alphabet[5]}}, {{alphabet[0], alphabet[1]}, {alphabet[5]}}, {{alphabet[0]}, {alphabet[5], alphabet[2]}}} {
		n := "receiver/full-c0/" + progName(pr)
		table[n] = scenario{init: "full-c0", progs: pr, consumer: "receiver"}
		out = append(out, schedrun.Scenario{Name: n, Mode: explore.Preempt, Bound: bound2, MaxSteps: 20000, Weight: 4})
	}
	for _, in := range initOrder {
		for _, pr := range progs {
			if !validProg(inits[in], pr) {
				continue
			}
			for _, kind := range []string{"rec", "receiver"} {
				if kind == "receiver" {
					// real Receivers only where a subscription is involved
					has := in == "sub-c0"
					for _, th := range pr {
						for _, o := range th {
							has = has || o.Kind == "sub"
						}
					}
					if !has {
						continue
					}
				}
				b := bound2
				if len(pr) == 3 {
					b = bound3
				}
				if !res.Thorough() {
					// quick: the deepest bound only for single-operation programs on recording consumers
					if kind == "receiver" || len(pr[0]) > 1 {
						b = 1
					}
					if kind == "receiver" && len(pr) == 3 {
						continue
					}
				}
				n := kind + "/" + in + "/" + progName(pr)
				table[n] = scenario{init: in, progs: pr, consumer: kind}
				out = append(out, schedrun.Scenario{Name: n, Mode: explore.Preempt, Bound: b, MaxSteps: 20000, Weight: 1 + 8*(len(pr)-2)})
			}
		}
	}
	return out
}

func lookup(n string) scenario {
	if sc, ok := table[n]; ok {
		return sc
	}
	// replay of a scenario by name in a fresh process: rebuild the table for both tiers
	for _, tier := range []string{"quick", "thorough"} {
		r := report.New("C18", "relay")
		r.Tier = tier
		scenarios(r)
	}
	sc, ok := table[n]
	if !ok {
		panic("unknown scenario " + n)
	}
	return sc
}

// exec: init ops sequentially, then one thread per program.
func exec(t *testing.T, ssc schedrun.Scenario, o vsched.Options) (*vsched.Sched, any) {
	sc := lookup(ssc.Name)
	obs := &observation{cons: map[string][]string{}}
	s := vsched.Run(t, o, func() { body(sc, obs, false) })
	return s, obs
}

// body is one run of a scenario. With race=true it is the free-running variant used by the
// race audit (no scheduler active: every vsched call is a pass-through to the plain operation).
func body(sc scenario, obs *observation, race bool) {
	{
		r := wire.NewRelay()
		var defMu stdsync.Mutex
		r.SetDefaultMsgHandler(func(e *wire.Envelope) {
			defMu.Lock()
			obs.def = append(obs.def, name(e))
			defMu.Unlock()
		})
		// all consumers and cache predicates exist before the threads start: the maps are read-only
		// afterwards (the free-running race audit must not see races of the harness itself)
		recs := map[string]*recCons{}
		rcvs := map[string]*wire.Receiver{}
		var used []string
		for _, n := range []string{"c0", "c1", "c2"} {
			mentioned := false
			for _, o := range inits[sc.init] {
				mentioned = mentioned || o.Arg == n
			}
			for _, th := range sc.progs {
				for _, o := range th {
					mentioned = mentioned || o.Arg == n
				}
			}
			if !mentioned {
				continue
			}
			used = append(used, n)
			if sc.consumer == "receiver" {
				rcvs[n] = wire.NewReceiver()
			} else {
				recs[n] = &recCons{}
			}
		}
		consumer := func(n string) wire.Consumer {
			if sc.consumer == "receiver" {
				return rcvs[n]
			}
			return recs[n]
		}
		cachePreds := map[string]*wire.Predicate{}
		for _, n := range []string{"all", "e1", "e12"} {
			p := wire.Predicate(preds[n])
			cachePreds[n] = &p
		}
		clock := 0
		var evMu stdsync.Mutex
		do := func(th int, o op) {
			evMu.Lock()
			clock++
			ev := &event{op: o, thread: th, call: clock}
			obs.evs = append(obs.evs, ev)
			evMu.Unlock()
			switch o.Kind {
			case "put":
				r.Put(env(o.Arg))
			case "sub":
				if err := r.Subscribe(consumer(o.Arg), preds[o.Pred]); err != nil {
					ev.err = err.Error()
				}
			case "cache":
				r.Cache(cachePreds[o.Pred])
			case "release":
				if p := cachePreds[o.Pred]; p != nil {
					r.ReleaseCache(p)
				}
			case "close":
				if c, ok := consumer(o.Arg).(interface{ Close() error }); ok {
					c.Close() //nolint:errcheck
				}
			}
			evMu.Lock()
			clock++
			ev.ret = clock
			evMu.Unlock()
		}
		for _, o := range inits[sc.init] {
			do(-1, o)
		}
		if sc.init == "full-c0" && !race {
			vsched.StartExploration() // filling the queue is set-up: one thread, the default schedule
		}
		done := make(chan struct{}, len(sc.progs))
		for i, p := range sc.progs {
			i, p := i, p
			vsched.GoNamed(fmt.Sprintf("prog%d", i), func() {
				for _, o := range p {
					do(i, o)
				}
				vsched.Send(done, struct{}{})
			})
		}
		for range sc.progs {
			vsched.Recv(done)
		}
		if race {
			time.Sleep(200 * time.Microsecond)
			r.Close() //nolint:errcheck
			return
		}
		vsched.Sleep(time.Second) // asynchronous deliveries and deletes
		for n, c := range recs {
			obs.cons[n] = append([]string{}, c.got...)
		}
		var rnames []string
		for n := range rcvs {
			rnames = append(rnames, n)
		}
		sort.Strings(rnames) // never iterate a map while issuing visible operations
		for _, n := range rnames {
			rc := rcvs[n]
			// a Next whose context is done already takes nothing away
			cctx, ccancel := context.WithCancel(context.Background())
			ccancel()
			if e, err := rc.Next(cctx); err == nil {
				obs.cons[n] = append(obs.cons[n], "RETURNED-DESPITE-DONE-CONTEXT:"+name(e))
			}
			// drain the real receiver: everything handed to it is readable exactly once
			for {
				ctx, cancel := context.WithTimeout(context.Background(), time.Second)
				e, err := rc.Next(ctx)
				cancel()
				if err != nil {
					break
				}
				obs.cons[n] = append(obs.cons[n], name(e))
			}
		}
		for n := range obs.cons {
			sort.Strings(obs.cons[n])
		}
		sort.Strings(obs.def)
		if err := r.Close(); err != nil { // remaining cache size is only visible through Close's error
			fmt.Sscanf(err.Error(), "cache was not empty (%d)", &obs.cache)
		}
	}
}

// TestRace is the free-running race audit (DESIGN.md 2.3 (b)): the same thread programs run
// with real goroutines under Go's race detector, because the cooperative scheduler's hand-offs
// are happens-before edges that blind it. Auxiliary evidence: the driver turns every report
// of the detector into a violation; silence proves nothing.
func TestRace(t *testing.T) {
	res := report.New("C18", "relay-race")
	defer res.Write() //nolint:errcheck
	iters := 40
	if res.Thorough() {
		iters = 400
	}
	for _, ssc := range scenarios(res) {
		sc := lookup(ssc.Name)
		if len(sc.progs) > 2 && !res.Thorough() {
			continue
		}
		hung := false
		for i := 0; i < iters && !hung; i++ {
			done := make(chan struct{})
			go func() { body(sc, &observation{cons: map[string][]string{}}, true); close(done) }()
			select {
			case <-done:
				res.Count("evaluations", 1)
			case <-time.After(20 * time.Second):
				// free-running, a deadlock is a hang: deadlocks are judged by the exploration stage,
				// the audit only gives up (its goroutines are left behind)
				res.Cap("race audit abandoned: a free-running run of %s did not end within 20 s (deadlocks are judged by the exploration stage)", ssc.Name)
				hung = true
			}
		}
		if hung {
			break
		}
		res.Count("scenarios", 1)
	}
	res.Counters["distinct_nontrivial"] = res.Counters["scenarios"]
	res.Note("race audit: %d free-running iterations per scenario under -race (GORACE log: %s)", iters, os.Getenv("GORACE"))
}

// ---- sequential reference model ----
type model struct {
	subs   []struct{ c, p string }
	closed map[string]bool
	cpreds map[string]bool
	cache  []string
	cons   map[string][]string
	def    []string
}

func (m *model) step(o op) {
	switch o.Kind {
	case "put":
		found := false
		for _, s := range m.subs {
			if preds[s.p](env(o.Arg)) {
				m.cons[s.c] = append(m.cons[s.c], o.Arg)
				found = true
			}
		}
		if !found {
			c := false
			for p := range m.cpreds {
				if preds[p](env(o.Arg)) {
					c = true
				}
			}
			if c {
				m.cache = append(m.cache, o.Arg)
			} else {
				m.def = append(m.def, o.Arg)
			}
		}
	case "sub":
		if m.closed[o.Arg] {
			return
		}
		m.subs = append(m.subs, struct{ c, p string }{o.Arg, o.Pred})
		var rest []string
		for _, e := range m.cache {
			if preds[o.Pred](env(e)) {
				m.cons[o.Arg] = append(m.cons[o.Arg], e)
			} else {
				rest = append(rest, e)
			}
		}
		m.cache = rest
	case "cache":
		m.cpreds[o.Pred] = true
	case "release":
		delete(m.cpreds, o.Pred)
	case "close":
		m.closed[o.Arg] = true
	case "delete": // internal: asynchronous removal of a closed consumer
		var rest []struct{ c, p string }
		for _, s := range m.subs {
			if s.c != o.Arg {
				rest = append(rest, s)
			}
		}
		m.subs = rest
	}
}

// linearizable: some order of the events (plus one internal delete per close, anywhere after
// the close was called) respecting call/return order reproduces the observation. With a real
// Receiver as consumer, envelopes handed to a consumer after its close are dropped by the
// receiver (documented), so for closed consumers only "observed is a sub-multiset of the
// model's" is demanded.
func linearizable(obs *observation, receiver bool) bool {
	evs := append([]*event{}, obs.evs...)
	closedC := map[string]bool{}
	for _, e := range obs.evs {
		if e.op.Kind == "close" {
			evs = append(evs, &event{op: op{Kind: "delete", Arg: e.op.Arg}, call: e.call, ret: 1 << 30, thread: -2})
			closedC[e.op.Arg] = true
		}
	}
	n := len(evs)
	used := make([]bool, n)
	order := make([]*event, 0, n)
	var rec func() bool
	rec = func() bool {
		if len(order) == n {
			m := &model{closed: map[string]bool{}, cpreds: map[string]bool{}, cons: map[string][]string{}}
			for _, e := range order {
				m.step(e.op)
			}
			for c, g := range m.cons {
				sort.Strings(g)
				m.cons[c] = g
			}
			sort.Strings(m.def)
			if fmt.Sprint(m.def) != fmt.Sprint(obs.def) || len(m.cache) != obs.cache {
				return false
			}
			keys := map[string]bool{}
			for c := range m.cons {
				keys[c] = true
			}
			for c := range obs.cons {
				keys[c] = true
			}
			for c := range keys {
				if receiver && closedC[c] {
					if !subMultiset(obs.cons[c], m.cons[c]) {
						return false
					}
					continue
				}
				if fmt.Sprint(m.cons[c]) != fmt.Sprint(obs.cons[c]) {
					return false
				}
			}
			return true
		}
		for i, e := range evs {
			if used[i] {
				continue
			}
			ok := true
			for j, f := range evs { // e may come next only if no unused event returned before e was called
				if !used[j] && j != i && f.ret < e.call {
					ok = false
					break
				}
			}
			if !ok {
				continue
			}
			used[i] = true
			order = append(order, e)
			if rec() {
				return true
			}
			order = order[:len(order)-1]
			used[i] = false
		}
		return false
	}
	return rec()
}

func subMultiset(a, b []string) bool { // both sorted
	j := 0
	for _, x := range a {
		for j < len(b) && b[j] < x {
			j++
		}
		if j >= len(b) || b[j] != x {
			return false
		}
		j++
	}
	return true
}

func site(sc scenario) string {
	var kinds []string
	for _, th := range sc.progs {
		var k []string
		for _, o := range th {
			k = append(k, o.Kind)
		}
		kinds = append(kinds, strings.Join(k, ";"))
	}
	sort.Strings(kinds)
	return sc.consumer + "/" + sc.init + "/" + strings.Join(kinds, "|")
}

func check(ssc schedrun.Scenario, s *vsched.Sched, o any) []schedrun.Verdict {
	sc := lookup(ssc.Name)
	obs := o.(*observation)
	st := site(sc)
	mk := func(clause, detail string) []schedrun.Verdict {
		return []schedrun.Verdict{{Property: "C18", Clause: clause, Site: st, Detail: detail}}
	}
	if len(s.Panics) > 0 {
		return mk("panic", firstLines(s.Panics[0], 12))
	}
	if s.Deadlock {
		return mk("deadlock", "main thread cannot finish:\n"+s.Dump())
	}
	if s.Capped {
		return nil
	}
	// I1: no consumer sees an envelope its predicate rejects; I2: none twice
	predOf := map[string]string{}
	for _, o := range inits[sc.init] {
		if o.Kind == "sub" {
			predOf[o.Arg] = o.Pred
		}
	}
	for _, th := range sc.progs {
		for _, o := range th {
			if o.Kind == "sub" {
				predOf[o.Arg] = o.Pred
			}
		}
	}
	puts := map[string]int{}
	for _, e := range obs.evs {
		if e.op.Kind == "put" {
			puts[e.op.Arg]++
		}
	}
	for c, got := range obs.cons {
		cnt := map[string]int{}
		for _, e := range got {
			cnt[e]++
			if !preds[predOf[c]](env(e)) {
				return mk("I1-rejected-envelope-delivered", fmt.Sprintf("consumer %s (predicate %s) received %s", c, predOf[c], e))
			}
			if cnt[e] > puts[e] {
				return mk("I2-duplicate", fmt.Sprintf("consumer %s received %s %d times, put %d times", c, e, cnt[e], puts[e]))
			}
		}
	}
	if !linearizable(obs, sc.consumer == "receiver") {
		return mk("not-linearizable", fmt.Sprintf("no sequential order of the operations explains: consumers=%v default=%v cache=%d", obs.cons, obs.def, obs.cache))
	}
	return nil
}

func firstLines(s string, n int) string {
	l := strings.Split(s, "\n")
	if len(l) > n {
		l = l[:n]
	}
	return strings.Join(l, "\n")
}

func digest(_ schedrun.Scenario, s *vsched.Sched, o any) string {
	obs := o.(*observation)
	var ks []string
	for c, g := range obs.cons {
		ks = append(ks, c+"="+strings.Join(g, ","))
	}
	sort.Strings(ks)
	return fmt.Sprintf("%v|%v|%d|%v|%v", ks, obs.def, obs.cache, len(s.Panics) > 0, s.Deadlock)
}

func describe(_ schedrun.Scenario, s *vsched.Sched, o any) string {
	obs := o.(*observation)
	var b strings.Builder
	for _, e := range obs.evs {
		fmt.Fprintf(&b, "  event thread=%d %s call=%d ret=%d err=%q\n", e.thread, e.op, e.call, e.ret, e.err)
	}
	fmt.Fprintf(&b, "  consumers=%v default=%v cache=%d panics=%d deadlock=%v", obs.cons, obs.def, obs.cache, len(s.Panics), s.Deadlock)
	return b.String()
}

func TestCheck(t *testing.T) {
	schedrun.Main(t, schedrun.Harness{Name: "relay", Scenarios: scenarios, Exec: exec, Check: check, Digest: digest, Describe: describe, MaxExecsPerProcess: 60000})
}
