package clients

// The three crafted-message checks: C12 (no crash, no lock-up), C08 part 2 (bad proposals are
// dropped before the handler), C07 (no unsafe countersignature).

import (
	"fmt"
	"strings"

	"verif/engine/schedrun"
	"verif/engine/vsched"
)

func init() {
	register("C12", &c12harness)
	register("C08", &c08rejHarness)
	register("C07", &c07harness)
}

var msgsBasePoints = []string{"nochan", "open-v0", "open-v1", "paid-v0", "paid-v1", "sub-v0", "sub-v1"}

// ---------------------------------------------------------------- C12

var c12mode = msgsMode{Prop: "C12", Reject: true, Probe: true}

var c12plan = msgsPlan{
	Points: append(append([]string{}, msgsBasePoints...), "await-subfund", "hub-fund", "hub-settle"),
	Cats: map[string]bool{"proposal": true, "proposal-c12": true, "update": true, "vfund": true, "vsettle": true,
		"sync": true, "response": true, "control": true, "hubfund": true, "hubsettle": true},
	// sync messages while the victim's machine mutex is held for longer than the 10 s sync reply timeout
	HeldPts:  []string{"open-v0", "open-v1", "sub-v1"},
	HeldCats: map[string]bool{"sync": true},
	// the stranger's messages when replies to it cannot be delivered and the bus blocks instead of failing
	UnreachPts: []string{"open-v0", "open-v1", "sub-v1"},
	UnreachNames: []string{"sync/current", "sync/higher-version", "sync/odd-phase-no-sigs", "sync/unknown-id", "sync/empty-tx",
		"ledger/base", "sub/base", "virtual/base", "update/relayed-by-stranger", "resp/update-rej-next", "ctrl/ping"},
	// crafted responses to the victim's own proposals and updates
	Own: true,
	// honest requests of M whose answer by the victim cannot be delivered (fails at once / blocks)
	Undeliv: true,
	// both ends of a virtual channel collude against the hub
	HubPair: true,
	// suspected defects of the unchanged tree (reported by reading): the matching proposal arrives when
	// the hub's wait ends; a stray update response naming the virtual channel's id before the settlement
	Edge: true,
	// a stray version-1 update of an unknown channel while the victim is the proposee of an opening
	Opening: true,
	// M proposes a sub-channel, never completes the opening, later the matching funding update arrives
	HalfOpen: true,
	// a sync message racing with an honest update that the victim accepts; the parent funding update after the
	// victim's funding wait has timed out; a final sub-channel update whose acceptance cannot be delivered
	SyncRace: true, FundLate: true, FinUndeliv: true,
	Extra: []extraScenario{
		{Name: "hub-settle/M/hubsettle/stray-rej-virtual-id+hubsettle/valid"},
		// (A2, A7) crafted proposals that reach the handler, which ACCEPTS
		{Name: "nochan~acc/M/ledger/participant-empty"}, {Name: "open-v1~acc/M/ledger/participant-empty"},
		{Name: "open-v1~acc/M/virtual/proposer-empty"}, {Name: "open-v0~acc/S/virtual/proposer-empty"},
		{Name: "nochan~acc/M/ledger/fa-cols1"}, {Name: "nochan~acc/M/ledger/fa-sum-differs"}, {Name: "nochan~acc/M/ledger/fa-rows2"},
		// (A5) the hub is asked to open a virtual channel on top of the virtual channel it merely holds
		{Name: "hub-collude~gap/M/hubpair/valid+hubpair/vprop-on-held-virtual"},
		{Name: "hub-collude~gapacc/M/hubpair/valid+hubpair/vprop-on-held-virtual"},
		// (A1) the peer at sub-channel index 1 finalises the sub-channel and sends the parent withdrawal itself
		{Name: "sub-v0~gapacc/M/a1/sub-final-by-peer+a1/parent-withdrawal-by-peer"},
		{Name: "sub-v0~gap/M/a1/sub-final-by-peer+a1/parent-withdrawal-by-peer"},
		{Name: "hub-settle/M/hubsettle/stray-acc-virtual-id+hubsettle/valid"},
		{Name: "hub-settle/M/hubsettle/stray-rej-virtual-id-from-stranger+hubsettle/valid"},
	},
	PairPoints:  []string{"open-v1", "sub-v0"},
	InflightPts: []string{"open-v1"},
	InflightCats: map[string]bool{"proposal": true, "proposal-c12": true, "update": true, "vfund": true, "vsettle": true,
		"sync": true, "response": true},
	ThoroughPoints: []string{"hub-fund2", "hub-settle2", "hub-fund-quiet", "hub-settle-quiet"},
	ThoroughCats:   map[string]bool{"hubfund": true, "hubsettle": true},
	// the victim as hub, B silent: M's own well-formed funding / settlement proposal finds no partner
	GapQuick: []gapFamily{
		{Point: "hub-fund-quiet", Names: []string{"hubfund/valid"}},
		{Point: "hub-settle-quiet", Names: []string{"hubsettle/valid"}},
	},
	GapThorough: []gapFamily{
		{Point: "hub-fund-quiet", Names: hubFundGapSet}, {Point: "hub-fund", Names: hubFundGapSet},
		{Point: "hub-settle-quiet", Names: hubSettleGapSet}, {Point: "hub-settle", Names: hubSettleGapSet},
	},
}

var hubFundGapSet = []string{"hubfund/valid", "hubfund/debit-hub-all", "hubfund/idxmap-both-hub", "hubfund/initial-sig-missing", "hubfund/update-sig-garbage"}
var hubSettleGapSet = []string{"hubsettle/valid", "hubsettle/credit-swapped", "hubsettle/final-is-initial-state", "hubsettle/final-sig-missing", "hubsettle/update-sig-garbage"}

func c12check(ssc schedrun.Scenario, s *vsched.Sched, o any) []schedrun.Verdict {
	obs := o.(*msgsObs)
	out, done := msgsCommonVerdicts("C12", ssc, s, obs)
	if done {
		return out
	}
	if strings.HasPrefix(obs.Variant, "undeliv") {
		if len(obs.Undeliv) == 0 {
			out = append(out, schedrun.Verdict{Property: "C12", Clause: "harness-error", Site: obs.Pt + "/" + obs.Msg,
				Detail: "the publication that was to fail never happened (" + obs.OwnRes + "): the case is vacuous"})
		}
		return append(out, probeVerdicts("C12", obs)...)
	}
	if map[string]bool{"opening": true, "halfopen": true, "syncrace": true, "fundlate": true, "finundeliv-fail": true, "finundeliv-block": true}[obs.Variant] {
		if strings.HasPrefix(obs.Variant, "finundeliv") && len(obs.Undeliv) == 0 {
			out = append(out, schedrun.Verdict{Property: "C12", Clause: "harness-error", Site: msgsSite(obs),
				Detail: "the acceptance that was to fail was never published (" + obs.OwnRes + "): the case is vacuous"})
		}
		return append(out, probeVerdicts("C12", obs)...)
	}
	if obs.OwnHonest {
		if obs.OwnRes != "ok" {
			out = append(out, schedrun.Verdict{Property: "C12", Clause: "control-failed", Site: obs.Pt + "/" + obs.Msg,
				Detail: fmt.Sprintf("positive control: the victim's own %s request answered by the honest real M ended with %s %s", obs.OwnKind, obs.OwnRes, obs.OwnDetail)})
		}
		return append(out, probeVerdicts("C12", obs)...)
	}
	if obs.injected() == 0 {
		return out // nothing could be expressed: whatever happened is not the doing of a crafted message
	}
	if obs.OwnKind != "" && obs.OwnKind != "update" && !obs.OwnHonest && (obs.ChansAfter > obs.ChansBefore || obs.OwnRes == "ok") {
		out = append(out, schedrun.Verdict{Property: "C12", Clause: "channel-opened-with-crafted-response", Site: msgsSite(obs),
			Detail: fmt.Sprintf("the victim's own %s proposal never reached the real M, the answers were crafted (%s) - yet ProposeChannel returned %s and the victim holds %d new channel(s)", obs.OwnKind, obs.Msg, obs.OwnRes, obs.ChansAfter-obs.ChansBefore)})
	}
	return append(out, probeVerdicts("C12", obs)...)
}

var c12harness = schedrun.Harness{Name: "clients", Scenarios: msgsScenarios(c12mode, c12plan), Exec: msgsExec(c12mode),
	Check: c12check, Digest: msgsDigest(c12mode), Describe: msgsDescribe, MaxExecsPerProcess: 6000}

// ---------------------------------------------------------------- C08 part 2

var c08rejMode = msgsMode{Prop: "C08", Reject: true, Probe: true}

var c08rejPlan = msgsPlan{Points: msgsBasePoints, Cats: map[string]bool{"proposal": true},
	NoncePts: map[string]string{"ledger": "nochan", "sub": "open-v1"},
	// a sub-channel proposal that arrives while an accepted parent update is still being handled
	HeldUpd: true,
	// (A5) after the colluding ends' honest matched funding the hub holds the virtual channel: a virtual
	// channel proposal naming THAT channel as the receiver's parent must not reach the handler
	Extra: []extraScenario{{Name: "hub-collude~gap/M/hubpair/valid+hubpair/vprop-on-held-virtual"}}}

func c08rejCheck(ssc schedrun.Scenario, s *vsched.Sched, o any) []schedrun.Verdict {
	obs := o.(*msgsObs)
	out, done := msgsCommonVerdicts("C08", ssc, s, obs)
	if done {
		return out
	}
	site := obs.Pt + "/" + obs.Msg
	if obs.Variant == "nonce" {
		if len(obs.Nonce) > 0 {
			out = append(out, schedrun.Verdict{Property: "C08", Clause: "nonce-not-from-both-shares", Site: site,
				Detail: "honest openings with the victim as responder (same proposer share, two different responder shares): " + strings.Join(obs.Nonce, "; ")})
		}
		if len(obs.Nonce) == 0 && len(obs.Errs) > 0 {
			out = append(out, schedrun.Verdict{Property: "C08", Clause: "harness-error", Site: site, Detail: "handler error in an honest opening: " + obs.Errs[0]})
		}
		return out
	}
	calls, chans := obs.PropsAfter-obs.PropsBefore, obs.ChansAfter-obs.ChansBefore
	for _, it := range obs.Items {
		if it.NA || it.NotExpr != "" {
			continue
		}
		if it.Neutral {
			continue // the statement does not decide whether this one must be dropped (counted in the digest)
		}
		bad := it.Mut || !it.Control // a mutated proposal, or a well-formed one that does not fit the victim's situation
		switch {
		case bad && calls > 0:
			out = append(out, schedrun.Verdict{Property: "C08", Clause: "handler-invoked", Site: site,
				Detail: fmt.Sprintf("the proposal handler was called %d time(s) for the inconsistent proposal %s sent by %s at point %s", calls, it.Name, obs.Sender, obs.Pt)})
		case !bad && calls != 1:
			out = append(out, schedrun.Verdict{Property: "C08", Clause: "control-not-delivered", Site: site,
				Detail: fmt.Sprintf("positive control: the well-formed proposal %s from %s at point %s led to %d handler calls (want 1); the rejection check would be vacuous", it.Name, obs.Sender, obs.Pt, calls)})
		}
	}
	for _, it := range obs.Items {
		if it.Cat == "hubpair" && !it.Mut && chans > 0 {
			chans-- // the hub's own copy of the virtual channel that the honest-looking matched funding creates
		}
	}
	if chans != 0 {
		out = append(out, schedrun.Verdict{Property: "C08", Clause: "channel-created", Site: site,
			Detail: fmt.Sprintf("%d new channel(s) at the victim although its handler rejects every proposal (%s from %s)", chans, obs.Msg, obs.Sender)})
	}
	return append(out, probeVerdicts("C08", obs)...)
}

var c08rejHarness = schedrun.Harness{Name: "clients", Scenarios: msgsScenarios(c08rejMode, c08rejPlan), Exec: msgsExec(c08rejMode),
	Check: c08rejCheck, Digest: msgsDigest(c08rejMode), Describe: msgsDescribe, MaxExecsPerProcess: 6000}

// ---------------------------------------------------------------- C07

var c07mode = msgsMode{Prop: "C07"}

var c07plan = msgsPlan{
	// both ends of a virtual channel collude, honest-looking matched funding on both parents (one- and
	// two-asset ledger channels): what the hub countersigns is judged on both channels
	Extra: []extraScenario{{Name: "hub-collude/M/hubpair/valid"}, {Name: "hub2-collude/M/hubpair/valid"}},
	// hand-written sub-channel proposal with balances 5:5 and funding agreement 0:10, accepted by the victim
	SplitFund: true,
	Points: []string{"open-v0", "open-v1", "paid-v1", "sub-v0", "sub-v1", "sub2-v1", "final-v1",
		"await-subfund", "await-subfund2", "await-subsettle", "await-subsettle2", "await-subsettle-paid",
		// the victim as hub, B's honest funding resp. settlement proposal waits at the hub: M's crafted one is MATCHED
		"hub-fund", "hub-fund2", "hub-settle", "hub-settle2"},
	Cats: map[string]bool{"update": true, "fund": true, "settle": true, "vfund": true, "vsettle": true, "hubfund": true, "hubsettle": true},
	// the victim as hub with two virtual channels locked in its channel with M, B silent: a well-formed
	// but unmatched settlement proposal, 11 s later an ordinary update
	GapQuick: []gapFamily{{Point: "hub-two", Names: hubTwoSet, Pairs: [][2]string{
		{"hubtwo/settle-first-unmatched", "hubtwo/update-locked-last-twice"},
		{"hubtwo/settle-first-unmatched", "hubtwo/update-base"},
		{"hubtwo/settle-last-unmatched", "hubtwo/update-locked-first-twice"}}}},
	GapThorough:  []gapFamily{{Point: "hub-two", Names: hubTwoSet}},
	PairPoints:   []string{"open-v1", "sub-v1"},
	PairSeq:      true,
	InflightPts:  []string{"open-v1"},
	InflightCats: map[string]bool{"update": true},
}

var hubTwoSet = []string{"hubtwo/update-base", "hubtwo/settle-first-unmatched", "hubtwo/settle-last-unmatched",
	"hubtwo/update-locked-last-twice", "hubtwo/update-locked-first-twice"}

func c07check(ssc schedrun.Scenario, s *vsched.Sched, o any) []schedrun.Verdict {
	obs := o.(*msgsObs)
	out, done := msgsCommonVerdicts("C07", ssc, s, obs)
	if done {
		// a panic / deadlock is C12's business unless the driver itself is broken
		var keep []schedrun.Verdict
		for _, v := range out {
			if v.Clause == "harness-error" {
				keep = append(keep, v)
			}
		}
		return keep
	}
	single := (obs.NCases == 1 || (obs.NCases == 0 && len(obs.Items) == 1)) && !obs.Inflight
	for _, it := range obs.Items {
		if !it.IsUpdate {
			continue
		}
		site := obs.Pt + "/" + it.Name
		switch {
		case it.Countersigned && !it.Acceptable:
			out = append(out, schedrun.Verdict{Property: "C07", Clause: "countersigned-unacceptable", Site: site,
				Detail: fmt.Sprintf("the victim countersigned the crafted update %s at point %s (%s) although: %s", it.Name, obs.Pt, it.How, it.Why)})
		case single && !it.Mut && !it.Countersigned && it.Acceptable:
			out = append(out, schedrun.Verdict{Property: "C07", Clause: "control-not-countersigned", Site: site,
				Detail: fmt.Sprintf("positive control: the unmutated update %s at point %s is acceptable but was not countersigned; the check would be vacuous (%s)", it.Name, obs.Pt, strings.Join(obs.Errs, "; "))})
		}
	}
	return out
}

var c07harness = schedrun.Harness{Name: "clients", Scenarios: msgsScenarios(c07mode, c07plan), Exec: msgsExec(c07mode),
	Check: c07check, Digest: msgsDigest(c07mode), Describe: msgsDescribe, MaxExecsPerProcess: 6000}
