package clients

import (
	"context"
	"fmt"
	"math/big"
	"time"

	"perun.network/go-perun/channel"
	"perun.network/go-perun/wallet"
	"verif/engine/vsched"
)

// Ledger is a strict single-asset ledger (DESIGN.md C03): Fund debits exactly the agreed
// amount and waits for all participants; Register verifies every signature, refuses lower
// versions, demands a sub-state for every locked sub-allocation and starts / restarts the
// challenge period (virtual time); Withdraw accepts only the registered version (or a fully
// signed final state), WAITS for a running challenge period like a real backend's conclude
// step, pays each participant once and never more than is held. Totals are asserted after
// every call. Every call is a scheduling point.
type Ledger struct {
	acct     map[string]*big.Int
	chans    map[channel.ID]*lchan
	subs     map[channel.ID][]*lsub
	regSub   map[channel.ID]*channel.State           // sub-channel states registered together with a parent
	latest   map[channel.ID]channel.AdjudicatorEvent // newest event per channel id (parents and sub-channels): replayed to new subscribers, as real backends do
	Log      []string
	Viol     []string
	total    *big.Int
	RegLog   []regRec
	Payouts  map[string]*big.Int // per address: sum paid out by Withdraw
	Funded   map[string]*big.Int // per address: sum taken by Fund
	duration time.Duration
	// RefuseEarly: a Withdraw inside a running challenge period is refused (as a contract would
	// revert) instead of waiting for the period to end (as a backend's conclude step may do);
	// both are legitimate adjudicators. Early lists the refused calls.
	RefuseEarly bool
	Early       []earlyRec
	// FailRegister: the next Register call of participant idx fails once with a transient error
	// (fault injection, programs that say so).
	FailRegister map[channel.Index]bool
}

type earlyRec struct {
	Ch channel.ID
	By channel.Index
}

type regRec struct {
	Ch      channel.ID
	Version uint64
	By      string
	At      time.Time
	Subs    map[channel.ID]uint64
}

type lchan struct {
	params    *channel.Params
	funded    []bool
	held      *big.Int
	reg       *channel.State
	regSigs   []wallet.Sig
	timeout   time.Time
	concluded bool
	paid      []bool
	outcome   []*big.Int
}

type lsub struct {
	ev     chan channel.AdjudicatorEvent
	closed chan struct{}
	isOpen bool
}

func NewLedger() *Ledger {
	return &Ledger{acct: map[string]*big.Int{}, chans: map[channel.ID]*lchan{}, subs: map[channel.ID][]*lsub{}, regSub: map[channel.ID]*channel.State{}, latest: map[channel.ID]channel.AdjudicatorEvent{},
		total: new(big.Int), Payouts: map[string]*big.Int{}, Funded: map[string]*big.Int{}, duration: 60 * time.Second}
}

func key(a wallet.Address) string { return a.String() }

type ledgerParty struct {
	l    *Ledger
	addr wallet.Address
}

func (l *Ledger) party(a wallet.Address, initial int64) *ledgerParty {
	l.acct[key(a)] = big.NewInt(initial)
	l.total.Add(l.total, big.NewInt(initial))
	l.Payouts[key(a)] = new(big.Int)
	l.Funded[key(a)] = new(big.Int)
	return &ledgerParty{l: l, addr: a}
}

// Balance is the account balance of an address.
func (l *Ledger) Balance(a wallet.Address) int64 { return l.acct[key(a)].Int64() }

// Held is what the ledger holds for a channel.
func (l *Ledger) Held(id channel.ID) int64 {
	if c, ok := l.chans[id]; ok {
		return c.held.Int64()
	}
	return 0
}

// Registered returns the registered version of a channel (-1: none).
func (l *Ledger) Registered(id channel.ID) int64 {
	if c, ok := l.chans[id]; ok && c.reg != nil {
		return int64(c.reg.Version)
	}
	if s, ok := l.regSub[id]; ok {
		return int64(s.Version)
	}
	return -1
}

func (l *Ledger) conserve(where string) {
	sum := new(big.Int)
	for _, b := range l.acct {
		sum.Add(sum, b)
		if b.Sign() < 0 {
			l.Viol = append(l.Viol, where+": negative account balance")
		}
	}
	for _, c := range l.chans {
		sum.Add(sum, c.held)
		if c.held.Sign() < 0 {
			l.Viol = append(l.Viol, where+": negative channel holdings")
		}
	}
	if sum.Cmp(l.total) != 0 {
		l.Viol = append(l.Viol, fmt.Sprintf("%s: ledger total %v != %v", where, sum, l.total))
	}
}

func (l *Ledger) ch(p *channel.Params) *lchan {
	c, ok := l.chans[p.ID()]
	if !ok {
		n := len(p.Parts)
		c = &lchan{params: p, funded: make([]bool, n), held: new(big.Int), paid: make([]bool, n)}
		l.chans[p.ID()] = c
	}
	return c
}

// vtimeout is a challenge timeout on the bubble's virtual clock.
type vtimeout struct{ at time.Time }

func (t *vtimeout) IsElapsed(context.Context) bool { return !time.Now().Before(t.at) }
func (t *vtimeout) Wait(ctx context.Context) error {
	d := time.Until(t.at)
	if d <= 0 {
		return nil
	}
	tm := time.NewTimer(d)
	defer tm.Stop()
	sel := vsched.NewSelect(false)
	vsched.AddRecv(sel, tm.C)
	vsched.AddRecv(sel, ctx.Done())
	if sel.Run() == 1 {
		return ctx.Err()
	}
	return nil
}
func (t *vtimeout) String() string { return fmt.Sprintf("<virtual timeout %v>", t.at.Unix()) }

func (l *Ledger) emit(id channel.ID, e channel.AdjudicatorEvent) {
	l.latest[id] = e
	for _, s := range l.subs[id] {
		if !s.isOpen {
			continue
		}
		select {
		case <-s.ev: // drop an older pending event, like the repository's mock backend
		default:
		}
		vsched.Send(s.ev, e)
	}
}

func verifyAll(p *channel.Params, st *channel.State, sigs []wallet.Sig) error {
	if len(sigs) != len(p.Parts) {
		return fmt.Errorf("%d signatures for %d participants", len(sigs), len(p.Parts))
	}
	if st.ID != p.ID() {
		return fmt.Errorf("state id does not match params")
	}
	for i, parts := range p.Parts {
		for _, a := range parts {
			if sigs[i] == nil {
				return fmt.Errorf("signature %d missing", i)
			}
			if ok, err := channel.Verify(a, st, sigs[i]); err != nil || !ok {
				return fmt.Errorf("invalid signature %d", i)
			}
		}
	}
	return nil
}

func (p *ledgerParty) Fund(ctx context.Context, req channel.FundingReq) error {
	vsched.PointOp("ledger.fund")
	l := p.l
	c := l.ch(req.Params)
	amt := req.Agreement[0][req.Idx]
	bal := l.acct[key(p.addr)]
	if bal.Cmp(amt) < 0 {
		return fmt.Errorf("insufficient funds")
	}
	if c.funded[req.Idx] {
		return fmt.Errorf("participant %d funded twice", req.Idx)
	}
	bal.Sub(bal, amt)
	c.held.Add(c.held, amt)
	c.funded[req.Idx] = true
	l.Funded[key(p.addr)].Add(l.Funded[key(p.addr)], amt)
	l.Log = append(l.Log, fmt.Sprintf("fund idx=%d amt=%v", req.Idx, amt))
	l.conserve("fund")
	vsched.WaitCond("ledger.awaitfunding", func() bool {
		for _, f := range c.funded {
			if !f {
				return false
			}
		}
		return true
	})
	return nil
}

// RegisterAs is Register issued on behalf of any participant (adversary thread).
func (l *Ledger) RegisterAs(by string, req channel.AdjudicatorReq, subs []channel.SignedState) error {
	vsched.PointOp("ledger.register")
	c := l.ch(req.Params)
	if c.concluded {
		return nil
	}
	if err := verifyAll(req.Params, req.Tx.State, req.Tx.Sigs); err != nil {
		return fmt.Errorf("register: %v", err)
	}
	if len(req.Tx.Locked) != len(subs) {
		return fmt.Errorf("register: %d sub-states for %d locked sub-allocations", len(subs), len(req.Tx.Locked))
	}
	for i, s := range subs {
		if s.State == nil || s.Params == nil {
			return fmt.Errorf("register: sub-state %d missing", i)
		}
		if s.State.ID != req.Tx.Locked[i].ID {
			return fmt.Errorf("register: sub-state %d is for another channel", i)
		}
		if err := verifyAll(s.Params, s.State, s.Sigs); err != nil {
			return fmt.Errorf("register: sub-state %d: %v", i, err)
		}
		if old, ok := l.regSub[s.State.ID]; ok && s.State.Version < old.Version {
			return fmt.Errorf("register: sub-state %d version %d < registered %d", i, s.State.Version, old.Version)
		}
	}
	if c.reg != nil && req.Tx.Version < c.reg.Version {
		return fmt.Errorf("register: version %d < registered %d", req.Tx.Version, c.reg.Version)
	}
	newer := c.reg == nil || req.Tx.Version > c.reg.Version
	for _, s := range subs {
		if old, ok := l.regSub[s.State.ID]; !ok || s.State.Version > old.Version {
			newer = true
		}
	}
	if !newer {
		return nil
	}
	if c.reg != nil && !time.Now().Before(c.timeout) {
		return fmt.Errorf("register: challenge period over")
	}
	c.reg, c.regSigs = req.Tx.State.Clone(), req.Tx.Sigs
	c.timeout = time.Now().Add(l.duration)
	rr := regRec{Ch: req.Params.ID(), Version: req.Tx.Version, By: by, At: time.Now(), Subs: map[channel.ID]uint64{}}
	for _, s := range subs {
		l.regSub[s.State.ID] = s.State.Clone()
		rr.Subs[s.State.ID] = s.State.Version
	}
	l.RegLog = append(l.RegLog, rr)
	l.Log = append(l.Log, fmt.Sprintf("register v%d by %s at %v (+%d subs)", req.Tx.Version, by, time.Now().Unix(), len(subs)))
	l.emit(req.Params.ID(), channel.NewRegisteredEvent(req.Params.ID(), &vtimeout{c.timeout}, req.Tx.Version, c.reg, c.regSigs))
	for _, s := range subs {
		l.emit(s.State.ID, channel.NewRegisteredEvent(s.State.ID, &vtimeout{c.timeout}, s.State.Version, s.State, s.Sigs))
	}
	return nil
}

func (p *ledgerParty) Register(_ context.Context, req channel.AdjudicatorReq, subs []channel.SignedState) error {
	if p.l.FailRegister[req.Idx] {
		vsched.PointOp("ledger.register")
		delete(p.l.FailRegister, req.Idx)
		p.l.Log = append(p.l.Log, fmt.Sprintf("register by idx%d FAILS (transient error, injected)", req.Idx))
		return fmt.Errorf("register: transient error (injected)")
	}
	return p.l.RegisterAs(fmt.Sprintf("idx%d", req.Idx), req, subs)
}

func (p *ledgerParty) Progress(context.Context, channel.ProgressReq) error {
	return fmt.Errorf("progression is not supported by this ledger")
}

func (l *Ledger) outcome(st *channel.State, given channel.StateMap) ([]*big.Int, error) {
	out := make([]*big.Int, len(st.Balances[0]))
	for i, b := range st.Balances[0] {
		out[i] = new(big.Int).Set(b)
	}
	for _, sa := range st.Locked {
		sub, ok := l.regSub[sa.ID]
		if !ok {
			g, ok2 := given[sa.ID]
			if !ok2 {
				return nil, fmt.Errorf("no state for locked sub-channel")
			}
			return nil, fmt.Errorf("sub-channel state v%d was never registered", g.Version)
		}
		g, ok := given[sa.ID]
		if !ok {
			return nil, fmt.Errorf("no state given for locked sub-channel") // the withdrawer must present every sub-channel state
		}
		if g.Version != sub.Version {
			return nil, fmt.Errorf("sub-channel version %d != registered %d", g.Version, sub.Version)
		}
		so, err := l.outcome(sub, given)
		if err != nil {
			return nil, err
		}
		for p, b := range so {
			q := p
			if len(sa.IndexMap) > 0 {
				q = int(sa.IndexMap[p])
			}
			out[q].Add(out[q], b)
		}
	}
	return out, nil
}

func (p *ledgerParty) Withdraw(ctx context.Context, req channel.AdjudicatorReq, subs channel.StateMap) error {
	vsched.PointOp("ledger.withdraw")
	l := p.l
	c := l.ch(req.Params)
	for !c.concluded {
		switch {
		case c.reg == nil && req.Tx.IsFinal:
			if err := verifyAll(req.Params, req.Tx.State, req.Tx.Sigs); err != nil {
				return fmt.Errorf("withdraw: %v", err)
			}
			c.reg, c.regSigs = req.Tx.State.Clone(), req.Tx.Sigs
			continue
		case c.reg == nil:
			return fmt.Errorf("withdraw: not registered and not final")
		case req.Tx.Version != c.reg.Version:
			return fmt.Errorf("withdraw: version %d != registered %d", req.Tx.Version, c.reg.Version)
		case !c.reg.IsFinal && time.Now().Before(c.timeout):
			// a real backend's conclude step waits for the challenge period; a registration of a
			// higher version meanwhile restarts it and invalidates this request (re-checked above).
			if l.RefuseEarly {
				l.Early = append(l.Early, earlyRec{req.Params.ID(), req.Idx})
				l.Log = append(l.Log, fmt.Sprintf("withdraw idx=%d REFUSED (challenge period running) at %v", req.Idx, time.Now().Unix()))
				return fmt.Errorf("withdraw: challenge period not over")
			}
			if err := (&vtimeout{c.timeout}).Wait(ctx); err != nil {
				return fmt.Errorf("withdraw: waiting for the challenge period: %v", err)
			}
			continue
		}
		out, err := l.outcome(c.reg, subs)
		if err != nil {
			return fmt.Errorf("withdraw: %v", err)
		}
		c.concluded = true
		c.outcome = out
		sum := new(big.Int)
		for _, b := range out {
			sum.Add(sum, b)
		}
		if sum.Cmp(c.held) != 0 {
			l.Viol = append(l.Viol, fmt.Sprintf("withdraw: outcome sum %v != held %v", sum, c.held))
		}
		l.emit(req.Params.ID(), channel.NewConcludedEvent(req.Params.ID(), &channel.ElapsedTimeout{}, c.reg.Version))
	}
	if !c.paid[req.Idx] {
		amt := c.outcome[req.Idx]
		if amt.Cmp(c.held) > 0 {
			l.Viol = append(l.Viol, fmt.Sprintf("withdraw: payout %v exceeds holdings %v", amt, c.held))
			return fmt.Errorf("withdraw: insufficient holdings")
		}
		c.paid[req.Idx] = true
		c.held.Sub(c.held, amt)
		l.acct[key(p.addr)].Add(l.acct[key(p.addr)], amt)
		l.Payouts[key(p.addr)].Add(l.Payouts[key(p.addr)], amt)
		l.Log = append(l.Log, fmt.Sprintf("withdraw idx=%d amt=%v v%d at %v", req.Idx, amt, c.reg.Version, time.Now().Unix()))
	}
	l.conserve("withdraw")
	return nil
}

func (p *ledgerParty) Subscribe(_ context.Context, id channel.ID) (channel.AdjudicatorSubscription, error) {
	vsched.PointOp("ledger.subscribe")
	l := p.l
	s := &lsub{ev: make(chan channel.AdjudicatorEvent, 1), closed: make(chan struct{}), isOpen: true}
	l.subs[id] = append(l.subs[id], s)
	if e, ok := l.latest[id]; ok { // a new subscriber learns the newest event of the channel (parent or sub-channel)
		s.ev <- e
	}
	return s, nil
}

func (s *lsub) Next() channel.AdjudicatorEvent {
	sel := vsched.NewSelect(false)
	vsched.AddRecv(sel, s.ev)
	vsched.AddRecv(sel, s.closed)
	if sel.Run() == 0 {
		return vsched.As((<-chan channel.AdjudicatorEvent)(s.ev), sel)
	}
	return nil
}
func (s *lsub) Err() error { return nil }
func (s *lsub) Close() error {
	if s.isOpen {
		s.isOpen = false
		vsched.Close(s.closed)
	}
	return nil
}
