package clients

// Common driver of the crafted-message checks: one execution = set-up to the history point
// (default schedule) -> adversarial phase (crafted envelopes injected, 60 s of virtual time)
// -> probe phase (C12, C08) / countersignature collection (C07).

import (
	"context"
	"fmt"
	"math/big"
	"regexp"
	"strings"
	"testing"
	"time"

	"perun.network/go-perun/channel"
	"perun.network/go-perun/client"
	"perun.network/go-perun/wallet"
	"perun.network/go-perun/wire"
	"verif/engine/explore"
	"verif/engine/report"
	"verif/engine/schedrun"
	"verif/engine/vsched"
	"verif/harness/fx"
)

type msgsMode struct {
	Prop   string
	Reject bool // the victim's user handlers reject everything during the adversarial phase
	Probe  bool
}

type mItemObs struct {
	Name    string
	NA      bool   // does not apply at this point
	NotExpr string // why it cannot be expressed (not injected)
	Proto   bool
	Control bool // C08: the unmutated proposal is acceptable in the victim's situation
	Neutral bool // C08: no expectation about the handler (the statement does not decide this case)
	Mut     bool
	Cat     string
	// C07
	IsUpdate      bool
	Acceptable    bool
	Why           string // first violated condition of the acceptability predicate
	Countersigned bool
	How           string
}

type msgsObs struct {
	Pt, Sender, Msg string
	Inflight        bool
	Variant         string
	NCases          int
	OwnKind         string // "~own": the victim's own request ...
	OwnHonest       bool   // ... answered by the real M (control)
	OwnRes          string // ok | rejected | timeout | error
	OwnDetail       string
	Nonce           []string // "~nonce": violated clauses
	Undeliv         []string // "~undeliv-*": the publications of the victim that were made to fail
	Held            bool     // an honest update of the victim waits for a silent peer (its machine mutex is held for 30 s) while the messages arrive
	SetupErr        string
	Stage           string
	Items           []mItemObs
	PropsBefore     int
	PropsAfter      int
	ChansBefore     int
	ChansAfter      int
	UpdsSeen        int
	Probes          []mProbeRes
	InflightRes     string
	Errs            []string
	EnabledAtV      int
}

func (o *msgsObs) injected() (n int) {
	for _, it := range o.Items {
		if !it.NA && it.NotExpr == "" {
			n++
		}
	}
	return
}

// mCrafted is an injected update-like message as the victim sees it (decoded form).
type mCrafted struct {
	item int
	upd  *client.ChannelUpdateMsg
}

func msgsExec(mode msgsMode) func(t *testing.T, ssc schedrun.Scenario, o vsched.Options) (*vsched.Sched, any) {
	return func(t *testing.T, ssc schedrun.Scenario, o vsched.Options) (*vsched.Sched, any) {
		ptFull, sender, names := splitCase(ssc.Name)
		pt, variant, _ := strings.Cut(ptFull, "~")
		obs := &msgsObs{Pt: pt, Sender: sender, Msg: names, Variant: variant, Inflight: variant == "inflight", Held: variant == "held", Stage: "setup"}
		// "~seq": the messages are delivered 60 s apart; "~gap": 11 s apart (just longer than the 10 s
		// the client waits for a matching funding / settlement proposal)
		// "~gapacc": as "~gap", and the victim's user handlers ACCEPT (C12 otherwise rejects)
		gap := map[string]time.Duration{"seq": 60 * time.Second, "gap": 11 * time.Second, "gapacc": 11 * time.Second}[variant]
		// "~acc": a single crafted message, the victim's user handlers ACCEPT
		accepting := variant == "gapacc" || variant == "acc"
		// "~edge": hub points where B's honest proposal waits at the hub: M's proposal is delivered 0.5 ms
		// before the hub's 10 s wait for it ends, and every publication of the hub takes 1 ms (the wait ends
		// while the two proposals are being matched). "~edge0": delivered exactly when the wait ends, no
		// latency (the order of the two events is a scheduler choice; explored with bound 1).
		edge := variant == "edge" || variant == "edge0"
		var cases []*mcase
		// honest-traffic / step-by-step families with their own run functions (msgs_own_test.go)
		runFam := map[string]bool{"opening": true, "splitfund": true, "halfopen": true, "syncrace": true, "fundlate": true, "heldupd": true,
			"finundeliv-fail": true, "finundeliv-block": true}[variant]
		special := variant == "nonce" || strings.HasPrefix(variant, "undeliv") || runFam
		if !special {
			cases = lookupCases(sender, names)
		}
		obs.NCases = len(cases)
		if variant == "own" {
			obs.OwnKind, obs.OwnHonest = cases[0].Own, cases[0].OwnHonest
		}
		s := vsched.Run(t, o, func() {
			n := 2
			if strings.HasPrefix(pt, "hub") {
				n = 3
			}
			w := NewWorld(n, nil, false)
			victimBus = nil
			if variant == "unreach" || variant == "undeliv-fail" || variant == "undeliv-block" || strings.HasPrefix(variant, "finundeliv") {
				rewireVictim(w)
			}
			sc := &mScene{w: w, V: w.P[0], M: w.P[1], S: newStranger(77), Pt: pt}
			if err := sc.setup(); err != nil {
				obs.SetupErr = err.Error()
				return
			}
			V := sc.V
			vsched.StartExploration()
			obs.Stage = "adversarial"
			if mode.Reject && !accepting {
				V.OnProposal, V.OnUpdate = rejectProposals, rejectUpdates
			} else if !strings.HasPrefix(pt, "await-subfund") {
				V.OnProposal, V.OnUpdate = nil, nil
			}
			// Nothing the victim answers reaches the real M (the harness speaks for M now). With an honest
			// update of the victim in flight, requests pass and only responses are dropped.
			if variant == "nonce" {
				// honest openings, the victim's handler accepts: no adversary
				V.OnProposal, V.OnUpdate = nil, nil
				obs.PropsBefore, obs.ChansBefore = len(V.ProposalsSeen), len(V.Chans)
				obs.Nonce = sc.nonceRun(strings.TrimPrefix(names, "nonce/"))
				obs.PropsAfter, obs.ChansAfter = len(V.ProposalsSeen), len(V.Chans)
				obs.Errs = append(obs.Errs, V.HandlerErrs...)
				obs.Stage = "done"
				return
			}
			if runFam {
				obs.PropsBefore, obs.ChansBefore = len(V.ProposalsSeen), len(V.Chans)
				sentBefore, enBefore := len(w.Bus.Sent), len(w.Enabled)
				sc.snapshot()
				var crafts []mCrafted
				switch variant {
				case "opening":
					obs.OwnRes = sc.openingRun(strings.TrimPrefix(names, "opening/"))
				case "splitfund":
					crafts = sc.splitFundRun(obs, strings.TrimPrefix(names, "splitfund/"))
				case "halfopen":
					sc.halfOpenRun(obs, strings.TrimPrefix(names, "halfopen/"))
				case "syncrace":
					obs.OwnRes = sc.syncRaceRun(strings.TrimPrefix(names, "syncrace/"))
				case "fundlate":
					sc.fundLateRun(obs, strings.TrimPrefix(names, "fundlate/"))
				case "heldupd":
					sc.heldUpdRun(obs, strings.TrimPrefix(names, "heldupd/"))
				case "finundeliv-fail", "finundeliv-block":
					obs.OwnRes = sc.finUndelivRun(obs, strings.TrimPrefix(names, "finundeliv/"), strings.TrimPrefix(variant, "finundeliv-"))
				}
				obs.Stage = "waiting"
				vsched.Sleep(60 * time.Second)
				obs.PropsAfter, obs.ChansAfter = len(V.ProposalsSeen), len(V.Chans)
				obs.Errs = append(obs.Errs, sc.threadErrs...)
				if !mode.Probe {
					judgeCountersignatures(sc, obs, sc.views, crafts, w.Bus.Sent[sentBefore:], w.Enabled[enBefore:])
				} else {
					obs.Stage = "probing"
					obs.Probes = sc.probe()
					if variant == "opening" && sc.led != nil {
						// the client must still be able to open channels
						w.Bus.Drop = nil
						_, _, err := w.OpenLedger(1, 0, 5, 5)
						obs.Probes = append(obs.Probes, mProbeRes{"fresh ledger channel proposed by M", classify(err)})
					}
				}
				obs.Stage = "done"
				return
			}
			if strings.HasPrefix(variant, "undeliv") {
				// honest traffic only: M's request, the victim's answer cannot be delivered
				obs.PropsBefore, obs.ChansBefore = len(V.ProposalsSeen), len(V.Chans)
				res, failed := sc.undelivRun(lookupUndeliv(strings.TrimPrefix(names, "undeliv/")), strings.TrimPrefix(variant, "undeliv-"))
				obs.OwnRes = "M's request: " + res
				obs.Undeliv = failed
				obs.Stage = "waiting"
				vsched.Sleep(60 * time.Second)
				obs.PropsAfter, obs.ChansAfter = len(V.ProposalsSeen), len(V.Chans)
				obs.Stage = "probing"
				obs.Probes = sc.probe()
				obs.Stage = "done"
				return
			}
			vRequestOut := false
			w.Bus.Drop = func(e *wire.Envelope) bool {
				if variant == "own" {
					vsched.Sleep(5 * time.Millisecond) // publishing takes time: an opening is in flight for a while
				}
				if w.partyOf(e.Sender) == V.Idx {
					if variant == "edge" {
						vsched.Sleep(time.Millisecond) // publishing takes time
					}
					if obs.OwnKind != "" && sc.ownReq == nil {
						switch e.Msg.(type) {
						case client.ChannelProposal, *client.ChannelUpdateMsg:
							sc.ownReq = e.Msg
						}
					}
					if obs.OwnHonest {
						return false
					}
					if _, isReq := e.Msg.(*client.ChannelUpdateMsg); isReq {
						vRequestOut = true
						if obs.Inflight {
							return false
						}
					}
					if sc.B != nil && w.partyOf(e.Recipient) == sc.B.Idx && !strings.HasSuffix(sc.Pt, "-collude") {
						return false // hub points: B is an honest real client, the hub's answers reach it
					}
					return true
				}
				if sc.holdM && sc.led != nil {
					if _, ok := isParentUpdateFrom(w, e, sc.M.Idx, sc.led.ID()); ok {
						return true
					}
				}
				return false
			}
			obs.PropsBefore, obs.ChansBefore = len(V.ProposalsSeen), len(V.Chans)
			updsBefore := len(V.UpdatesSeen)
			sentBefore, enBefore := len(w.Bus.Sent), len(w.Enabled)
			// the victim's view of its channels when the adversarial phase starts
			if sc.views == nil {
				sc.snapshot()
			}
			views := sc.views
			var crafts []mCrafted
			obs.Items = make([]mItemObs, len(cases))
			var extraItems []mItemObs // resolved into obs.Items before the countersignatures are judged
			injectOne := func(i int) {
				c := cases[i]
				it := &obs.Items[i]
				*it = mItemObs{Name: c.Name, Mut: c.Mut, Cat: c.Cat}
				if c.Control != nil {
					it.Control = c.Control(sc)
				}
				it.Neutral = c.Neutral && it.Control
				var envs []*wire.Envelope
				if c.Envs != nil {
					envs = c.Envs(sc)
				} else if msg := c.Build(sc); msg != nil {
					envs = []*wire.Envelope{{Sender: sc.id(c.Sender).Wire, Recipient: V.WireID, Msg: msg}}
				}
				if len(envs) == 0 {
					it.NA = true
					return
				}
				protos := make([]bool, len(envs))
				for k, env := range envs {
					dec, proto, why := mPrepare(env, c.Proto)
					if dec == nil {
						it.NotExpr = why
						return
					}
					protos[k] = proto
					it.Proto = it.Proto || proto
					if up, ok := dec.Msg.(client.ChannelUpdateProposal); ok {
						if !it.IsUpdate {
							it.IsUpdate = true
							crafts = append(crafts, mCrafted{i, up.Base()})
						} else {
							// a further update-like envelope of the same case is judged as an item of its own
							extra := *it
							extra.Name = fmt.Sprintf("%s#%d", c.Name, k+1)
							extraItems = append(extraItems, extra)
							crafts = append(crafts, mCrafted{-len(extraItems), up.Base()})
						}
					}
				}
				for k, env := range envs {
					if err := w.Bus.Inject(env, protos[k]); err != nil {
						panic("harness: inject: " + err.Error())
					}
				}
				if c.Follow != nil {
					vsched.Sleep(100 * time.Millisecond)
					for _, env := range c.Follow(sc) {
						if dec, proto, _ := mPrepare(env, false); dec != nil {
							if err := w.Bus.Inject(env, proto); err != nil {
								panic("harness: inject: " + err.Error())
							}
						}
					}
				}
			}
			injectAll := func() {
				for i := range cases {
					injectOne(i)
					if gap > 0 && i+1 < len(cases) {
						vsched.Sleep(gap)
					}
				}
			}
			if obs.OwnKind != "" {
				// The victim makes a request of its own (20 s). Unless this is the control, the request is lost
				// on the way to the real M and the harness answers in M's (or the stranger's) name.
				done := make(chan struct{}, 1)
				vsched.GoNamed("v-own-request", func() {
					obs.OwnRes, obs.OwnDetail = sc.ownRequest(obs.OwnKind)
					vsched.Send(done, struct{}{})
				})
				// (the control injects nothing, or only a stray message while the honest exchange runs)
				vsched.WaitCond("await-victim-request", func() bool { return sc.ownReq != nil })
				injectAll()
				vsched.Recv(done)
			} else if obs.Held {
				// The victim proposes an honest update; the request is lost, the peer stays silent: the victim's
				// Update holds the machine mutex until its 30 s context ends. The crafted messages arrive while
				// it waits (their handlers give up on the mutex after 10 s).
				done := make(chan struct{}, 1)
				vsched.GoNamed("v-update", func() {
					ctx, cancel := context.WithTimeout(context.Background(), 30*time.Second)
					defer cancel()
					obs.InflightRes = classify(sc.led.Update(ctx, pay(int(sc.led.Idx()), 1, false)))
					vsched.Send(done, struct{}{})
				})
				vsched.WaitCond("await-victim-request", func() bool { return vRequestOut })
				injectAll()
				vsched.Recv(done)
			} else if obs.Inflight {
				done := make(chan struct{}, 2)
				vsched.GoNamed("v-update", func() {
					ctx, cancel := context.WithTimeout(context.Background(), 30*time.Second)
					defer cancel()
					obs.InflightRes = classify(sc.led.Update(ctx, pay(int(sc.led.Idx()), 1, false)))
					vsched.Send(done, struct{}{})
				})
				vsched.GoNamed("inject", func() {
					injectAll()
					vsched.Send(done, struct{}{})
				})
				vsched.Recv(done)
				vsched.Recv(done)
			} else {
				if edge && !sc.bobAt.IsZero() {
					d := 10 * time.Second
					if variant == "edge" {
						d -= 500 * time.Microsecond
					}
					if wait := time.Until(sc.bobAt.Add(d)); wait > 0 {
						vsched.Sleep(wait)
					}
				}
				injectAll()
			}
			obs.Stage = "waiting"
			vsched.Sleep(60 * time.Second) // longer than every internal 10 s timeout
			obs.PropsAfter, obs.ChansAfter = len(V.ProposalsSeen), len(V.Chans)
			obs.UpdsSeen = len(V.UpdatesSeen) - updsBefore
			obs.Errs = append(obs.Errs, sc.threadErrs...)
			// C07: which crafted states did the victim countersign, and was that acceptable?
			if !mode.Probe {
				base := len(obs.Items)
				obs.Items = append(obs.Items, extraItems...)
				for k := range crafts {
					if crafts[k].item < 0 {
						crafts[k].item = base + (-crafts[k].item - 1)
					}
				}
				judgeCountersignatures(sc, obs, views, crafts, w.Bus.Sent[sentBefore:], w.Enabled[enBefore:])
			}
			for _, e := range w.Enabled[enBefore:] {
				if e.Who == V.Idx {
					obs.EnabledAtV++
					if sc.B != nil && sc.led != nil && e.Ch == sc.led.ID() {
						sc.ledMoved = true
					}
				}
			}
			if mode.Probe {
				obs.Stage = "probing"
				obs.Probes = sc.probe()
			}
			obs.Errs = append(obs.Errs, V.HandlerErrs...)
			obs.Stage = "done"
		})
		return s, obs
	}
}

// ---------------------------------------------------------------- C07: acceptability predicate

// mChanView is what the victim knows about one of its channels.
type mChanView struct {
	Params  *channel.Params
	State   *channel.State
	PeerIdx channel.Index
}

func mSameAssets(a, b []channel.Asset) bool {
	if len(a) != len(b) {
		return false
	}
	for i := range a {
		x, err1 := a[i].MarshalBinary()
		y, err2 := b[i].MarshalBinary()
		if err1 != nil || err2 != nil || string(x) != string(y) {
			return false
		}
	}
	return true
}

func mSameSubAlloc(a, b *channel.SubAlloc) bool {
	if a.ID != b.ID || len(a.Bals) != len(b.Bals) || len(a.IndexMap) != len(b.IndexMap) {
		return false
	}
	for i := range a.Bals {
		if a.Bals[i].Cmp(b.Bals[i]) != 0 {
			return false
		}
	}
	for i := range a.IndexMap {
		if a.IndexMap[i] != b.IndexMap[i] {
			return false
		}
	}
	return true
}

func mSameLocked(a, b []channel.SubAlloc) bool {
	if len(a) != len(b) {
		return false
	}
	for i := range a {
		if !mSameSubAlloc(&a[i], &b[i]) {
			return false
		}
	}
	return true
}

// mWithout returns l minus the entry with the given id (ok: exactly one such entry).
func mWithout(l []channel.SubAlloc, id channel.ID) (rest []channel.SubAlloc, x *channel.SubAlloc, ok bool) {
	n := 0
	for i := range l {
		if l[i].ID == id {
			n++
			x = &l[i]
		} else {
			rest = append(rest, l[i])
		}
	}
	return rest, x, n == 1
}

// c07acceptable is the statement of C07 as a predicate: "" if the victim may countersign the
// update `up` in the situation (view, pending automatic acceptances), else the first reason.
// It uses none of the client's validators.
func c07acceptable(v *mChanView, up *client.ChannelUpdateMsg, pend []pendingAuto) string {
	if v == nil {
		return "not a channel of the victim"
	}
	cur, to := v.State, up.State
	n := len(v.Params.Parts)
	// signed by the channel peer over exactly the proposed state
	for _, a := range v.Params.Parts[v.PeerIdx] {
		if ok, err := channel.Verify(a, to, up.Sig); err != nil || !ok {
			return "not signed by the peer over the proposed state"
		}
	}
	// valid successor
	switch {
	case to.ID != cur.ID:
		return "other channel id"
	case !channel.IsNoApp(to.App):
		return "app changed"
	case cur.IsFinal:
		return "current state is final"
	case to.Version != cur.Version+1:
		return fmt.Sprintf("version %d after %d", to.Version, cur.Version)
	case !mSameAssets(cur.Assets, to.Assets):
		return "assets changed"
	case len(to.Balances) != len(to.Assets):
		return "balance rows"
	}
	for a := range to.Balances {
		if len(to.Balances[a]) != n {
			return "participant columns"
		}
	}
	for a := range to.Assets {
		st, sc := fxSum(&to.Allocation, a), fxSum(&cur.Allocation, a)
		if st == nil || sc == nil {
			return "malformed allocation"
		}
		if st.Cmp(sc) != 0 {
			return "sum of balances and locked funds changed"
		}
	}
	// ordinary update
	ordinary := ""
	switch {
	case up.ActorIdx != v.PeerIdx:
		ordinary = "actor is not the sender"
	case !mSameLocked(cur.Locked, to.Locked):
		ordinary = "locked sub-allocations changed"
	}
	if ordinary == "" {
		return ""
	}
	// automatically accepted funding / settlement: does exactly that and nothing else - in particular it
	// does not make the parent final (only the user's handler can consent to that)
	if to.IsFinal {
		return ordinary + "; and an automatically accepted update must not set the parent final"
	}
	why := ordinary
	subWhy := "a sub-allocation with the awaited id is added, but it is not exactly that channel's (amount = sum of its balances, index map as agreed)"
	balWhy := "the awaited sub-allocation is added / removed, but the balances do not change by exactly each participant's balance in that channel"
	for _, p := range pend {
		if p.On != (channel.ID{}) && p.On != cur.ID {
			continue
		}
		switch p.Kind {
		case "fund":
			rest, x, ok := mWithout(to.Locked, p.ID)
			if _, _, before := mWithout(cur.Locked, p.ID); before || !ok || !mSameLocked(rest, cur.Locked) {
				continue
			}
			want := channel.NewSubAlloc(p.ID, p.Bals.Sum(), nil)
			if !mSameSubAlloc(x, want) {
				why = subWhy
				continue
			}
			if balancesMoved(cur, to, p.Bals, -1) {
				return ""
			}
			why = balWhy
		case "vfund":
			rest, x, ok := mWithout(to.Locked, p.ID)
			if _, _, before := mWithout(cur.Locked, p.ID); before || !ok || !mSameLocked(rest, cur.Locked) {
				continue
			}
			if !mSameSubAlloc(x, channel.NewSubAlloc(p.ID, p.Bals.Sum(), p.IndexMap)) {
				why = subWhy
				continue
			}
			if balancesMoved(cur, to, mapBals(p.Bals, p.IndexMap, n), -1) {
				return ""
			}
			why = balWhy
		case "vsettle":
			rest, x, ok := mWithout(cur.Locked, p.ID)
			if _, _, after := mWithout(to.Locked, p.ID); after || !ok || !mSameLocked(rest, to.Locked) {
				continue
			}
			if len(x.IndexMap) != len(p.IndexMap) {
				continue
			}
			if balancesMoved(cur, to, mapBals(p.Bals, p.IndexMap, n), +1) {
				return ""
			}
			why = balWhy
		case "settle":
			rest, _, ok := mWithout(cur.Locked, p.ID)
			if _, _, after := mWithout(to.Locked, p.ID); after || !ok || !mSameLocked(rest, to.Locked) {
				continue
			}
			if balancesMoved(cur, to, p.Bals, +1) {
				return ""
			}
			why = balWhy
		}
	}
	return why
}

// mapBals: what each of the n participants of a parent owes for / gets from a virtual channel
// with balances bals: participant q stands for every virtual participant p with indexMap[p] == q.
func mapBals(bals channel.Balances, indexMap []channel.Index, n int) channel.Balances {
	out := make(channel.Balances, len(bals))
	for a := range bals {
		out[a] = make([]channel.Bal, n)
		for q := range out[a] {
			out[a][q] = new(big.Int)
		}
		for p, q := range indexMap {
			if p < len(bals[a]) && int(q) < n {
				out[a][q].Add(out[a][q], bals[a][p])
			}
		}
	}
	return out
}

// balancesMoved: to.Balances == cur.Balances + sign*bals, entry by entry.
func balancesMoved(cur, to *channel.State, bals channel.Balances, sign int64) bool {
	if len(bals) != len(cur.Balances) || len(to.Balances) != len(cur.Balances) {
		return false
	}
	for a := range cur.Balances {
		if len(bals[a]) != len(cur.Balances[a]) || len(to.Balances[a]) != len(cur.Balances[a]) {
			return false
		}
		for p := range cur.Balances[a] {
			want := new(big.Int).Mul(bals[a][p], mBig(sign))
			want.Add(want, cur.Balances[a][p])
			if want.Cmp(to.Balances[a][p]) != 0 {
				return false
			}
		}
	}
	return true
}

// fxSum: total of asset a over participants and locked funds; nil if malformed / negative.
func fxSum(al *channel.Allocation, a int) *big.Int {
	t := new(big.Int)
	if a >= len(al.Balances) {
		return nil
	}
	for _, b := range al.Balances[a] {
		if b == nil || b.Sign() < 0 {
			return nil
		}
		t.Add(t, b)
	}
	for _, l := range al.Locked {
		if a >= len(l.Bals) || l.Bals[a] == nil || l.Bals[a].Sign() < 0 {
			return nil
		}
		t.Add(t, l.Bals[a])
	}
	return t
}

// judgeCountersignatures decides for every crafted update whether the victim countersigned it
// (a ChannelUpdateAccMsg of the victim whose signature verifies over the crafted state, or the
// crafted state becoming current at the victim) and whether the statement allows that in the
// state the victim held at that moment.
func judgeCountersignatures(sc *mScene, obs *msgsObs, views map[channel.ID]*mChanView, crafts []mCrafted, sent []sentRec, enabled []enabledEv) {
	V := sc.V
	for _, cr := range crafts {
		it := &obs.Items[cr.item]
		st := cr.upd.State
		enc := fx.Enc(st)
		at := -1 // clock of the countersignature
		for _, r := range sent {
			acc, ok := r.Msg.(*client.ChannelUpdateAccMsg)
			if !ok || r.From != V.Idx || acc.ChannelID != st.ID || acc.Version != st.Version {
				continue
			}
			good := true
			for _, a := range V.Addr {
				if ok, err := channel.Verify(a, st, acc.Sig); err != nil || !ok {
					good = false
				}
			}
			if good {
				it.Countersigned, it.How, at = true, "ChannelUpdateAccMsg with the victim's signature over the crafted state", r.At
				break
			}
		}
		for _, e := range enabled {
			if e.Who == V.Idx && e.Ch == st.ID && e.Enc == enc && !strings.HasPrefix(enc, "ERR:") {
				if !it.Countersigned {
					it.Countersigned, it.How, at = true, "the crafted state became current at the victim", e.At
				}
				break
			}
		}
		// the victim's state of that channel at the moment of the countersignature (or, if it never
		// countersigned, at the start of the adversarial phase: informational only)
		view := views[st.ID]
		if view != nil && it.Countersigned {
			cp := *view
			for _, e := range enabled {
				if e.Who == V.Idx && e.Ch == st.ID && e.At < at && e.Enc != enc {
					if prev := mDecodeState(e.Enc); prev != nil {
						cp.State = prev
					}
				}
			}
			view = &cp
		}
		it.Why = c07acceptable(view, cr.upd, sc.pend)
		it.Acceptable = it.Why == ""
	}
	// Several crafted messages may carry the same state (e.g. once with a valid and once with a
	// garbage signature). The victim signs a state, not a message: its one countersignature of that
	// state belongs to the message that made it acceptable, if there is one.
	for _, cr := range crafts {
		it := &obs.Items[cr.item]
		if !it.Countersigned || it.Acceptable {
			continue
		}
		for _, other := range crafts {
			o := &obs.Items[other.item]
			if other.item != cr.item && o.Countersigned && o.Acceptable && fx.Enc(other.upd.State) == fx.Enc(cr.upd.State) {
				it.Countersigned, it.How = false, "the countersignature of this state answers "+o.Name
				break
			}
		}
	}
}

func mDecodeState(enc string) *channel.State {
	st := new(channel.State)
	if err := st.Decode(strings.NewReader(enc)); err != nil {
		return nil
	}
	return st
}

// ---------------------------------------------------------------- scenarios

type msgsPlan struct {
	Points       []string
	Cats         map[string]bool
	PairPoints   []string
	PairSeq      bool // pairs are injected one after the other with 60 s in between
	InflightPts  []string
	InflightCats map[string]bool
	// thorough tier only: further history points with their own families
	ThoroughPoints []string
	ThoroughCats   map[string]bool
	// Gap families: at Point, every listed message alone and (quick) the same message twice resp.
	// (thorough) all ordered pairs, delivered 11 s apart
	GapQuick    []gapFamily
	GapThorough []gapFamily
	// Held family: every message of these categories (both senders) while an honest update of the
	// victim waits 30 s for a silent peer, at HeldPts
	HeldPts  []string
	HeldCats map[string]bool
	// Unreach family: these messages of the stranger at UnreachPts, the victim on a bus where
	// publishing to an unserved address blocks until the context ends
	UnreachPts   []string
	UnreachNames []string
	// Own family: crafted responses to the victim's own requests (category "own")
	Own bool
	// Nonce family (C08): honest openings of these kinds with the victim as responder
	NoncePts map[string]string // kind -> point
	// Undeliv family: honest requests of M whose answer by the victim cannot be delivered
	Undeliv bool
	// HubPair family: both ends of a virtual channel collude against the hub (point hub-collude)
	HubPair bool
	// Edge family: the matching proposal arrives when the hub's wait for it ends
	Edge bool
	// Opening family: a stray version-1 update of an unknown channel while the victim is the PROPOSEE of an opening
	Opening bool
	// SplitFund family (C07): a hand-written sub-channel proposal whose funding agreement differs from its balances
	SplitFund bool
	// HalfOpen family: M proposes a sub-channel, never completes the opening, later sends the matching funding update
	HalfOpen bool
	// SyncRace, FundLate, HeldUpd (C08), FinUndeliv: see msgs_own_test.go
	SyncRace, FundLate, HeldUpd, FinUndeliv bool
	// Explicit further scenarios (name -> thorough only)
	Extra []extraScenario
}

type extraScenario struct {
	Name     string
	Thorough bool
}

type gapFamily struct {
	Point string
	Names []string    // sender M
	Pairs [][2]string // quick: these ordered pairs instead of "the same message twice"
}

func msgsScenarios(mode msgsMode, plan msgsPlan) func(res *report.Result) []schedrun.Scenario {
	return func(res *report.Result) []schedrun.Scenario {
		msgsRes = res
		var out []schedrun.Scenario
		all := allCases()
		for _, pt := range plan.Points {
			for i := range all {
				c := &all[i]
				if !plan.Cats[c.Cat] || !c.applies(pt) {
					continue
				}
				out = append(out, schedrun.Scenario{Name: pt + "/" + c.Sender + "/" + c.Name, Mode: explore.Delay, Bound: 0, MaxSteps: 400000, Weight: 1})
			}
		}
		for i := range all {
			if c := &all[i]; c.Pts != nil && plan.Cats[c.Cat] {
				for _, pt := range c.Pts {
					if n := pt + "/" + c.Sender + "/" + c.Name; !hasScenario(out, n) {
						out = append(out, schedrun.Scenario{Name: n, Mode: explore.Delay, Bound: 0, MaxSteps: 400000, Weight: 1})
					}
				}
			}
		}
		for _, pt := range plan.UnreachPts {
			for _, n := range plan.UnreachNames {
				if lookupCase("S", n).applies(pt) {
					out = append(out, schedrun.Scenario{Name: pt + "~unreach/S/" + n, Mode: explore.Delay, Bound: 0, MaxSteps: 400000, Weight: 2})
				}
			}
		}
		if plan.Own {
			for _, pt := range ownAllPoints {
				for i := range all {
					if c := &all[i]; c.Cat == "own" && c.applies(pt) {
						out = append(out, schedrun.Scenario{Name: pt + "~own/" + c.Sender + "/" + c.Name, Mode: explore.Delay, Bound: 0, MaxSteps: 400000, Weight: 2})
					}
				}
			}
		}
		if plan.Undeliv {
			for _, c := range undelivCases {
				for _, pt := range c.Pts {
					for _, mode := range []string{"fail", "block"} {
						out = append(out, schedrun.Scenario{Name: pt + "~undeliv-" + mode + "/M/undeliv/" + c.Name, Mode: explore.Delay, Bound: 0, MaxSteps: 400000, Weight: 2})
					}
				}
			}
		}
		if plan.Edge {
			for _, x := range [][2]string{{"hub-fund", "hubfund/valid"}, {"hub-settle", "hubsettle/valid"}} {
				out = append(out, schedrun.Scenario{Name: x[0] + "~edge/M/" + x[1], Mode: explore.Delay, Bound: 0, MaxSteps: 400000, Weight: 3})
				if res.Thorough() {
					out = append(out, schedrun.Scenario{Name: x[0] + "~edge0/M/" + x[1], Mode: explore.Delay, Bound: 1, MaxSteps: 400000, Weight: 900, Postpone: true})
				}
			}
		}
		if plan.Opening {
			for _, x := range [][2]string{{"nochan", "ledger"}, {"open-v1", "ledger"}, {"open-v1", "sub"}, {"sub-v1", "sub"}} {
				for _, from := range []string{"stranger", "peer"} {
					out = append(out, schedrun.Scenario{Name: x[0] + "~opening/M/opening/" + x[1] + "/" + from, Mode: explore.Delay, Bound: 0, MaxSteps: 400000, Weight: 2})
				}
			}
		}
		if plan.SplitFund {
			for _, m := range splitFundMembers {
				out = append(out, schedrun.Scenario{Name: "open-v1~splitfund/M/splitfund/" + m, Mode: explore.Delay, Bound: 0, MaxSteps: 400000, Weight: 2})
			}
		}
		if plan.SyncRace {
			for _, pt := range []string{"open-v0", "open-v1", "sub-v1"} {
				for _, m := range syncRaceMembers {
					out = append(out, schedrun.Scenario{Name: pt + "~syncrace/M/syncrace/" + m, Mode: explore.Delay, Bound: 0, MaxSteps: 400000, Weight: 2})
				}
			}
			if res.Thorough() { // all schedules with one delay for the two orders of M's sync message at open-v1
				for _, m := range []string{"peer/sync-first", "peer/update-first"} {
					out = append(out, schedrun.Scenario{Name: "open-v1~syncrace/S/syncrace/" + m, Mode: explore.Delay, Bound: 1, MaxSteps: 400000, Weight: 900})
				}
			}
		}
		if plan.FundLate {
			for _, m := range fundLateMembers {
				out = append(out, schedrun.Scenario{Name: "open-v1~fundlate/M/fundlate/" + m, Mode: explore.Delay, Bound: 0, MaxSteps: 400000, Weight: 2})
			}
		}
		if plan.HeldUpd {
			for _, m := range heldUpdMembers {
				out = append(out, schedrun.Scenario{Name: "open-v1~heldupd/M/heldupd/" + m, Mode: explore.Delay, Bound: 0, MaxSteps: 400000, Weight: 2})
			}
		}
		if plan.FinUndeliv {
			for _, mode := range []string{"fail", "block"} {
				for _, m := range finUndelivMembers {
					out = append(out, schedrun.Scenario{Name: "sub-v1~finundeliv-" + mode + "/M/finundeliv/" + m, Mode: explore.Delay, Bound: 0, MaxSteps: 400000, Weight: 2})
				}
			}
		}
		if plan.HalfOpen {
			for _, m := range halfOpenMembers {
				out = append(out, schedrun.Scenario{Name: "open-v1~halfopen/M/halfopen/" + m, Mode: explore.Delay, Bound: 0, MaxSteps: 400000, Weight: 2})
			}
		}
		for _, x := range plan.Extra {
			if !x.Thorough || res.Thorough() {
				out = append(out, schedrun.Scenario{Name: x.Name, Mode: explore.Delay, Bound: 0, MaxSteps: 400000, Weight: 3})
			}
		}
		if plan.HubPair {
			var pairs, probes []string
			for i := range all {
				if c := &all[i]; c.Cat == "hubpair" {
					if strings.HasPrefix(c.Name, "hubpair/vupdate-") {
						for _, v := range []string{"gap", "gapacc"} {
							out = append(out, schedrun.Scenario{Name: "hub-collude~" + v + "/M/hubpair/valid+" + c.Name, Mode: explore.Delay, Bound: 0, MaxSteps: 400000, Weight: 3})
						}
					} else if strings.HasPrefix(c.Name, "hubpair/update-") {
						probes = append(probes, c.Name)
					} else {
						pairs = append(pairs, c.Name)
					}
				}
			}
			for _, a := range pairs {
				out = append(out, schedrun.Scenario{Name: "hub-collude/M/" + a, Mode: explore.Delay, Bound: 0, MaxSteps: 400000, Weight: 3})
				for _, b := range probes {
					out = append(out, schedrun.Scenario{Name: "hub-collude~gap/M/" + a + "+" + b, Mode: explore.Delay, Bound: 0, MaxSteps: 400000, Weight: 3})
				}
			}
		}
		for _, kind := range []string{"ledger", "sub"} {
			if pt, ok := plan.NoncePts[kind]; ok {
				out = append(out, schedrun.Scenario{Name: pt + "~nonce/M/nonce/" + kind, Mode: explore.Delay, Bound: 0, MaxSteps: 400000, Weight: 2})
			}
		}
		for _, pt := range plan.HeldPts {
			for i := range all {
				if c := &all[i]; plan.HeldCats[c.Cat] && c.applies(pt) {
					out = append(out, schedrun.Scenario{Name: pt + "~held/" + c.Sender + "/" + c.Name, Mode: explore.Delay, Bound: 0, MaxSteps: 400000, Weight: 2})
				}
			}
		}
		for _, g := range plan.GapQuick {
			for _, n := range g.Names {
				out = append(out, schedrun.Scenario{Name: g.Point + "/M/" + n, Mode: explore.Delay, Bound: 0, MaxSteps: 400000, Weight: 3})
				if g.Pairs == nil {
					out = append(out, schedrun.Scenario{Name: g.Point + "~gap/M/" + n + "+" + n, Mode: explore.Delay, Bound: 0, MaxSteps: 400000, Weight: 3})
				}
			}
			for _, pr := range g.Pairs {
				out = append(out, schedrun.Scenario{Name: g.Point + "~gap/M/" + pr[0] + "+" + pr[1], Mode: explore.Delay, Bound: 0, MaxSteps: 400000, Weight: 3})
			}
		}
		if res.Thorough() {
			for _, g := range plan.GapThorough {
				for _, a := range g.Names {
					for _, b := range g.Names {
						if q := g.Point + "~gap/M/" + a + "+" + b; !hasScenario(out, q) {
							out = append(out, schedrun.Scenario{Name: q, Mode: explore.Delay, Bound: 0, MaxSteps: 400000, Weight: 3})
						}
					}
				}
			}
			for _, pt := range plan.ThoroughPoints {
				for i := range all {
					c := &all[i]
					if plan.ThoroughCats[c.Cat] && c.applies(pt) && !hasScenario(out, pt+"/"+c.Sender+"/"+c.Name) {
						out = append(out, schedrun.Scenario{Name: pt + "/" + c.Sender + "/" + c.Name, Mode: explore.Delay, Bound: 0, MaxSteps: 400000, Weight: 3})
					}
				}
			}
			variant := ""
			if plan.PairSeq {
				variant = "~seq"
			}
			for _, pt := range plan.PairPoints {
				var red []*mcase
				for i := range all {
					if c := &all[i]; c.Reduced && c.Sender == "M" && plan.Cats[c.Cat] && c.applies(pt) {
						red = append(red, c)
					}
				}
				for _, a := range red {
					for _, b := range red {
						out = append(out, schedrun.Scenario{Name: pt + variant + "/M/" + a.Name + "+" + b.Name, Mode: explore.Delay, Bound: 0, MaxSteps: 400000, Weight: 2})
					}
				}
			}
			for _, pt := range plan.InflightPts {
				for i := range all {
					c := &all[i]
					if !plan.InflightCats[c.Cat] || !c.applies(pt) || strings.HasSuffix(c.Name, "-next") {
						continue // "-next": an unsolicited response to the in-flight update itself is the peer answering, not an attack on the client
					}
					out = append(out, schedrun.Scenario{Name: pt + "~inflight/" + c.Sender + "/" + c.Name, Mode: explore.Delay, Bound: 1, MaxSteps: 400000, Weight: 600})
				}
			}
		}
		return out
	}
}

func hasScenario(scs []schedrun.Scenario, name string) bool {
	for _, s := range scs {
		if s.Name == name {
			return true
		}
	}
	return false
}

// msgsDigest is the canonical outcome; it also bumps the per-execution counters (schedrun calls
// Digest exactly once per explored execution).
func msgsDigest(mode msgsMode) func(schedrun.Scenario, *vsched.Sched, any) string {
	return func(ssc schedrun.Scenario, s *vsched.Sched, o any) string {
		obs := o.(*msgsObs)
		msgsCount("cases@"+obs.Pt, 1)
		var sb strings.Builder
		for _, it := range obs.Items {
			switch {
			case it.NA:
				msgsCount("not_applicable", 1)
			case it.NotExpr != "":
				msgsCount("not_expressible", 1)
				if msgsRes != nil && msgsRes.Seen("not_expressible", it.Name) {
					msgsRes.Note("not expressible: %s: %.160s", it.Name, it.NotExpr)
				}
			default:
				msgsCount("messages_injected", 1)
				msgsCount("injected:"+it.Cat, 1)
				if it.Proto {
					msgsCount("messages_injected_protobuf", 1)
				}
			}
			fmt.Fprintf(&sb, "%s na=%v ne=%v acc=%v cs=%v|", it.Name, it.NA, it.NotExpr != "", it.Acceptable, it.Countersigned)
		}
		if len(s.Panics) > 0 && msgsRes != nil {
			site := msgsPanicSite(s.Panics[0])
			if msgsRes.Seen("panic:"+site, obs.Sender+"/"+obs.Msg) {
				msgsRes.Note("panic %s <- %s/%s (first at point %s)", site, obs.Sender, obs.Msg, obs.Pt)
			}
		}
		switch mode.Prop {
		case "C08":
			for _, it := range obs.Items {
				if !it.Mut && it.Control && it.NotExpr == "" && obs.PropsAfter == obs.PropsBefore+1 && obs.Stage == "done" {
					msgsCount("positive_controls_ok", 1)
				}
				if it.Neutral && it.NotExpr == "" && obs.Stage == "done" {
					if obs.PropsAfter > obs.PropsBefore {
						msgsCount("undecided_by_statement_delivered", 1)
					} else {
						msgsCount("undecided_by_statement_dropped", 1)
					}
				}
			}
		case "C07":
			for _, it := range obs.Items {
				if it.Countersigned && it.Acceptable {
					msgsCount("countersigned_acceptable", 1)
					if !it.Mut {
						msgsCount("positive_controls_ok", 1)
					}
					if msgsRes != nil {
						msgsRes.Seen("countersigned_acceptable", obs.Pt+"/"+it.Name)
					}
				}
				if it.IsUpdate && !it.Countersigned && !it.Acceptable {
					msgsCount("refused_unacceptable", 1)
				}
				if it.IsUpdate && !it.Countersigned && it.Acceptable {
					msgsCount("acceptable_not_countersigned", 1)
					if msgsRes != nil {
						msgsRes.Seen("acceptable_not_countersigned", obs.Pt+"/"+it.Name)
					}
				}
			}
		case "C12":
			ok := obs.Stage == "done"
			for _, p := range obs.Probes {
				ok = ok && p.ok()
			}
			if ok {
				msgsCount("probes_all_ok", 1)
			}
		}
		if msgsRes != nil {
			msgsRes.Sample(10, map[string]any{"case": ssc.Name, "items": obs.Items, "probes": obs.Probes})
		}
		if obs.OwnKind != "" {
			msgsCount("own_request:"+obs.OwnRes, 1)
		}
		if len(obs.Undeliv) > 0 {
			msgsCount("victim_publications_failed", int64(len(obs.Undeliv)))
		}
		return fmt.Sprintf("%v|%s|%v|%s|%s|props=%d chans=%d upds=%d|%v|%s|%v|%v|%v", obs.Undeliv, obs.OwnRes, obs.Nonce, obs.Stage, sb.String(), obs.PropsAfter-obs.PropsBefore,
			obs.ChansAfter-obs.ChansBefore, obs.UpdsSeen, obs.Probes, obs.InflightRes, len(s.Panics) > 0, s.Deadlock, obs.SetupErr)
	}
}

func msgsDescribe(_ schedrun.Scenario, s *vsched.Sched, o any) string {
	obs := o.(*msgsObs)
	var sb strings.Builder
	fmt.Fprintf(&sb, "  point %s, sender %s, stage reached: %s, proposal handler calls %d, new channels %d, update handler calls %d, Enabled at the victim %d\n",
		obs.Pt, obs.Sender, obs.Stage, obs.PropsAfter-obs.PropsBefore, obs.ChansAfter-obs.ChansBefore, obs.UpdsSeen, obs.EnabledAtV)
	for _, it := range obs.Items {
		fmt.Fprintf(&sb, "  message %s: %+v\n", it.Name, it)
	}
	for _, p := range obs.Probes {
		fmt.Fprintf(&sb, "  probe %s: %s\n", p.What, p.Res)
	}
	if obs.OwnKind != "" {
		fmt.Fprintf(&sb, "  the victim's own %s request (honest peer: %v): %s %s\n", obs.OwnKind, obs.OwnHonest, obs.OwnRes, obs.OwnDetail)
	}
	for _, n := range obs.Nonce {
		fmt.Fprintf(&sb, "  nonce: %s\n", n)
	}
	if strings.HasPrefix(obs.Variant, "undeliv") {
		fmt.Fprintf(&sb, "  %s; publications of the victim made to fail: %v\n", obs.OwnRes, obs.Undeliv)
	}
	if obs.Inflight || obs.Held {
		fmt.Fprintf(&sb, "  in-flight update of the victim: %s\n", obs.InflightRes)
	}
	for _, e := range obs.Errs {
		fmt.Fprintf(&sb, "  note: %s\n", e)
	}
	if obs.SetupErr != "" {
		fmt.Fprintf(&sb, "  SET-UP FAILED: %s\n", obs.SetupErr)
	}
	for _, p := range s.Panics {
		fmt.Fprintf(&sb, "  PANIC: %s\n", firstLines(p, 16))
	}
	return sb.String()
}

// msgsCommonVerdicts: clauses shared by the three checks (panics, deadlock, broken set-up).
// done=true: nothing else can be judged.
func msgsCommonVerdicts(prop string, ssc schedrun.Scenario, s *vsched.Sched, obs *msgsObs) (out []schedrun.Verdict, done bool) {
	site := msgsSite(obs)
	if len(s.Panics) > 0 {
		p := s.Panics[0]
		if harnessPanic(p) {
			return []schedrun.Verdict{{Property: prop, Clause: "harness-error", Site: site, Detail: "the driver itself panicked (not a verdict about the code under test):\n" + firstLines(p, 20)}}, true
		}
		return []schedrun.Verdict{{Property: prop, Clause: "panic", Site: msgsPanicSite(p),
			Detail: fmt.Sprintf("a goroutine of the client panicked after %s from %s at point %s (stage %s):\n%s", obs.Msg, obs.Sender, obs.Pt, obs.Stage, firstLines(p, 18))}}, true
	}
	if s.Capped {
		return nil, true
	}
	if obs.SetupErr != "" {
		return []schedrun.Verdict{{Property: prop, Clause: "harness-error", Site: site, Detail: "set-up failed: " + obs.SetupErr}}, true
	}
	if s.Deadlock {
		return []schedrun.Verdict{{Property: prop, Clause: "deadlock", Site: site,
			Detail: fmt.Sprintf("after %s from %s the driver cannot finish (stage %s):\n%s", obs.Msg, obs.Sender, obs.Stage, s.Dump())}}, true
	}
	if obs.Stage != "done" {
		return []schedrun.Verdict{{Property: prop, Clause: "harness-error", Site: site, Detail: "the driver stopped at stage " + obs.Stage}}, true
	}
	return nil, false
}

// msgsSite: "<point>/<message names>"; the timing variants "~edge" / "~edge0" are one site "<point>~edge/...".
func msgsSite(obs *msgsObs) string {
	if strings.HasPrefix(obs.Variant, "edge") {
		return obs.Pt + "~edge/" + obs.Msg
	}
	return obs.Pt + "/" + obs.Msg
}

func probeVerdicts(prop string, obs *msgsObs) (out []schedrun.Verdict) {
	var bad []string
	for _, p := range obs.Probes {
		if !p.ok() {
			bad = append(bad, p.What+": "+p.Res)
		}
	}
	if len(bad) > 0 {
		out = append(out, schedrun.Verdict{Property: prop, Clause: "probe-failed", Site: msgsSite(obs),
			Detail: fmt.Sprintf("after %s from %s (and 60 s of quiet) honest requests no longer work: %s", obs.Msg, obs.Sender, strings.Join(bad, "; "))})
	}
	return out
}

var idxRangeRe = regexp.MustCompile(`\[\d+\] with length \d+`)
var typeNameRe = regexp.MustCompile(`\b(expected|got) \*?[A-Za-z0-9_.]+`)

// msgsPanicSite: panic message + innermost go-perun function, with the numbers of an index error
// and the type names of a type assertion removed (one signature per site, whatever the message provoked).
func msgsPanicSite(p string) string {
	site := panicSite(p)
	norm := func(m string) string {
		return typeNameRe.ReplaceAllString(idxRangeRe.ReplaceAllString(m, "[i] with length n"), "$1 T")
	}
	if i := strings.LastIndex(site, "@"); i >= 0 {
		return norm(site[:i]) + site[i:]
	}
	return norm(site)
}

var _ = wallet.Sig(nil)
