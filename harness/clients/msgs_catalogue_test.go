package clients

// Catalogues of crafted messages. Every member is "well-formed base x one mutation", has a
// short stable name and is built against the scene (the victim's channels at the history
// point). Build returns nil when the member does not apply at a point.

import (
	"math/big"
	"strings"

	"perun.network/go-perun/channel"
	"perun.network/go-perun/client"
	"perun.network/go-perun/wallet"
	"perun.network/go-perun/wire"
	"verif/harness/fx"
)

type mcase struct {
	Name   string // "<family>/<mutation>"
	Cat    string // proposal | update | fund | settle | vfund | vsettle | sync | response | control
	Sender string // "M" | "S": whose wire id the envelope carries
	Proto  bool   // must travel through the protobuf serializer
	Mut    bool   // false: the unmutated well-formed base
	// Neutral (with Control): where the unmutated proposal would be acceptable, the statement leaves
	// open whether this mutation must be dropped.
	Neutral bool
	// Control reports (proposals only) whether the victim's situation makes the unmutated
	// proposal acceptable, i.e. the proposal handler MUST be invoked.
	Control func(sc *mScene) bool
	Build   func(sc *mScene) wire.Msg
	// Reduced marks the members of the reduced set used for ordered pairs (thorough tier).
	Reduced bool
	// static applicability
	NeedsCh     bool   // needs a ledger channel with M
	NeedsLocked int    // needs that many sub-allocations in the victim's ledger channel
	NeedsSubs   int    // needs that many sub-channels
	OnlyAt      string // only at history points with this prefix
	// "own" family: the message answers a request of the victim itself
	Own       string   // kind of the victim's request: ledger | sub | virtual | update
	OwnHonest bool     // control: the request reaches the real M, which answers honestly (nothing is injected)
	Pts       []string // explicit list of history points
	// Envs, if set, builds complete envelopes (several messages, other senders than Sender) instead of Build
	Envs func(sc *mScene) []*wire.Envelope
	// Follow, if set, builds further envelopes 100 ms after the first ones were delivered (it can look at
	// what the victim has published meanwhile)
	Follow func(sc *mScene) []*wire.Envelope
}

// lockedAt / subsAt: what the history points provide.
func lockedAt(pt string) int {
	switch strings.TrimSuffix(strings.TrimSuffix(pt, "-v0"), "-v1") {
	case "sub", "await-subfund2", "await-subsettle", "await-subsettle-paid", "hub-fund2":
		return 1
	case "sub2", "await-subsettle2", "hub-settle2":
		return 2
	case "hub-settle", "hub-settle-quiet":
		return 1
	}
	return 0
}

func (c *mcase) applies(pt string) bool {
	if c.OnlyAt != "" && !strings.HasPrefix(pt, c.OnlyAt) {
		return false
	}
	if c.Pts != nil {
		for _, x := range c.Pts {
			if x == pt {
				return true
			}
		}
		return false
	}
	switch c.Cat {
	case "fund":
		return strings.HasPrefix(pt, "await-subfund") && lockedAt(pt) >= c.NeedsLocked
	case "settle":
		return strings.HasPrefix(pt, "await-subsettle") && lockedAt(pt)-1 >= c.NeedsLocked
	case "hubfund":
		return strings.HasPrefix(pt, "hub-fund") && lockedAt(pt) >= c.NeedsLocked
	case "hubsettle":
		return strings.HasPrefix(pt, "hub-settle") && lockedAt(pt)-1 >= c.NeedsLocked
	case "hubtwo":
		return pt == "hub-two"
	}
	if strings.HasPrefix(pt, "hub") {
		return false
	}
	if pt == "nochan" && (c.NeedsCh || c.NeedsLocked > 0 || c.NeedsSubs > 0) {
		return false
	}
	if c.NeedsSubs > 0 && !strings.HasPrefix(pt, "sub") {
		return false
	}
	return lockedAt(pt) >= c.NeedsLocked
}

func mBig(v int64) *big.Int { return big.NewInt(v) }

// ---------------------------------------------------------------- proposals

func (sc *mScene) parentID() channel.ID {
	if sc.led != nil {
		return sc.led.ID()
	}
	return mFixedID(0x77)
}

func (sc *mScene) baseLedgerProp(x mIdent) *client.LedgerChannelProposalMsg {
	p, err := client.NewLedgerChannelProposal(60, x.Addr, mAlloc(sc.w.Asset, 5, 5),
		[]map[wallet.BackendID]wire.Address{x.Wire, sc.V.WireID}, client.WithNonce(mFixedID(0x51)))
	if err != nil {
		panic("harness: " + err.Error())
	}
	p.ProposalID = mFixedID(0xC1)
	return p
}

func (sc *mScene) baseSubProp(mIdent) *client.SubChannelProposalMsg {
	p, err := client.NewSubChannelProposal(sc.parentID(), 60, mAlloc(sc.w.Asset, 2, 4), client.WithNonce(mFixedID(0x52)))
	if err != nil {
		panic("harness: " + err.Error())
	}
	p.ProposalID = mFixedID(0xC2)
	return p
}

// vmap is the victim's index map in a virtual channel where the victim is Bob (index 1) and its
// ledger channel with M is its parent: Alice is represented by the hub M, Bob by V itself.
func (sc *mScene) vmap() []channel.Index { return []channel.Index{1 - sc.vIdx, sc.vIdx} }

func (sc *mScene) baseVirtualProp(x mIdent) *client.VirtualChannelProposalMsg {
	p, err := client.NewVirtualChannelProposal(60, x.Addr, mAlloc(sc.w.Asset, 4, 4),
		[]map[wallet.BackendID]wire.Address{x.Wire, sc.V.WireID},
		[]channel.ID{mFixedID(0x66), sc.parentID()},
		[][]channel.Index{{0, 1}, sc.vmap()}, client.WithNonce(mFixedID(0x53)))
	if err != nil {
		panic("harness: " + err.Error())
	}
	p.ProposalID = mFixedID(0xC3)
	return p
}

type propMut struct {
	Name  string
	Proto bool
	On    string // "", "peers" (ledger, virtual), "ledger", "sub", "virtual"
	F     func(sc *mScene, x mIdent, p client.ChannelProposal)
	C12   bool // only in C12's catalogue (not a validity condition named by C08's statement)
	// Neutral: the statement does not say whether the proposal must be dropped (where the unmutated
	// proposal would be acceptable): delivered and recorded, no expectation about the handler.
	Neutral bool
}

// setSplit sets initial balances and funding agreement independently (the constructors refuse
// or normalise such proposals: the fields of the message are set by hand).
func setSplit(b *client.BaseChannelProposal, bals, fa []int64) {
	setBals(b, bals)
	b.FundingAgreement = make(channel.Balances, 1)
	for _, v := range fa {
		b.FundingAgreement[0] = append(b.FundingAgreement[0], mBig(v))
	}
}

func setBals(b *client.BaseChannelProposal, rows ...[]int64) {
	b.InitBals.Balances = make(channel.Balances, len(rows))
	for i, r := range rows {
		b.InitBals.Balances[i] = make([]channel.Bal, len(r))
		for j, v := range r {
			b.InitBals.Balances[i][j] = mBig(v)
		}
	}
	b.FundingAgreement = b.InitBals.Balances.Clone()
}

func setPeers(p client.ChannelProposal, peers []map[wallet.BackendID]wire.Address) {
	switch q := p.(type) {
	case *client.LedgerChannelProposalMsg:
		q.Peers = peers
	case *client.VirtualChannelProposalMsg:
		q.Peers = peers
	}
}

func getPeers(p client.ChannelProposal) []map[wallet.BackendID]wire.Address {
	switch q := p.(type) {
	case *client.LedgerChannelProposalMsg:
		return q.Peers
	case *client.VirtualChannelProposalMsg:
		return q.Peers
	}
	return nil
}

var propMuts = []propMut{
	// generic: the common part of every proposal
	{Name: "cols1", F: func(_ *mScene, _ mIdent, p client.ChannelProposal) { setBals(p.Base(), []int64{8}) }},
	{Name: "cols3", F: func(_ *mScene, _ mIdent, p client.ChannelProposal) { setBals(p.Base(), []int64{2, 2, 2}) }},
	{Name: "chdur0", F: func(_ *mScene, _ mIdent, p client.ChannelProposal) { p.Base().ChallengeDuration = 0 }},
	{Name: "bal-negative", F: func(_ *mScene, _ mIdent, p client.ChannelProposal) { setBals(p.Base(), []int64{-1, 5}) }},
	{Name: "bal-norows", Proto: true, F: func(_ *mScene, _ mIdent, p client.ChannelProposal) { setBals(p.Base()) }},
	{Name: "bal-emptyrow", Proto: true, F: func(_ *mScene, _ mIdent, p client.ChannelProposal) { setBals(p.Base(), []int64{}) }},
	{Name: "bal-ragged", Proto: true, F: func(_ *mScene, _ mIdent, p client.ChannelProposal) {
		b := p.Base()
		b.InitBals.Assets = append(b.InitBals.Assets, fx.Assets[1])
		b.InitBals.Backends = append(b.InitBals.Backends, 0)
		setBals(b, []int64{2, 2}, []int64{2})
	}},
	{Name: "bal-rows-short", Proto: true, F: func(_ *mScene, _ mIdent, p client.ChannelProposal) {
		b := p.Base()
		b.InitBals.Assets = append(b.InitBals.Assets, fx.Assets[1])
		b.InitBals.Backends = append(b.InitBals.Backends, 0)
	}},
	{Name: "backends-short", Proto: true, F: func(_ *mScene, _ mIdent, p client.ChannelProposal) {
		b := p.Base()
		b.InitBals.Assets = append(b.InitBals.Assets, fx.Assets[1])
		setBals(b, []int64{2, 2}, []int64{1, 1})
	}},
	{Name: "prelocked", F: func(_ *mScene, _ mIdent, p client.ChannelProposal) {
		p.Base().InitBals.Locked = []channel.SubAlloc{*channel.NewSubAlloc(mFixedID(0x31), []channel.Bal{mBig(1)}, nil)}
	}},
	// peers (ledger and virtual proposals name them)
	{Name: "peers-swapped", On: "peers", F: func(sc *mScene, x mIdent, p client.ChannelProposal) {
		setPeers(p, []map[wallet.BackendID]wire.Address{sc.V.WireID, x.Wire})
	}},
	{Name: "peers-three", On: "peers", F: func(sc *mScene, x mIdent, p client.ChannelProposal) {
		setPeers(p, append(getPeers(p), sc.other(x.Name).Wire))
	}},
	{Name: "peers0-other", On: "peers", F: func(sc *mScene, x mIdent, p client.ChannelProposal) {
		setPeers(p, []map[wallet.BackendID]wire.Address{sc.other(x.Name).Wire, sc.V.WireID})
	}},
	{Name: "peers1-other", On: "peers", F: func(sc *mScene, x mIdent, p client.ChannelProposal) {
		setPeers(p, []map[wallet.BackendID]wire.Address{x.Wire, sc.other(x.Name).Wire})
	}},
	{Name: "peers-one", On: "peers", F: func(_ *mScene, x mIdent, p client.ChannelProposal) {
		setPeers(p, []map[wallet.BackendID]wire.Address{x.Wire})
	}},
	// (A2) an empty - decoded: non-nil - participant / proposer address map
	{Name: "participant-empty", On: "ledger", F: func(_ *mScene, _ mIdent, p client.ChannelProposal) {
		p.(*client.LedgerChannelProposalMsg).Participant = map[wallet.BackendID]wallet.Address{}
	}},
	{Name: "proposer-empty", On: "virtual", F: func(_ *mScene, _ mIdent, p client.ChannelProposal) {
		p.(*client.VirtualChannelProposalMsg).Proposer = map[wallet.BackendID]wallet.Address{}
	}},
	// (A7) the funding agreement of a ledger channel proposal: one column for two participants; another sum
	{Name: "fa-cols1", On: "ledger", F: func(_ *mScene, _ mIdent, p client.ChannelProposal) {
		p.Base().FundingAgreement = channel.Balances{{mBig(10)}}
	}},
	{Name: "fa-sum-differs", On: "ledger", F: func(_ *mScene, _ mIdent, p client.ChannelProposal) {
		p.Base().FundingAgreement = channel.Balances{{mBig(0), mBig(600)}}
	}},
	{Name: "fa-rows2", On: "ledger", F: func(_ *mScene, _ mIdent, p client.ChannelProposal) {
		p.Base().FundingAgreement = channel.Balances{{mBig(5), mBig(5)}, {mBig(1), mBig(1)}}
	}},
	// sub-channel
	{Name: "parent-unknown", On: "sub", F: func(sc *mScene, _ mIdent, p client.ChannelProposal) {
		p.(*client.SubChannelProposalMsg).Parent = mFlipID(sc.parentID())
	}},
	{Name: "asset-other", On: "sub", F: func(_ *mScene, _ mIdent, p client.ChannelProposal) { p.Base().InitBals.Assets[0] = fx.Assets[1] }},
	{Name: "backend-other", On: "sub", F: func(_ *mScene, _ mIdent, p client.ChannelProposal) { p.Base().InitBals.Backends[0] = 1 }},
	{Name: "assets-two", On: "sub", F: func(_ *mScene, _ mIdent, p client.ChannelProposal) {
		b := p.Base()
		b.InitBals.Assets = append(b.InitBals.Assets, fx.Assets[1])
		b.InitBals.Backends = append(b.InitBals.Backends, 0)
		setBals(b, []int64{2, 4}, []int64{1, 1})
	}},
	{Name: "funds-above-parent-0", On: "sub", F: func(_ *mScene, _ mIdent, p client.ChannelProposal) { setBals(p.Base(), []int64{12, 3}) }},
	{Name: "funds-above-parent-1", On: "sub", F: func(_ *mScene, _ mIdent, p client.ChannelProposal) { setBals(p.Base(), []int64{2, 12}) }},
	// balances and funding agreement disagree: the sub-channel's funds are its initial balances
	{Name: "funds-above-parent-fa-small", On: "sub", F: func(_ *mScene, _ mIdent, p client.ChannelProposal) {
		setSplit(p.Base(), []int64{1000, 1000}, []int64{1, 1})
	}},
	{Name: "funds-above-parent-0-fa-base", On: "sub", F: func(_ *mScene, _ mIdent, p client.ChannelProposal) {
		setSplit(p.Base(), []int64{12, 4}, []int64{2, 4})
	}},
	{Name: "funds-above-parent-1-fa-base", On: "sub", F: func(_ *mScene, _ mIdent, p client.ChannelProposal) {
		setSplit(p.Base(), []int64{2, 12}, []int64{2, 4})
	}},
	// the other direction: the sub-channel itself fits, only the (for sub-channels unused) funding
	// agreement exceeds the parent. The statement names "more funds than the parent holds": not decided by it.
	{Name: "fa-above-parent-funds-fit", On: "sub", Neutral: true, F: func(_ *mScene, _ mIdent, p client.ChannelProposal) {
		setSplit(p.Base(), []int64{2, 4}, []int64{1000, 1000})
	}},
	{Name: "fa-differs-funds-fit", On: "sub", Neutral: true, F: func(_ *mScene, _ mIdent, p client.ChannelProposal) {
		setSplit(p.Base(), []int64{2, 4}, []int64{1, 1})
	}},
	// virtual channel
	{Name: "fa-differs", On: "virtual", F: func(_ *mScene, _ mIdent, p client.ChannelProposal) {
		p.Base().FundingAgreement = channel.Balances{{mBig(5), mBig(3)}}
	}},
	{Name: "fa-cols1", On: "virtual", F: func(_ *mScene, _ mIdent, p client.ChannelProposal) {
		p.Base().FundingAgreement = channel.Balances{{mBig(8)}}
	}},
	{Name: "parents-empty", On: "virtual", F: func(_ *mScene, _ mIdent, p client.ChannelProposal) {
		p.(*client.VirtualChannelProposalMsg).Parents = []channel.ID{}
	}},
	{Name: "parents-short", On: "virtual", F: func(sc *mScene, _ mIdent, p client.ChannelProposal) {
		p.(*client.VirtualChannelProposalMsg).Parents = []channel.ID{sc.parentID()}
	}},
	{Name: "parents-long", On: "virtual", F: func(_ *mScene, _ mIdent, p client.ChannelProposal) {
		q := p.(*client.VirtualChannelProposalMsg)
		q.Parents = append(q.Parents, mFixedID(0x67))
	}},
	{Name: "parents-unknown", On: "virtual", F: func(sc *mScene, _ mIdent, p client.ChannelProposal) {
		p.(*client.VirtualChannelProposalMsg).Parents[1] = mFlipID(sc.parentID())
	}},
	{Name: "idxmaps-short", On: "virtual", F: func(_ *mScene, _ mIdent, p client.ChannelProposal) {
		q := p.(*client.VirtualChannelProposalMsg)
		q.IndexMaps = q.IndexMaps[:1]
	}},
	{Name: "idxmaps-long", On: "virtual", F: func(_ *mScene, _ mIdent, p client.ChannelProposal) {
		q := p.(*client.VirtualChannelProposalMsg)
		q.IndexMaps = append(q.IndexMaps, []channel.Index{0, 1})
	}},
	{Name: "idxmap-inner-short", On: "virtual", F: func(sc *mScene, _ mIdent, p client.ChannelProposal) {
		p.(*client.VirtualChannelProposalMsg).IndexMaps[1] = sc.vmap()[:1]
	}},
	{Name: "idxmap-inner-long", On: "virtual", F: func(sc *mScene, _ mIdent, p client.ChannelProposal) {
		p.(*client.VirtualChannelProposalMsg).IndexMaps[1] = append(sc.vmap(), 0)
	}},
	{Name: "idxmap-inner-empty", On: "virtual", F: func(_ *mScene, _ mIdent, p client.ChannelProposal) {
		p.(*client.VirtualChannelProposalMsg).IndexMaps[1] = []channel.Index{}
	}},
	{Name: "idxmap-entry-oor", On: "virtual", F: func(sc *mScene, _ mIdent, p client.ChannelProposal) {
		m := sc.vmap()
		m[1] = 2
		p.(*client.VirtualChannelProposalMsg).IndexMaps[1] = m
	}},
	// (A4) a permutation, but the receiver's own index does not map to its own index in its parent
	{Name: "idxmap-swapped", On: "virtual", F: func(sc *mScene, _ mIdent, p client.ChannelProposal) {
		p.(*client.VirtualChannelProposalMsg).IndexMaps[1] = []channel.Index{sc.vIdx, 1 - sc.vIdx}
	}},
	{Name: "idxmaps-both-swapped", On: "virtual", F: func(sc *mScene, _ mIdent, p client.ChannelProposal) {
		q := p.(*client.VirtualChannelProposalMsg)
		q.IndexMaps = [][]channel.Index{{1, 0}, {sc.vIdx, 1 - sc.vIdx}}
	}},
	{Name: "idxmap-dup", On: "virtual", F: func(sc *mScene, _ mIdent, p client.ChannelProposal) {
		p.(*client.VirtualChannelProposalMsg).IndexMaps[1] = []channel.Index{sc.vIdx, sc.vIdx}
	}},
	{Name: "idxmap-dup-funds", On: "virtual", F: func(sc *mScene, _ mIdent, p client.ChannelProposal) {
		setBals(p.Base(), []int64{6, 6}) // each fits, together they exceed what the victim holds
		p.(*client.VirtualChannelProposalMsg).IndexMaps[1] = []channel.Index{sc.vIdx, sc.vIdx}
	}},
	// funds above the parent's with a funding agreement that fits, and the other way round (both are
	// "funding agreement differs from the balances" as well)
	{Name: "funds-above-parent-own-fa-base", On: "virtual", F: func(_ *mScene, _ mIdent, p client.ChannelProposal) {
		setSplit(p.Base(), []int64{4, 12}, []int64{4, 4})
	}},
	{Name: "funds-above-parent-hub-fa-base", On: "virtual", F: func(_ *mScene, _ mIdent, p client.ChannelProposal) {
		setSplit(p.Base(), []int64{12, 4}, []int64{4, 4})
	}},
	{Name: "fa-above-parent-funds-fit", On: "virtual", F: func(_ *mScene, _ mIdent, p client.ChannelProposal) {
		setSplit(p.Base(), []int64{4, 4}, []int64{1000, 1000})
	}},
	{Name: "funds-above-parent-own", On: "virtual", F: func(_ *mScene, _ mIdent, p client.ChannelProposal) { setBals(p.Base(), []int64{4, 12}) }},
	{Name: "funds-above-parent-hub", On: "virtual", F: func(_ *mScene, _ mIdent, p client.ChannelProposal) { setBals(p.Base(), []int64{12, 4}) }},
	{Name: "asset-other", On: "virtual", F: func(_ *mScene, _ mIdent, p client.ChannelProposal) { p.Base().InitBals.Assets[0] = fx.Assets[1] }},
	{Name: "backend-other", On: "virtual", F: func(_ *mScene, _ mIdent, p client.ChannelProposal) { p.Base().InitBals.Backends[0] = 1 }},
}

// proposalCases: every proposal type x {base, every applicable mutation} x sender {M, S}.
func proposalCases() (out []mcase) {
	type ptype struct {
		Name    string
		Base    func(sc *mScene, x mIdent) client.ChannelProposal
		Control func(sc *mScene, sender string) bool
	}
	types := []ptype{
		{"ledger", func(sc *mScene, x mIdent) client.ChannelProposal { return sc.baseLedgerProp(x) },
			func(*mScene, string) bool { return true }},
		// a sub-channel proposal is acceptable only from the parent's index 0 to its index 1
		{"sub", func(sc *mScene, x mIdent) client.ChannelProposal { return sc.baseSubProp(x) },
			func(sc *mScene, sender string) bool { return sender == "M" && sc.led != nil && sc.vIdx == 1 }},
		{"virtual", func(sc *mScene, x mIdent) client.ChannelProposal { return sc.baseVirtualProp(x) },
			func(sc *mScene, _ string) bool { return sc.led != nil }},
	}
	for _, ty := range types {
		for _, sender := range []string{"M", "S"} {
			ty, sender := ty, sender
			out = append(out, mcase{Name: ty.Name + "/base", Cat: "proposal", Sender: sender, Reduced: sender == "M",
				Control: func(sc *mScene) bool { return ty.Control(sc, sender) },
				Build:   func(sc *mScene) wire.Msg { return ty.Base(sc, sc.id(sender)) }})
			for _, mu := range propMuts {
				mu := mu
				switch mu.On {
				case "":
				case "peers":
					if ty.Name == "sub" {
						continue
					}
				default:
					if mu.On != ty.Name {
						continue
					}
				}
				cat := "proposal"
				if mu.C12 {
					cat = "proposal-c12"
				}
				var ctl func(sc *mScene) bool
				if mu.Neutral {
					ctl = func(sc *mScene) bool { return ty.Control(sc, sender) }
				}
				out = append(out, mcase{Name: ty.Name + "/" + mu.Name, Cat: cat, Sender: sender, Proto: mu.Proto, Mut: true, Neutral: mu.Neutral, Control: ctl,
					Reduced: sender == "M" && ty.Name == "virtual" && (mu.Name == "parents-short" || mu.Name == "fa-differs"),
					Build: func(sc *mScene) wire.Msg {
						x := sc.id(sender)
						p := ty.Base(sc, x)
						mu.F(sc, x, p)
						return p
					}})
			}
		}
	}
	return out
}

// twoAssetProposalCases: sub-channel and virtual channel proposals for a victim whose ledger channel
// with M is over TWO assets (point open2-v1): the funds exceed the parent's in the first resp. the last asset.
func twoAssetProposalCases() (out []mcase) {
	set2 := func(b *client.BaseChannelProposal, r0, r1 []int64) {
		b.InitBals = mAlloc2(r0, r1)
		b.FundingAgreement = b.InitBals.Balances.Clone()
	}
	type member struct {
		Name   string
		R0, R1 []int64
	}
	for _, sender := range []string{"M", "S"} {
		sender := sender
		for _, m := range []member{
			{"base", []int64{4, 4}, []int64{1, 1}},
			{"funds-above-parent-own-asset0", []int64{4, 12}, []int64{1, 1}},
			{"funds-above-parent-hub-asset0", []int64{12, 4}, []int64{1, 1}},
			{"funds-above-parent-own-asset1", []int64{1, 1}, []int64{4, 12}},
			{"funds-above-parent-hub-asset1", []int64{1, 1}, []int64{12, 4}},
		} {
			m := m
			c := mcase{Name: "virtual2/" + m.Name, Cat: "proposal", Sender: sender, Mut: m.Name != "base", Pts: []string{"open2-v1"},
				Build: func(sc *mScene) wire.Msg {
					p := sc.baseVirtualProp(sc.id(sender))
					set2(p.Base(), m.R0, m.R1)
					return p
				}}
			if !c.Mut {
				c.Control = func(sc *mScene) bool { return sc.led != nil }
			}
			out = append(out, c)
		}
		for _, m := range []member{
			{"base", []int64{2, 4}, []int64{1, 1}},
			{"funds-above-parent-0-asset0", []int64{12, 4}, []int64{1, 1}},
			{"funds-above-parent-1-asset0", []int64{2, 12}, []int64{1, 1}},
			{"funds-above-parent-0-asset1", []int64{1, 1}, []int64{12, 4}},
			{"funds-above-parent-1-asset1", []int64{1, 1}, []int64{2, 12}},
		} {
			m := m
			c := mcase{Name: "sub2/" + m.Name, Cat: "proposal", Sender: sender, Mut: m.Name != "base", Pts: []string{"open2-v1"},
				Build: func(sc *mScene) wire.Msg {
					p := sc.baseSubProp(sc.id(sender))
					set2(p.Base(), m.R0, m.R1)
					return p
				}}
			if !c.Mut {
				c.Control = func(sc *mScene) bool { return sender == "M" && sc.led != nil && sc.vIdx == 1 }
			}
			out = append(out, c)
		}
	}
	return out
}

// ---------------------------------------------------------------- updates

// updSpec is a channel update under construction.
type updSpec struct {
	St       *channel.State
	Actor    channel.Index
	SigState *channel.State // nil: St
	SigBy    string         // "M" (default), "S", "garbage", "empty", "short"
}

func (sc *mScene) sign(who string, st *channel.State) (sig wallet.Sig) {
	defer func() {
		if recover() != nil {
			sig = garbageSig()
		}
	}()
	s, err := channel.Sign(sc.id(who).Acc, st, 0)
	if err != nil {
		return garbageSig() // not signable (the state cannot be encoded): the case keeps a well-sized signature
	}
	return s
}

func garbageSig() wallet.Sig { return bytes64(0xAB) }

func bytes64(b byte) []byte {
	out := make([]byte, 64)
	for i := range out {
		out[i] = b
	}
	return out
}

func (sc *mScene) finish(u *updSpec) *client.ChannelUpdateMsg {
	over := u.SigState
	if over == nil {
		over = u.St
	}
	var sig wallet.Sig
	switch u.SigBy {
	case "", "M":
		sig = sc.sign("M", over)
	case "S":
		sig = sc.sign("S", over)
	case "garbage":
		sig = garbageSig()
	case "empty":
		sig = wallet.Sig{}
	case "short":
		sig = wallet.Sig{1, 2, 3}
	}
	return &client.ChannelUpdateMsg{ChannelUpdate: client.ChannelUpdate{State: u.St, ActorIdx: u.Actor}, Sig: sig}
}

// baseUpdate: M pays 1 to V on the ledger channel (a valid ordinary update by M).
func (sc *mScene) baseUpdate() *updSpec {
	if sc.led == nil {
		// no channel: an update of a channel the victim does not know
		st := &channel.State{ID: mFixedID(0x78), Version: 1, App: channel.NoApp(), Data: channel.NoData(), Allocation: *mAlloc(sc.w.Asset, 9, 11)}
		return &updSpec{St: st, Actor: 0}
	}
	st := sc.signed(sc.led)
	st.Version++
	m := 1 - sc.vIdx
	st.Balances[0][m].Sub(st.Balances[0][m], mBig(1))
	st.Balances[0][sc.vIdx].Add(st.Balances[0][sc.vIdx], mBig(1))
	return &updSpec{St: st, Actor: m}
}

type updMut struct {
	Name        string
	Proto       bool
	Sender      string // default "M"
	NeedsCh     bool   // needs a ledger channel
	NeedsLocked int    // needs that many locked sub-allocations
	Reduced     bool
	F           func(sc *mScene, u *updSpec)
}

// mBal / vBal: M's resp. the victim's balance in the update under construction.
func (sc *mScene) mBal(u *updSpec) *big.Int { return u.St.Balances[0][1-sc.vIdx] }
func (sc *mScene) vBal(u *updSpec) *big.Int { return u.St.Balances[0][sc.vIdx] }

var updMuts = []updMut{
	{Name: "cols1", F: func(_ *mScene, u *updSpec) {
		u.St.Balances = channel.Balances{{new(big.Int).Add(u.St.Balances[0][0], u.St.Balances[0][1])}}
	}},
	{Name: "cols3", NeedsCh: true, F: func(_ *mScene, u *updSpec) { u.St.Balances[0] = append(u.St.Balances[0], mBig(0)) }},
	{Name: "id-unknown", NeedsCh: true, F: func(_ *mScene, u *updSpec) { u.St.ID = mFlipID(u.St.ID) }},
	{Name: "id-unknown-v1", F: func(_ *mScene, u *updSpec) { u.St.ID = mFlipID(u.St.ID); u.St.Version = 1 }},
	{Name: "ver-zero", NeedsCh: true, F: func(_ *mScene, u *updSpec) { u.St.Version = 0 }},
	{Name: "ver-same", NeedsCh: true, F: func(_ *mScene, u *updSpec) { u.St.Version-- }},
	{Name: "ver-plus2", NeedsCh: true, Reduced: true, F: func(_ *mScene, u *updSpec) { u.St.Version++ }},
	{Name: "actor-victim", NeedsCh: true, F: func(sc *mScene, u *updSpec) { u.Actor = sc.vIdx }},
	{Name: "actor-oor", NeedsCh: true, F: func(_ *mScene, u *updSpec) { u.Actor = 2 }},
	{Name: "sum-plus1", NeedsCh: true, F: func(sc *mScene, u *updSpec) { sc.vBal(u).Add(sc.vBal(u), mBig(1)) }},
	{Name: "sum-minus1", NeedsCh: true, F: func(sc *mScene, u *updSpec) { sc.mBal(u).Sub(sc.mBal(u), mBig(1)) }},
	{Name: "final", NeedsCh: true, F: func(_ *mScene, u *updSpec) { u.St.IsFinal = true }},
	{Name: "app-other", NeedsCh: true, F: func(_ *mScene, u *updSpec) { u.St.App = fx.PayApp }},
	{Name: "asset-other", NeedsCh: true, F: func(_ *mScene, u *updSpec) { u.St.Assets[0] = fx.Assets[1] }},
	{Name: "assets-two", NeedsCh: true, F: func(_ *mScene, u *updSpec) {
		u.St.Assets = append(u.St.Assets, fx.Assets[1])
		u.St.Backends = append(u.St.Backends, 0)
		u.St.Balances = append(u.St.Balances, []channel.Bal{mBig(0), mBig(0)})
		for i := range u.St.Locked {
			u.St.Locked[i].Bals = append(u.St.Locked[i].Bals, mBig(0))
		}
	}},
	{Name: "bal-negative", NeedsCh: true, F: func(sc *mScene, u *updSpec) { sc.mBal(u).SetInt64(-1); sc.vBal(u).Add(sc.vBal(u), mBig(30)) }},
	{Name: "bal-norows", Proto: true, NeedsCh: true, F: func(_ *mScene, u *updSpec) { u.St.Balances = channel.Balances{} }},
	{Name: "bal-emptyrow", Proto: true, NeedsCh: true, F: func(_ *mScene, u *updSpec) { u.St.Balances = channel.Balances{{}} }},
	{Name: "bal-ragged", Proto: true, NeedsCh: true, F: func(_ *mScene, u *updSpec) {
		u.St.Assets = append(u.St.Assets, fx.Assets[1])
		u.St.Backends = append(u.St.Backends, 0)
		u.St.Balances = append(u.St.Balances, []channel.Bal{mBig(0)})
	}},
	// locked funds
	{Name: "locked-added", NeedsCh: true, F: func(sc *mScene, u *updSpec) {
		sc.mBal(u).Sub(sc.mBal(u), mBig(1))
		u.St.Locked = append(u.St.Locked, *channel.NewSubAlloc(mFixedID(0x32), []channel.Bal{mBig(1)}, nil))
	}},
	{Name: "locked-id-flip", NeedsLocked: 1, F: func(_ *mScene, u *updSpec) { u.St.Locked[0].ID = mFlipID(u.St.Locked[0].ID) }},
	{Name: "locked-amt-plus1", NeedsLocked: 1, F: func(sc *mScene, u *updSpec) {
		u.St.Locked[0].Bals[0].Add(u.St.Locked[0].Bals[0], mBig(1))
		sc.mBal(u).Sub(sc.mBal(u), mBig(1))
	}},
	{Name: "locked-amt-minus1", NeedsLocked: 1, F: func(sc *mScene, u *updSpec) {
		u.St.Locked[0].Bals[0].Sub(u.St.Locked[0].Bals[0], mBig(1))
		sc.mBal(u).Add(sc.mBal(u), mBig(1))
	}},
	{Name: "locked-idxmap-entry", NeedsLocked: 1, F: func(_ *mScene, u *updSpec) { u.St.Locked[0].IndexMap = []channel.Index{0} }},
	{Name: "locked-idxmap-two", NeedsLocked: 1, F: func(_ *mScene, u *updSpec) { u.St.Locked[0].IndexMap = []channel.Index{1, 0} }},
	{Name: "locked-removed-to-peer", NeedsLocked: 1, F: func(sc *mScene, u *updSpec) {
		sc.mBal(u).Add(sc.mBal(u), u.St.Locked[0].Bals[0])
		u.St.Locked = u.St.Locked[1:]
	}},
	{Name: "locked-removed-to-victim", NeedsLocked: 1, F: func(sc *mScene, u *updSpec) {
		sc.vBal(u).Add(sc.vBal(u), u.St.Locked[0].Bals[0])
		u.St.Locked = u.St.Locked[1:]
	}},
	{Name: "locked-duplicated", NeedsLocked: 1, F: func(sc *mScene, u *updSpec) {
		sc.mBal(u).Sub(sc.mBal(u), u.St.Locked[0].Bals[0])
		c := u.St.Clone()
		u.St.Locked = append(u.St.Locked, c.Locked[0])
	}},
	{Name: "locked-reordered", NeedsLocked: 2, F: func(_ *mScene, u *updSpec) { u.St.Locked[0], u.St.Locked[1] = u.St.Locked[1], u.St.Locked[0] }},
	// signatures
	{Name: "sig-other-state", NeedsCh: true, F: func(sc *mScene, u *updSpec) {
		u.SigState = u.St.Clone()
		sc.mBal(u).Sub(sc.mBal(u), mBig(1)) // the state sent pays 2, the signature covers the payment of 1
		sc.vBal(u).Add(sc.vBal(u), mBig(1))
	}},
	{Name: "sig-current-state", NeedsCh: true, F: func(sc *mScene, u *updSpec) { u.SigState = sc.signed(sc.led) }},
	{Name: "sig-stranger", NeedsCh: true, F: func(_ *mScene, u *updSpec) { u.SigBy = "S" }},
	{Name: "sig-garbage", Reduced: true, F: func(_ *mScene, u *updSpec) { u.SigBy = "garbage" }},
	{Name: "sig-empty", Proto: true, NeedsCh: true, F: func(_ *mScene, u *updSpec) { u.SigBy = "empty" }},
	{Name: "sig-short", Proto: true, NeedsCh: true, F: func(_ *mScene, u *updSpec) { u.SigBy = "short" }},
	// a correctly signed update relayed by somebody else
	{Name: "relayed-by-stranger", Sender: "S", F: func(*mScene, *updSpec) {}},
}

func updateCases() (out []mcase) {
	out = append(out, mcase{Name: "update/base", Cat: "update", Sender: "M", Reduced: true,
		Build: func(sc *mScene) wire.Msg { return sc.finish(sc.baseUpdate()) }})
	// a version-1 update of the sub-channel whose opening is still in progress at the victim (the
	// victim caches version-1 updates of unknown channels while it opens channels)
	out = append(out, mcase{Name: "update/opening-v1", Cat: "update", Sender: "M", Mut: true, OnlyAt: "await-subfund",
		Build: func(sc *mScene) wire.Msg {
			if sc.realFund == nil {
				return nil
			}
			id := sc.realFund.State.Locked[len(sc.realFund.State.Locked)-1].ID
			st := &channel.State{ID: id, Version: 1, App: channel.NoApp(), Data: channel.NoData(), Allocation: *mAlloc(sc.w.Asset, subBals[0]-1, subBals[1]+1)}
			return sc.finish(&updSpec{St: st, Actor: 0})
		}})
	for _, mu := range updMuts {
		mu := mu
		sender := mu.Sender
		if sender == "" {
			sender = "M"
		}
		out = append(out, mcase{Name: "update/" + mu.Name, Cat: "update", Sender: sender, Proto: mu.Proto, Mut: true, Reduced: mu.Reduced,
			NeedsCh: mu.NeedsCh, NeedsLocked: mu.NeedsLocked,
			Build: func(sc *mScene) wire.Msg {
				if (mu.NeedsCh || mu.NeedsLocked > 0) && sc.led == nil {
					return nil
				}
				u := sc.baseUpdate()
				if len(u.St.Locked) < mu.NeedsLocked {
					return nil
				}
				mu.F(sc, u)
				return sc.finish(u)
			}})
	}
	return out
}

// ---------------------------------------------------------------- sub-channel funding / settlement updates

type autoMut struct {
	Name     string
	NeedsSub int // other sub-allocations present
	F        func(sc *mScene, u *updSpec, x *channel.SubAlloc)
}

// fundBase is M's own (intercepted) funding update of the parent: (10,10) -> (8,6) + locked 6.
func (sc *mScene) fundBase() *updSpec {
	if sc.realFund == nil {
		return nil
	}
	return &updSpec{St: sc.realFund.State.Clone(), Actor: sc.realFund.ActorIdx}
}

func lastLocked(u *updSpec) *channel.SubAlloc { return &u.St.Locked[len(u.St.Locked)-1] }

func setLedgerBals(u *updSpec, b0, b1 int64) {
	u.St.Balances[0][0], u.St.Balances[0][1] = mBig(b0), mBig(b1)
}

var fundMuts = []autoMut{
	// (A10) the honest funding update, but it also sets the parent final
	{Name: "final", F: func(_ *mScene, u *updSpec, _ *channel.SubAlloc) { u.St.IsFinal = true }},
	// the victim is index 1 and owes 4, M is index 0 and owes 2 (parent (10,10) before)
	{Name: "debit-victim-all", F: func(_ *mScene, u *updSpec, _ *channel.SubAlloc) { mShift(u, +2) }},
	{Name: "debit-peer-all", F: func(_ *mScene, u *updSpec, _ *channel.SubAlloc) { mShift(u, -4) }},
	{Name: "debit-swapped", F: func(_ *mScene, u *updSpec, _ *channel.SubAlloc) { mShift(u, -2) }},
	{Name: "debit-victim-plus1", F: func(_ *mScene, u *updSpec, _ *channel.SubAlloc) { mShift(u, +1) }},
	{Name: "amount-more", F: func(_ *mScene, u *updSpec, x *channel.SubAlloc) {
		x.Bals[0].Add(x.Bals[0], mBig(1))
		u.St.Balances[0][1].Sub(u.St.Balances[0][1], mBig(1))
	}},
	{Name: "amount-less", F: func(_ *mScene, u *updSpec, x *channel.SubAlloc) {
		x.Bals[0].Sub(x.Bals[0], mBig(1))
		u.St.Balances[0][0].Add(u.St.Balances[0][0], mBig(1))
	}},
	{Name: "idxmap-nonempty", F: func(_ *mScene, _ *updSpec, x *channel.SubAlloc) { x.IndexMap = []channel.Index{0, 1} }},
	{Name: "id-other", F: func(_ *mScene, _ *updSpec, x *channel.SubAlloc) { x.ID = mFlipID(x.ID) }},
	{Name: "sig-stranger", F: func(_ *mScene, u *updSpec, _ *channel.SubAlloc) { u.SigBy = "S" }},
	{Name: "sig-garbage", F: func(_ *mScene, u *updSpec, _ *channel.SubAlloc) { u.SigBy = "garbage" }},
	{Name: "ver-plus2", F: func(_ *mScene, u *updSpec, _ *channel.SubAlloc) { u.St.Version++ }},
	{Name: "sum-plus1", F: func(_ *mScene, u *updSpec, _ *channel.SubAlloc) {
		u.St.Balances[0][0].Add(u.St.Balances[0][0], mBig(1))
	}},
	{Name: "edit-other-id", NeedsSub: 1, F: func(_ *mScene, u *updSpec, _ *channel.SubAlloc) { u.St.Locked[0].ID = mFlipID(u.St.Locked[0].ID) }},
	{Name: "edit-other-idxmap", NeedsSub: 1, F: func(_ *mScene, u *updSpec, _ *channel.SubAlloc) { u.St.Locked[0].IndexMap = []channel.Index{1, 0} }},
	{Name: "edit-other-amount", NeedsSub: 1, F: func(_ *mScene, u *updSpec, _ *channel.SubAlloc) {
		u.St.Locked[0].Bals[0].Sub(u.St.Locked[0].Bals[0], mBig(1))
		u.St.Balances[0][0].Add(u.St.Balances[0][0], mBig(1))
	}},
	{Name: "drop-other", NeedsSub: 1, F: func(_ *mScene, u *updSpec, _ *channel.SubAlloc) {
		u.St.Balances[0][0].Add(u.St.Balances[0][0], u.St.Locked[0].Bals[0])
		u.St.Locked = u.St.Locked[1:]
	}},
}

// mShift moves d from the victim (index 1) to M (index 0) in the proposed parent balances.
func mShift(u *updSpec, d int64) {
	u.St.Balances[0][0].Add(u.St.Balances[0][0], mBig(d))
	u.St.Balances[0][1].Sub(u.St.Balances[0][1], mBig(d))
}

// settleBase is the honest settlement update of the parent for the final sub-channel.
func (sc *mScene) settleBase() *updSpec {
	if sc.subFinal == nil || sc.led == nil {
		return nil
	}
	st := sc.signed(sc.led)
	st.Version++
	k := -1
	for i, l := range st.Locked {
		if l.ID == sc.subFinal.ID {
			k = i
		}
	}
	if k < 0 {
		return nil
	}
	st.Locked = append(st.Locked[:k:k], st.Locked[k+1:]...)
	for p := range st.Balances[0] {
		st.Balances[0][p].Add(st.Balances[0][p], sc.subFinal.Balances[0][p])
	}
	return &updSpec{St: st, Actor: 1 - sc.vIdx}
}

var settleMuts = []autoMut{
	{Name: "final", F: func(_ *mScene, u *updSpec, _ *channel.SubAlloc) { u.St.IsFinal = true }},
	// the final sub-channel balances are (1,5): M gets 1, the victim 5
	{Name: "credit-swapped", F: func(_ *mScene, u *updSpec, _ *channel.SubAlloc) { mShift(u, +4) }},
	{Name: "credit-peer-all", F: func(_ *mScene, u *updSpec, _ *channel.SubAlloc) { mShift(u, +5) }},
	{Name: "credit-initial-bals", F: func(_ *mScene, u *updSpec, _ *channel.SubAlloc) { mShift(u, +1) }},
	{Name: "credit-victim-all", F: func(_ *mScene, u *updSpec, _ *channel.SubAlloc) { mShift(u, -1) }},
	{Name: "sum-plus1", F: func(_ *mScene, u *updSpec, _ *channel.SubAlloc) {
		u.St.Balances[0][0].Add(u.St.Balances[0][0], mBig(1))
	}},
	{Name: "sig-stranger", F: func(_ *mScene, u *updSpec, _ *channel.SubAlloc) { u.SigBy = "S" }},
	{Name: "ver-plus2", F: func(_ *mScene, u *updSpec, _ *channel.SubAlloc) { u.St.Version++ }},
	{Name: "relock-elsewhere", F: func(_ *mScene, u *updSpec, _ *channel.SubAlloc) {
		u.St.Balances[0][1].Sub(u.St.Balances[0][1], mBig(1))
		u.St.Locked = append(u.St.Locked, *channel.NewSubAlloc(mFixedID(0x33), []channel.Bal{mBig(1)}, nil))
	}},
	{Name: "edit-other-id", NeedsSub: 1, F: func(_ *mScene, u *updSpec, _ *channel.SubAlloc) { u.St.Locked[0].ID = mFlipID(u.St.Locked[0].ID) }},
	{Name: "edit-other-idxmap", NeedsSub: 1, F: func(_ *mScene, u *updSpec, _ *channel.SubAlloc) { u.St.Locked[0].IndexMap = []channel.Index{1, 0} }},
	{Name: "drop-other-too", NeedsSub: 1, F: func(_ *mScene, u *updSpec, _ *channel.SubAlloc) {
		// the other sub-channel's funds go to M as well (sum preserved, balances no longer "plus final balances")
		u.St.Balances[0][0].Add(u.St.Balances[0][0], u.St.Locked[0].Bals[0])
		u.St.Locked = u.St.Locked[1:]
	}},
}

func autoCases() (out []mcase) {
	out = append(out, mcase{Name: "fund/valid", Cat: "fund", Sender: "M", Build: func(sc *mScene) wire.Msg {
		if u := sc.fundBase(); u != nil {
			return sc.finish(u)
		}
		return nil
	}})
	for _, mu := range fundMuts {
		mu := mu
		out = append(out, mcase{Name: "fund/" + mu.Name, Cat: "fund", Sender: "M", Mut: true, NeedsLocked: mu.NeedsSub, Build: func(sc *mScene) wire.Msg {
			u := sc.fundBase()
			if u == nil || len(u.St.Locked)-1 < mu.NeedsSub {
				return nil
			}
			mu.F(sc, u, lastLocked(u))
			return sc.finish(u)
		}})
	}
	// the settlement as the victim expected it when the sub-channel was finalised, although the parent
	// has moved on since (M paid the victim 2): the payment is rolled back
	out = append(out, mcase{Name: "settle/stale-parent", Cat: "settle", Sender: "M", Mut: true, OnlyAt: "await-subsettle-paid", Build: func(sc *mScene) wire.Msg {
		u := sc.settleBase()
		if u == nil || sc.parentAtFinal == nil {
			return nil
		}
		st := sc.parentAtFinal.Clone()
		st.Version = u.St.Version
		rest, _, ok := mWithout(st.Locked, sc.subFinal.ID)
		if !ok {
			return nil
		}
		st.Locked = rest
		for p := range st.Balances[0] {
			st.Balances[0][p].Add(st.Balances[0][p], sc.subFinal.Balances[0][p])
		}
		u.St = st
		return sc.finish(u)
	}})
	out = append(out, mcase{Name: "settle/valid", Cat: "settle", Sender: "M", Build: func(sc *mScene) wire.Msg {
		if u := sc.settleBase(); u != nil {
			return sc.finish(u)
		}
		return nil
	}})
	for _, mu := range settleMuts {
		mu := mu
		out = append(out, mcase{Name: "settle/" + mu.Name, Cat: "settle", Sender: "M", Mut: true, NeedsLocked: mu.NeedsSub, Build: func(sc *mScene) wire.Msg {
			u := sc.settleBase()
			if u == nil || len(u.St.Locked) < mu.NeedsSub {
				return nil
			}
			mu.F(sc, u, nil)
			return sc.finish(u)
		}})
	}
	return out
}

// ---------------------------------------------------------------- virtual channel funding / settlement proposals on a plain ledger channel

// vfundSpec: M (as Alice) asks the victim (as hub) to fund a virtual channel M <-> S out of the
// ledger channel M <-> V. Everything is correctly signed by M and S; no second proposal from
// "Bob" ever arrives on another channel, so a well-behaved hub refuses after its 10 s wait.
type vfundSpec struct {
	U        *updSpec
	Params   *channel.Params
	Init     *channel.State
	Sigs     []wallet.Sig
	IndexMap []channel.Index
	resign   bool
}

func (sc *mScene) virtParams(virtual bool) *channel.Params {
	p, err := channel.NewParams(60, []map[wallet.BackendID]wallet.Address{sc.M.Addr, sc.S.Addr}, channel.NoApp(), big.NewInt(4711), false, virtual, channel.ZeroAux)
	if err != nil {
		panic("harness: " + err.Error())
	}
	return p
}

func (sc *mScene) vfundBase() *vfundSpec {
	if sc.led == nil {
		return nil
	}
	params := sc.virtParams(true)
	init := &channel.State{ID: params.ID(), Version: 0, App: channel.NoApp(), Data: channel.NoData(), Allocation: *mAlloc(sc.w.Asset, 3, 3)}
	// Alice (virtual index 0) is M, Bob (virtual index 1) is represented by the hub V
	im := []channel.Index{1 - sc.vIdx, sc.vIdx}
	st := sc.signed(sc.led)
	st.Version++
	st.Balances[0][0].Sub(st.Balances[0][0], mBig(3))
	st.Balances[0][1].Sub(st.Balances[0][1], mBig(3))
	st.Locked = append(st.Locked, *channel.NewSubAlloc(params.ID(), []channel.Bal{mBig(6)}, im))
	return &vfundSpec{U: &updSpec{St: st, Actor: 1 - sc.vIdx}, Params: params, Init: init, IndexMap: im, resign: true}
}

func (sc *mScene) finishVFund(f *vfundSpec) wire.Msg {
	if f.resign {
		f.Sigs = []wallet.Sig{sc.sign("M", f.Init), sc.sign("S", f.Init)}
	}
	return &client.VirtualChannelFundingProposalMsg{ChannelUpdateMsg: *sc.finish(f.U),
		Initial: channel.SignedState{Params: f.Params, State: f.Init, Sigs: f.Sigs}, IndexMap: f.IndexMap}
}

type vfundMut struct {
	Name    string
	Proto   bool
	Reduced bool
	F       func(sc *mScene, f *vfundSpec)
}

func vLocked(f *vfundSpec) *channel.SubAlloc { return &f.U.St.Locked[len(f.U.St.Locked)-1] }

var vfundMuts = []vfundMut{
	{Name: "update-sig-garbage", F: func(_ *mScene, f *vfundSpec) { f.U.SigBy = "garbage" }},
	{Name: "initial-sig-garbage", Reduced: true, F: func(sc *mScene, f *vfundSpec) {
		f.resign = false
		f.Sigs = []wallet.Sig{sc.sign("M", f.Init), garbageSig()}
	}},
	{Name: "initial-sig-missing", F: func(sc *mScene, f *vfundSpec) {
		f.resign = false
		f.Sigs = []wallet.Sig{sc.sign("M", f.Init), nil}
	}},
	{Name: "params-mismatch", F: func(_ *mScene, f *vfundSpec) { f.Init.ID = mFlipID(f.Init.ID) }},
	{Name: "not-virtual", F: func(sc *mScene, f *vfundSpec) {
		f.Params = sc.virtParams(false)
		f.Init.ID = f.Params.ID()
		vLocked(f).ID = f.Params.ID()
	}},
	{Name: "initial-locked", F: func(_ *mScene, f *vfundSpec) {
		f.Init.Locked = []channel.SubAlloc{*channel.NewSubAlloc(mFixedID(0x34), []channel.Bal{mBig(0)}, nil)}
	}},
	// more signatures than participants: natively through an initial state with three columns
	{Name: "initial-cols3", F: func(sc *mScene, f *vfundSpec) {
		f.Init.Balances = channel.Balances{{mBig(2), mBig(2), mBig(2)}}
		f.resign = false
		f.Sigs = []wallet.Sig{sc.sign("M", f.Init), sc.sign("S", f.Init), sc.sign("S", f.Init)}
	}},
	{Name: "more-sigs", Proto: true, F: func(sc *mScene, f *vfundSpec) {
		f.resign = false
		f.Sigs = []wallet.Sig{sc.sign("M", f.Init), sc.sign("S", f.Init), sc.sign("S", f.Init)}
	}},
	// index map longer than the balances: an initial state with one column
	{Name: "initial-cols1", F: func(sc *mScene, f *vfundSpec) {
		f.Init.Balances = channel.Balances{{mBig(6)}}
		f.resign = false
		f.Sigs = []wallet.Sig{sc.sign("M", f.Init)}
	}},
	{Name: "idxmap-short", F: func(_ *mScene, f *vfundSpec) { f.IndexMap = f.IndexMap[:1]; vLocked(f).IndexMap = f.IndexMap }},
	{Name: "idxmap-long", F: func(_ *mScene, f *vfundSpec) { f.IndexMap = append(f.IndexMap, 0); vLocked(f).IndexMap = f.IndexMap }},
	{Name: "idxmap-entry-oor", F: func(_ *mScene, f *vfundSpec) {
		f.IndexMap = []channel.Index{f.IndexMap[0], 7}
		vLocked(f).IndexMap = f.IndexMap
	}},
	{Name: "suballoc-idxmap-long", F: func(_ *mScene, f *vfundSpec) {
		vLocked(f).IndexMap = append(append([]channel.Index{}, f.IndexMap...), 0)
	}},
	{Name: "suballoc-idxmap-oor", F: func(_ *mScene, f *vfundSpec) { vLocked(f).IndexMap = []channel.Index{f.IndexMap[0], 7} }},
	{Name: "suballoc-missing", F: func(_ *mScene, f *vfundSpec) {
		x := vLocked(f)
		f.U.St.Balances[0][0].Add(f.U.St.Balances[0][0], x.Bals[0])
		f.U.St.Locked = f.U.St.Locked[:len(f.U.St.Locked)-1]
	}},
	{Name: "funds-above-parent", F: func(sc *mScene, f *vfundSpec) {
		// Bob's side (paid by the hub = the victim) is one more than the victim holds; the proposed parent
		// state keeps its sum by taking the rest from M
		cur := sc.signed(sc.led)
		vb, mb := cur.Balances[0][sc.vIdx].Int64(), cur.Balances[0][1-sc.vIdx].Int64()
		f.Init.Balances = channel.Balances{{mBig(3), mBig(vb + 1)}}
		vLocked(f).Bals = []channel.Bal{mBig(vb + 4)}
		f.U.St.Balances[0][sc.vIdx] = mBig(0)
		f.U.St.Balances[0][1-sc.vIdx] = mBig(mb - 4)
	}},
	{Name: "asset-other", F: func(_ *mScene, f *vfundSpec) { f.Init.Assets[0] = fx.Assets[1] }},
}

func vfundCases() (out []mcase) {
	out = append(out, mcase{Name: "vfund/valid-unmatched", Cat: "vfund", Sender: "M", Mut: true, Reduced: true, NeedsCh: true, Build: func(sc *mScene) wire.Msg {
		if f := sc.vfundBase(); f != nil {
			return sc.finishVFund(f)
		}
		return nil
	}})
	for _, mu := range vfundMuts {
		mu := mu
		out = append(out, mcase{Name: "vfund/" + mu.Name, Cat: "vfund", Sender: "M", Proto: mu.Proto, Mut: true, Reduced: mu.Reduced, NeedsCh: true, Build: func(sc *mScene) wire.Msg {
			f := sc.vfundBase()
			if f == nil {
				return nil
			}
			mu.F(sc, f)
			if f.U == nil {
				return nil
			}
			return sc.finishVFund(f)
		}})
	}
	return out
}

// vsettleSpec: M asks the victim to settle a virtual channel out of the ledger channel.
type vsettleSpec struct {
	U      *updSpec
	Params *channel.Params
	Final  *channel.State
	Sigs   []wallet.Sig
	resign bool
}

func (sc *mScene) vsettleBase() *vsettleSpec {
	if sc.led == nil {
		return nil
	}
	params := sc.virtParams(true)
	fin := &channel.State{ID: params.ID(), Version: 3, IsFinal: true, App: channel.NoApp(), Data: channel.NoData(), Allocation: *mAlloc(sc.w.Asset, 1, 0)}
	// the parent never allocated this channel: M claims 1 out of the victim's balance
	u := sc.baseUpdate()
	sc.mBal(u).Add(sc.mBal(u), mBig(2))
	sc.vBal(u).Sub(sc.vBal(u), mBig(2))
	return &vsettleSpec{U: u, Params: params, Final: fin, resign: true}
}

func (sc *mScene) finishVSettle(f *vsettleSpec) wire.Msg {
	if f.resign {
		f.Sigs = []wallet.Sig{sc.sign("M", f.Final), sc.sign("S", f.Final)}
	}
	return &client.VirtualChannelSettlementProposalMsg{ChannelUpdateMsg: *sc.finish(f.U),
		Final: channel.SignedState{Params: f.Params, State: f.Final, Sigs: f.Sigs}}
}

type vsettleMut struct {
	Name    string
	Proto   bool
	Reduced bool
	F       func(sc *mScene, f *vsettleSpec)
}

var vsettleMuts = []vsettleMut{
	{Name: "update-sig-garbage", F: func(_ *mScene, f *vsettleSpec) { f.U.SigBy = "garbage" }},
	{Name: "final-sig-garbage", F: func(sc *mScene, f *vsettleSpec) {
		f.resign = false
		f.Sigs = []wallet.Sig{sc.sign("M", f.Final), garbageSig()}
	}},
	{Name: "params-mismatch", F: func(_ *mScene, f *vsettleSpec) { f.Final.ID = mFlipID(f.Final.ID) }},
	{Name: "final-cols3", F: func(sc *mScene, f *vsettleSpec) {
		f.Final.Balances = channel.Balances{{mBig(1), mBig(0), mBig(0)}}
		f.resign = false
		f.Sigs = []wallet.Sig{sc.sign("M", f.Final), sc.sign("S", f.Final), sc.sign("S", f.Final)}
	}},
	{Name: "more-sigs", Proto: true, F: func(sc *mScene, f *vsettleSpec) {
		f.resign = false
		f.Sigs = []wallet.Sig{sc.sign("M", f.Final), sc.sign("S", f.Final), sc.sign("S", f.Final)}
	}},
	{Name: "asset-other", F: func(_ *mScene, f *vsettleSpec) { f.Final.Assets[0] = fx.Assets[1] }},
	// names the victim's real sub-channel (not a virtual channel) as the channel to settle
	{Name: "names-subchannel", F: func(sc *mScene, f *vsettleSpec) {
		if len(sc.vsubs) == 0 {
			f.U = nil
			return
		}
		sub := sc.vsubs[0]
		f.Params = sub.Params().Clone()
		f.Final = sc.signed(sub)
		f.resign = false
		f.Sigs = []wallet.Sig{garbageSig(), garbageSig()}
		// parent: remove the sub-allocation, credit everything to M
		u := sc.baseUpdate()
		for i, l := range u.St.Locked {
			if l.ID == sub.ID() {
				sc.mBal(u).Add(sc.mBal(u), l.Bals[0])
				u.St.Locked = append(u.St.Locked[:i:i], u.St.Locked[i+1:]...)
				break
			}
		}
		f.U = u
	}},
}

func vsettleCases() (out []mcase) {
	out = append(out, mcase{Name: "vsettle/unallocated", Cat: "vsettle", Sender: "M", Mut: true, Reduced: true, NeedsCh: true, Build: func(sc *mScene) wire.Msg {
		if f := sc.vsettleBase(); f != nil {
			return sc.finishVSettle(f)
		}
		return nil
	}})
	for _, mu := range vsettleMuts {
		mu := mu
		out = append(out, mcase{Name: "vsettle/" + mu.Name, Cat: "vsettle", Sender: "M", Proto: mu.Proto, Mut: true, Reduced: mu.Reduced, NeedsCh: true, NeedsSubs: map[bool]int{true: 1}[mu.Name == "names-subchannel"], Build: func(sc *mScene) wire.Msg {
			f := sc.vsettleBase()
			if f == nil {
				return nil
			}
			mu.F(sc, f)
			if f.U == nil {
				return nil
			}
			return sc.finishVSettle(f)
		}})
	}
	return out
}

// ---------------------------------------------------------------- the victim as hub: matched funding / settlement proposals

func cloneSigs(in []wallet.Sig) []wallet.Sig {
	out := make([]wallet.Sig, len(in))
	for i, s := range in {
		if s != nil {
			out[i] = append(wallet.Sig{}, s...)
		}
	}
	return out
}

// hubFundBase is M's own (intercepted) funding proposal to the hub: parent (10,10) -> (5,7) + locked 8
// with index map [0,1]; B's matching proposal is already waiting at the hub.
func (sc *mScene) hubFundBase() *vfundSpec {
	r := sc.realVFund
	if r == nil {
		return nil
	}
	return &vfundSpec{U: &updSpec{St: r.State.Clone(), Actor: r.ActorIdx}, Params: r.Initial.Params.Clone(), Init: r.Initial.State.Clone(),
		Sigs: cloneSigs(r.Initial.Sigs), IndexMap: append([]channel.Index{}, r.IndexMap...)}
}

func (sc *mScene) hubSettleBase() *vsettleSpec {
	r := sc.realVSet
	if r == nil {
		return nil
	}
	return &vsettleSpec{U: &updSpec{St: r.State.Clone(), Actor: r.ActorIdx}, Params: r.Final.Params.Clone(), Final: r.Final.State.Clone(), Sigs: cloneSigs(r.Final.Sigs)}
}

type hubMut struct {
	Name        string
	Proto       bool
	NeedsLocked int
	F           func(sc *mScene, f *vfundSpec)
}

var hubFundMuts = []hubMut{
	{Name: "final", F: func(_ *mScene, f *vfundSpec) { f.U.St.IsFinal = true }},
	// honest: M (index 0) pays Alice's 5, the hub (index 1) pays Bob's 3
	{Name: "debit-hub-all", F: func(_ *mScene, f *vfundSpec) { mShift(f.U, +5) }},
	{Name: "debit-peer-all", F: func(_ *mScene, f *vfundSpec) { mShift(f.U, -3) }},
	{Name: "debit-swapped", F: func(_ *mScene, f *vfundSpec) { mShift(f.U, +2) }},
	{Name: "debit-hub-plus1", F: func(_ *mScene, f *vfundSpec) { mShift(f.U, +1) }},
	{Name: "idxmap-both-hub", F: func(_ *mScene, f *vfundSpec) { f.IndexMap = []channel.Index{1, 1}; vLocked(f).IndexMap = f.IndexMap }},
	{Name: "idxmap-both-peer", F: func(_ *mScene, f *vfundSpec) { f.IndexMap = []channel.Index{0, 0}; vLocked(f).IndexMap = f.IndexMap }},
	{Name: "idxmap-swapped", F: func(_ *mScene, f *vfundSpec) { f.IndexMap = []channel.Index{1, 0}; vLocked(f).IndexMap = f.IndexMap }},
	// swapped index map (Alice -> hub, Bob -> M) together with the parent update that matches it: the hub
	// pays Alice's 5, M pays Bob's 3 - consistent in itself, only the match with B's proposal can refuse it
	{Name: "idxmap-swapped-debit-matching", F: func(_ *mScene, f *vfundSpec) {
		f.IndexMap = []channel.Index{1, 0}
		vLocked(f).IndexMap = f.IndexMap
		mShift(f.U, +2)
	}},
	{Name: "idxmap-both-hub-debit-matching", F: func(_ *mScene, f *vfundSpec) {
		f.IndexMap = []channel.Index{1, 1}
		vLocked(f).IndexMap = f.IndexMap
		mShift(f.U, +5)
	}},
	{Name: "suballoc-idxmap-differs", F: func(_ *mScene, f *vfundSpec) { vLocked(f).IndexMap = []channel.Index{1, 0} }},
	{Name: "amount-more", F: func(_ *mScene, f *vfundSpec) {
		x := vLocked(f)
		x.Bals[0].Add(x.Bals[0], mBig(1))
		f.U.St.Balances[0][1].Sub(f.U.St.Balances[0][1], mBig(1))
	}},
	{Name: "initial-sig-missing", F: func(_ *mScene, f *vfundSpec) { f.Sigs[1] = nil }},
	{Name: "initial-version-1", F: func(_ *mScene, f *vfundSpec) { f.Init.Version = 1 }},
	{Name: "more-sigs", Proto: true, F: func(_ *mScene, f *vfundSpec) { f.Sigs = append(f.Sigs, f.Sigs[0]) }},
	{Name: "update-sig-garbage", F: func(_ *mScene, f *vfundSpec) { f.U.SigBy = "garbage" }},
	{Name: "ver-plus2", F: func(_ *mScene, f *vfundSpec) { f.U.St.Version++ }},
	{Name: "sum-plus1", F: func(_ *mScene, f *vfundSpec) { f.U.St.Balances[0][0].Add(f.U.St.Balances[0][0], mBig(1)) }},
	{Name: "edit-other-id", NeedsLocked: 1, F: func(_ *mScene, f *vfundSpec) { f.U.St.Locked[0].ID = mFlipID(f.U.St.Locked[0].ID) }},
	{Name: "edit-other-idxmap", NeedsLocked: 1, F: func(_ *mScene, f *vfundSpec) { f.U.St.Locked[0].IndexMap = []channel.Index{1, 0} }},
	{Name: "drop-other", NeedsLocked: 1, F: func(_ *mScene, f *vfundSpec) {
		f.U.St.Balances[0][0].Add(f.U.St.Balances[0][0], f.U.St.Locked[0].Bals[0])
		f.U.St.Locked = f.U.St.Locked[1:]
	}},
}

type hubSettleMut struct {
	Name        string
	Proto       bool
	NeedsLocked int
	F           func(sc *mScene, f *vsettleSpec)
}

var hubSettleMuts = []hubSettleMut{
	{Name: "final", F: func(_ *mScene, f *vsettleSpec) { f.U.St.IsFinal = true }},
	// honest: the final virtual balances are (3,5): M gets 3, the hub gets Bob's 5
	{Name: "credit-swapped", F: func(_ *mScene, f *vsettleSpec) { mShift(f.U, +2) }},
	{Name: "credit-peer-all", F: func(_ *mScene, f *vsettleSpec) { mShift(f.U, +5) }},
	{Name: "credit-hub-minus1", F: func(_ *mScene, f *vsettleSpec) { mShift(f.U, +1) }},
	{Name: "credit-hub-all", F: func(_ *mScene, f *vsettleSpec) { mShift(f.U, -3) }},
	// the initial state (5,3) instead of the final one, with its genuine signatures, credited accordingly
	{Name: "final-is-initial-state", F: func(sc *mScene, f *vsettleSpec) {
		if sc.realVFund == nil {
			f.U = nil
			return
		}
		f.Final = sc.realVFund.Initial.State.Clone()
		f.Sigs = cloneSigs(sc.realVFund.Initial.Sigs)
		mShift(f.U, +2)
	}},
	{Name: "final-sig-missing", F: func(_ *mScene, f *vsettleSpec) { f.Sigs[1] = nil }},
	{Name: "more-sigs", Proto: true, F: func(_ *mScene, f *vsettleSpec) { f.Sigs = append(f.Sigs, f.Sigs[0]) }},
	{Name: "keep-suballoc", F: func(_ *mScene, f *vsettleSpec) {
		// credits the balances but leaves the sub-allocation in place (sum no longer preserved)
		f.U.St.Locked = append(f.U.St.Locked, *channel.NewSubAlloc(f.Final.ID, f.Final.Balances.Sum(), []channel.Index{0, 1}))
	}},
	{Name: "update-sig-garbage", F: func(_ *mScene, f *vsettleSpec) { f.U.SigBy = "garbage" }},
	{Name: "ver-plus2", F: func(_ *mScene, f *vsettleSpec) { f.U.St.Version++ }},
	{Name: "edit-other-id", NeedsLocked: 1, F: func(_ *mScene, f *vsettleSpec) { f.U.St.Locked[0].ID = mFlipID(f.U.St.Locked[0].ID) }},
	{Name: "edit-other-idxmap", NeedsLocked: 1, F: func(_ *mScene, f *vsettleSpec) { f.U.St.Locked[0].IndexMap = []channel.Index{1, 0} }},
}

func hubCases() (out []mcase) {
	out = append(out, mcase{Name: "hubfund/valid", Cat: "hubfund", Sender: "M", Build: func(sc *mScene) wire.Msg {
		if f := sc.hubFundBase(); f != nil {
			return sc.finishVFund(f)
		}
		return nil
	}})
	for _, mu := range hubFundMuts {
		mu := mu
		out = append(out, mcase{Name: "hubfund/" + mu.Name, Cat: "hubfund", Sender: "M", Proto: mu.Proto, Mut: true, NeedsLocked: mu.NeedsLocked, Build: func(sc *mScene) wire.Msg {
			f := sc.hubFundBase()
			if f == nil || len(f.U.St.Locked)-1 < mu.NeedsLocked {
				return nil
			}
			mu.F(sc, f)
			return sc.finishVFund(f)
		}})
	}
	// stray update responses that name the VIRTUAL channel's id (they end up in the cache of the relay of
	// the hub's copy of the virtual channel)
	stray := func(name string, from string, b func(id channel.ID) wire.Msg) {
		out = append(out, mcase{Name: "hubsettle/" + name, Cat: "hubsettle", Sender: "M", Mut: true, Build: func(*mScene) wire.Msg { return nil },
			Envs: func(sc *mScene) []*wire.Envelope {
				if sc.realVSet == nil {
					return nil
				}
				return []*wire.Envelope{{Sender: sc.id(from).Wire, Recipient: sc.V.WireID, Msg: b(sc.realVSet.Final.State.ID)}}
			}})
	}
	stray("stray-rej-virtual-id", "M", func(id channel.ID) wire.Msg {
		return &client.ChannelUpdateRejMsg{ChannelID: id, Version: 5, Reason: "x"}
	})
	stray("stray-acc-virtual-id", "M", func(id channel.ID) wire.Msg {
		return &client.ChannelUpdateAccMsg{ChannelID: id, Version: 5, Sig: garbageSig()}
	})
	stray("stray-rej-virtual-id-from-stranger", "S", func(id channel.ID) wire.Msg {
		return &client.ChannelUpdateRejMsg{ChannelID: id, Version: 5, Reason: "x"}
	})
	out = append(out, mcase{Name: "hubsettle/valid", Cat: "hubsettle", Sender: "M", Build: func(sc *mScene) wire.Msg {
		if f := sc.hubSettleBase(); f != nil {
			return sc.finishVSettle(f)
		}
		return nil
	}})
	for _, mu := range hubSettleMuts {
		mu := mu
		out = append(out, mcase{Name: "hubsettle/" + mu.Name, Cat: "hubsettle", Sender: "M", Proto: mu.Proto, Mut: true, NeedsLocked: mu.NeedsLocked, Build: func(sc *mScene) wire.Msg {
			f := sc.hubSettleBase()
			if f == nil || len(f.U.St.Locked) < mu.NeedsLocked {
				return nil
			}
			mu.F(sc, f)
			if f.U == nil {
				return nil
			}
			return sc.finishVSettle(f)
		}})
	}
	return out
}

// ---------------------------------------------------------------- the victim as hub with two virtual channels locked in its channel with M

// hubTwoSettle: M proposes to settle virtual channel k (0: the first locked sub-allocation, 1: the
// last) with its fully signed initial state as "final" state; well-formed for the hub's validator
// (it does not look at finality), never matched by a proposal of B.
func (sc *mScene) hubTwoSettle(k int) wire.Msg {
	if len(sc.vfunds) != 2 || sc.led == nil {
		return nil
	}
	vf := sc.vfunds[k]
	st := sc.signed(sc.led)
	st.Version++
	rest, _, ok := mWithout(st.Locked, vf.Initial.State.ID)
	if !ok {
		return nil
	}
	st.Locked = rest
	// index map [0,1]: Alice is M (index 0), Bob is represented by the hub (index 1)
	for p := range st.Balances[0] {
		st.Balances[0][p].Add(st.Balances[0][p], vf.Initial.State.Balances[0][p])
	}
	return &client.VirtualChannelSettlementProposalMsg{ChannelUpdateMsg: *sc.finish(&updSpec{St: st, Actor: 0}),
		Final: channel.SignedState{Params: vf.Initial.Params.Clone(), State: vf.Initial.State.Clone(), Sigs: cloneSigs(vf.Initial.Sigs)}}
}

// hubTwoDup: an ordinary payment of 1 by M in which the locked sub-allocations are twice the k-th
// one of the last mutually signed state (the other one is gone, the channel's total changes).
func (sc *mScene) hubTwoDup(k int) wire.Msg {
	if sc.led == nil {
		return nil
	}
	u := sc.baseUpdate()
	if len(u.St.Locked) != 2 {
		return nil
	}
	c := u.St.Clone()
	u.St.Locked = []channel.SubAlloc{c.Locked[k], u.St.Locked[k]}
	return sc.finish(u)
}

func hubTwoCases() (out []mcase) {
	add := func(name string, mut bool, b func(sc *mScene) wire.Msg) {
		out = append(out, mcase{Name: "hubtwo/" + name, Cat: "hubtwo", Sender: "M", Mut: mut, Build: b})
	}
	add("update-base", false, func(sc *mScene) wire.Msg { return sc.finish(sc.baseUpdate()) })
	add("settle-first-unmatched", true, func(sc *mScene) wire.Msg { return sc.hubTwoSettle(0) })
	add("settle-last-unmatched", true, func(sc *mScene) wire.Msg { return sc.hubTwoSettle(1) })
	add("update-locked-last-twice", true, func(sc *mScene) wire.Msg { return sc.hubTwoDup(1) })
	add("update-locked-first-twice", true, func(sc *mScene) wire.Msg { return sc.hubTwoDup(0) })
	return out
}

// ---------------------------------------------------------------- sync messages, unsolicited responses, control messages

func (sc *mScene) curTX() channel.Transaction {
	if sc.led == nil {
		st := &channel.State{ID: mFixedID(0x79), Version: 2, App: channel.NoApp(), Data: channel.NoData(), Allocation: *mAlloc(sc.w.Asset, 9, 11)}
		return channel.Transaction{State: st, Sigs: []wallet.Sig{sc.sign("M", st), nil}}
	}
	st := sc.signed(sc.led)
	sigs := make([]wallet.Sig, 2)
	sigs[1-sc.vIdx] = sc.sign("M", st)
	return channel.Transaction{State: st, Sigs: sigs}
}

func otherCases() (out []mcase) {
	for _, sender := range []string{"M", "S"} {
		sender := sender
		add := func(name, cat string, reduced bool, b func(sc *mScene) wire.Msg) {
			out = append(out, mcase{Name: name, Cat: cat, Sender: sender, Mut: true, Reduced: reduced && sender == "M", Build: b})
		}
		add("sync/empty-tx", "sync", false, func(*mScene) wire.Msg { return &client.ChannelSyncMsg{Phase: channel.Acting} })
		add("sync/current", "sync", true, func(sc *mScene) wire.Msg { return &client.ChannelSyncMsg{Phase: channel.Acting, CurrentTX: sc.curTX()} })
		add("sync/higher-version", "sync", false, func(sc *mScene) wire.Msg {
			tx := sc.curTX()
			tx.State.Version += 5
			tx.Sigs = []wallet.Sig{sc.sign("M", tx.State), sc.sign("S", tx.State)}
			return &client.ChannelSyncMsg{Phase: channel.Acting, CurrentTX: tx}
		})
		add("sync/unknown-id", "sync", false, func(sc *mScene) wire.Msg {
			tx := sc.curTX()
			tx.State.ID = mFlipID(tx.State.ID)
			return &client.ChannelSyncMsg{Phase: channel.Signing, CurrentTX: tx}
		})
		add("sync/odd-phase-no-sigs", "sync", false, func(sc *mScene) wire.Msg {
			tx := sc.curTX()
			tx.Sigs = []wallet.Sig{nil, nil}
			return &client.ChannelSyncMsg{Phase: channel.Phase(200), CurrentTX: tx}
		})
		// unsolicited responses: unknown ids, the current version and the next one
		ver := func(sc *mScene, d uint64) (channel.ID, uint64) {
			if sc.led == nil {
				return mFixedID(0x7a), d
			}
			return sc.led.ID(), sc.signed(sc.led).Version + d
		}
		add("resp/update-acc-unknown-id", "response", false, func(*mScene) wire.Msg {
			return &client.ChannelUpdateAccMsg{ChannelID: mFixedID(0x7b), Version: 1, Sig: garbageSig()}
		})
		add("resp/update-acc-current", "response", false, func(sc *mScene) wire.Msg {
			id, v := ver(sc, 0)
			return &client.ChannelUpdateAccMsg{ChannelID: id, Version: v, Sig: garbageSig()}
		})
		add("resp/update-acc-next", "response", true, func(sc *mScene) wire.Msg {
			id, v := ver(sc, 1)
			return &client.ChannelUpdateAccMsg{ChannelID: id, Version: v, Sig: garbageSig()}
		})
		add("resp/update-rej-unknown-id", "response", false, func(*mScene) wire.Msg {
			return &client.ChannelUpdateRejMsg{ChannelID: mFixedID(0x7b), Version: 1, Reason: "x"}
		})
		add("resp/update-rej-current", "response", false, func(sc *mScene) wire.Msg {
			id, v := ver(sc, 0)
			return &client.ChannelUpdateRejMsg{ChannelID: id, Version: v, Reason: "x"}
		})
		add("resp/update-rej-next", "response", true, func(sc *mScene) wire.Msg {
			id, v := ver(sc, 1)
			return &client.ChannelUpdateRejMsg{ChannelID: id, Version: v, Reason: "x"}
		})
		add("resp/ledger-proposal-acc", "response", false, func(sc *mScene) wire.Msg {
			return &client.LedgerChannelProposalAccMsg{BaseChannelProposalAcc: client.BaseChannelProposalAcc{ProposalID: mFixedID(0xC9), NonceShare: mFixedID(1)}, Participant: sc.id(sender).Addr}
		})
		add("resp/sub-proposal-acc", "response", false, func(*mScene) wire.Msg {
			return &client.SubChannelProposalAccMsg{BaseChannelProposalAcc: client.BaseChannelProposalAcc{ProposalID: mFixedID(0xC9), NonceShare: mFixedID(1)}}
		})
		add("resp/virtual-proposal-acc", "response", false, func(sc *mScene) wire.Msg {
			return &client.VirtualChannelProposalAccMsg{BaseChannelProposalAcc: client.BaseChannelProposalAcc{ProposalID: mFixedID(0xC9), NonceShare: mFixedID(1)}, Responder: sc.id(sender).Addr}
		})
		add("resp/proposal-rej", "response", false, func(*mScene) wire.Msg {
			return &client.ChannelProposalRejMsg{ProposalID: mFixedID(0xC9), Reason: "x"}
		})
		add("ctrl/ping", "control", false, func(*mScene) wire.Msg { return wire.NewPingMsg() })
		add("ctrl/pong", "control", false, func(*mScene) wire.Msg { return wire.NewPongMsg() })
		add("ctrl/shutdown", "control", false, func(*mScene) wire.Msg { return &wire.ShutdownMsg{Reason: "bye"} })
		add("ctrl/auth-response", "control", false, func(*mScene) wire.Msg { return &wire.AuthResponseMsg{Signature: bytes64(1)} })
	}
	return out
}

// ---------------------------------------------------------------- lookup

var msgsIndex map[string]*mcase

func allCases() []mcase {
	var out []mcase
	out = append(out, proposalCases()...)
	out = append(out, twoAssetProposalCases()...)
	out = append(out, updateCases()...)
	out = append(out, autoCases()...)
	out = append(out, vfundCases()...)
	out = append(out, vsettleCases()...)
	out = append(out, hubCases()...)
	out = append(out, hubTwoCases()...)
	out = append(out, ownCases()...)
	out = append(out, hubPairCases()...)
	out = append(out, a1Cases()...)
	out = append(out, otherCases()...)
	return out
}

func lookupCase(sender, name string) *mcase {
	if msgsIndex == nil {
		msgsIndex = map[string]*mcase{}
		all := allCases()
		for i := range all {
			k := all[i].Sender + "/" + all[i].Name
			if _, dup := msgsIndex[k]; dup {
				panic("harness: duplicate case " + k)
			}
			msgsIndex[k] = &all[i]
		}
	}
	c, ok := msgsIndex[sender+"/"+name]
	if !ok {
		panic("harness: unknown case " + sender + "/" + name)
	}
	return c
}

// lookupCases resolves "<name>[+<name>]".
func lookupCases(sender, names string) (out []*mcase) {
	for _, n := range strings.Split(names, "+") {
		out = append(out, lookupCase(sender, n))
	}
	return out
}
