package clients

import (
	"bytes"
	"context"
	"fmt"
	"math/big"
	"testing"
	"time"

	"perun.network/go-perun/channel"
	"perun.network/go-perun/client"
	"perun.network/go-perun/wallet"
	"perun.network/go-perun/wire"
	"verif/engine/explore"
	"verif/engine/report"
	"verif/engine/schedrun"
	"verif/engine/vsched"
	"verif/harness/fx"
)

// ---- C08 part 1: channel opening agreement ----

type c08prog struct {
	Kind     string // ledger, sub, virtual, nonce
	Bal      [2]int64
	App      bool     // payment app instead of NoApp
	Agree    [2]int64 // funding agreement (ledger only; zero = same as balances)
	Proposer int      // 0: A proposes to B, 1: B proposes to A
}

func (p c08prog) name() string {
	n := fmt.Sprintf("%s/b=%d.%d", p.Kind, p.Bal[0], p.Bal[1])
	if p.App {
		n += "/payapp"
	}
	if p.Agree != [2]int64{} {
		n += fmt.Sprintf("/agree=%d.%d", p.Agree[0], p.Agree[1])
	}
	if p.Proposer == 1 {
		n += "/Bproposes"
	}
	return n
}

type c08side struct {
	id       channel.ID
	params   string
	calcID   channel.ID
	parts    []string
	v0       string // encoding of the current state
	signedV0 bool
	enabled0 int // number of Enabled events for version 0 at this party
}

type c08obs struct {
	err      string
	sides    [2]c08side // proposer, responder
	propBal  [2]int64
	app      string
	funded   [2]int64
	ids      []channel.ID // nonce scenario
	hErrs    []string
	expParts []string
}

func encParams(p *channel.Params) string {
	var b bytes.Buffer
	if err := p.Encode(&b); err != nil {
		return "ERR:" + err.Error()
	}
	return b.String()
}

func c08exec(t *testing.T, ssc schedrun.Scenario, o vsched.Options) (*vsched.Sched, any) {
	pr := c08lookup(ssc.Name)
	obs := &c08obs{propBal: pr.Bal}
	s := vsched.Run(t, o, func() {
		var l *Ledger
		if pr.Kind == "ledger" {
			l = NewLedger()
		}
		n := 2
		if pr.Kind == "virtual" {
			n = 3
		}
		w := NewWorld(n, l, false)
		ctx, cancel := context.WithTimeout(context.Background(), 100*time.Second)
		defer cancel()
		a, b := pr.Proposer, 1-pr.Proposer
		var opts []client.ProposalOpts
		if pr.App {
			opts = append(opts, client.WithApp(fx.PayApp, channel.NoData()))
			obs.app = "payment"
		}
		side := func(who int, ch *client.Channel) c08side {
			sd := c08side{id: ch.ID(), params: encParams(ch.Params()), v0: fxEnc(ch.State())}
			sd.calcID, _ = channel.CalcID(ch.Params())
			for _, p := range ch.Params().Parts {
				sd.parts = append(sd.parts, p[0].String())
			}
			for _, e := range w.Enabled {
				if e.Who == who && e.Ch == ch.ID() && e.Version == 0 {
					sd.enabled0++
					sd.signedV0 = e.Signed && e.Enc == sd.v0
				}
			}
			return sd
		}
		alloc := func(x, y int64) *channel.Allocation {
			al := channel.NewAllocation(2, []wallet.BackendID{0}, w.Asset)
			al.SetAssetBalances(w.Asset, []channel.Bal{big.NewInt(x), big.NewInt(y)})
			return al
		}
		switch pr.Kind {
		case "ledger":
			vsched.StartExploration()
			if pr.Agree != [2]int64{} {
				opts = append(opts, client.WithFundingAgreement(channel.Balances{{big.NewInt(pr.Agree[0]), big.NewInt(pr.Agree[1])}}))
			}
			ca, cb, err := w.OpenLedger(a, b, pr.Bal[0], pr.Bal[1], opts...)
			if err != nil {
				obs.err = err.Error()
				return
			}
			obs.sides = [2]c08side{side(a, ca), side(b, cb)}
			obs.funded = [2]int64{l.Funded[key(w.P[a].Acc.Address())].Int64(), l.Funded[key(w.P[b].Acc.Address())].Int64()}
			obs.expParts = []string{w.P[a].Acc.Address().String(), w.P[b].Acc.Address().String()}
		case "sub":
			pa, pb, err := w.OpenLedger(0, 1, 10, 10)
			if err != nil {
				obs.err = "parent: " + err.Error()
				return
			}
			parent := []*client.Channel{pa, pb}[a]
			vsched.StartExploration()
			// balances are in the order of the PARENT's participants
			prop, err := client.NewSubChannelProposal(parent.ID(), 60, alloc(pr.Bal[0], pr.Bal[1]), append(opts, w.P[a].nextNonce())...)
			if err != nil {
				obs.err = err.Error()
				return
			}
			nb := len(w.P[b].Chans)
			ca, err := w.P[a].C.ProposeChannel(ctx, prop)
			if err != nil {
				obs.err = err.Error()
				return
			}
			vsched.WaitCond("await-sub", func() bool { return len(w.P[b].Chans) > nb })
			cb := w.P[b].Chans[len(w.P[b].Chans)-1]
			obs.sides = [2]c08side{side(a, ca), side(b, cb)}
			obs.expParts = []string{w.P[0].Acc.Address().String(), w.P[1].Acc.Address().String()}
		case "virtual":
			// Alice (0) and Bob (1) each hold a ledger channel with the hub Ingrid (2)
			chAI, _, err := w.OpenLedger(0, 2, 10, 10)
			if err != nil {
				obs.err = "A-I: " + err.Error()
				return
			}
			chBI, _, err := w.OpenLedger(1, 2, 10, 10)
			if err != nil {
				obs.err = "B-I: " + err.Error()
				return
			}
			vsched.StartExploration()
			parents := []channel.ID{chAI.ID(), chBI.ID()}
			if a == 1 {
				parents[0], parents[1] = parents[1], parents[0]
			}
			vcp, err := client.NewVirtualChannelProposal(60, w.P[a].Addr, alloc(pr.Bal[0], pr.Bal[1]),
				[]map[wallet.BackendID]wire.Address{w.P[a].WireID, w.P[b].WireID}, parents, [][]channel.Index{{0, 1}, {1, 0}}, append(opts, w.P[a].nextNonce())...)
			if err != nil {
				obs.err = err.Error()
				return
			}
			nb := len(w.P[b].Chans)
			ca, err := w.P[a].C.ProposeChannel(ctx, vcp)
			if err != nil {
				obs.err = err.Error()
				return
			}
			vsched.WaitCond("await-virtual", func() bool { return len(w.P[b].Chans) > nb })
			cb := w.P[b].Chans[len(w.P[b].Chans)-1]
			obs.sides = [2]c08side{side(a, ca), side(b, cb)}
			obs.expParts = []string{w.P[a].Acc.Address().String(), w.P[b].Acc.Address().String()}
		case "nonce":
			// three openings that differ only in one party's nonce share
			shares := [][2]byte{{1, 1}, {2, 1}, {1, 2}}
			for _, sh := range shares {
				var pn, rn client.NonceShare
				pn[0], rn[0] = sh[0], sh[1]
				w.P[1].OnProposal = func(p *Party, cp client.ChannelProposal, r *client.ProposalResponder) {
					c, cancel := context.WithTimeout(context.Background(), 5*time.Second)
					defer cancel()
					if _, err := r.Accept(c, cp.(*client.LedgerChannelProposalMsg).Accept(p.Addr, client.WithNonce(rn))); err != nil {
						p.HandlerErrs = append(p.HandlerErrs, err.Error())
					}
				}
				prop, err := client.NewLedgerChannelProposal(60, w.P[0].Addr, alloc(5, 5), []map[wallet.BackendID]wire.Address{w.P[0].WireID, w.P[1].WireID}, client.WithNonce(pn))
				if err != nil {
					obs.err = err.Error()
					return
				}
				nb := len(w.P[1].Chans)
				ca, err := w.P[0].C.ProposeChannel(ctx, prop)
				if err != nil {
					obs.err = err.Error()
					return
				}
				vsched.WaitCond("await-channel", func() bool { return len(w.P[1].Chans) > nb })
				obs.ids = append(obs.ids, ca.ID())
			}
		}
		for _, p := range w.P {
			obs.hErrs = append(obs.hErrs, p.HandlerErrs...)
		}
	})
	return s, obs
}

func c08check(ssc schedrun.Scenario, s *vsched.Sched, o any) []schedrun.Verdict {
	pr := c08lookup(ssc.Name)
	obs := o.(*c08obs)
	site := "agree/" + pr.Kind
	var out []schedrun.Verdict
	seen := map[string]bool{}
	add := func(clause, format string, a ...any) {
		if seen[clause] {
			return
		}
		seen[clause] = true
		out = append(out, schedrun.Verdict{Property: "C08", Clause: clause, Site: site, Detail: pr.name() + ": " + fmt.Sprintf(format, a...)})
	}
	if len(s.Panics) > 0 {
		add("panic", "%s", firstLines(s.Panics[0], 14))
		return out
	}
	if s.Deadlock {
		add("deadlock", "the driver cannot finish:\n%s", s.Dump())
		return out
	}
	if s.Capped {
		return nil
	}
	if obs.err != "" || len(obs.hErrs) > 0 {
		add("open-failed", "an honest opening failed: %s %v", obs.err, obs.hErrs)
		return out
	}
	if pr.Kind == "nonce" {
		if len(obs.ids) != 3 || obs.ids[0] == obs.ids[1] {
			add("id-ignores-proposer-nonce", "changing only the proposer's nonce share left the channel id unchanged")
		}
		if len(obs.ids) == 3 && obs.ids[0] == obs.ids[2] {
			add("id-ignores-responder-nonce", "changing only the responder's nonce share left the channel id unchanged")
		}
		return out
	}
	p, r := obs.sides[0], obs.sides[1]
	if p.id != r.id {
		add("ids-differ", "proposer and responder derived different channel ids")
	}
	if p.params != r.params {
		add("params-differ", "proposer and responder hold different parameters")
	}
	if p.calcID != p.id || r.calcID != r.id {
		add("id-not-calcid", "a channel id is not the id of its parameters")
	}
	if fmt.Sprint(p.parts) != fmt.Sprint(obs.expParts) || fmt.Sprint(r.parts) != fmt.Sprint(obs.expParts) {
		add("participant-order", "participants %v / %v, expected %v", p.parts, r.parts, obs.expParts)
	}
	if p.v0 != r.v0 {
		add("initial-states-differ", "the two sides hold different version-0 states")
	}
	if !p.signedV0 || !r.signedV0 {
		add("initial-state-not-fully-signed", "the version-0 state was enabled without all signatures (proposer %v, responder %v)", p.signedV0, r.signedV0)
	}
	if st := decodeState(p.v0); st == nil || st.Version != 0 || st.IsFinal ||
		st.Balances[0][0].Int64() != obs.propBal[0] || st.Balances[0][1].Int64() != obs.propBal[1] || len(st.Locked) != 0 ||
		(obs.app == "payment") == channel.IsNoApp(st.App) || (obs.app == "payment" && !st.App.Def().Equal(fx.PayApp.Def())) || st.ID != p.id {
		add("initial-state-not-as-proposed", "the version-0 state does not equal the proposed balances / app / id")
	}
	if pr.Kind == "ledger" {
		want := pr.Bal
		if pr.Agree != [2]int64{} {
			want = pr.Agree
		}
		if obs.funded != want {
			add("funding-amount", "funding took %v, agreed %v", obs.funded, want)
		}
	}
	return out
}

func c08digest(_ schedrun.Scenario, s *vsched.Sched, o any) string {
	obs := o.(*c08obs)
	return fmt.Sprintf("%v|%v|%v|%v|%v|%v|%v", obs.err, obs.sides[0].id == obs.sides[1].id, obs.sides[0].signedV0, obs.sides[1].signedV0, obs.funded, len(s.Panics) > 0, s.Deadlock)
}

var c08table = map[string]c08prog{}

func c08programs(thorough bool) []c08prog {
	var out []c08prog
	for _, bal := range [][2]int64{{5, 5}, {10, 0}} {
		for _, app := range []bool{false, true} {
			out = append(out, c08prog{Kind: "ledger", Bal: bal, App: app})
		}
	}
	out = append(out, c08prog{Kind: "ledger", Bal: [2]int64{5, 5}, Agree: [2]int64{6, 4}})
	out = append(out, c08prog{Kind: "ledger", Bal: [2]int64{5, 5}, Proposer: 1})
	out = append(out, c08prog{Kind: "sub", Bal: [2]int64{3, 3}}, c08prog{Kind: "sub", Bal: [2]int64{4, 0}, App: true}) // (only the parent's participant 0 can propose a sub-channel)
	out = append(out, c08prog{Kind: "nonce", Bal: [2]int64{5, 5}})
	out = append(out, c08prog{Kind: "virtual", Bal: [2]int64{5, 5}})
	if thorough {
		out = append(out, c08prog{Kind: "virtual", Bal: [2]int64{7, 0}, App: true}, c08prog{Kind: "virtual", Bal: [2]int64{5, 5}, Proposer: 1})
	}
	return out
}

func c08scenarios(res *report.Result) []schedrun.Scenario {
	var out []schedrun.Scenario
	for _, p := range c08programs(res.Thorough()) {
		c08table[p.name()] = p
		b := 1
		if res.Thorough() && p.Kind != "virtual" {
			b = 2
		}
		if p.Kind == "nonce" {
			b = 0
		}
		w := []int{1, 800, 300000}[b]
		out = append(out, schedrun.Scenario{Name: p.name(), Mode: explore.Delay, Bound: b, MaxSteps: 400000, Weight: w, Postpone: b > 0})
	}
	return out
}

func c08lookup(n string) c08prog {
	if p, ok := c08table[n]; ok {
		return p
	}
	for _, th := range []bool{false, true} {
		for _, p := range c08programs(th) {
			c08table[p.name()] = p
		}
	}
	p, ok := c08table[n]
	if !ok {
		panic("unknown scenario " + n)
	}
	return p
}

var c08harness = schedrun.Harness{Name: "clients", Scenarios: c08scenarios, Exec: c08exec, Check: c08check, Digest: c08digest,
	Describe: func(_ schedrun.Scenario, s *vsched.Sched, o any) string { return fmt.Sprintf("  %+v", *o.(*c08obs)) }, MaxExecsPerProcess: 4000}

func init() { register("C08", &c08harness) }
