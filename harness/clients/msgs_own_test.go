package clients

// Further families of the crafted-message drivers:
//   - "~unreach": the victim runs on a bus where publishing to an address nobody serves BLOCKS until
//     the caller's context ends (like a dial), instead of being dropped at once;
//   - "~own": crafted RESPONSES to the victim's own requests (channel proposals of every type, an
//     update): the victim proposes, the request never reaches the real M, the harness answers as M;
//   - "~nonce" (C08): honest openings in which the victim is the responder; the channel nonce must
//     be the hash of the proposer's share and of the share the responder passed to Accept.

import (
	"context"
	"fmt"
	"math/big"
	"strings"
	"time"

	"golang.org/x/crypto/sha3"
	simwallet "perun.network/go-perun/backend/sim/wallet"
	"perun.network/go-perun/channel"
	"perun.network/go-perun/channel/persistence"
	"perun.network/go-perun/client"
	"perun.network/go-perun/wallet"
	"perun.network/go-perun/watcher/local"
	"perun.network/go-perun/wire"
	"verif/engine/vsched"
)

// ---------------------------------------------------------------- a bus on which unserved addresses block

// unreachBus wraps the world's bus for ONE client: an envelope for an address that no client
// serves is not dropped at once; Publish blocks until the caller's context is done and returns its
// error - what a real dial to an unreachable peer does.
type unreachBus struct {
	*Bus
}

func (b *unreachBus) Publish(ctx context.Context, e *wire.Envelope) error {
	if _, served := b.Bus.subs[wire.Keys(e.Recipient)]; !served {
		b.Bus.w.tick()
		b.Bus.Sent = append(b.Bus.Sent, sentRec{b.Bus.w.partyOf(e.Sender), -1, fmt.Sprintf("%T", e.Msg), e.Msg, b.Bus.w.clock})
		vsched.Recv(ctx.Done())
		return ctx.Err()
	}
	return b.Bus.Publish(ctx, e)
}

// rewireVictim replaces party 0 of a fresh world by a client with the same identity (wire id,
// account) that talks through an unreachBus. The client NewWorld created for party 0 loses its
// subscription (the bus keeps one consumer per address) and stays idle.
func rewireVictim(w *World) {
	old := w.P[0]
	sw := simwallet.NewWallet()
	if err := sw.AddAccount(old.Acc.(*simwallet.Account)); err != nil {
		panic("harness: " + err.Error())
	}
	p := &Party{W: w, Idx: 0, Name: old.Name, Acc: old.Acc, Addr: old.Addr, WireID: old.WireID}
	wt, err := local.NewWatcher(stubAdj{})
	if err != nil {
		panic("harness: " + err.Error())
	}
	p.C, err = client.New(p.WireID, &unreachBus{w.Bus}, stubFunder{}, stubAdj{}, map[wallet.BackendID]wallet.Wallet{0: sw}, wt)
	if err != nil {
		panic("harness: " + err.Error())
	}
	p.C.EnablePersistence(&recPersister{PersistRestorer: persistence.NonPersistRestorer, w: w, who: 0})
	p.C.OnNewChannel(func(ch *client.Channel) { p.Chans = append(p.Chans, ch) })
	w.P[0] = p
	vsched.GoNamed("handle-"+p.Name+"-unreach", func() {
		p.C.Handle(client.ProposalHandlerFunc(func(cp client.ChannelProposal, r *client.ProposalResponder) {
			p.ProposalsSeen = append(p.ProposalsSeen, cp)
			if p.OnProposal != nil {
				p.OnProposal(p, cp, r)
				return
			}
			p.acceptProposal(cp, r)
		}), client.UpdateHandlerFunc(func(cur *channel.State, u client.ChannelUpdate, r *client.UpdateResponder) {
			p.UpdatesSeen = append(p.UpdatesSeen, u)
			if p.OnUpdate != nil {
				p.OnUpdate(p, cur, u, r)
				return
			}
			ctx, cancel := context.WithTimeout(context.Background(), 5*time.Second)
			defer cancel()
			if err := r.Accept(ctx); err != nil {
				p.HandlerErrs = append(p.HandlerErrs, "accept update: "+err.Error())
			}
		}))
	})
}

// ---------------------------------------------------------------- responses to the victim's own requests

var ownPID = mFixedID(0xD1) // proposal id of the victim's own proposal

// ownRequest performs the victim's own request of the given kind (20 s of virtual time) and
// classifies the outcome.
func (sc *mScene) ownRequest(kind string) (res, detail string) {
	ctx, cancel := context.WithTimeout(context.Background(), 20*time.Second)
	defer cancel()
	peers := []map[wallet.BackendID]wire.Address{sc.V.WireID, sc.M.WireID}
	var err error
	switch kind {
	case "ledger":
		var p *client.LedgerChannelProposalMsg
		if p, err = client.NewLedgerChannelProposal(60, sc.V.Addr, mAlloc(sc.w.Asset, 5, 5), peers, client.WithNonce(mFixedID(0x61))); err == nil {
			p.ProposalID = ownPID
			_, err = sc.V.C.ProposeChannel(ctx, p)
		}
	case "sub":
		var p *client.SubChannelProposalMsg
		if p, err = client.NewSubChannelProposal(sc.led.ID(), 60, mAlloc(sc.w.Asset, 2, 4), client.WithNonce(mFixedID(0x62))); err == nil {
			p.ProposalID = ownPID
			_, err = sc.V.C.ProposeChannel(ctx, p)
		}
	case "virtual":
		// the victim as Alice, M as Bob and as hub of the victim's parent
		var p *client.VirtualChannelProposalMsg
		if p, err = client.NewVirtualChannelProposal(60, sc.V.Addr, mAlloc(sc.w.Asset, 3, 3), peers,
			[]channel.ID{sc.led.ID(), mFixedID(0x68)}, [][]channel.Index{{sc.vIdx, 1 - sc.vIdx}, {0, 1}}, client.WithNonce(mFixedID(0x63))); err == nil {
			p.ProposalID = ownPID
			_, err = sc.V.C.ProposeChannel(ctx, p)
		}
	case "update":
		err = sc.led.Update(ctx, pay(int(sc.led.Idx()), 1, false))
	default:
		panic("harness: unknown own request " + kind)
	}
	res = classify(err)
	if strings.HasPrefix(res, "err:") {
		return "error", res[4:]
	}
	return res, ""
}

func ownAcc(kind string, id [32]byte, part map[wallet.BackendID]wallet.Address, nonce [32]byte) wire.Msg {
	base := client.BaseChannelProposalAcc{ProposalID: id, NonceShare: nonce}
	switch kind {
	case "ledger":
		return &client.LedgerChannelProposalAccMsg{BaseChannelProposalAcc: base, Participant: part}
	case "sub":
		return &client.SubChannelProposalAccMsg{BaseChannelProposalAcc: base}
	case "virtual":
		return &client.VirtualChannelProposalAccMsg{BaseChannelProposalAcc: base, Responder: part}
	}
	panic("harness: unknown acc kind " + kind)
}

// ownPoints: where the victim can make each kind of request (a sub-channel can only be proposed by
// the parent's index 0).
var ownPoints = map[string][]string{
	"ledger":  {"nochan", "open-v1"},
	"sub":     {"open-v0", "sub-v0"},
	"virtual": {"open-v0", "open-v1"},
	"update":  {"open-v0", "open-v1", "sub-v1"},
}

var ownAllPoints = []string{"nochan", "open-v0", "open-v1", "sub-v0", "sub-v1"}

func ownCases() (out []mcase) {
	add := func(kind, name, sender string, honest bool, b func(sc *mScene) wire.Msg) {
		out = append(out, mcase{Name: "own-" + kind + "/" + name, Cat: "own", Sender: sender, Mut: !honest, Own: kind, OwnHonest: honest,
			Pts: ownPoints[kind], Build: b})
	}
	for _, kind := range []string{"ledger", "sub", "virtual"} {
		kind := kind
		if kind != "virtual" { // (an honest virtual channel needs a third client as hub)
			add(kind, "honest", "M", true, func(*mScene) wire.Msg { return nil })
		}
		for _, other := range []string{"ledger", "sub", "virtual"} {
			other := other
			if other != kind {
				add(kind, "acc-wrong-type-"+other, "M", false, func(sc *mScene) wire.Msg { return ownAcc(other, ownPID, sc.M.Addr, mFixedID(0x71)) })
			}
		}
		add(kind, "acc-right-type", "M", false, func(sc *mScene) wire.Msg { return ownAcc(kind, ownPID, sc.M.Addr, mFixedID(0x71)) })
		add(kind, "acc-wrong-proposal-id", "M", false, func(sc *mScene) wire.Msg { return ownAcc(kind, mFixedID(0xD2), sc.M.Addr, mFixedID(0x71)) })
		add(kind, "acc-nonce-zero", "M", false, func(sc *mScene) wire.Msg { return ownAcc(kind, ownPID, sc.M.Addr, [32]byte{}) })
		add(kind, "acc-from-stranger", "S", false, func(sc *mScene) wire.Msg { return ownAcc(kind, ownPID, sc.S.Addr, mFixedID(0x71)) })
		if kind != "sub" {
			add(kind, "acc-participant-empty", "M", false, func(*mScene) wire.Msg {
				return ownAcc(kind, ownPID, map[wallet.BackendID]wallet.Address{}, mFixedID(0x71))
			})
			add(kind, "acc-participant-is-victim", "M", false, func(sc *mScene) wire.Msg { return ownAcc(kind, ownPID, sc.V.Addr, mFixedID(0x71)) })
		}
		add(kind, "rej", "M", false, func(*mScene) wire.Msg { return &client.ChannelProposalRejMsg{ProposalID: ownPID, Reason: "no"} })
		add(kind, "rej-wrong-proposal-id", "M", false, func(*mScene) wire.Msg {
			return &client.ChannelProposalRejMsg{ProposalID: mFixedID(0xD2), Reason: "no"}
		})
		add(kind, "update-acc-v0", "M", false, func(*mScene) wire.Msg {
			return &client.ChannelUpdateAccMsg{ChannelID: mFixedID(0x7c), Version: 0, Sig: garbageSig()}
		})
	}
	// responses to the victim's own update
	req := func(sc *mScene) *client.ChannelUpdateMsg {
		if m, ok := sc.ownReq.(*client.ChannelUpdateMsg); ok {
			return m
		}
		return nil
	}
	upd := func(name, sender string, b func(sc *mScene, r *client.ChannelUpdateMsg) wire.Msg) {
		add("update", name, sender, false, func(sc *mScene) wire.Msg {
			if r := req(sc); r != nil {
				return b(sc, r)
			}
			return nil
		})
	}
	add("update", "honest", "M", true, func(*mScene) wire.Msg { return nil })
	upd("acc-valid", "M", func(sc *mScene, r *client.ChannelUpdateMsg) wire.Msg {
		return &client.ChannelUpdateAccMsg{ChannelID: r.State.ID, Version: r.State.Version, Sig: sc.sign("M", r.State)}
	})
	upd("acc-sig-garbage", "M", func(_ *mScene, r *client.ChannelUpdateMsg) wire.Msg {
		return &client.ChannelUpdateAccMsg{ChannelID: r.State.ID, Version: r.State.Version, Sig: garbageSig()}
	})
	upd("acc-sig-stranger", "M", func(sc *mScene, r *client.ChannelUpdateMsg) wire.Msg {
		return &client.ChannelUpdateAccMsg{ChannelID: r.State.ID, Version: r.State.Version, Sig: sc.sign("S", r.State)}
	})
	upd("acc-sig-over-current", "M", func(sc *mScene, r *client.ChannelUpdateMsg) wire.Msg {
		return &client.ChannelUpdateAccMsg{ChannelID: r.State.ID, Version: r.State.Version, Sig: sc.sign("M", sc.signed(sc.led))}
	})
	upd("acc-wrong-version", "M", func(sc *mScene, r *client.ChannelUpdateMsg) wire.Msg {
		// (a version far away: update responses are cached by (channel, version) and a stale one would be
		// consumed by the later probe update of that version - the usage fact of DESIGN section 7)
		return &client.ChannelUpdateAccMsg{ChannelID: r.State.ID, Version: r.State.Version + 9, Sig: sc.sign("M", r.State)}
	})
	upd("acc-wrong-id", "M", func(sc *mScene, r *client.ChannelUpdateMsg) wire.Msg {
		return &client.ChannelUpdateAccMsg{ChannelID: mFlipID(r.State.ID), Version: r.State.Version, Sig: sc.sign("M", r.State)}
	})
	upd("acc-valid-from-stranger", "S", func(sc *mScene, r *client.ChannelUpdateMsg) wire.Msg {
		return &client.ChannelUpdateAccMsg{ChannelID: r.State.ID, Version: r.State.Version, Sig: sc.sign("M", r.State)}
	})
	upd("rej", "M", func(_ *mScene, r *client.ChannelUpdateMsg) wire.Msg {
		return &client.ChannelUpdateRejMsg{ChannelID: r.State.ID, Version: r.State.Version, Reason: "no"}
	})
	upd("rej-wrong-version", "M", func(_ *mScene, r *client.ChannelUpdateMsg) wire.Msg {
		return &client.ChannelUpdateRejMsg{ChannelID: r.State.ID, Version: r.State.Version + 9, Reason: "no"}
	})
	upd("rej-from-stranger", "S", func(_ *mScene, r *client.ChannelUpdateMsg) wire.Msg {
		return &client.ChannelUpdateRejMsg{ChannelID: r.State.ID, Version: r.State.Version, Reason: "no"}
	})
	upd("proposal-acc", "M", func(sc *mScene, _ *client.ChannelUpdateMsg) wire.Msg {
		return ownAcc("ledger", ownPID, sc.M.Addr, mFixedID(0x71))
	})
	return out
}

// ---------------------------------------------------------------- C08: the channel nonce comes from both shares

// refNonce is the reference: the channel nonce is the SHA3-256 hash of the proposer's share followed
// by the responder's share (client/proposal.go calcNonce, written out independently).
func refNonce(proposer, responder [32]byte) *big.Int {
	h := sha3.New256()
	h.Write(proposer[:])
	h.Write(responder[:])
	return new(big.Int).SetBytes(h.Sum(nil))
}

// nonceRun: the real M proposes a channel of the given kind to the victim twice with the SAME
// proposer share; the victim's handler accepts with its own shares (WithNonce, two different values).
// Both channels must carry the reference nonce on both sides, and their ids must differ.
func (sc *mScene) nonceRun(kind string) (bad []string) {
	V, M := sc.V, sc.M
	share := mFixedID(0x64)
	var ids []channel.ID
	for round := 0; round < 2; round++ {
		ctx, cancel := context.WithTimeout(context.Background(), 10*time.Second)
		nb := len(V.Chans)
		var mch *client.Channel
		var err error
		switch kind {
		case "ledger":
			var p *client.LedgerChannelProposalMsg
			p, err = client.NewLedgerChannelProposal(60, M.Addr, mAlloc(sc.w.Asset, 5, 5),
				[]map[wallet.BackendID]wire.Address{M.WireID, V.WireID}, client.WithNonce(share))
			if err == nil {
				p.ProposalID = mFixedID(0xE0 + byte(round))
				mch, err = M.C.ProposeChannel(ctx, p)
			}
		case "sub":
			var p *client.SubChannelProposalMsg
			p, err = client.NewSubChannelProposal(sc.mled.ID(), 60, mAlloc(sc.w.Asset, 1, 1), client.WithNonce(share))
			if err == nil {
				p.ProposalID = mFixedID(0xE0 + byte(round))
				mch, err = M.C.ProposeChannel(ctx, p)
			}
		}
		cancel()
		if err != nil {
			bad = append(bad, fmt.Sprintf("opening %d (same proposer share, another responder share) failed: %.200s", round+1, err.Error()))
			return bad
		}
		vsched.WaitCond("await-channel", func() bool { return len(V.Chans) > nb })
		vch := V.Chans[len(V.Chans)-1]
		var resp [32]byte // the share the victim's handler passed to Accept (Party.nextNonce)
		resp[0], resp[1] = byte(V.Idx+1), V.nonce
		want := refNonce(share, resp)
		if got := vch.Params().Nonce; got == nil || got.Cmp(want) != 0 {
			bad = append(bad, fmt.Sprintf("opening %d: the responder's channel nonce is not the hash of the proposer's share and the share the responder passed to Accept", round+1))
		}
		if got := mch.Params().Nonce; got == nil || got.Cmp(want) != 0 {
			bad = append(bad, fmt.Sprintf("opening %d: the proposer's channel nonce is not the hash of the proposer's share and the share the responder passed to Accept", round+1))
		}
		if vch.ID() != mch.ID() {
			bad = append(bad, fmt.Sprintf("opening %d: the two sides hold different channel ids", round+1))
		}
		ids = append(ids, vch.ID())
	}
	if len(ids) == 2 && ids[0] == ids[1] {
		bad = append(bad, "two openings with different responder shares have the same channel id")
	}
	return bad
}

var _ = persistence.NonPersistRestorer
