package clients

// Further families of the crafted-message drivers:
//   - "~unreach": the victim runs on a bus where publishing to an address nobody serves BLOCKS until
//     the caller's context ends (like a dial), instead of being dropped at once;
//   - "~own": crafted RESPONSES to the victim's own requests (channel proposals of every type, an
//     update): the victim proposes, the request never reaches the real M, the harness answers as M;
//   - "~nonce" (C08): honest openings in which the victim is the responder; the channel nonce must
//     be the hash of the proposer's share and of the share the responder passed to Accept.

import (
	"context"
	"fmt"
	"math/big"
	"strings"
	"time"

	"golang.org/x/crypto/sha3"
	simwallet "perun.network/go-perun/backend/sim/wallet"
	"perun.network/go-perun/channel"
	"perun.network/go-perun/channel/persistence"
	"perun.network/go-perun/client"
	"perun.network/go-perun/wallet"
	"perun.network/go-perun/watcher/local"
	"perun.network/go-perun/wire"
	"verif/engine/vsched"
)

// ---------------------------------------------------------------- a bus on which unserved addresses block

// unreachBus wraps the world's bus for ONE client: an envelope for an address that no client
// serves is not dropped at once; Publish blocks until the caller's context is done and returns its
// error - what a real dial to an unreachable peer does.
type unreachBus struct {
	*Bus
	// FailNext, if set, is asked for every envelope the victim publishes; when it returns a mode the
	// publication does not happen: "fail" = Publish returns an error at once (the peer has just
	// disconnected), "block" = Publish blocks until the caller's context ends and returns its error.
	FailNext func(e *wire.Envelope) string
	Failed   []string // what was made to fail
}

// victimBus is the wrapper of the running execution's victim (nil: the victim uses the plain bus).
var victimBus *unreachBus

func (b *unreachBus) Publish(ctx context.Context, e *wire.Envelope) error {
	rec := func(to int) {
		b.Bus.w.tick()
		b.Bus.Sent = append(b.Bus.Sent, sentRec{b.Bus.w.partyOf(e.Sender), to, fmt.Sprintf("%T", e.Msg), e.Msg, b.Bus.w.clock})
	}
	if b.FailNext != nil {
		switch b.FailNext(e) {
		case "fail":
			rec(-1)
			b.Failed = append(b.Failed, fmt.Sprintf("%T", e.Msg))
			return fmt.Errorf("harness bus: connection to the peer lost")
		case "block":
			rec(-1)
			b.Failed = append(b.Failed, fmt.Sprintf("%T", e.Msg))
			vsched.Recv(ctx.Done())
			return ctx.Err()
		}
	}
	if _, served := b.Bus.subs[wire.Keys(e.Recipient)]; !served {
		rec(-1)
		vsched.Recv(ctx.Done())
		return ctx.Err()
	}
	return b.Bus.Publish(ctx, e)
}

// rewireVictim replaces party 0 of a fresh world by a client with the same identity (wire id,
// account) that talks through an unreachBus. The client NewWorld created for party 0 loses its
// subscription (the bus keeps one consumer per address) and stays idle.
func rewireVictim(w *World) {
	old := w.P[0]
	sw := simwallet.NewWallet()
	if err := sw.AddAccount(old.Acc.(*simwallet.Account)); err != nil {
		panic("harness: " + err.Error())
	}
	p := &Party{W: w, Idx: 0, Name: old.Name, Acc: old.Acc, Addr: old.Addr, WireID: old.WireID}
	wt, err := local.NewWatcher(stubAdj{})
	if err != nil {
		panic("harness: " + err.Error())
	}
	victimBus = &unreachBus{Bus: w.Bus}
	p.C, err = client.New(p.WireID, victimBus, stubFunder{}, stubAdj{}, map[wallet.BackendID]wallet.Wallet{0: sw}, wt)
	if err != nil {
		panic("harness: " + err.Error())
	}
	p.C.EnablePersistence(&recPersister{PersistRestorer: persistence.NonPersistRestorer, w: w, who: 0})
	p.C.OnNewChannel(func(ch *client.Channel) { p.Chans = append(p.Chans, ch) })
	w.P[0] = p
	vsched.GoNamed("handle-"+p.Name+"-unreach", func() {
		p.C.Handle(client.ProposalHandlerFunc(func(cp client.ChannelProposal, r *client.ProposalResponder) {
			p.ProposalsSeen = append(p.ProposalsSeen, cp)
			if p.OnProposal != nil {
				p.OnProposal(p, cp, r)
				return
			}
			p.acceptProposal(cp, r)
		}), client.UpdateHandlerFunc(func(cur *channel.State, u client.ChannelUpdate, r *client.UpdateResponder) {
			p.UpdatesSeen = append(p.UpdatesSeen, u)
			if p.OnUpdate != nil {
				p.OnUpdate(p, cur, u, r)
				return
			}
			ctx, cancel := context.WithTimeout(context.Background(), 5*time.Second)
			defer cancel()
			if err := r.Accept(ctx); err != nil {
				p.HandlerErrs = append(p.HandlerErrs, "accept update: "+err.Error())
			}
		}))
	})
}

// ---------------------------------------------------------------- responses to the victim's own requests

var ownPID = mFixedID(0xD1) // proposal id of the victim's own proposal

// ownRequest performs the victim's own request of the given kind (20 s of virtual time) and
// classifies the outcome.
func (sc *mScene) ownRequest(kind string) (res, detail string) {
	ctx, cancel := context.WithTimeout(context.Background(), 20*time.Second)
	defer cancel()
	peers := []map[wallet.BackendID]wire.Address{sc.V.WireID, sc.M.WireID}
	var err error
	switch kind {
	case "ledger":
		var p *client.LedgerChannelProposalMsg
		if p, err = client.NewLedgerChannelProposal(60, sc.V.Addr, mAlloc(sc.w.Asset, 5, 5), peers, client.WithNonce(mFixedID(0x61))); err == nil {
			p.ProposalID = ownPID
			_, err = sc.V.C.ProposeChannel(ctx, p)
		}
	case "sub":
		var p *client.SubChannelProposalMsg
		if p, err = client.NewSubChannelProposal(sc.led.ID(), 60, mAlloc(sc.w.Asset, 2, 4), client.WithNonce(mFixedID(0x62))); err == nil {
			p.ProposalID = ownPID
			_, err = sc.V.C.ProposeChannel(ctx, p)
		}
	case "virtual":
		// the victim as Alice, M as Bob and as hub of the victim's parent
		var p *client.VirtualChannelProposalMsg
		if p, err = client.NewVirtualChannelProposal(60, sc.V.Addr, mAlloc(sc.w.Asset, 3, 3), peers,
			[]channel.ID{sc.led.ID(), mFixedID(0x68)}, [][]channel.Index{{sc.vIdx, 1 - sc.vIdx}, {0, 1}}, client.WithNonce(mFixedID(0x63))); err == nil {
			p.ProposalID = ownPID
			_, err = sc.V.C.ProposeChannel(ctx, p)
		}
	case "update":
		err = sc.led.Update(ctx, pay(int(sc.led.Idx()), 1, false))
	default:
		panic("harness: unknown own request " + kind)
	}
	res = classify(err)
	if strings.HasPrefix(res, "err:") {
		return "error", res[4:]
	}
	return res, ""
}

func ownAcc(kind string, id [32]byte, part map[wallet.BackendID]wallet.Address, nonce [32]byte) wire.Msg {
	base := client.BaseChannelProposalAcc{ProposalID: id, NonceShare: nonce}
	switch kind {
	case "ledger":
		return &client.LedgerChannelProposalAccMsg{BaseChannelProposalAcc: base, Participant: part}
	case "sub":
		return &client.SubChannelProposalAccMsg{BaseChannelProposalAcc: base}
	case "virtual":
		return &client.VirtualChannelProposalAccMsg{BaseChannelProposalAcc: base, Responder: part}
	}
	panic("harness: unknown acc kind " + kind)
}

// ownPoints: where the victim can make each kind of request (a sub-channel can only be proposed by
// the parent's index 0).
var ownPoints = map[string][]string{
	"ledger":  {"nochan", "open-v1"},
	"sub":     {"open-v0", "sub-v0"},
	"virtual": {"open-v0", "open-v1"},
	"update":  {"open-v0", "open-v1", "sub-v1"},
}

var ownAllPoints = []string{"nochan", "open-v0", "open-v1", "sub-v0", "sub-v1"}

func ownCases() (out []mcase) {
	add := func(kind, name, sender string, honest bool, b func(sc *mScene) wire.Msg) {
		out = append(out, mcase{Name: "own-" + kind + "/" + name, Cat: "own", Sender: sender, Mut: !honest, Own: kind, OwnHonest: honest,
			Pts: ownPoints[kind], Build: b})
	}
	for _, kind := range []string{"ledger", "sub", "virtual"} {
		kind := kind
		if kind != "virtual" { // (an honest virtual channel needs a third client as hub)
			add(kind, "honest", "M", true, func(*mScene) wire.Msg { return nil })
		}
		for _, other := range []string{"ledger", "sub", "virtual"} {
			other := other
			if other != kind {
				add(kind, "acc-wrong-type-"+other, "M", false, func(sc *mScene) wire.Msg { return ownAcc(other, ownPID, sc.M.Addr, mFixedID(0x71)) })
			}
		}
		add(kind, "acc-right-type", "M", false, func(sc *mScene) wire.Msg { return ownAcc(kind, ownPID, sc.M.Addr, mFixedID(0x71)) })
		add(kind, "acc-wrong-proposal-id", "M", false, func(sc *mScene) wire.Msg { return ownAcc(kind, mFixedID(0xD2), sc.M.Addr, mFixedID(0x71)) })
		add(kind, "acc-nonce-zero", "M", false, func(sc *mScene) wire.Msg { return ownAcc(kind, ownPID, sc.M.Addr, [32]byte{}) })
		add(kind, "acc-from-stranger", "S", false, func(sc *mScene) wire.Msg { return ownAcc(kind, ownPID, sc.S.Addr, mFixedID(0x71)) })
		if kind != "sub" {
			add(kind, "acc-participant-empty", "M", false, func(*mScene) wire.Msg {
				return ownAcc(kind, ownPID, map[wallet.BackendID]wallet.Address{}, mFixedID(0x71))
			})
			add(kind, "acc-participant-is-victim", "M", false, func(sc *mScene) wire.Msg { return ownAcc(kind, ownPID, sc.V.Addr, mFixedID(0x71)) })
		}
		if kind != "sub" {
			out = append(out, mcase{Name: "own-" + kind + "/acc-participant-empty-then-garbage-sig0", Cat: "own", Sender: "M", Mut: true, Own: kind, Pts: ownPoints[kind],
				Build: func(sc *mScene) wire.Msg {
					return ownAcc(kind, ownPID, map[wallet.BackendID]wallet.Address{}, mFixedID(0x71))
				},
				Follow: func(sc *mScene) []*wire.Envelope {
					// the victim's own version-0 signature names the id of the channel it derived
					for i := len(sc.w.Bus.Sent) - 1; i >= 0; i-- {
						r := sc.w.Bus.Sent[i]
						if acc, ok := r.Msg.(*client.ChannelUpdateAccMsg); ok && r.From == sc.V.Idx && acc.Version == 0 {
							return []*wire.Envelope{{Sender: sc.M.WireID, Recipient: sc.V.WireID,
								Msg: &client.ChannelUpdateAccMsg{ChannelID: acc.ChannelID, Version: 0, Sig: garbageSig()}}}
						}
					}
					return nil
				}})
		}
		add(kind, "rej", "M", false, func(*mScene) wire.Msg { return &client.ChannelProposalRejMsg{ProposalID: ownPID, Reason: "no"} })
		add(kind, "rej-wrong-proposal-id", "M", false, func(*mScene) wire.Msg {
			return &client.ChannelProposalRejMsg{ProposalID: mFixedID(0xD2), Reason: "no"}
		})
		add(kind, "update-acc-v0", "M", false, func(*mScene) wire.Msg {
			return &client.ChannelUpdateAccMsg{ChannelID: mFixedID(0x7c), Version: 0, Sig: garbageSig()}
		})
	}
	// a stray version-1 update of an unknown channel while the victim's own opening is in flight (the
	// client caches such updates during openings and replays them when the opening ends)
	strayEnv := func(sc *mScene, from mIdent) *wire.Envelope {
		st := &channel.State{ID: mFixedID(0x7d), Version: 1, App: channel.NoApp(), Data: channel.NoData(), Allocation: *mAlloc(sc.w.Asset, 1, 1)}
		return &wire.Envelope{Sender: from.Wire, Recipient: sc.V.WireID,
			Msg: &client.ChannelUpdateMsg{ChannelUpdate: client.ChannelUpdate{State: st, ActorIdx: 0}, Sig: garbageSig()}}
	}
	for _, kind := range []string{"ledger", "sub", "virtual"} {
		kind := kind
		for _, from := range []string{"stranger", "peer"} {
			from := from
			who := func(sc *mScene) mIdent {
				if from == "stranger" {
					return sc.S
				}
				return partyIdent(sc.M)
			}
			if kind != "virtual" {
				out = append(out, mcase{Name: "own-" + kind + "/honest-stray-v1-from-" + from, Cat: "own", Sender: "M", Mut: true, Own: kind, OwnHonest: true, Pts: ownPoints[kind],
					Build: func(*mScene) wire.Msg { return nil }, Envs: func(sc *mScene) []*wire.Envelope { return []*wire.Envelope{strayEnv(sc, who(sc))} }})
			}
			out = append(out, mcase{Name: "own-" + kind + "/stray-v1-from-" + from + "-then-rej", Cat: "own", Sender: "M", Mut: true, Own: kind, Pts: ownPoints[kind],
				Build: func(*mScene) wire.Msg { return nil }, Envs: func(sc *mScene) []*wire.Envelope {
					return []*wire.Envelope{strayEnv(sc, who(sc)), {Sender: sc.M.WireID, Recipient: sc.V.WireID, Msg: &client.ChannelProposalRejMsg{ProposalID: ownPID, Reason: "no"}}}
				}})
		}
	}
	// responses to the victim's own update
	req := func(sc *mScene) *client.ChannelUpdateMsg {
		if m, ok := sc.ownReq.(*client.ChannelUpdateMsg); ok {
			return m
		}
		return nil
	}
	upd := func(name, sender string, b func(sc *mScene, r *client.ChannelUpdateMsg) wire.Msg) {
		add("update", name, sender, false, func(sc *mScene) wire.Msg {
			if r := req(sc); r != nil {
				return b(sc, r)
			}
			return nil
		})
	}
	add("update", "honest", "M", true, func(*mScene) wire.Msg { return nil })
	upd("acc-valid", "M", func(sc *mScene, r *client.ChannelUpdateMsg) wire.Msg {
		return &client.ChannelUpdateAccMsg{ChannelID: r.State.ID, Version: r.State.Version, Sig: sc.sign("M", r.State)}
	})
	upd("acc-sig-garbage", "M", func(_ *mScene, r *client.ChannelUpdateMsg) wire.Msg {
		return &client.ChannelUpdateAccMsg{ChannelID: r.State.ID, Version: r.State.Version, Sig: garbageSig()}
	})
	upd("acc-sig-stranger", "M", func(sc *mScene, r *client.ChannelUpdateMsg) wire.Msg {
		return &client.ChannelUpdateAccMsg{ChannelID: r.State.ID, Version: r.State.Version, Sig: sc.sign("S", r.State)}
	})
	upd("acc-sig-over-current", "M", func(sc *mScene, r *client.ChannelUpdateMsg) wire.Msg {
		return &client.ChannelUpdateAccMsg{ChannelID: r.State.ID, Version: r.State.Version, Sig: sc.sign("M", sc.signed(sc.led))}
	})
	upd("acc-wrong-version", "M", func(sc *mScene, r *client.ChannelUpdateMsg) wire.Msg {
		// (a version far away: update responses are cached by (channel, version) and a stale one would be
		// consumed by the later probe update of that version - the usage fact of DESIGN section 7)
		return &client.ChannelUpdateAccMsg{ChannelID: r.State.ID, Version: r.State.Version + 9, Sig: sc.sign("M", r.State)}
	})
	upd("acc-wrong-id", "M", func(sc *mScene, r *client.ChannelUpdateMsg) wire.Msg {
		return &client.ChannelUpdateAccMsg{ChannelID: mFlipID(r.State.ID), Version: r.State.Version, Sig: sc.sign("M", r.State)}
	})
	upd("acc-valid-from-stranger", "S", func(sc *mScene, r *client.ChannelUpdateMsg) wire.Msg {
		return &client.ChannelUpdateAccMsg{ChannelID: r.State.ID, Version: r.State.Version, Sig: sc.sign("M", r.State)}
	})
	upd("rej", "M", func(_ *mScene, r *client.ChannelUpdateMsg) wire.Msg {
		return &client.ChannelUpdateRejMsg{ChannelID: r.State.ID, Version: r.State.Version, Reason: "no"}
	})
	upd("rej-wrong-version", "M", func(_ *mScene, r *client.ChannelUpdateMsg) wire.Msg {
		return &client.ChannelUpdateRejMsg{ChannelID: r.State.ID, Version: r.State.Version + 9, Reason: "no"}
	})
	upd("rej-from-stranger", "S", func(_ *mScene, r *client.ChannelUpdateMsg) wire.Msg {
		return &client.ChannelUpdateRejMsg{ChannelID: r.State.ID, Version: r.State.Version, Reason: "no"}
	})
	upd("proposal-acc", "M", func(sc *mScene, _ *client.ChannelUpdateMsg) wire.Msg {
		return ownAcc("ledger", ownPID, sc.M.Addr, mFixedID(0x71))
	})
	return out
}

// ---------------------------------------------------------------- C08: the channel nonce comes from both shares

// refNonce is the reference: the channel nonce is the SHA3-256 hash of the proposer's share followed
// by the responder's share (client/proposal.go calcNonce, written out independently).
func refNonce(proposer, responder [32]byte) *big.Int {
	h := sha3.New256()
	h.Write(proposer[:])
	h.Write(responder[:])
	return new(big.Int).SetBytes(h.Sum(nil))
}

// nonceRun: the real M proposes a channel of the given kind to the victim twice with the SAME
// proposer share; the victim's handler accepts with its own shares (WithNonce, two different values).
// Both channels must carry the reference nonce on both sides, and their ids must differ.
func (sc *mScene) nonceRun(kind string) (bad []string) {
	V, M := sc.V, sc.M
	share := mFixedID(0x64)
	var ids []channel.ID
	for round := 0; round < 2; round++ {
		ctx, cancel := context.WithTimeout(context.Background(), 10*time.Second)
		nb := len(V.Chans)
		var mch *client.Channel
		var err error
		switch kind {
		case "ledger":
			var p *client.LedgerChannelProposalMsg
			p, err = client.NewLedgerChannelProposal(60, M.Addr, mAlloc(sc.w.Asset, 5, 5),
				[]map[wallet.BackendID]wire.Address{M.WireID, V.WireID}, client.WithNonce(share))
			if err == nil {
				p.ProposalID = mFixedID(0xE0 + byte(round))
				mch, err = M.C.ProposeChannel(ctx, p)
			}
		case "sub":
			var p *client.SubChannelProposalMsg
			p, err = client.NewSubChannelProposal(sc.mled.ID(), 60, mAlloc(sc.w.Asset, 1, 1), client.WithNonce(share))
			if err == nil {
				p.ProposalID = mFixedID(0xE0 + byte(round))
				mch, err = M.C.ProposeChannel(ctx, p)
			}
		}
		cancel()
		if err != nil {
			bad = append(bad, fmt.Sprintf("opening %d (same proposer share, another responder share) failed: %.200s", round+1, err.Error()))
			return bad
		}
		vsched.WaitCond("await-channel", func() bool { return len(V.Chans) > nb })
		vch := V.Chans[len(V.Chans)-1]
		var resp [32]byte // the share the victim's handler passed to Accept (Party.nextNonce)
		resp[0], resp[1] = byte(V.Idx+1), V.nonce
		want := refNonce(share, resp)
		if got := vch.Params().Nonce; got == nil || got.Cmp(want) != 0 {
			bad = append(bad, fmt.Sprintf("opening %d: the responder's channel nonce is not the hash of the proposer's share and the share the responder passed to Accept", round+1))
		}
		if got := mch.Params().Nonce; got == nil || got.Cmp(want) != 0 {
			bad = append(bad, fmt.Sprintf("opening %d: the proposer's channel nonce is not the hash of the proposer's share and the share the responder passed to Accept", round+1))
		}
		if vch.ID() != mch.ID() {
			bad = append(bad, fmt.Sprintf("opening %d: the two sides hold different channel ids", round+1))
		}
		ids = append(ids, vch.ID())
	}
	if len(ids) == 2 && ids[0] == ids[1] {
		bad = append(bad, "two openings with different responder shares have the same channel id")
	}
	return bad
}

// ---------------------------------------------------------------- the victim's response cannot be delivered

// undelivCase: the honest real M makes a request, the victim's handler answers it, and exactly one
// publication of the victim (the answer, or its version-0 signature during an opening) fails.
type undelivCase struct {
	Name    string // "<request>-<decision>/<what fails>"
	Request string // update | ledger | sub
	Accept  bool   // the victim's handler accepts (else rejects)
	Fails   string // type of the victim's publication that fails (its first one)
	Pts     []string
}

var undelivCases = func() (out []undelivCase) {
	add := func(req string, acc bool, fails, label string, pts ...string) {
		dec := map[bool]string{true: "accept", false: "reject"}[acc]
		out = append(out, undelivCase{Name: req + "-" + dec + "/" + label, Request: req, Accept: acc, Fails: fails, Pts: pts})
	}
	add("update", true, "*client.ChannelUpdateAccMsg", "acceptance", "open-v0", "open-v1", "sub-v1")
	add("update", false, "*client.ChannelUpdateRejMsg", "rejection", "open-v0", "open-v1")
	add("ledger", true, "*client.LedgerChannelProposalAccMsg", "acceptance", "nochan", "open-v1")
	add("ledger", true, "*client.ChannelUpdateAccMsg", "initial-signature", "nochan", "open-v1")
	add("ledger", false, "*client.ChannelProposalRejMsg", "rejection", "nochan", "open-v1")
	add("sub", true, "*client.SubChannelProposalAccMsg", "acceptance", "open-v1", "sub-v1")
	add("sub", true, "*client.ChannelUpdateAccMsg", "initial-signature", "open-v1")
	add("sub", false, "*client.ChannelProposalRejMsg", "rejection", "open-v1")
	return out
}()

func lookupUndeliv(name string) undelivCase {
	for _, c := range undelivCases {
		if c.Name == name {
			return c
		}
	}
	panic("harness: unknown undeliverable case " + name)
}

// undelivRun performs the honest request of M (10 s) with the failure armed; mode = fail | block.
func (sc *mScene) undelivRun(c undelivCase, mode string) (mRes string, failed []string) {
	V, M := sc.V, sc.M
	if c.Accept {
		V.OnProposal, V.OnUpdate = nil, nil
	} else {
		V.OnProposal, V.OnUpdate = rejectProposals, rejectUpdates
	}
	armed := true
	victimBus.FailNext = func(e *wire.Envelope) string {
		if armed && fmt.Sprintf("%T", e.Msg) == c.Fails {
			armed = false
			return mode
		}
		return ""
	}
	ctx, cancel := context.WithTimeout(context.Background(), 10*time.Second)
	defer cancel()
	var err error
	switch c.Request {
	case "update":
		err = sc.mled.Update(ctx, pay(int(sc.mled.Idx()), 1, false))
	case "ledger":
		var p *client.LedgerChannelProposalMsg
		if p, err = client.NewLedgerChannelProposal(60, M.Addr, mAlloc(sc.w.Asset, 5, 5),
			[]map[wallet.BackendID]wire.Address{M.WireID, V.WireID}, M.nextNonce()); err == nil {
			p.ProposalID = mFixedID(0xE8)
			_, err = M.C.ProposeChannel(ctx, p)
		}
	case "sub":
		var p *client.SubChannelProposalMsg
		if p, err = client.NewSubChannelProposal(sc.mled.ID(), 60, mAlloc(sc.w.Asset, 1, 1), M.nextNonce()); err == nil {
			p.ProposalID = mFixedID(0xE9)
			_, err = M.C.ProposeChannel(ctx, p)
		}
	}
	mRes = classify(err)
	if strings.HasPrefix(mRes, "err:") {
		mRes = "error"
	}
	return mRes, victimBus.Failed
}

// ---------------------------------------------------------------- hub, both ends of the virtual channel collude

// hubPairSpec: matching funding proposals for a virtual channel M <-> B on the hub's two ledger
// channels, both built by the harness (it signs with M's and with B's account).
type hubPairSpec struct {
	Init     *channel.State
	SigsFrom func(sc *mScene, st *channel.State) []wallet.Sig
}

func (sc *mScene) hubPairParams() *channel.Params {
	p, err := channel.NewParams(60, []map[wallet.BackendID]wallet.Address{sc.M.Addr, sc.B.Addr}, channel.NoApp(), big.NewInt(4712), false, true, channel.ZeroAux)
	if err != nil {
		panic("harness: " + err.Error())
	}
	return p
}

func (sc *mScene) signAs(acc wallet.Account, st *channel.State) wallet.Sig {
	s, err := channel.Sign(acc, st, 0)
	if err != nil {
		return garbageSig()
	}
	return s
}

// hubPairInit is the honest initial state of the colluding ends' virtual channel: 3:2 (and 1:1 of the
// second asset when the hub's channels are over two assets).
func (sc *mScene) hubPairInit() *channel.State {
	al := mAlloc(sc.w.Asset, 3, 2)
	if sc.two {
		al = mAlloc2([]int64{3, 2}, []int64{1, 1})
	}
	return &channel.State{ID: sc.hubPairParams().ID(), Version: 0, App: channel.NoApp(), Data: channel.NoData(), Allocation: *al}
}

// hubPairEnvs builds the two funding proposals (M's on the channel M - hub, B's on the channel B - hub).
func (sc *mScene) hubPairEnvs(mut func(init *channel.State), sigs func(init *channel.State) []wallet.Sig) []*wire.Envelope {
	if sc.B == nil || sc.led == nil || sc.ledB == nil {
		return nil
	}
	params := sc.hubPairParams()
	init := sc.hubPairInit()
	if mut != nil {
		mut(init)
	}
	var ss []wallet.Sig
	if sigs != nil {
		ss = sigs(init)
	} else {
		ss = []wallet.Sig{sc.signAs(sc.M.Acc, init), sc.signAs(sc.B.Acc, init)}
	}
	one := func(led *client.Channel, who *Party, im []channel.Index) *wire.Envelope {
		st := sc.signed(led)
		st.Version++
		debit := mapBals(init.Balances, im, 2)
		for a := range st.Balances {
			for p := range st.Balances[a] {
				st.Balances[a][p].Sub(st.Balances[a][p], debit[a][p])
			}
		}
		st.Locked = append(st.Locked, *channel.NewSubAlloc(params.ID(), init.Balances.Sum(), im))
		upd := &client.ChannelUpdateMsg{ChannelUpdate: client.ChannelUpdate{State: st, ActorIdx: 0}, Sig: sc.signAs(who.Acc, st)}
		return &wire.Envelope{Sender: who.WireID, Recipient: sc.V.WireID, Msg: &client.VirtualChannelFundingProposalMsg{ChannelUpdateMsg: *upd,
			Initial: channel.SignedState{Params: params.Clone(), State: init.Clone(), Sigs: cloneSigs(ss)}, IndexMap: im}}
	}
	// M and B are index 0 of their ledger channels with the hub: Alice = M -> {0,1}, Bob = B -> {1,0}
	return []*wire.Envelope{one(sc.led, sc.M, []channel.Index{0, 1}), one(sc.ledB, sc.B, []channel.Index{1, 0})}
}

// hubPairProbe: an update that names the virtual channel's id (no valid signature needed).
func (sc *mScene) hubPairProbe(from mIdent) []*wire.Envelope {
	if sc.B == nil {
		return nil
	}
	st := &channel.State{ID: sc.hubPairParams().ID(), Version: 1, App: channel.NoApp(), Data: channel.NoData(), Allocation: *mAlloc(sc.w.Asset, 2, 3)}
	return []*wire.Envelope{{Sender: from.Wire, Recipient: sc.V.WireID,
		Msg: &client.ChannelUpdateMsg{ChannelUpdate: client.ChannelUpdate{State: st, ActorIdx: 1}, Sig: garbageSig()}}}
}

func hubPairCases() (out []mcase) {
	add := func(name string, mut bool, envs func(sc *mScene) []*wire.Envelope) {
		out = append(out, mcase{Name: "hubpair/" + name, Cat: "hubpair", Sender: "M", Mut: mut, Pts: []string{"hub-collude", "hub2-collude"}, Envs: envs,
			Build: func(*mScene) wire.Msg { return nil }})
	}
	add("valid", false, func(sc *mScene) []*wire.Envelope { return sc.hubPairEnvs(nil, nil) })
	// fully signed by both ends, passes the hub's validator, but is not the version-0 state the hub
	// derives when it sets up its copy of the virtual channel
	add("initial-version-1", true, func(sc *mScene) []*wire.Envelope {
		return sc.hubPairEnvs(func(st *channel.State) { st.Version = 1 }, nil)
	})
	add("initial-final", true, func(sc *mScene) []*wire.Envelope {
		return sc.hubPairEnvs(func(st *channel.State) { st.IsFinal = true }, nil)
	})
	// consistent but wrong signatures: both proposals carry the same signatures over ANOTHER state
	add("initial-sigs-over-other-state", true, func(sc *mScene) []*wire.Envelope {
		return sc.hubPairEnvs(nil, func(st *channel.State) []wallet.Sig {
			o := st.Clone()
			o.Version = 7
			return []wallet.Sig{sc.signAs(sc.M.Acc, o), sc.signAs(sc.B.Acc, o)}
		})
	})
	add("initial-sigs-swapped", true, func(sc *mScene) []*wire.Envelope {
		return sc.hubPairEnvs(nil, func(st *channel.State) []wallet.Sig {
			return []wallet.Sig{sc.signAs(sc.B.Acc, st), sc.signAs(sc.M.Acc, st)}
		})
	})
	// after an honest matched funding the hub holds its own copy of the virtual channel (hub index 0, a
	// dummy account); a participant sends the hub a valid, correctly signed next state of THAT channel
	vupd := func(name string, signer func(sc *mScene) wallet.Account, actor channel.Index, final bool, from func(sc *mScene) mIdent) {
		add("vupdate-"+name, true, func(sc *mScene) []*wire.Envelope {
			if sc.B == nil {
				return nil
			}
			st := &channel.State{ID: sc.hubPairParams().ID(), Version: 1, IsFinal: final, App: channel.NoApp(), Data: channel.NoData(), Allocation: *mAlloc(sc.w.Asset, 2, 3)}
			return []*wire.Envelope{{Sender: from(sc).Wire, Recipient: sc.V.WireID,
				Msg: &client.ChannelUpdateMsg{ChannelUpdate: client.ChannelUpdate{State: st, ActorIdx: actor}, Sig: sc.signAs(signer(sc), st)}}}
		})
	}
	asM := func(sc *mScene) mIdent { return partyIdent(sc.M) }
	asB := func(sc *mScene) mIdent { return partyIdent(sc.B) }
	asS := func(sc *mScene) mIdent { return sc.S }
	accM := func(sc *mScene) wallet.Account { return sc.M.Acc }
	accB := func(sc *mScene) wallet.Account { return sc.B.Acc }
	vupd("by-alice", accM, 0, false, asM)
	vupd("by-bob", accB, 1, false, asB)
	vupd("by-bob-final", accB, 1, true, asB)
	vupd("by-bob-sent-by-alice", accB, 1, false, asM)
	vupd("by-bob-sent-by-stranger", accB, 1, false, asS)
	vupd("by-alice-actor-bob", accM, 1, false, asM)
	// (A5) a virtual channel proposal that names as the receiver's parent the virtual channel the hub merely holds
	add("vprop-on-held-virtual", true, func(sc *mScene) []*wire.Envelope {
		if sc.B == nil {
			return nil
		}
		p, err := client.NewVirtualChannelProposal(60, sc.M.Addr, mAlloc(sc.w.Asset, 1, 1),
			[]map[wallet.BackendID]wire.Address{sc.M.WireID, sc.V.WireID},
			[]channel.ID{mFixedID(0x69), sc.hubPairParams().ID()}, [][]channel.Index{{0, 1}, {1, 0}}, client.WithNonce(mFixedID(0x54)))
		if err != nil {
			panic("harness: " + err.Error())
		}
		p.ProposalID = mFixedID(0xC4)
		return []*wire.Envelope{{Sender: sc.M.WireID, Recipient: sc.V.WireID, Msg: p}}
	})
	// if the victim accepted, it has published its version-0 signature of the new channel: M answers with its
	// own, so that the opening proceeds to the funding of the new channel out of the held virtual channel
	out[len(out)-1].Follow = func(sc *mScene) []*wire.Envelope {
		for i := len(sc.w.Bus.Sent) - 1; i >= 0; i-- {
			r := sc.w.Bus.Sent[i]
			if acc, ok := r.Msg.(*client.ChannelUpdateAccMsg); ok && r.From == sc.V.Idx && acc.Version == 0 && acc.ChannelID != sc.hubPairParams().ID() {
				st := &channel.State{ID: acc.ChannelID, Version: 0, App: channel.NoApp(), Data: channel.NoData(), Allocation: *mAlloc(sc.w.Asset, 1, 1)}
				return []*wire.Envelope{{Sender: sc.M.WireID, Recipient: sc.V.WireID,
					Msg: &client.ChannelUpdateAccMsg{ChannelID: st.ID, Version: 0, Sig: sc.sign("M", st)}}}
			}
		}
		return nil
	}
	add("update-virtual-id-from-peer", true, func(sc *mScene) []*wire.Envelope { return sc.hubPairProbe(partyIdent(sc.M)) })
	add("update-virtual-id-from-stranger", true, func(sc *mScene) []*wire.Envelope { return sc.hubPairProbe(sc.S) })
	return out
}

// ---------------------------------------------------------------- a stray version-1 update while the victim is the proposee of an opening

// openingRun: the real M opens a channel of the given kind with the victim (whose handler accepts);
// every publication takes 5 ms, and as soon as the victim has seen the proposal a version-1 update of
// an unknown channel arrives from the stranger resp. from M. what = "<kind>/<stranger|peer>".
func (sc *mScene) openingRun(what string) string {
	kind, from, _ := strings.Cut(what, "/")
	V, M := sc.V, sc.M
	V.OnProposal, V.OnUpdate = nil, nil
	sc.w.Bus.Drop = func(*wire.Envelope) bool {
		vsched.Sleep(5 * time.Millisecond)
		return false
	}
	seen := len(V.ProposalsSeen)
	res := ""
	done := make(chan struct{}, 1)
	vsched.GoNamed("m-opening", func() {
		ctx, cancel := context.WithTimeout(context.Background(), 10*time.Second)
		defer cancel()
		var err error
		switch kind {
		case "ledger":
			var p *client.LedgerChannelProposalMsg
			if p, err = client.NewLedgerChannelProposal(60, M.Addr, mAlloc(sc.w.Asset, 5, 5),
				[]map[wallet.BackendID]wire.Address{M.WireID, V.WireID}, M.nextNonce()); err == nil {
				p.ProposalID = mFixedID(0xEA)
				_, err = M.C.ProposeChannel(ctx, p)
			}
		case "sub":
			var p *client.SubChannelProposalMsg
			if p, err = client.NewSubChannelProposal(sc.mled.ID(), 60, mAlloc(sc.w.Asset, 1, 1), M.nextNonce()); err == nil {
				p.ProposalID = mFixedID(0xEB)
				_, err = M.C.ProposeChannel(ctx, p)
			}
		}
		res = classify(err)
		vsched.Send(done, struct{}{})
	})
	vsched.WaitCond("await-proposal-at-victim", func() bool { return len(V.ProposalsSeen) > seen })
	who := sc.S
	if from == "peer" {
		who = partyIdent(M)
	}
	st := &channel.State{ID: mFixedID(0x7d), Version: 1, App: channel.NoApp(), Data: channel.NoData(), Allocation: *mAlloc(sc.w.Asset, 1, 1)}
	env := &wire.Envelope{Sender: who.Wire, Recipient: V.WireID,
		Msg: &client.ChannelUpdateMsg{ChannelUpdate: client.ChannelUpdate{State: st, ActorIdx: 0}, Sig: garbageSig()}}
	if err := sc.w.Bus.Inject(env, false); err != nil {
		panic("harness: inject: " + err.Error())
	}
	vsched.Recv(done)
	if strings.HasPrefix(res, "err:") {
		res = "error"
	}
	return "M's opening: " + res
}

// ---------------------------------------------------------------- the harness (as M) opens a sub-channel with the victim step by step

// acceptSubLong is a proposal handler that accepts sub-channel proposals in another goroutine with
// a long context (the victim then waits up to 30 s for the signature exchange and the funding).
func (sc *mScene) acceptSubLong(p *Party, cp client.ChannelProposal, r *client.ProposalResponder) {
	m, ok := cp.(*client.SubChannelProposalMsg)
	if !ok {
		p.acceptProposal(cp, r)
		return
	}
	acc := m.Accept(p.nextNonce())
	vsched.GoNamed("accept-sub-V", func() {
		d := 30 * time.Second
		if sc.acceptCtx > 0 {
			d = sc.acceptCtx
		}
		ctx, cancel := context.WithTimeout(context.Background(), d)
		defer cancel()
		if _, err := r.Accept(ctx, acc); err != nil {
			sc.threadErrs = append(sc.threadErrs, "V accept sub-channel: "+err.Error())
		}
	})
}

// proposeSubAsM sends the victim a hand-written sub-channel proposal of its ledger channel in M's
// name (initial balances and funding agreement set independently) and waits until the victim has
// published its version-0 signature; returns the sub-channel's initial state (nil: the victim did
// not get that far within 2 s).
func (sc *mScene) proposeSubAsM(bals, fa []int64) *channel.State {
	V := sc.V
	p, err := client.NewSubChannelProposal(sc.led.ID(), 60, mAlloc(sc.w.Asset, bals...), client.WithNonce(mFixedID(0x65)))
	if err != nil {
		panic("harness: " + err.Error())
	}
	p.ProposalID = mFixedID(0xEC)
	setSplit(p.Base(), bals, fa)
	n0 := len(sc.w.Bus.Sent)
	env := &wire.Envelope{Sender: sc.M.WireID, Recipient: V.WireID, Msg: p}
	if dec, _, why := mPrepare(env, false); dec == nil {
		panic("harness: sub-channel proposal not expressible: " + why)
	}
	if err := sc.w.Bus.Inject(env, false); err != nil {
		panic("harness: inject: " + err.Error())
	}
	for i := 0; i < 200; i++ {
		for _, r := range sc.w.Bus.Sent[n0:] {
			if acc, ok := r.Msg.(*client.ChannelUpdateAccMsg); ok && r.From == V.Idx && acc.Version == 0 {
				return &channel.State{ID: acc.ChannelID, Version: 0, App: channel.NoApp(), Data: channel.NoData(), Allocation: *mAlloc(sc.w.Asset, bals...)}
			}
		}
		vsched.Sleep(10 * time.Millisecond)
	}
	return nil
}

// completeSubAsM sends M's version-0 signature of the sub-channel.
func (sc *mScene) completeSubAsM(init *channel.State) {
	env := &wire.Envelope{Sender: sc.M.WireID, Recipient: sc.V.WireID,
		Msg: &client.ChannelUpdateAccMsg{ChannelID: init.ID, Version: 0, Sig: sc.sign("M", init)}}
	if err := sc.w.Bus.Inject(env, false); err != nil {
		panic("harness: inject: " + err.Error())
	}
}

// subFunding: the parent update that funds the sub-channel `id` with the given debits (index 0 = M, 1 = victim).
func (sc *mScene) subFunding(id channel.ID, locked int64, debit0, debit1 int64) *client.ChannelUpdateMsg {
	st := sc.signed(sc.led)
	st.Version++
	st.Balances[0][0].Sub(st.Balances[0][0], mBig(debit0))
	st.Balances[0][1].Sub(st.Balances[0][1], mBig(debit1))
	st.Locked = append(st.Locked, *channel.NewSubAlloc(id, []channel.Bal{mBig(locked)}, nil))
	return sc.finish(&updSpec{St: st, Actor: 0})
}

func (sc *mScene) dropVictim() {
	w, V := sc.w, sc.V
	w.Bus.Drop = func(e *wire.Envelope) bool { return w.partyOf(e.Sender) == V.Idx }
}

// ---- C07: funding agreement != balances (point open-v1: M is index 0, the victim index 1)

var splitFundMembers = []string{"debit-bals", "debit-fa", "debit-fa-reversed", "debit-bals-relayed-by-stranger"}

// splitFundRun: sub-channel proposal with balances 5:5 and funding agreement 0:10, accepted by the
// victim, opening completed; then the named funding update of the parent.
func (sc *mScene) splitFundRun(obs *msgsObs, member string) (crafts []mCrafted) {
	sc.V.OnProposal, sc.V.OnUpdate = sc.acceptSubLong, nil
	sc.dropVictim()
	obs.Items = []mItemObs{{Name: "splitfund/" + member, Cat: "splitfund", Mut: member != "debit-bals" && member != "debit-bals-relayed-by-stranger"}}
	it := &obs.Items[0]
	init := sc.proposeSubAsM([]int64{5, 5}, []int64{0, 10})
	if init == nil {
		it.NotExpr = "the victim did not accept the sub-channel proposal"
		return nil
	}
	sc.completeSubAsM(init)
	vsched.Sleep(100 * time.Millisecond)
	sc.pend = append(sc.pend, pendingAuto{Kind: "fund", ID: init.ID, Bals: init.Balances.Clone()})
	var up *client.ChannelUpdateMsg
	sender := sc.M.WireID
	switch member {
	case "debit-bals":
		up = sc.subFunding(init.ID, 10, 5, 5)
	case "debit-bals-relayed-by-stranger":
		up, sender = sc.subFunding(init.ID, 10, 5, 5), sc.S.Wire
	case "debit-fa":
		up = sc.subFunding(init.ID, 10, 0, 10)
	case "debit-fa-reversed":
		up = sc.subFunding(init.ID, 10, 10, 0)
	default:
		panic("harness: unknown member " + member)
	}
	env := &wire.Envelope{Sender: sender, Recipient: sc.V.WireID, Msg: up}
	dec, _, why := mPrepare(env, false)
	if dec == nil {
		it.NotExpr = why
		return nil
	}
	it.IsUpdate = true
	crafts = append(crafts, mCrafted{0, dec.Msg.(*client.ChannelUpdateMsg)})
	if err := sc.w.Bus.Inject(env, false); err != nil {
		panic("harness: inject: " + err.Error())
	}
	return crafts
}

// ---- C12: M never completes the opening, the funding update arrives later

var halfOpenMembers = []string{"fund-matching-early", "fund-matching", "fund-matching-relayed-by-stranger", "fund-other-amount", "nothing"}

// halfOpenRun: M proposes a sub-channel (2:4), the victim accepts and publishes its version-0
// signature, M never sends its own; 35 s later (the victim's Accept has failed after its 30 s) the
// funding update of the parent that would have funded that sub-channel arrives.
func (sc *mScene) halfOpenRun(obs *msgsObs, member string) {
	sc.V.OnProposal, sc.V.OnUpdate = sc.acceptSubLong, nil
	sc.dropVictim()
	obs.Items = []mItemObs{{Name: "halfopen/" + member, Cat: "halfopen", Mut: true}}
	it := &obs.Items[0]
	init := sc.proposeSubAsM([]int64{2, 4}, []int64{2, 4})
	if init == nil {
		it.NotExpr = "the victim did not accept the sub-channel proposal"
		return
	}
	if member != "fund-matching-early" { // (early: the funding update arrives while the victim still waits for M's signature)
		vsched.Sleep(35 * time.Second)
	}
	var up *client.ChannelUpdateMsg
	sender := sc.M.WireID
	switch member {
	case "fund-matching", "fund-matching-early":
		up = sc.subFunding(init.ID, 6, 2, 4)
	case "fund-matching-relayed-by-stranger":
		up, sender = sc.subFunding(init.ID, 6, 2, 4), sc.S.Wire
	case "fund-other-amount":
		up = sc.subFunding(init.ID, 4, 2, 2)
	case "nothing":
		it.NA = true
		return
	}
	env := &wire.Envelope{Sender: sender, Recipient: sc.V.WireID, Msg: up}
	if dec, _, why := mPrepare(env, false); dec == nil {
		it.NotExpr = why
		return
	}
	if err := sc.w.Bus.Inject(env, false); err != nil {
		panic("harness: inject: " + err.Error())
	}
}

// ---------------------------------------------------------------- (A1) the peer at sub-channel index 1 finalises and withdraws itself

// a1Cases (point sub-v0: the victim is index 0 of the parent and of the sub-channel): M, index 1 of
// the sub-channel, proposes the final sub-channel state; the victim's handler accepts; then M sends the
// matching withdrawal update of the parent itself (by the protocol index 0 would propose it).
func a1Cases() (out []mcase) {
	add := func(name string, envs func(sc *mScene) []*wire.Envelope) {
		out = append(out, mcase{Name: "a1/" + name, Cat: "a1", Sender: "M", Mut: true, Pts: []string{"sub-v0"}, Envs: envs, Build: func(*mScene) wire.Msg { return nil }})
	}
	fin := func(sc *mScene) *channel.State {
		st := sc.signed(sc.vsubs[0])
		st.Version++
		st.IsFinal = true
		// M (index 1) pays the victim 1
		st.Balances[0][1].Sub(st.Balances[0][1], mBig(1))
		st.Balances[0][0].Add(st.Balances[0][0], mBig(1))
		return st
	}
	add("sub-final-by-peer", func(sc *mScene) []*wire.Envelope {
		if len(sc.vsubs) == 0 {
			return nil
		}
		st := fin(sc)
		return []*wire.Envelope{{Sender: sc.M.WireID, Recipient: sc.V.WireID,
			Msg: &client.ChannelUpdateMsg{ChannelUpdate: client.ChannelUpdate{State: st, ActorIdx: 1}, Sig: sc.sign("M", st)}}}
	})
	add("parent-withdrawal-by-peer", func(sc *mScene) []*wire.Envelope {
		if len(sc.vsubs) == 0 {
			return nil
		}
		sub := sc.signed(sc.vsubs[0]) // the final state, if the victim accepted it
		st := sc.signed(sc.led)
		st.Version++
		rest, _, ok := mWithout(st.Locked, sub.ID)
		if !ok {
			return nil
		}
		st.Locked = rest
		for p := range st.Balances[0] {
			st.Balances[0][p].Add(st.Balances[0][p], sub.Balances[0][p])
		}
		return []*wire.Envelope{{Sender: sc.M.WireID, Recipient: sc.V.WireID,
			Msg: &client.ChannelUpdateMsg{ChannelUpdate: client.ChannelUpdate{State: st, ActorIdx: 1}, Sig: sc.sign("M", st)}}}
	})
	return out
}

// ---------------------------------------------------------------- "~syncrace": a sync message racing with an honest update the victim accepts

// syncRaceMembers: "<sender of the sync message>/<order>".
var syncRaceMembers = []string{"peer/sync-first", "peer/update-first", "stranger/sync-first", "stranger/update-first"}

// syncRaceRun: every publication of the victim takes 5 ms. A ChannelSyncMsg with the channel's current
// transaction (from M resp. the stranger) and the real M's honest next update (the victim's handler
// accepts) arrive 1 ms apart, in either order; afterwards the usual probes.
func (sc *mScene) syncRaceRun(member string) string {
	from, order, _ := strings.Cut(member, "/")
	V, w := sc.V, sc.w
	V.OnProposal, V.OnUpdate = nil, nil
	w.Bus.Drop = func(e *wire.Envelope) bool {
		if w.partyOf(e.Sender) == V.Idx {
			vsched.Sleep(5 * time.Millisecond)
			// The victim's sync REPLY is itself a ChannelSyncMsg: delivered to the real M it would be answered
			// again, and the two honest clients would answer each other for ever (observed: the execution runs
			// into the step cap). The sync request is the harness' doing, so its reply is not delivered.
			if _, isSync := e.Msg.(*client.ChannelSyncMsg); isSync {
				return true
			}
		}
		return false
	}
	who := partyIdent(sc.M)
	if from == "stranger" {
		who = sc.S
	}
	syncEnv := &wire.Envelope{Sender: who.Wire, Recipient: V.WireID, Msg: &client.ChannelSyncMsg{Phase: channel.Acting, CurrentTX: sc.curTX()}}
	res := ""
	done := make(chan struct{}, 1)
	update := func() {
		vsched.GoNamed("m-update", func() {
			ctx, cancel := context.WithTimeout(context.Background(), 10*time.Second)
			defer cancel()
			res = classify(sc.mled.Update(ctx, pay(int(sc.mled.Idx()), 1, false)))
			vsched.Send(done, struct{}{})
		})
	}
	inject := func() {
		if err := w.Bus.Inject(syncEnv, false); err != nil {
			panic("harness: inject: " + err.Error())
		}
	}
	if order == "sync-first" {
		inject()
		vsched.Sleep(time.Millisecond)
		update()
	} else {
		update()
		vsched.Sleep(time.Millisecond)
		inject()
	}
	vsched.Recv(done)
	if strings.HasPrefix(res, "err:") {
		res = "error"
	}
	return "M's update: " + res
}

// ---------------------------------------------------------------- "~fundlate": the funding update arrives after the victim's funding wait has timed out

var fundLateMembers = []string{"fund-matching-late", "fund-matching-late-relayed-by-stranger", "nothing"}

// fundLateRun (open-v1): the harness opens a sub-channel (2:4) with the victim in M's name and COMPLETES
// the version-0 signature exchange, so the victim (Accept context 10 s) waits for the parent funding
// update; M withholds it until 15 s later - the victim's Accept has returned its timeout error - and only
// then sends the correctly signed matching funding update.
func (sc *mScene) fundLateRun(obs *msgsObs, member string) {
	sc.acceptCtx = 10 * time.Second
	sc.V.OnProposal, sc.V.OnUpdate = sc.acceptSubLong, nil
	sc.dropVictim()
	obs.Items = []mItemObs{{Name: "fundlate/" + member, Cat: "fundlate", Mut: true}}
	it := &obs.Items[0]
	init := sc.proposeSubAsM([]int64{2, 4}, []int64{2, 4})
	if init == nil {
		it.NotExpr = "the victim did not accept the sub-channel proposal"
		return
	}
	sc.completeSubAsM(init)
	vsched.Sleep(15 * time.Second)
	if len(sc.threadErrs) == 0 {
		it.NotExpr = "the victim's Accept has not failed after 15 s: the case is vacuous"
		return
	}
	if member == "nothing" {
		it.NA = true
		return
	}
	sender := sc.M.WireID
	if strings.HasSuffix(member, "relayed-by-stranger") {
		sender = sc.S.Wire
	}
	env := &wire.Envelope{Sender: sender, Recipient: sc.V.WireID, Msg: sc.subFunding(init.ID, 6, 2, 4)}
	if dec, _, why := mPrepare(env, false); dec == nil {
		it.NotExpr = why
		return
	}
	if err := sc.w.Bus.Inject(env, false); err != nil {
		panic("harness: inject: " + err.Error())
	}
}

// ---------------------------------------------------------------- C08 "~heldupd": a sub-channel proposal while an accepted parent update is being handled

var heldUpdMembers = []string{"exceeds-after-update", "fits-after-update"}

// heldUpdRun (open-v1: M is the parent's index 0): the real M sends an honest parent update that moves 8 of
// its 10 to the victim; the victim's update handler waits 5 s of virtual time and then accepts. 1 s after
// the update the harness sends in M's name a sub-channel proposal whose funds for M are 5 (fit the
// parent's state before the update, exceed it afterwards) resp. 2 (still fit: control, the proposal
// handler - which rejects - must be invoked exactly once).
func (sc *mScene) heldUpdRun(obs *msgsObs, member string) {
	V, w := sc.V, sc.w
	w.Bus.Drop = nil
	V.OnProposal = rejectProposals
	V.OnUpdate = func(p *Party, _ *channel.State, _ client.ChannelUpdate, r *client.UpdateResponder) {
		vsched.Sleep(5 * time.Second)
		ctx, cancel := context.WithTimeout(context.Background(), 5*time.Second)
		defer cancel()
		if err := r.Accept(ctx); err != nil {
			p.HandlerErrs = append(p.HandlerErrs, "accept update: "+err.Error())
		}
	}
	control := member == "fits-after-update"
	obs.Items = []mItemObs{{Name: "heldupd/" + member, Cat: "proposal", Mut: !control, Control: control}}
	done := make(chan struct{}, 1)
	vsched.GoNamed("m-update", func() {
		ctx, cancel := context.WithTimeout(context.Background(), 20*time.Second)
		defer cancel()
		if err := sc.mled.Update(ctx, pay(int(sc.mled.Idx()), 8, false)); err != nil {
			sc.threadErrs = append(sc.threadErrs, "M's parent update: "+err.Error())
		}
		vsched.Send(done, struct{}{})
	})
	vsched.Sleep(time.Second)
	mFunds := int64(5)
	if control {
		mFunds = 2
	}
	p, err := client.NewSubChannelProposal(sc.led.ID(), 60, mAlloc(w.Asset, mFunds, 1), client.WithNonce(mFixedID(0x66)))
	if err != nil {
		panic("harness: " + err.Error())
	}
	p.ProposalID = mFixedID(0xED)
	env := &wire.Envelope{Sender: sc.M.WireID, Recipient: V.WireID, Msg: p}
	if dec, _, why := mPrepare(env, false); dec == nil {
		obs.Items[0].NotExpr = why
	} else if err := w.Bus.Inject(env, false); err != nil {
		panic("harness: inject: " + err.Error())
	}
	vsched.Recv(done)
	// the victim's answers to the crafted proposal must not reach the real M's proposal bookkeeping: harmless
	// (M knows no such proposal)
}

// ---------------------------------------------------------------- "~finundeliv-*": the acceptance of a FINAL sub-channel update cannot be delivered

var finUndelivMembers = []string{"then-parent-withdrawal", "then-nothing"}

// finUndelivRun (sub-v1: the victim is index 1 of the parent and of the sub-channel): the real M sends the
// correctly signed final sub-channel state (it pays 1), the victim's handler accepts, the publication of
// the victim's acceptance fails (mode fail: error at once, block: until the context ends). 11 s later the
// harness sends in M's name the parent update that withdraws that sub-channel with exactly the balances of
// the final state that was never agreed.
func (sc *mScene) finUndelivRun(obs *msgsObs, member, mode string) string {
	V := sc.V
	V.OnProposal, V.OnUpdate = nil, nil
	sc.w.Bus.Drop = nil
	obs.Items = []mItemObs{{Name: "finundeliv/" + member, Cat: "finundeliv", Mut: true}}
	it := &obs.Items[0]
	vsub, msub := sc.vsubs[0], sc.msubs[0]
	before := sc.signed(vsub)
	armed := true
	victimBus.FailNext = func(e *wire.Envelope) string {
		if acc, ok := e.Msg.(*client.ChannelUpdateAccMsg); ok && armed && acc.ChannelID == vsub.ID() {
			armed = false
			return mode
		}
		return ""
	}
	ctx, cancel := context.WithTimeout(context.Background(), 10*time.Second)
	res := classify(msub.Update(ctx, pay(int(msub.Idx()), 1, true)))
	cancel()
	obs.Undeliv = victimBus.Failed
	vsched.Sleep(11 * time.Second)
	if member == "then-nothing" {
		it.NA = true
	} else {
		fin := before.Clone()
		fin.Balances[0][0].Sub(fin.Balances[0][0], mBig(1))
		fin.Balances[0][1].Add(fin.Balances[0][1], mBig(1))
		st := sc.signed(sc.led)
		st.Version++
		rest, _, ok := mWithout(st.Locked, vsub.ID())
		if !ok {
			it.NotExpr = "the parent does not hold the sub-allocation"
			return res
		}
		st.Locked = rest
		for p := range st.Balances[0] {
			st.Balances[0][p].Add(st.Balances[0][p], fin.Balances[0][p])
		}
		env := &wire.Envelope{Sender: sc.M.WireID, Recipient: V.WireID, Msg: sc.finish(&updSpec{St: st, Actor: 0})}
		if dec, _, why := mPrepare(env, false); dec == nil {
			it.NotExpr = why
			return res
		}
		if err := sc.w.Bus.Inject(env, false); err != nil {
			panic("harness: inject: " + err.Error())
		}
	}
	if strings.HasPrefix(res, "err:") {
		res = "error"
	}
	return "M's final sub-channel update: " + res
}

var _ = persistence.NonPersistRestorer
