package clients

import (
	"context"
	"fmt"
	"math/big"
	"testing"
	"time"

	"perun.network/go-perun/channel"
	"perun.network/go-perun/client"
	"perun.network/go-perun/wallet"
	"verif/engine/explore"
	"verif/engine/report"
	"verif/engine/schedrun"
	"verif/engine/vsched"
)

// ---- C04: registering an outdated state never costs the honest party money ----
//
// A (index 0) is the adversary's side: a real client whose recorded transactions the harness
// hands to an adversary thread; it does not watch the channel (a malicious peer does not
// refute itself). B (index 1) is the honest party H with its real watcher. All payments go
// from A to B, so every older state is better for A and "H's balance in the newest state it
// agreed to" is a lower bound for every later state H signed.

type c04prog struct {
	Updates int  // payments of 2 from A to B
	J       int  // version the adversary registers (0..Updates-1)
	Sub     bool // the ledger channel has an open sub-channel (registered together with the parent)
	AWatch  bool // variant: A's own honest watcher runs too (it may be the one that refutes)
	// Late: the adversary registers version J only once A holds version J+1 fully signed (a
	// genuinely outdated state); otherwise as soon as version J exists.
	Late bool
	// FromStart: schedules are explored from the channel proposal on (incl. the start of the
	// watchers), not only from the open channel.
	FromStart bool
	// Final: the last payment also finalises the channel (the final state must reach the watcher
	// like every other one).
	Final bool
	// SubNew: the adversary registers the parent's OLD version together with the NEWEST
	// sub-channel state it holds (possibly still in flight to H), not the oldest one: H's
	// refutation with the sub-channel state it knows may then be refused by the ledger
	SubNew bool
}

func (p c04prog) name() string {
	n := fmt.Sprintf("u=%d/j=%d", p.Updates, p.J)
	if p.Sub {
		n += "/sub"
	}
	if p.AWatch {
		n += "/awatch"
	}
	if p.Late {
		n += "/late"
	}
	if p.FromStart {
		n += "/fromstart"
	}
	if p.Final {
		n += "/final"
	}
	if p.SubNew {
		n += "/subnew"
	}
	return n
}

type c04obs struct {
	errs       []string
	advErr     string
	advAt      int
	vAtReg     int64 // newest version H had made current when the adversary registered
	hBalAtReg  int64 // H's balance in that state (+ its sub-channel balance)
	subVAtReg  int64
	registered int64 // ledger's registered version at the end
	regSub     int64
	settle     string
	payout     int64
	viol       []string
	ledger     []string
	hFinal     int64
	hVer       int64 // H's current version at the end
	hSubVer    int64
	advSubV    int64 // sub-channel version the adversary registered
}

func c04exec(t *testing.T, ssc schedrun.Scenario, o vsched.Options) (*vsched.Sched, any) {
	pr := c04lookup(ssc.Name)
	obs := &c04obs{vAtReg: -1, subVAtReg: -1}
	s := vsched.Run(t, o, func() {
		l := NewLedger()
		w := NewWorld(2, l, true)
		if !pr.AWatch {
			w.NoWatch[0] = true
		}
		if pr.FromStart {
			vsched.StartExploration()
		}
		ca, cb, err := w.OpenLedger(0, 1, 10, 10)
		if err != nil {
			obs.errs = append(obs.errs, "open: "+err.Error())
			return
		}
		ctx, cancel := context.WithTimeout(context.Background(), 1000*time.Second)
		defer cancel()
		var sub0, sub1 *client.Channel
		firstParent := 0 // first parent version the adversary may register (it must lock the sub-channel)
		if pr.Sub {
			alloc := channel.NewAllocation(2, []wallet.BackendID{0}, w.Asset)
			alloc.SetAssetBalances(w.Asset, []channel.Bal{big.NewInt(3), big.NewInt(3)})
			prop, err := client.NewSubChannelProposal(ca.ID(), 60, alloc, w.P[0].nextNonce())
			if err != nil {
				obs.errs = append(obs.errs, "sub proposal: "+err.Error())
				return
			}
			nb := len(w.P[1].Chans)
			sub0, err = w.P[0].C.ProposeChannel(ctx, prop)
			if err != nil {
				obs.errs = append(obs.errs, "open sub: "+err.Error())
				return
			}
			vsched.WaitCond("await-sub", func() bool { return len(w.P[1].Chans) > nb })
			sub1 = w.P[1].Chans[len(w.P[1].Chans)-1]
			firstParent = 1
		}
		if !pr.FromStart {
			vsched.StartExploration()
		}
		target := uint64(pr.J + firstParent)
		advDone := make(chan struct{}, 1)
		// the adversary registers A's copy of version `target` as soon as it exists; WHEN it runs
		// after that is the scheduler's choice (one delay places it anywhere)
		vsched.GoNamed("adversary", func() {
			find := func(id channel.ID, v uint64) *channel.Transaction {
				for i := range w.Txs {
					if r := &w.Txs[i]; r.Who == 0 && r.Ch == id && r.Tx.Version == v {
						return &r.Tx
					}
				}
				return nil
			}
			vsched.WaitCond("adversary.wait", func() bool {
				if pr.Late && pr.Sub {
					return find(ca.ID(), target) != nil && find(sub0.ID(), 1) != nil
				}
				if pr.Late {
					return find(ca.ID(), target+1) != nil
				}
				return find(ca.ID(), target) != nil
			})
			tx := find(ca.ID(), target)
			var subs []channel.SignedState
			if pr.Sub { // the oldest sub-channel state A holds (SubNew: the newest)
				st := find(sub0.ID(), 0)
				if pr.SubNew {
					for v := uint64(1); find(sub0.ID(), v) != nil; v++ {
						st = find(sub0.ID(), v)
					}
				}
				subs = []channel.SignedState{{Params: sub0.Params(), State: st.State, Sigs: st.Sigs}}
				obs.advSubV = int64(st.State.Version)
			}
			w.tick()
			obs.advAt = w.clock
			for _, e := range w.Enabled {
				if e.Who == 1 && e.Ch == ca.ID() && int64(e.Version) > obs.vAtReg {
					obs.vAtReg = int64(e.Version)
					obs.hBalAtReg = decodeState(e.Enc).Balances[0][1].Int64()
				}
				if pr.Sub && e.Who == 1 && e.Ch == sub0.ID() && int64(e.Version) > obs.subVAtReg {
					obs.subVAtReg = int64(e.Version)
				}
			}
			if pr.Sub {
				for _, e := range w.Enabled {
					if e.Who == 1 && e.Ch == sub0.ID() && int64(e.Version) == obs.subVAtReg {
						obs.hBalAtReg += decodeState(e.Enc).Balances[0][1].Int64()
					}
				}
			}
			if err := l.RegisterAs("adversary", channel.AdjudicatorReq{Params: ca.Params(), Tx: *tx, Idx: 0}, subs); err != nil {
				obs.advErr = err.Error()
			}
			vsched.Send(advDone, struct{}{})
		})
		for i := 0; i < pr.Updates; i++ {
			if pr.Sub && i == 0 && !pr.SubNew {
				// one payment inside the sub-channel first: its newest state must be registered too
				if err := sub0.Update(ctx, pay(0, 1, false)); err != nil {
					obs.errs = append(obs.errs, "sub payment: "+classify(err))
				}
			}
			// a payment may fail once the adversary's registration has been noticed (the channel is
			// then in dispute); that is not an error of the honest party
			uctx, ucancel := context.WithTimeout(context.Background(), 10*time.Second)
			err := ca.Update(uctx, pay(0, 2, pr.Final && i == pr.Updates-1))
			ucancel()
			if err != nil {
				obs.errs = append(obs.errs, fmt.Sprintf("(payment %d: %s)", i, classify(err)))
			}
		}
		if pr.Sub && pr.SubNew {
			// the payment inside the sub-channel comes LAST: it is the update in flight when the
			// adversary registers the parent's old version together with the sub-channel's newest state
			if err := sub0.Update(ctx, pay(0, 1, false)); err != nil {
				obs.errs = append(obs.errs, "(sub payment: "+classify(err)+")")
			}
		}
		vsched.Recv(advDone)
		// H relies on its watcher: it only settles once the challenge period started by the
		// adversary's registration is over (a Settle inside the period would register H's current
		// state itself and mask a watcher that does not refute)
		vsched.Sleep(61 * time.Second)
		// H settles; a Settle that fails while a challenge period is running is retried after it
		var serr error
		for try := 0; try < 3; try++ {
			sctx, scancel := context.WithTimeout(context.Background(), 1000*time.Second) // a fresh context per call
			serr = cb.Settle(sctx, false)
			scancel()
			if serr == nil {
				break
			}
			vsched.Sleep(61 * time.Second)
		}
		obs.settle = "ok"
		if serr != nil {
			obs.settle = serr.Error()
		}
		vsched.Sleep(time.Second)
		obs.registered = l.Registered(ca.ID())
		if pr.Sub {
			obs.regSub = l.Registered(sub1.ID())
		}
		obs.payout = l.Payouts[key(w.P[1].Acc.Address())].Int64()
		obs.viol, obs.ledger = l.Viol, l.Log
		obs.hFinal = cb.State().Balances[0][1].Int64()
		obs.hVer = int64(cb.State().Version)
		if pr.Sub {
			obs.hSubVer = int64(sub1.State().Version)
		}
	})
	return s, obs
}

func c04check(ssc schedrun.Scenario, s *vsched.Sched, o any) []schedrun.Verdict {
	pr := c04lookup(ssc.Name)
	obs := o.(*c04obs)
	site := fmt.Sprintf("u=%d", pr.Updates)
	if pr.Sub {
		site += "/sub"
	}
	if pr.AWatch {
		site += "/awatch"
	}
	if pr.Late {
		site += "/late"
	}
	if pr.Final {
		site += "/final"
	}
	if pr.SubNew {
		site += "/subnew"
	}
	var out []schedrun.Verdict
	seen := map[string]bool{}
	add := func(clause, format string, a ...any) {
		if seen[clause] {
			return
		}
		seen[clause] = true
		out = append(out, schedrun.Verdict{Property: "C04", Clause: clause, Site: site,
			Detail: fmt.Sprintf(format, a...) + fmt.Sprintf("\n    adversary registered v%d (err=%q) when H had v%d (H balance %d); final registered v%d; settle=%s payout=%d errs=%v ledger=%v",
				pr.J, obs.advErr, obs.vAtReg, obs.hBalAtReg, obs.registered, obs.settle, obs.payout, obs.errs, obs.ledger)})
	}
	if len(s.Panics) > 0 {
		add("panic", "%s", firstLines(s.Panics[0], 14))
		return out
	}
	if s.Deadlock {
		add("deadlock", "the driver cannot finish:\n%s", s.Dump())
		return out
	}
	if s.Capped {
		return nil
	}
	for _, e := range obs.errs {
		if e[0] != '(' {
			add("setup-failed", "set-up step failed: %v", obs.errs)
			return out
		}
	}
	if len(obs.viol) > 0 {
		add("ledger-invariant", "the ledger's conservation checks failed: %v", obs.viol)
	}
	if obs.vAtReg < 0 {
		add("no-state-at-H", "H had no current state when the adversary registered")
		return out
	}
	if obs.registered < obs.vAtReg {
		add("not-refuted", "the ledger ends with version %d registered, H had agreed to v%d before the adversary registered", obs.registered, obs.vAtReg)
	}
	if pr.Sub && obs.regSub < obs.subVAtReg {
		add("substate-not-refuted", "the sub-channel ends with version %d registered, H had agreed to v%d", obs.regSub, obs.subVAtReg)
	}
	if len(out) > 0 {
		return out
	}
	// The adversary registered what was H's newest state at that moment, but H - not yet aware of
	// the registration - completed an update that was in flight. The newer state is then never
	// registered (the watcher only reacts to events) and H's Settle, which always presents the
	// current transaction, is refused for good. One mechanism, one signature (site names the
	// mechanism, not the program), so that it can be listed as a known finding.
	// ... only if the adversary registered what WAS H's newest state at that moment (parent and, if
	// any, sub-channel): anything older at registration time is an ordinary outdated registration.
	current := obs.vAtReg <= int64(pr.J+map[bool]int{true: 1, false: 0}[pr.Sub]) && (!pr.Sub || obs.subVAtReg <= obs.advSubV)
	inFlight := current && obs.advErr == "" && (obs.registered < obs.hVer || (pr.Sub && obs.regSub < obs.hSubVer))
	if obs.settle != "ok" || obs.payout < obs.hBalAtReg {
		clause, st := "settle-failed", site
		if obs.settle == "ok" {
			clause = "payout-too-low"
		}
		if inFlight {
			clause, st = "newer-state-never-registered", "update-in-flight"
			if pr.Sub && obs.regSub < obs.hSubVer {
				st += "/sub-channel"
			}
		}
		seen[clause] = true
		out = append(out, schedrun.Verdict{Property: "C04", Clause: clause, Site: st,
			Detail: fmt.Sprintf("H's settlement: %s, payout %d, balance in the newest state it had agreed to when the adversary registered: %d; ledger ends with v%d registered (sub-channel v%d), H holds v%d (sub-channel v%d)\n    program %s: adversary registered v%d (err=%q) when H had v%d; errs=%v ledger=%v",
				obs.settle, obs.payout, obs.hBalAtReg, obs.registered, obs.regSub, obs.hVer, obs.hSubVer, pr.name(), pr.J, obs.advErr, obs.vAtReg, obs.errs, obs.ledger)})
	}
	return out
}

func c04digest(_ schedrun.Scenario, s *vsched.Sched, o any) string {
	obs := o.(*c04obs)
	return fmt.Sprintf("%v|%v|%v|%v|%v|%v|%v|%v|%v", obs.advErr, obs.vAtReg, obs.registered, obs.regSub, obs.settle, obs.payout, obs.errs, len(s.Panics) > 0, s.Deadlock)
}

var c04table = map[string]c04prog{}

func c04programs(thorough bool) []c04prog {
	var out []c04prog
	maxU := 2
	if thorough {
		maxU = 3
	}
	for u := 1; u <= maxU; u++ {
		for j := 0; j < u; j++ {
			out = append(out, c04prog{Updates: u, J: j})
		}
	}
	out = append(out, c04prog{Updates: 1, J: 0, AWatch: true}, c04prog{Updates: 2, J: 1, AWatch: true})
	out = append(out, c04prog{Updates: 1, J: 0, Sub: true})
	out = append(out, c04prog{Updates: 1, J: 0, Late: true}, c04prog{Updates: 2, J: 0, Late: true}, c04prog{Updates: 2, J: 1, Late: true})
	out = append(out, c04prog{Updates: 1, J: 0, Late: true, FromStart: true})
	out = append(out, c04prog{Updates: 1, J: 0, Sub: true, Late: true})
	out = append(out, c04prog{Updates: 1, J: 0, Sub: true, Late: true, SubNew: true}, c04prog{Updates: 2, J: 0, Sub: true, Late: true, SubNew: true})
	out = append(out, c04prog{Updates: 1, J: 0, Late: true, Final: true}, c04prog{Updates: 2, J: 1, Late: true, Final: true}, c04prog{Updates: 2, J: 0, Final: true})
	if thorough {
		out = append(out, c04prog{Updates: 2, J: 0, Sub: true}, c04prog{Updates: 2, J: 1, Sub: true})
	}
	return out
}

func c04scenarios(res *report.Result) []schedrun.Scenario {
	var out []schedrun.Scenario
	for _, p := range c04programs(res.Thorough()) {
		c04table[p.name()] = p
		b := 1
		if res.Thorough() && p.Updates <= 2 && !p.Sub {
			b = 2
		}
		w := 2000
		if b == 2 {
			w = 400000
		}
		out = append(out, schedrun.Scenario{Name: p.name(), Mode: explore.Delay, Bound: b, MaxSteps: 400000, Weight: w, Postpone: b > 0})
	}
	return out
}

func c04lookup(n string) c04prog {
	if p, ok := c04table[n]; ok {
		return p
	}
	for _, th := range []bool{false, true} {
		for _, p := range c04programs(th) {
			c04table[p.name()] = p
		}
	}
	p, ok := c04table[n]
	if !ok {
		panic("unknown scenario " + n)
	}
	return p
}

var c04harness = schedrun.Harness{Name: "clients", Scenarios: c04scenarios, Exec: c04exec, Check: c04check, Digest: c04digest,
	Describe: func(_ schedrun.Scenario, s *vsched.Sched, o any) string { return fmt.Sprintf("  %+v", *o.(*c04obs)) }, MaxExecsPerProcess: 4000}

func init() { register("C04", &c04harness) }
