package clients

import (
	"context"
	"errors"
	"fmt"
	"math/big"
	"sort"
	"strings"
	"testing"
	"time"

	"perun.network/go-perun/channel"
	"perun.network/go-perun/client"
	"perun.network/go-perun/wallet"
	"perun.network/go-perun/wire"
	"verif/engine/explore"
	"verif/engine/report"
	"verif/engine/schedrun"
	"verif/engine/vsched"
)

// ---- C06: update protocol agreement ----

type upd struct {
	Who int   // proposer: 0 = A, 1 = B
	Ch  int   // channel index (0 or 1)
	Amt int64 // payment towards the peer
}

// decisions on incoming requests: 'a' accept, 'r' reject, 'd' accept after a delay, 'c' accept
// with a context that ends the moment the acceptance has been handed to the bus (an acceptance
// that was sent counts: the proposer will enable the update)
type c06prog struct {
	// Early: the first update of a channel races with two overlapping channel openings at the
	// responder (it is held in the responder's version-1 request cache until the opening is done)
	Early   bool
	Name    string
	Chans   int
	Threads [][]upd
	DecA    string // A's decisions, consumed in order (default accept)
	DecB    string
}

var c06table = map[string]c06prog{}

type callRec struct {
	Who, Ch   int
	Kind      string // ok, rejected, timeout, err:...
	Proposed  string // encoding of the proposed state
	Version   uint64
	Call, Ret int
}

type c06obs struct {
	calls   []callRec
	enabled []enabledEv
	final   [2][]string // per party, per channel: encoding of the final current state
	phases  [2][]string
	probe   []string
	hErrs   []string
	openErr string
	nOpen   int
	chIDs   []channel.ID
	sent    int
}

func classify(err error) string {
	var rt client.RequestTimedOutError
	var pr client.PeerRejectedError
	switch {
	case err == nil:
		return "ok"
	case errors.As(err, &rt):
		return "timeout"
	case errors.As(err, &pr):
		return "rejected"
	default:
		return "err:" + err.Error()
	}
}

// cancelOnAcc: per party, the cancel function of the context its handler is accepting with
// (decision 'c'); one execution at a time, reset by c06exec.
var cancelOnAcc [4]context.CancelFunc

func decider(dec *string) func(p *Party, cur *channel.State, u client.ChannelUpdate, r *client.UpdateResponder) {
	return func(p *Party, _ *channel.State, _ client.ChannelUpdate, r *client.UpdateResponder) {
		d := byte('a')
		if len(*dec) > 0 {
			d, *dec = (*dec)[0], (*dec)[1:]
		}
		ctx, cancel := context.WithTimeout(context.Background(), 5*time.Second)
		defer cancel()
		switch d {
		case 'r':
			if err := r.Reject(ctx, "no"); err != nil {
				p.HandlerErrs = append(p.HandlerErrs, "reject: "+err.Error())
			}
		case 'c':
			cctx, ccancel := context.WithCancel(context.Background())
			defer ccancel()
			cancelOnAcc[p.Idx] = ccancel // called by the bus hook when this party publishes an update acceptance
			if err := r.Accept(cctx); err != nil {
				p.HandlerErrs = append(p.HandlerErrs, "accept (context ended after the acceptance was sent): "+err.Error())
			}
			cancelOnAcc[p.Idx] = nil
		case 'd':
			vsched.Sleep(100 * time.Millisecond) // a slow user: other traffic may overtake
			fallthrough
		default:
			if err := r.Accept(ctx); err != nil {
				p.HandlerErrs = append(p.HandlerErrs, "accept: "+err.Error())
			}
		}
	}
}

func c06exec(t *testing.T, ssc schedrun.Scenario, o vsched.Options) (*vsched.Sched, any) {
	pr := c06lookup(ssc.Name)
	obs := &c06obs{}
	if pr.Early {
		return c06execEarly(t, pr, o)
	}
	s := vsched.Run(t, o, func() {
		w := NewWorld(2, nil, false)
		decA, decB := pr.DecA, pr.DecB
		w.P[0].OnUpdate, w.P[1].OnUpdate = decider(&decA), decider(&decB)
		cancelOnAcc = [4]context.CancelFunc{}
		w.Bus.Drop = func(e *wire.Envelope) bool {
			if _, ok := e.Msg.(*client.ChannelUpdateAccMsg); ok {
				if i := w.partyOf(e.Sender); i >= 0 && i < len(cancelOnAcc) && cancelOnAcc[i] != nil {
					cancelOnAcc[i]()
				}
			}
			return false
		}
		chans := [2][]*client.Channel{}
		for c := 0; c < pr.Chans; c++ {
			ca, cb, err := w.OpenLedger(0, 1, 10, 10)
			if err != nil {
				obs.openErr = err.Error()
				return
			}
			chans[0], chans[1] = append(chans[0], ca), append(chans[1], cb)
			obs.chIDs = append(obs.chIDs, ca.ID())
		}
		obs.nOpen = len(w.Enabled)
		vsched.StartExploration()
		done := make(chan struct{}, 8)
		for ti, th := range pr.Threads {
			ti, th := ti, th
			vsched.GoNamed(fmt.Sprintf("updater%d", ti), func() {
				for _, u := range th {
					ctx, cancel := context.WithTimeout(context.Background(), 5*time.Second)
					rec := callRec{Who: u.Who, Ch: u.Ch}
					w.tick()
					rec.Call = w.clock
					err := chans[u.Who][u.Ch].Update(ctx, func(s *channel.State) {
						pay(u.Who, u.Amt, false)(s)
						nx := s.Clone()
						nx.Version++
						rec.Proposed, rec.Version = fxEnc(nx), nx.Version
					})
					cancel()
					w.tick()
					rec.Ret = w.clock
					rec.Kind = classify(err)
					obs.calls = append(obs.calls, rec)
				}
				vsched.Send(done, struct{}{})
			})
		}
		for range pr.Threads {
			vsched.Recv(done)
		}
		vsched.Sleep(30 * time.Second) // longer than every request timeout: stale requests are answered or dropped
		obs.enabled = append([]enabledEv{}, w.Enabled[obs.nOpen:]...)
		// follow-up probe: after quiescence both parties are ready for further updates
		timedOut := false
		for _, c := range obs.calls {
			timedOut = timedOut || c.Kind == "timeout"
		}
		if !timedOut {
			decA, decB = "", ""
			for c := 0; c < pr.Chans; c++ {
				for who := 0; who < 2; who++ {
					ctx, cancel := context.WithTimeout(context.Background(), 5*time.Second)
					err := chans[who][c].Update(ctx, pay(who, 1, false))
					cancel()
					obs.probe = append(obs.probe, fmt.Sprintf("probe ch%d by %d: %s", c, who, classify(err)))
				}
			}
			vsched.Sleep(time.Second)
		}
		for who := 0; who < 2; who++ {
			for c := 0; c < pr.Chans; c++ {
				obs.final[who] = append(obs.final[who], fxEnc(chans[who][c].State()))
				obs.phases[who] = append(obs.phases[who], chans[who][c].Phase().String())
			}
			obs.hErrs = append(obs.hErrs, w.P[who].HandlerErrs...)
		}
		obs.sent = len(w.Bus.Sent)
	})
	return s, obs
}

// c06execEarly: A opens two channels to B concurrently while B's funding is held back, so both
// openings overlap at B; A updates the first channel at once - B has not registered it yet and
// keeps the request in its version-1 cache; B's user rejects it when it is finally handled
// (DecB[0]); later requests are decided by the rest of DecB. Then the second opening completes.
func c06execEarly(t *testing.T, pr c06prog, o vsched.Options) (*vsched.Sched, any) {
	obs := &c06obs{}
	s := vsched.Run(t, o, func() {
		gate := &gatedFunder{open: map[channel.ID]bool{}}
		funderOverride = func(i int) channel.Funder {
			if i == 1 {
				return gate
			}
			return nil
		}
		w := NewWorld(2, nil, false)
		funderOverride = nil
		decA, decB := pr.DecA, pr.DecB
		w.P[0].OnUpdate, w.P[1].OnUpdate = decider(&decA), decider(&decB)
		opened := make(chan *client.Channel, 2)
		open := func(k int) {
			vsched.GoNamed(fmt.Sprintf("open%d", k), func() {
				alloc := channel.NewAllocation(2, []wallet.BackendID{0}, w.Asset)
				alloc.SetAssetBalances(w.Asset, []channel.Bal{big.NewInt(10), big.NewInt(10)})
				prop, err := client.NewLedgerChannelProposal(60, w.P[0].Addr, alloc, []map[wallet.BackendID]wire.Address{w.P[0].WireID, w.P[1].WireID}, w.P[0].nextNonce())
				if err != nil {
					panic(err)
				}
				ctx, cancel := context.WithTimeout(context.Background(), 60*time.Second)
				defer cancel()
				ch, err := w.P[0].C.ProposeChannel(ctx, prop)
				if err != nil {
					obs.openErr = err.Error()
				}
				vsched.Send(opened, ch)
			})
		}
		open(0)
		ch0 := vsched.Recv(opened)
		open(1)
		ch1 := vsched.Recv(opened)
		if obs.openErr != "" || ch0 == nil || ch1 == nil {
			return
		}
		// both openings are now pending at B (funding held back)
		vsched.WaitCond("both-pending", func() bool { return len(gate.pending) == 2 })
		obs.chIDs = []channel.ID{ch0.ID(), ch1.ID()}
		obs.nOpen = len(w.Enabled)
		vsched.StartExploration()
		done := make(chan struct{}, 1)
		vsched.GoNamed("updater0", func() {
			ctx, cancel := context.WithTimeout(context.Background(), 5*time.Second)
			rec := callRec{Who: 0, Ch: 0}
			w.tick()
			rec.Call = w.clock
			err := ch0.Update(ctx, func(s *channel.State) {
				pay(0, 1, false)(s)
				nx := s.Clone()
				nx.Version++
				rec.Proposed, rec.Version = fxEnc(nx), nx.Version
			})
			cancel()
			w.tick()
			rec.Ret = w.clock
			rec.Kind = classify(err)
			obs.calls = append(obs.calls, rec)
			vsched.Send(done, struct{}{})
		})
		vsched.Sleep(100 * time.Millisecond) // the request reaches B and is cached
		gate.open[ch0.ID()] = true           // opening 0 completes at B: the cached request is handled
		vsched.Recv(done)
		vsched.Sleep(100 * time.Millisecond)
		gate.open[ch1.ID()] = true // opening 1 completes at B
		vsched.WaitCond("B-has-both", func() bool { return len(w.P[1].Chans) == 2 })
		vsched.Sleep(30 * time.Second)
		obs.enabled = append([]enabledEv{}, w.Enabled[obs.nOpen:]...)
		// only the events of updates (version > 0) belong to the update protocol
		k := 0
		for _, e := range obs.enabled {
			if e.Version > 0 {
				obs.enabled[k] = e
				k++
			}
		}
		obs.enabled = obs.enabled[:k]
		timedOut := false
		for _, c := range obs.calls {
			timedOut = timedOut || c.Kind == "timeout"
		}
		chansA := []*client.Channel{ch0, ch1}
		chansB := make([]*client.Channel, 2)
		for _, c := range w.P[1].Chans {
			for i, id := range obs.chIDs {
				if c.ID() == id {
					chansB[i] = c
				}
			}
		}
		if !timedOut {
			decA, decB = "", ""
			for c := 0; c < 2; c++ {
				for who, chs := range [][]*client.Channel{chansA, chansB} {
					ctx, cancel := context.WithTimeout(context.Background(), 5*time.Second)
					err := chs[c].Update(ctx, pay(who, 2, false))
					cancel()
					obs.probe = append(obs.probe, fmt.Sprintf("probe ch%d by %d: %s", c, who, classify(err)))
				}
			}
			vsched.Sleep(time.Second)
		}
		for who, chs := range [][]*client.Channel{chansA, chansB} {
			for c := 0; c < 2; c++ {
				obs.final[who] = append(obs.final[who], fxEnc(chs[c].State()))
				obs.phases[who] = append(obs.phases[who], chs[c].Phase().String())
			}
			obs.hErrs = append(obs.hErrs, w.P[who].HandlerErrs...)
		}
	})
	return s, obs
}

func c06check(ssc schedrun.Scenario, s *vsched.Sched, o any) []schedrun.Verdict {
	pr := c06lookup(ssc.Name)
	obs := o.(*c06obs)
	site := c06site(pr)
	var out []schedrun.Verdict
	seen := map[string]bool{}
	add := func(clause, format string, a ...any) {
		if seen[clause] {
			return
		}
		seen[clause] = true
		out = append(out, schedrun.Verdict{Property: "C06", Clause: clause, Site: site, Detail: fmt.Sprintf(format, a...) + "\n    calls=" + fmt.Sprintf("%+v", summarize(obs))})
	}
	if len(s.Panics) > 0 {
		add("panic", "%s", firstLines(s.Panics[0], 14))
		return out
	}
	if s.Deadlock {
		add("deadlock", "the driver cannot finish:\n%s", s.Dump())
		return out
	}
	if s.Capped {
		return nil
	}
	if obs.openErr != "" {
		add("open-failed", "opening the channel failed: %s", obs.openErr)
		return out
	}
	timedOut := false
	for _, c := range obs.calls {
		if c.Kind == "timeout" {
			timedOut = true
		}
		if strings.HasPrefix(c.Kind, "err:") && !strings.Contains(c.Kind, "locking machine mutex in time") {
			add("unexpected-error", "Update returned %s", c.Kind)
		}
	}
	// at every moment the current transaction is fully signed
	for _, e := range obs.enabled {
		if !e.Signed {
			add("enabled-not-fully-signed", "transaction v%d enabled at party %d is not signed by everybody", e.Version, e.Who)
		}
	}
	if timedOut {
		return out // the statement exempts everything else once a request timed out
	}
	for ci, id := range obs.chIDs {
		// version drift and forks over the union of both Enabled streams
		cur := [2]uint64{}
		byVer := map[uint64]string{}
		for _, e := range obs.enabled {
			if e.Ch != id {
				continue
			}
			cur[e.Who] = e.Version
			if d := int64(cur[0]) - int64(cur[1]); d > 1 || d < -1 {
				// before the first event of a party its version is 0
				add("version-drift", "versions differ by more than one: %d vs %d on channel %d", cur[0], cur[1], ci)
			}
			if enc, ok := byVer[e.Version]; ok && enc != e.Enc {
				add("fork", "two different fully signed states of version %d on channel %d", e.Version, ci)
			}
			byVer[e.Version] = e.Enc
		}
		// per call
		for _, c := range obs.calls {
			if c.Ch != ci {
				continue
			}
			at := [2]int{-1, -1} // Enabled time of the proposed state per party
			for _, e := range obs.enabled {
				if e.Ch == id && e.Enc == c.Proposed {
					at[e.Who] = e.At
				}
			}
			switch c.Kind {
			case "ok":
				if at[c.Who] < 0 || at[c.Who] > c.Ret {
					add("success-not-enabled-at-proposer", "Update returned nil but the proposed state v%d was not current at the proposer when it returned", c.Version)
				}
				if at[1-c.Who] < 0 {
					add("success-not-enabled-at-peer", "Update returned nil but the peer never made the proposed state v%d current", c.Version)
				}
			case "rejected":
				if at[0] >= 0 || at[1] >= 0 {
					add("rejected-but-enabled", "Update was rejected but the proposed state v%d became current somewhere", c.Version)
				}
			}
		}
		if obs.final[0][ci] != obs.final[1][ci] {
			add("final-states-differ", "after quiescence the parties hold different current states on channel %d", ci)
		}
		if obs.phases[0][ci] != "Acting" || obs.phases[1][ci] != "Acting" {
			add("not-ready", "after quiescence the phases are %s / %s", obs.phases[0][ci], obs.phases[1][ci])
		}
	}
	for _, p := range obs.probe {
		if !strings.HasSuffix(p, ": ok") {
			add("probe-failed", "follow-up update failed: %s", p)
		}
	}
	return out
}

func summarize(o *c06obs) []string {
	var out []string
	for _, c := range o.calls {
		out = append(out, fmt.Sprintf("%d@ch%d:v%d:%s", c.Who, c.Ch, c.Version, c.Kind))
	}
	out = append(out, "|enabled:")
	for _, e := range o.enabled {
		out = append(out, fmt.Sprintf("%d:v%d", e.Who, e.Version))
	}
	out = append(out, o.probe...)
	out = append(out, o.hErrs...)
	return out
}

func c06digest(_ schedrun.Scenario, s *vsched.Sched, o any) string {
	obs := o.(*c06obs)
	x := summarize(obs)
	sort.Strings(x[:len(obs.calls)])
	return fmt.Sprintf("%v|%v|%v", x, len(s.Panics) > 0, s.Deadlock)
}

func c06site(pr c06prog) string {
	var ths []string
	for _, th := range pr.Threads {
		var u []string
		for _, x := range th {
			u = append(u, fmt.Sprintf("%c%d", 'A'+x.Who, x.Ch))
		}
		ths = append(ths, strings.Join(u, ","))
	}
	return fmt.Sprintf("%s/decA=%s,decB=%s", strings.Join(ths, "|"), pr.DecA, pr.DecB)
}

func c06programs(thorough bool) []c06prog {
	var out []c06prog
	add := func(chans int, threads [][]upd, decA, decB string) {
		// every update of a program proposes a different state (distinct amounts): otherwise a
		// rejected proposal and a later accepted one are byte-identical and "the rejected state never
		// becomes current" cannot be judged
		k := int64(0)
		cp := make([][]upd, len(threads))
		for i, th := range threads {
			for _, u := range th {
				k++
				u.Amt = k
				cp[i] = append(cp[i], u)
			}
		}
		threads = cp
		p := c06prog{Chans: chans, Threads: threads, DecA: decA, DecB: decB}
		p.Name = fmt.Sprintf("%dch/%s", chans, c06site(p))
		out = append(out, p)
	}
	A, B := upd{0, 0, 1}, upd{1, 0, 2}
	decs := []string{"a", "r", "d"}
	// one update
	for _, d := range decs {
		add(1, [][]upd{{A}}, "", d)
	}
	// two sequential updates by one thread: AA, AB, BA with every decision pair
	for _, seq := range [][]upd{{A, {0, 0, 3}}, {A, B}, {B, A}} {
		for _, d1 := range decs {
			for _, d2 := range decs {
				decA, decB := "", ""
				for i, u := range seq {
					d := []string{d1, d2}[i]
					if u.Who == 0 {
						decB += d
					} else {
						decA += d
					}
				}
				add(1, [][]upd{seq}, decA, decB)
			}
		}
	}
	// the acceptor's context ends the moment its acceptance is on the bus
	add(1, [][]upd{{A}}, "", "c")
	add(1, [][]upd{{A, {0, 0, 3}}}, "", "ca")
	add(1, [][]upd{{A, B}}, "c", "c")
	add(1, [][]upd{{B, A}}, "c", "a")
	// two threads of the same party, and both parties concurrently
	add(1, [][]upd{{A}, {{0, 0, 3}}}, "", "aa")
	add(1, [][]upd{{A}, {{0, 0, 3}}}, "", "ra")
	add(1, [][]upd{{A}, {B}}, "a", "a")
	add(1, [][]upd{{A}, {B}}, "r", "a")
	// two channels between the same pair
	add(2, [][]upd{{A}, {{0, 1, 3}}}, "", "aa")
	add(2, [][]upd{{A}, {{1, 1, 2}}}, "a", "a")
	// ... the same version number on both channels, one of the requests rejected: a response must
	// never be taken for the other channel's request
	add(2, [][]upd{{A, {0, 1, 3}}}, "", "ra")
	add(2, [][]upd{{A, {0, 1, 3}}}, "", "ar")
	add(2, [][]upd{{A}, {{0, 1, 3}}}, "", "ra")
	add(2, [][]upd{{{1, 0, 2}, {1, 1, 2}}}, "ra", "")
	// the first update of a channel while two openings overlap at the responder (version-1 cache)
	for _, d := range []string{"ra", "aa", "rr"} {
		p := c06prog{Early: true, Chans: 2, Threads: [][]upd{{A}}, DecB: d}
		p.Name = fmt.Sprintf("early/%s", c06site(p))
		out = append(out, p)
	}
	if thorough {
		add(1, [][]upd{{A, B, A}}, "a", "aa")
		add(1, [][]upd{{A, A}, {B}}, "a", "aa")
		add(1, [][]upd{{A, B}, {B, A}}, "aa", "aa")
		add(2, [][]upd{{A, {0, 1, 3}}, {{1, 1, 2}, B}}, "aa", "aa")
		add(1, [][]upd{{A, A, A, A}}, "", "arda")
	}
	return out
}

func c06scenarios(res *report.Result) []schedrun.Scenario {
	var out []schedrun.Scenario
	for _, p := range c06programs(res.Thorough()) {
		c06table[p.Name] = p
		n := 0
		for _, th := range p.Threads {
			n += len(th)
		}
		b := 1
		if n == 1 && !p.Early && !strings.Contains(p.DecA+p.DecB, "c") {
			b = 2 // quick: two deviations on the single-update programs
		}
		if res.Thorough() {
			b = 2
			if n > 2 {
				b = 1
			}
		}
		w := 100
		if b == 2 {
			w = 4000
		}
		out = append(out, schedrun.Scenario{Name: p.Name, Mode: explore.Delay, Bound: b, MaxSteps: 400000, Weight: w, Postpone: b > 0})
	}
	return out
}

func c06lookup(n string) c06prog {
	if p, ok := c06table[n]; ok {
		return p
	}
	for _, th := range []bool{false, true} {
		for _, p := range c06programs(th) {
			c06table[p.Name] = p
		}
	}
	p, ok := c06table[n]
	if !ok {
		panic("unknown scenario " + n)
	}
	return p
}

var c06harness = schedrun.Harness{Name: "clients", Scenarios: c06scenarios, Exec: c06exec, Check: c06check, Digest: c06digest,
	Describe: func(_ schedrun.Scenario, s *vsched.Sched, o any) string {
		return fmt.Sprintf("  %v", summarize(o.(*c06obs)))
	}, MaxExecsPerProcess: 6000}
