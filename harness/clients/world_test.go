// Package clients: engine SCHED over real client.Client instances (C03, C04, C06, C07, C08, C12).
// The world is closed by a harness bus (envelopes are serialised, FIFO per directed pair),
// a recording persister, and either stub funder/adjudicator or the strict ledger of
// ledger_test.go. Everything a thread of the harness does between two threads goes through
// vsched, so the explorer owns every interleaving.
package clients

import (
	"bytes"
	"context"
	"fmt"
	"math/big"
	"math/rand"
	"strings"
	"testing"
	"time"

	_ "perun.network/go-perun/backend/sim"
	simwallet "perun.network/go-perun/backend/sim/wallet"
	"perun.network/go-perun/channel"
	"perun.network/go-perun/channel/persistence"
	"perun.network/go-perun/client"
	"perun.network/go-perun/wallet"
	"perun.network/go-perun/watcher/local"
	"perun.network/go-perun/wire"
	perunser "perun.network/go-perun/wire/perunio/serializer"
	protoser "perun.network/go-perun/wire/protobuf"
	wiretest "perun.network/go-perun/wire/test"
	"verif/engine/vsched"
	"verif/harness/fx"
)

// ---- bus ----

type sentRec struct {
	From, To int // party indices (-1 unknown)
	Type     string
	Msg      wire.Msg
	At       int
}

// Bus delivers serialised envelopes, FIFO per directed pair (what a TCP connection gives);
// delivery order across pairs and relative to everything else is a scheduler choice.
type Bus struct {
	w    *World
	subs map[wire.AddrKey]wire.Consumer
	seq  map[string]int // next sequence number per pair
	dlv  map[string]int // delivered count per pair
	Sent []sentRec
	// Drop, if set, decides whether an envelope is silently dropped (fault injection).
	Drop func(e *wire.Envelope) bool
}

func (b *Bus) SubscribeClient(c wire.Consumer, a map[wallet.BackendID]wire.Address) error {
	b.subs[wire.Keys(a)] = c
	return nil
}

func (b *Bus) Publish(_ context.Context, e *wire.Envelope) error {
	b.w.tick()
	b.Sent = append(b.Sent, sentRec{b.w.partyOf(e.Sender), b.w.partyOf(e.Recipient), fmt.Sprintf("%T", e.Msg), e.Msg, b.w.clock})
	if b.Drop != nil && b.Drop(e) {
		return nil
	}
	return b.deliver(e, perunser.Serializer())
}

// Inject delivers a crafted envelope as if it had been sent by e.Sender (same FIFO lane).
func (b *Bus) Inject(e *wire.Envelope, proto bool) error {
	var ser wire.EnvelopeSerializer = perunser.Serializer()
	if proto {
		ser = protoser.Serializer()
	}
	return b.deliver(e, ser)
}

func (b *Bus) deliver(e *wire.Envelope, ser wire.EnvelopeSerializer) error {
	var buf bytes.Buffer
	if err := ser.Encode(&buf, e); err != nil {
		return err
	}
	data := buf.Bytes()
	pair := string(wire.Keys(e.Sender)) + ">" + string(wire.Keys(e.Recipient))
	n := b.seq[pair]
	b.seq[pair]++
	vsched.GoNamed("deliver", func() {
		vsched.WaitCond("bus.fifo", func() bool { return b.dlv[pair] == n })
		env, err := ser.Decode(bytes.NewReader(data))
		if err != nil {
			panic(fmt.Sprintf("harness: envelope does not decode: %v", err))
		}
		if c, ok := b.subs[wire.Keys(env.Recipient)]; ok {
			c.Put(env)
		}
		b.dlv[pair]++
	})
	return nil
}

// ---- persister recorder ----

type enabledEv struct {
	Who     int
	Ch      channel.ID
	Version uint64
	Enc     string
	Signed  bool
	At      int
	Final   bool
}

type recPersister struct {
	persistence.PersistRestorer
	w   *World
	who int
}

func fullySigned(params *channel.Params, tx channel.Transaction) bool {
	if tx.State == nil || len(tx.Sigs) != len(params.Parts) {
		return false
	}
	for i := range params.Parts {
		for _, a := range params.Parts[i] {
			if tx.Sigs[i] == nil {
				return false
			}
			if ok, err := channel.Verify(a, tx.State, tx.Sigs[i]); err != nil || !ok {
				return false
			}
		}
	}
	return true
}

// Enabled is called by the persisting machine at the moment a staged transaction becomes
// current: the transaction is judged right then, not by racy reads around API calls.
func (p *recPersister) Enabled(ctx context.Context, s channel.Source) error {
	tx := s.CurrentTX()
	p.w.tick()
	p.w.Enabled = append(p.w.Enabled, enabledEv{p.who, s.ID(), tx.Version, fx.Enc(tx.State), fullySigned(s.Params(), tx), p.w.clock, tx.IsFinal})
	p.w.Txs = append(p.w.Txs, txRec{p.who, s.ID(), tx.Clone(), p.w.clock})
	return p.PersistRestorer.Enabled(ctx, s)
}

// ---- stubs ----

type stubFunder struct{}

func (stubFunder) Fund(context.Context, channel.FundingReq) error { return nil }

type stubAdj struct{}

func (stubAdj) Register(context.Context, channel.AdjudicatorReq, []channel.SignedState) error {
	return nil
}
func (stubAdj) Withdraw(context.Context, channel.AdjudicatorReq, channel.StateMap) error { return nil }
func (stubAdj) Progress(context.Context, channel.ProgressReq) error                      { return nil }
func (stubAdj) Subscribe(context.Context, channel.ID) (channel.AdjudicatorSubscription, error) {
	return nil, fmt.Errorf("not supported")
}

// ---- parties ----

type Party struct {
	W      *World
	Idx    int
	Name   string
	C      *client.Client
	WireID map[wallet.BackendID]wire.Address
	Addr   map[wallet.BackendID]wallet.Address
	Acc    wallet.Account
	LP     *ledgerParty
	Chans  []*client.Channel // in creation order (OnNewChannel)
	// handler policies; nil = accept everything
	OnProposal func(p *Party, cp client.ChannelProposal, r *client.ProposalResponder)
	OnUpdate   func(p *Party, cur *channel.State, u client.ChannelUpdate, r *client.UpdateResponder)
	// observations
	ProposalsSeen []client.ChannelProposal
	UpdatesSeen   []client.ChannelUpdate
	HandlerErrs   []string
	nonce         byte
}

// txRec is a fully signed transaction as recorded by a party's persister (the adversary of C04
// registers such copies).
type txRec struct {
	Who int
	Ch  channel.ID
	Tx  channel.Transaction
	At  int
}

// World is one closed system of clients.
type World struct {
	Txs     []txRec
	NoWatch map[int]bool // parties that do not run Channel.Watch although World.Watch is set
	Bus     *Bus
	L       *Ledger // nil: stub funder / adjudicator
	P       []*Party
	Asset   channel.Asset
	Enabled []enabledEv
	clock   int
	Watch   bool // start Channel.Watch for every new channel
}

func (w *World) tick() { w.clock++ }

func (w *World) partyOf(a map[wallet.BackendID]wire.Address) int {
	k := wire.Keys(a)
	for _, p := range w.P {
		if wire.Keys(p.WireID) == k {
			return p.Idx
		}
	}
	return -1
}

type evHandler struct{ p *Party }

func (h *evHandler) HandleAdjudicatorEvent(channel.AdjudicatorEvent) {}

// nextNonce returns a deterministic nonce share (proposal ids and channel ids are then
// reproducible, so replayed prefixes cannot diverge).
func (p *Party) nextNonce() client.ProposalOpts {
	p.nonce++
	var n client.NonceShare
	n[0], n[1] = byte(p.Idx+1), p.nonce
	return client.WithNonce(n)
}

// funderOverride, when set by a driver before NewWorld, replaces the stub funder of party i
// (nil result: keep the stub). Reset by the driver afterwards.
var funderOverride func(i int) channel.Funder

// gatedFunder blocks Fund for a channel until the driver opens the gate for it: the party stays
// in the funding phase of that opening (its channel is not yet registered with its client).
type gatedFunder struct {
	open    map[channel.ID]bool
	pending []channel.ID
}

func (g *gatedFunder) Fund(_ context.Context, req channel.FundingReq) error {
	id := req.Params.ID()
	g.pending = append(g.pending, id)
	vsched.WaitCond("gated-fund", func() bool { return g.open[id] })
	return nil
}

// NewWorld creates n real clients. With ledger != nil the clients fund / register / withdraw on
// the strict ledger and run the real watcher on top of it.
func NewWorld(n int, ledger *Ledger, watch bool) *World {
	w := &World{L: ledger, Asset: fx.Assets[0], Watch: watch, NoWatch: map[int]bool{}}
	w.Bus = &Bus{w: w, subs: map[wire.AddrKey]wire.Consumer{}, seq: map[string]int{}, dlv: map[string]int{}}
	rng := rand.New(rand.NewSource(3))
	for i := 0; i < n; i++ {
		sw := simwallet.NewWallet()
		acc := sw.NewRandomAccount(rng)
		p := &Party{W: w, Idx: i, Name: string(rune('A' + i)), Acc: acc, Addr: map[wallet.BackendID]wallet.Address{0: acc.Address()}, WireID: wiretest.NewRandomAddress(rng)}
		var funder channel.Funder = stubFunder{}
		var adj channel.Adjudicator = stubAdj{}
		if ledger != nil {
			p.LP = ledger.party(acc.Address(), 100)
			funder, adj = p.LP, p.LP
		} else if funderOverride != nil {
			if f := funderOverride(i); f != nil {
				funder = f
			}
		}
		wt, err := local.NewWatcher(adj)
		if err != nil {
			panic(err)
		}
		p.C, err = client.New(p.WireID, w.Bus, funder, adj, map[wallet.BackendID]wallet.Wallet{0: sw}, wt)
		if err != nil {
			panic(err)
		}
		p.C.EnablePersistence(&recPersister{PersistRestorer: persistence.NonPersistRestorer, w: w, who: i})
		p.C.OnNewChannel(func(ch *client.Channel) {
			p.Chans = append(p.Chans, ch)
			if w.Watch && !w.NoWatch[p.Idx] {
				vsched.GoNamed("watch-"+p.Name, func() { ch.Watch(&evHandler{p}) }) //nolint:errcheck
			}
		})
		w.P = append(w.P, p)
	}
	for _, p := range w.P {
		p := p
		vsched.GoNamed("handle-"+p.Name, func() {
			p.C.Handle(client.ProposalHandlerFunc(func(cp client.ChannelProposal, r *client.ProposalResponder) {
				p.ProposalsSeen = append(p.ProposalsSeen, cp)
				if p.OnProposal != nil {
					p.OnProposal(p, cp, r)
					return
				}
				p.acceptProposal(cp, r)
			}), client.UpdateHandlerFunc(func(cur *channel.State, u client.ChannelUpdate, r *client.UpdateResponder) {
				p.UpdatesSeen = append(p.UpdatesSeen, u)
				if p.OnUpdate != nil {
					p.OnUpdate(p, cur, u, r)
					return
				}
				ctx, cancel := context.WithTimeout(context.Background(), 5*time.Second)
				defer cancel()
				if err := r.Accept(ctx); err != nil {
					p.HandlerErrs = append(p.HandlerErrs, "accept update: "+err.Error())
				}
			}))
		})
	}
	return w
}

// acceptProposal follows the repository's test roles: ledger and virtual channel proposals
// are accepted inside the handler; sub-channel proposals are handed to another goroutine
// (the parent's machine mutex is held until the handler returns).
func (p *Party) acceptProposal(cp client.ChannelProposal, r *client.ProposalResponder) {
	do := func(acc client.ChannelProposalAccept) {
		ctx, cancel := context.WithTimeout(context.Background(), 5*time.Second)
		defer cancel()
		if _, err := r.Accept(ctx, acc); err != nil {
			p.HandlerErrs = append(p.HandlerErrs, "accept proposal: "+err.Error())
		}
	}
	switch m := cp.(type) {
	case *client.LedgerChannelProposalMsg:
		do(m.Accept(p.Addr, p.nextNonce()))
	case *client.SubChannelProposalMsg:
		acc := m.Accept(p.nextNonce())
		vsched.GoNamed("accept-sub-"+p.Name, func() { do(acc) })
	case *client.VirtualChannelProposalMsg:
		do(m.Accept(p.Addr, p.nextNonce()))
	}
}

// OpenLedger lets party a propose a ledger channel to b with the given balances and waits
// until both sides hold the channel.
func (w *World) OpenLedger(a, b int, balA, balB int64, opts ...client.ProposalOpts) (*client.Channel, *client.Channel, error) {
	alloc := channel.NewAllocation(2, []wallet.BackendID{0}, w.Asset)
	alloc.SetAssetBalances(w.Asset, []channel.Bal{big.NewInt(balA), big.NewInt(balB)})
	opts = append(opts, w.P[a].nextNonce())
	prop, err := client.NewLedgerChannelProposal(60, w.P[a].Addr, alloc, []map[wallet.BackendID]wire.Address{w.P[a].WireID, w.P[b].WireID}, opts...)
	if err != nil {
		return nil, nil, err
	}
	ctx, cancel := context.WithTimeout(context.Background(), 10*time.Second)
	defer cancel()
	nb := len(w.P[b].Chans)
	ca, err := w.P[a].C.ProposeChannel(ctx, prop)
	if err != nil {
		return nil, nil, err
	}
	vsched.WaitCond("await-channel", func() bool { return len(w.P[b].Chans) > nb })
	return ca, w.P[b].Chans[len(w.P[b].Chans)-1], nil
}

// pay returns an updater that moves amt from participant `from` to the other one.
func pay(from int, amt int64, final bool) func(*channel.State) {
	return func(s *channel.State) {
		s.Balances[0][from].Sub(s.Balances[0][from], big.NewInt(amt))
		s.Balances[0][1-from].Add(s.Balances[0][1-from], big.NewInt(amt))
		s.IsFinal = final
	}
}

func firstLines(s string, n int) string {
	l := strings.Split(s, "\n")
	if len(l) > n {
		l = l[:n]
	}
	return strings.Join(l, "\n")
}

// panicSite extracts the innermost go-perun function of a recorded panic (signature site).
func panicSite(p string) string {
	lines := strings.Split(p, "\n")
	msg := lines[0]
	for i := 1; i < len(lines); i++ {
		l := strings.TrimSpace(lines[i])
		if strings.HasPrefix(l, "perun.network/go-perun/") && !strings.HasPrefix(l, "perun.network/go-perun/log") {
			f := strings.TrimPrefix(l, "perun.network/go-perun/")
			if j := strings.LastIndex(f, "("); j > 0 {
				f = f[:j]
			}
			return stripVolatile(msg) + "@" + f
		}
	}
	return stripVolatile(msg)
}

func stripVolatile(s string) string {
	var b strings.Builder
	hex := 0
	for _, r := range s {
		if (r >= '0' && r <= '9') || (r >= 'a' && r <= 'f') {
			hex++
			if hex > 6 {
				continue
			}
		} else {
			hex = 0
		}
		b.WriteRune(r)
	}
	out := b.String()
	if len(out) > 90 {
		out = out[:90]
	}
	return out
}

var _ = testing.Short
