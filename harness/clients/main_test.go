package clients

import (
	"os"
	"testing"

	"perun.network/go-perun/channel"
	"verif/engine/schedrun"
	"verif/harness/fx"
)

func fxEnc(s *channel.State) string { return fx.Enc(s) }

var harnesses = map[string]*schedrun.Harness{
	"C06": &c06harness,
}

func TestCheck(t *testing.T) {
	h, ok := harnesses[os.Getenv("VERIF_PROP")]
	if !ok {
		t.Fatalf("harness clients does not serve property %q", os.Getenv("VERIF_PROP"))
	}
	schedrun.Main(t, *h)
}
