package clients

import (
	"os"
	"strings"
	"testing"

	"perun.network/go-perun/channel"
	plog "perun.network/go-perun/log"
	"verif/engine/report"
	"verif/engine/schedrun"
	"verif/engine/vsched"
	"verif/harness/fx"
)

func init() { plog.Set(nil) } // the clients log every refused message at error level

func fxEnc(s *channel.State) string { return fx.Enc(s) }

// harnesses: property id -> sub-harnesses. Scenario names of sub-harness k are prefixed with
// "<k>:" so that one check can combine several drivers (e.g. C08 = agreement + rejection).
var harnesses = map[string][]*schedrun.Harness{
	"C06": {&c06harness},
}

// register is called from init() functions of the files that add drivers.
func register(prop string, h *schedrun.Harness) { harnesses[prop] = append(harnesses[prop], h) }

func combine(hs []*schedrun.Harness) schedrun.Harness {
	pick := func(name string) (*schedrun.Harness, string) {
		i := strings.Index(name, ":")
		k := int(name[0] - '0')
		if i != 1 || k < 0 || k >= len(hs) {
			panic("bad scenario name " + name)
		}
		return hs[k], name[2:]
	}
	sub := func(sc schedrun.Scenario) (*schedrun.Harness, schedrun.Scenario) {
		h, n := pick(sc.Name)
		sc.Name = n
		return h, sc
	}
	out := schedrun.Harness{Name: "clients"}
	out.Scenarios = func(res *report.Result) []schedrun.Scenario {
		var all []schedrun.Scenario
		for k, h := range hs {
			for _, sc := range h.Scenarios(res) {
				sc.Name = string(rune('0'+k)) + ":" + sc.Name
				all = append(all, sc)
			}
		}
		return all
	}
	out.Exec = func(t *testing.T, sc schedrun.Scenario, o vsched.Options) (*vsched.Sched, any) {
		h, s := sub(sc)
		return h.Exec(t, s, o)
	}
	out.Check = func(sc schedrun.Scenario, s *vsched.Sched, obs any) []schedrun.Verdict {
		h, s2 := sub(sc)
		return h.Check(s2, s, obs)
	}
	out.Digest = func(sc schedrun.Scenario, s *vsched.Sched, obs any) string {
		h, s2 := sub(sc)
		return h.Digest(s2, s, obs)
	}
	out.Describe = func(sc schedrun.Scenario, s *vsched.Sched, obs any) string {
		h, s2 := sub(sc)
		if h.Describe == nil {
			return ""
		}
		return h.Describe(s2, s, obs)
	}
	for _, h := range hs {
		if h.MaxExecsPerProcess > out.MaxExecsPerProcess {
			out.MaxExecsPerProcess = h.MaxExecsPerProcess
		}
	}
	return out
}

func TestCheck(t *testing.T) {
	hs, ok := harnesses[os.Getenv("VERIF_PROP")]
	if !ok {
		t.Fatalf("harness clients does not serve property %q", os.Getenv("VERIF_PROP"))
	}
	schedrun.Main(t, combine(hs))
}
