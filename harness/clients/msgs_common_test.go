package clients

// Crafted-message drivers (C12, C08 part 2, C07): shared infrastructure.
//
// One scenario = one case "<history point>/<sender>/<message name>[+<second message>]". The
// world is two real clients: the victim V = P[0] and its channel peer M = P[1]; M is real for
// the set-up and for the final probes, during the adversarial phase the harness speaks in M's
// name (M's wire id, M's account for signatures) or in the name of a stranger S that owns no
// client. Which cases exist is decided by the nested loops of msgs_catalogue_test.go alone.

import (
	"bytes"
	"context"
	"fmt"
	"math/big"
	"math/rand"
	"sort"
	"strings"
	"time"

	simwallet "perun.network/go-perun/backend/sim/wallet"
	"perun.network/go-perun/channel"
	"perun.network/go-perun/client"
	"perun.network/go-perun/wallet"
	"perun.network/go-perun/wire"
	perunser "perun.network/go-perun/wire/perunio/serializer"
	protoser "perun.network/go-perun/wire/protobuf"
	wiretest "perun.network/go-perun/wire/test"
	"verif/engine/report"
	"verif/engine/vsched"
	"verif/harness/fx"
)

// mIdent is somebody the harness can speak as: a wire id plus a signing account.
type mIdent struct {
	Name string
	Wire map[wallet.BackendID]wire.Address
	Addr map[wallet.BackendID]wallet.Address
	Acc  wallet.Account
}

func newStranger(seed int64) mIdent {
	rng := rand.New(rand.NewSource(seed))
	acc := simwallet.NewRandomAccount(rng)
	return mIdent{Name: "S", Wire: wiretest.NewRandomAddress(rng), Acc: acc, Addr: map[wallet.BackendID]wallet.Address{0: acc.Address()}}
}

func partyIdent(p *Party) mIdent {
	return mIdent{Name: p.Name, Wire: p.WireID, Addr: p.Addr, Acc: p.Acc}
}

// pendingAuto describes an update the victim is waiting to accept automatically.
type pendingAuto struct {
	Kind     string // "fund" | "settle" (sub-channel), "vfund" | "vsettle" (virtual channel, victim = hub)
	ID       channel.ID
	Bals     channel.Balances // balances of the funded / settled channel
	IndexMap []channel.Index  // virtual channel: participant of the virtual channel -> participant of this parent
	On       channel.ID       // the parent channel the expectation is about (zero: any)
}

// mScene is the situation at the end of the set-up phase.
type mScene struct {
	w     *World
	V, M  *Party
	S     mIdent
	Pt    string
	led   *client.Channel // V's ledger channel with M (nil at nochan)
	mled  *client.Channel // M's side of it
	vIdx  channel.Index   // V's index in led
	vsubs []*client.Channel
	msubs []*client.Channel
	pend  []pendingAuto
	// await points
	realFund   *client.ChannelUpdateMsg // M's real funding update (intercepted)
	realSettle *client.ChannelUpdateMsg
	subFinal   *channel.State // final state of the sub-channel that is being settled
	acceptCtx  time.Duration  // context of the victim's Accept in acceptSubLong (0: 30 s)
	two        bool           // the ledger channels are over two assets
	holdM      bool           // keep dropping M's own parent updates during the adversarial phase
	ledMoved   bool           // hub points: the victim accepted a crafted update of its channel with M (the real M did not: no probe there)
	// hub points: the victim is the hub between M (Alice) and the honest real client B (Bob)
	B             *Party
	ledB          *client.Channel                             // V's ledger channel with B
	mledB         *client.Channel                             // B's side of it
	parentAtFinal *channel.State                              // await-subsettle-paid: the parent state when the sub-channel was finalised
	vfunds        []*client.VirtualChannelFundingProposalMsg  // hub-two: M's funding proposals of the two virtual channels
	realVFund     *client.VirtualChannelFundingProposalMsg    // M's real funding proposal to the hub (intercepted)
	realVSet      *client.VirtualChannelSettlementProposalMsg // M's real settlement proposal to the hub (intercepted)
	bobAt         time.Time                                   // virtual time at which B's proposal left for the hub (the hub's 10 s wait starts then)
	bobSent       bool                                        // B's own funding / settlement proposal is on its way to the hub
	ownReq        wire.Msg                                    // "~own": the request of the victim itself, as it left the victim
	threadErrs    []string
	seq           byte
	views         map[channel.ID]*mChanView // the victim's channels at the start of the adversarial phase
}

// signed returns the last state of one of the victim's channels that became current at the victim
// with all signatures: the newest Enabled event the victim's persister recorded for it (encoded at
// that moment). The catalogues and the oracle never read the victim's in-memory Channel.State():
// a defect may corrupt it, an adversary cannot see it, and it blocks while the machine is locked.
func (sc *mScene) signed(ch *client.Channel) *channel.State {
	if e := sc.lastEnabled(sc.V.Idx, ch.ID()); e != nil {
		if st := mDecodeState(e.Enc); st != nil {
			return st
		}
	}
	panic("harness: no enabled state recorded for channel of the victim")
}

func (sc *mScene) lastEnabled(who int, id channel.ID) *enabledEv {
	for i := len(sc.w.Enabled) - 1; i >= 0; i-- {
		if e := &sc.w.Enabled[i]; e.Who == who && e.Ch == id {
			return e
		}
	}
	return nil
}

// syncViews waits until the victim and the other end of each of its channels have made the same
// version current (an honest Update returns at the proposer before the responder has enabled it).
func (sc *mScene) syncViews() {
	type pair struct {
		id    channel.ID
		other int
	}
	var ps []pair
	if sc.led != nil {
		ps = append(ps, pair{sc.led.ID(), sc.M.Idx})
	}
	if sc.ledB != nil {
		ps = append(ps, pair{sc.ledB.ID(), sc.B.Idx})
	}
	for _, c := range sc.vsubs {
		ps = append(ps, pair{c.ID(), sc.M.Idx})
	}
	vsched.WaitCond("await-equal-versions", func() bool {
		for _, p := range ps {
			a, b := sc.lastEnabled(sc.V.Idx, p.id), sc.lastEnabled(p.other, p.id)
			if a == nil || b == nil || a.Version != b.Version {
				return false
			}
		}
		return true
	})
}

// snapshot records the victim's view of its channels (from the Enabled stream, see signed).
func (sc *mScene) snapshot() {
	sc.syncViews()
	sc.views = map[channel.ID]*mChanView{}
	add := func(ch *client.Channel) {
		sc.views[ch.ID()] = &mChanView{Params: ch.Params().Clone(), State: sc.signed(ch), PeerIdx: 1 - ch.Idx()}
	}
	if sc.led != nil {
		add(sc.led)
	}
	if sc.ledB != nil {
		add(sc.ledB)
	}
	for _, c := range sc.vsubs {
		add(c)
	}
}

func (sc *mScene) id(who string) mIdent {
	if who == "S" {
		return sc.S
	}
	return partyIdent(sc.M)
}

func (sc *mScene) other(who string) mIdent {
	if who == "S" {
		return partyIdent(sc.M)
	}
	return sc.S
}

func mAlloc(asset channel.Asset, bals ...int64) *channel.Allocation {
	a := channel.NewAllocation(len(bals), []wallet.BackendID{0}, asset)
	row := make([]channel.Bal, len(bals))
	for i, b := range bals {
		row[i] = big.NewInt(b)
	}
	a.SetAssetBalances(asset, row)
	return a
}

// mAlloc2: an allocation over the two assets fx.Assets[0], fx.Assets[1] (one row per asset).
func mAlloc2(rows ...[]int64) *channel.Allocation {
	a := &channel.Allocation{}
	for i, r := range rows {
		a.Assets = append(a.Assets, fx.Assets[i])
		a.Backends = append(a.Backends, 0)
		row := make([]channel.Bal, len(r))
		for j, v := range r {
			row[j] = big.NewInt(v)
		}
		a.Balances = append(a.Balances, row)
	}
	return a
}

// openLedger2 is World.OpenLedger for a channel over two assets, 10:10 each.
func (sc *mScene) openLedger2(a, b int) (*client.Channel, *client.Channel, error) {
	w := sc.w
	prop, err := client.NewLedgerChannelProposal(60, w.P[a].Addr, mAlloc2([]int64{10, 10}, []int64{10, 10}),
		[]map[wallet.BackendID]wire.Address{w.P[a].WireID, w.P[b].WireID}, w.P[a].nextNonce())
	if err != nil {
		return nil, nil, err
	}
	sc.seq++
	prop.ProposalID = mFixedID(0xA0 + sc.seq)
	ctx, cancel := context.WithTimeout(context.Background(), 10*time.Second)
	defer cancel()
	nb := len(w.P[b].Chans)
	ca, err := w.P[a].C.ProposeChannel(ctx, prop)
	if err != nil {
		return nil, nil, err
	}
	vsched.WaitCond("await-channel", func() bool { return len(w.P[b].Chans) > nb })
	return ca, w.P[b].Chans[len(w.P[b].Chans)-1], nil
}

func mFlipID(id channel.ID) channel.ID { id[7] ^= 0x5a; return id }

func mFixedID(b byte) (id [32]byte) {
	for i := range id {
		id[i] = b
	}
	return
}

var msgsPoints = []string{"nochan", "open-v0", "open-v1", "paid-v0", "paid-v1", "sub-v0", "sub-v1",
	"final-v1", "sub2-v1", "await-subfund", "await-subfund2", "await-subsettle", "await-subsettle2"}

// subBals are the balances of every sub-channel the set-up opens: index 0 (the proposer) 2, index 1: 4.
var subBals = []int64{2, 4}

func (sc *mScene) openSub(proposer, proposee *Party, parent *client.Channel) (pc, qc *client.Channel, err error) {
	prop, err := client.NewSubChannelProposal(parent.ID(), 60, mAlloc(sc.w.Asset, subBals...), proposer.nextNonce())
	if err != nil {
		return nil, nil, err
	}
	sc.seq++
	prop.ProposalID = mFixedID(0xB0 + sc.seq)
	ctx, cancel := context.WithTimeout(context.Background(), 10*time.Second)
	defer cancel()
	n := len(proposee.Chans)
	pc, err = proposer.C.ProposeChannel(ctx, prop)
	if err != nil {
		return nil, nil, err
	}
	vsched.WaitCond("await-subchannel", func() bool { return len(proposee.Chans) > n })
	return pc, proposee.Chans[len(proposee.Chans)-1], nil
}

// addSub opens a sub-channel of the ledger channel (proposed by the ledger channel's index 0).
func (sc *mScene) addSub() error {
	var vc, mc *client.Channel
	var err error
	if sc.vIdx == 0 {
		vc, mc, err = sc.openSub(sc.V, sc.M, sc.led)
	} else {
		mc, vc, err = sc.openSub(sc.M, sc.V, sc.mled)
	}
	if err != nil {
		return fmt.Errorf("opening sub-channel: %w", err)
	}
	sc.vsubs, sc.msubs = append(sc.vsubs, vc), append(sc.msubs, mc)
	return nil
}

func isParentUpdateFrom(w *World, e *wire.Envelope, who int, id channel.ID) (*client.ChannelUpdateMsg, bool) {
	if w.partyOf(e.Sender) != who {
		return nil, false
	}
	m, ok := e.Msg.(client.ChannelUpdateProposal)
	if !ok || m.Base().State.ID != id {
		return nil, false
	}
	return m.Base(), true
}

// setup drives the world to the history point sc.Pt under the default schedule.
func (sc *mScene) setup() error {
	w := sc.w
	pt := sc.Pt
	if pt == "nochan" {
		return nil
	}
	v0 := strings.HasSuffix(pt, "-v0")
	sc.two = strings.HasPrefix(pt, "open2") || strings.HasPrefix(pt, "hub2") // channels over two assets
	var err error
	switch {
	case sc.two && v0:
		sc.vIdx = 0
		sc.led, sc.mled, err = sc.openLedger2(0, 1)
	case sc.two:
		sc.vIdx = 1
		sc.mled, sc.led, err = sc.openLedger2(1, 0)
	case v0:
		sc.vIdx = 0
		sc.led, sc.mled, err = w.OpenLedger(0, 1, 10, 10)
	default:
		sc.vIdx = 1
		sc.mled, sc.led, err = w.OpenLedger(1, 0, 10, 10)
	}
	if err != nil {
		return fmt.Errorf("opening the ledger channel: %w", err)
	}
	upd := func(ch *client.Channel, f func(*channel.State)) error {
		ctx, cancel := context.WithTimeout(context.Background(), 10*time.Second)
		defer cancel()
		return ch.Update(ctx, f)
	}
	base := strings.TrimSuffix(strings.TrimSuffix(pt, "-v0"), "-v1")
	switch base {
	case "open", "open2":
	case "paid":
		if err := upd(sc.mled, pay(int(sc.mled.Idx()), 1, false)); err != nil {
			return fmt.Errorf("payment: %w", err)
		}
	case "final":
		if err := upd(sc.mled, pay(int(sc.mled.Idx()), 1, true)); err != nil {
			return fmt.Errorf("final payment: %w", err)
		}
	case "sub":
		return sc.addSub()
	case "sub2":
		if err := sc.addSub(); err != nil {
			return err
		}
		return sc.addSub()
	case "await-subfund", "await-subfund2":
		if base == "await-subfund2" {
			if err := sc.addSub(); err != nil {
				return err
			}
		}
		// M proposes a sub-channel; its funding update of the parent is intercepted.
		sc.holdM = true
		w.Bus.Drop = func(e *wire.Envelope) bool {
			if m, ok := isParentUpdateFrom(w, e, sc.M.Idx, sc.led.ID()); ok {
				if sc.realFund == nil {
					sc.realFund = m
				}
				return true
			}
			return false
		}
		sc.V.OnProposal = func(p *Party, cp client.ChannelProposal, r *client.ProposalResponder) {
			acc := cp.(*client.SubChannelProposalMsg).Accept(p.nextNonce())
			vsched.GoNamed("accept-sub-V", func() {
				ctx, cancel := context.WithTimeout(context.Background(), 30*time.Second)
				defer cancel()
				if _, err := r.Accept(ctx, acc); err != nil {
					sc.threadErrs = append(sc.threadErrs, "V accept sub-channel: "+err.Error())
				}
			})
		}
		prop, err := client.NewSubChannelProposal(sc.mled.ID(), 60, mAlloc(w.Asset, subBals...), sc.M.nextNonce())
		if err != nil {
			return err
		}
		prop.ProposalID = mFixedID(0xBF)
		vsched.GoNamed("m-propose-sub", func() {
			ctx, cancel := context.WithTimeout(context.Background(), 20*time.Second)
			defer cancel()
			if _, err := sc.M.C.ProposeChannel(ctx, prop); err != nil {
				sc.threadErrs = append(sc.threadErrs, "M propose sub-channel: "+err.Error())
			}
		})
		vsched.WaitCond("await-funding-update", func() bool { return sc.realFund != nil })
		fund := sc.realFund.State.Locked[len(sc.realFund.State.Locked)-1]
		sc.pend = append(sc.pend, pendingAuto{Kind: "fund", ID: fund.ID, Bals: mAlloc(w.Asset, subBals...).Balances})
	case "await-subsettle", "await-subsettle2", "await-subsettle-paid":
		if base == "await-subsettle2" {
			if err := sc.addSub(); err != nil {
				return err
			}
		}
		if err := sc.addSub(); err != nil {
			return err
		}
		vsub, msub := sc.vsubs[len(sc.vsubs)-1], sc.msubs[len(sc.msubs)-1]
		if err := upd(msub, pay(int(msub.Idx()), 1, true)); err != nil {
			return fmt.Errorf("final sub-channel update: %w", err)
		}
		sc.syncViews()
		sc.subFinal = sc.signed(vsub)
		if base == "await-subsettle-paid" {
			// the parent moves on between the finalisation of the sub-channel (the victim registers what
			// settlement it expects) and the victim's Settle: M pays the victim 2 in the parent
			sc.parentAtFinal = sc.signed(sc.led)
			if err := upd(sc.mled, pay(int(sc.mled.Idx()), 2, false)); err != nil {
				return fmt.Errorf("parent payment after finalisation: %w", err)
			}
		}
		sc.snapshot()
		sc.pend = append(sc.pend, pendingAuto{Kind: "settle", ID: vsub.ID(), Bals: sc.subFinal.Balances.Clone()})
		// the victim settles the final sub-channel and waits for the parent update
		vsched.GoNamed("v-settle-sub", func() {
			ctx, cancel := context.WithTimeout(context.Background(), 30*time.Second)
			defer cancel()
			if err := vsub.Settle(ctx, false); err != nil {
				sc.threadErrs = append(sc.threadErrs, "V settle sub-channel: "+err.Error())
			}
		})
		vsched.Sleep(time.Second)
	case "hub-fund", "hub-fund2", "hub-settle", "hub-settle2", "hub-fund-quiet", "hub-settle-quiet", "hub-two":
		return sc.setupHub(base)
	case "hub-collude", "hub2-collude":
		// the hub with its two ledger channels; M and B are real only for the set-up and the probes, the
		// harness speaks for both of them
		sc.B = w.P[2]
		if sc.two {
			sc.mledB, sc.ledB, err = sc.openLedger2(2, 0)
		} else {
			sc.mledB, sc.ledB, err = w.OpenLedger(2, 0, 10, 10)
		}
		if err != nil {
			return fmt.Errorf("opening the ledger channel B - hub: %w", err)
		}
		// what the hub may accept automatically: the honest funding of the virtual channel on either parent
		hi := sc.hubPairInit()
		sc.pend = append(sc.pend,
			pendingAuto{Kind: "vfund", ID: hi.ID, Bals: hi.Balances.Clone(), IndexMap: []channel.Index{0, 1}, On: sc.led.ID()},
			pendingAuto{Kind: "vfund", ID: hi.ID, Bals: hi.Balances.Clone(), IndexMap: []channel.Index{1, 0}, On: sc.ledB.ID()})
	default:
		return fmt.Errorf("unknown history point %q", pt)
	}
	return nil
}

// virtBals are the initial balances of the virtual channel Alice (M) <-> Bob (B) at the hub points.
var virtBals = []int64{5, 3}

// setupHub: the victim is the hub. M and B each have a ledger channel with it (both as index 0);
// M proposes a virtual channel to B, B accepts. hub-fund: M's funding proposal to the hub is
// intercepted, B's is on its way. hub-settle: the virtual channel is opened honestly, M pays 2, the
// channel is finalised and both ends settle; M's settlement proposal to the hub is intercepted.
func (sc *mScene) setupHub(base string) error {
	w := sc.w
	sc.B = w.P[2]
	var err error
	if sc.mledB, sc.ledB, err = w.OpenLedger(2, 0, 10, 10); err != nil {
		return fmt.Errorf("opening the ledger channel B - hub: %w", err)
	}
	if strings.HasSuffix(base, "2") { // the parent M - hub already holds a sub-channel
		if err := sc.addSub(); err != nil {
			return err
		}
	}
	settle := strings.HasPrefix(base, "hub-settle")
	// "-quiet": B stays silent (its funding proposal is lost on the way / it does not settle), so M's
	// own well-formed proposal finds no partner at the hub
	quiet := strings.HasSuffix(base, "-quiet")
	sc.holdM = true
	two := base == "hub-two"
	armed := !settle && !two // hub-settle, hub-two: the funding runs honestly
	w.Bus.Drop = func(e *wire.Envelope) bool {
		switch m := e.Msg.(type) {
		case *client.VirtualChannelFundingProposalMsg:
			if !armed {
				if w.partyOf(e.Sender) == sc.M.Idx {
					if sc.realVFund == nil {
						sc.realVFund = m // kept for its initial state and signatures
					}
					sc.vfunds = append(sc.vfunds, m)
				}
				return false
			}
			if w.partyOf(e.Sender) == sc.B.Idx {
				if !sc.bobSent {
					sc.bobAt = time.Now()
				}
				sc.bobSent = true
				return quiet
			}
			if w.partyOf(e.Sender) == sc.M.Idx {
				if sc.realVFund == nil {
					sc.realVFund = m
				}
				return true
			}
		case *client.VirtualChannelSettlementProposalMsg:
			if w.partyOf(e.Sender) == sc.B.Idx {
				if !sc.bobSent {
					sc.bobAt = time.Now()
				}
				sc.bobSent = true
				return false
			}
			if w.partyOf(e.Sender) == sc.M.Idx {
				if sc.realVSet == nil {
					sc.realVSet = m
				}
				return true
			}
		}
		return false
	}
	// B accepts the virtual channel inside its handler (the parent stays locked), with a long context
	sc.B.OnProposal = func(p *Party, cp client.ChannelProposal, r *client.ProposalResponder) {
		ctx, cancel := context.WithTimeout(context.Background(), 30*time.Second)
		defer cancel()
		if _, err := r.Accept(ctx, cp.(*client.VirtualChannelProposalMsg).Accept(p.Addr, p.nextNonce())); err != nil {
			sc.threadErrs = append(sc.threadErrs, "B accept virtual channel: "+err.Error())
		}
	}
	prop, err := client.NewVirtualChannelProposal(60, sc.M.Addr, mAlloc(w.Asset, virtBals...),
		[]map[wallet.BackendID]wire.Address{sc.M.WireID, sc.B.WireID},
		[]channel.ID{sc.mled.ID(), sc.mledB.ID()}, [][]channel.Index{{0, 1}, {1, 0}}, sc.M.nextNonce())
	if err != nil {
		return err
	}
	prop.ProposalID = mFixedID(0xBE)
	// index map of the parent M - hub: Alice is M (index 0), Bob is represented by the hub (index 1)
	wantMap := []channel.Index{0, 1}
	if two {
		// hub-two: two virtual channels M <-> B, (5,3) and (3,3), are opened honestly one after the other:
		// the hub's channel with M ends at (2,4) with the locked sub-allocations [V1:8, V2:6]
		prop2, err := client.NewVirtualChannelProposal(60, sc.M.Addr, mAlloc(w.Asset, 3, 3),
			[]map[wallet.BackendID]wire.Address{sc.M.WireID, sc.B.WireID},
			[]channel.ID{sc.mled.ID(), sc.mledB.ID()}, [][]channel.Index{{0, 1}, {1, 0}}, sc.M.nextNonce())
		if err != nil {
			return err
		}
		prop2.ProposalID = mFixedID(0xBD)
		for i, p := range []*client.VirtualChannelProposalMsg{prop, prop2} {
			ctx, cancel := context.WithTimeout(context.Background(), 30*time.Second)
			nb := len(sc.B.Chans)
			_, err := sc.M.C.ProposeChannel(ctx, p)
			cancel()
			if err != nil {
				return fmt.Errorf("opening virtual channel %d: %w", i+1, err)
			}
			vsched.WaitCond("await-virtual-channel", func() bool { return len(sc.B.Chans) > nb })
		}
		if len(sc.vfunds) != 2 {
			return fmt.Errorf("expected 2 funding proposals of M, saw %d", len(sc.vfunds))
		}
		return nil
	}
	if !settle {
		vsched.GoNamed("m-propose-virtual", func() {
			ctx, cancel := context.WithTimeout(context.Background(), 30*time.Second)
			defer cancel()
			if _, err := sc.M.C.ProposeChannel(ctx, prop); err != nil {
				sc.threadErrs = append(sc.threadErrs, "M propose virtual channel: "+err.Error())
			}
		})
		vsched.WaitCond("await-funding-proposals", func() bool { return sc.realVFund != nil && sc.bobSent })
		sc.pend = append(sc.pend, pendingAuto{Kind: "vfund", ID: sc.realVFund.Initial.State.ID,
			Bals: sc.realVFund.Initial.State.Balances.Clone(), IndexMap: wantMap})
		return nil
	}
	// hub-settle
	ctx, cancel := context.WithTimeout(context.Background(), 30*time.Second)
	defer cancel()
	nb := len(sc.B.Chans)
	va, err := sc.M.C.ProposeChannel(ctx, prop)
	if err != nil {
		return fmt.Errorf("opening the virtual channel: %w", err)
	}
	vsched.WaitCond("await-virtual-channel", func() bool { return len(sc.B.Chans) > nb })
	vb := sc.B.Chans[len(sc.B.Chans)-1]
	if err := va.Update(ctx, pay(0, 2, false)); err != nil {
		return fmt.Errorf("virtual channel payment: %w", err)
	}
	if err := va.Update(ctx, func(s *channel.State) { s.IsFinal = true }); err != nil {
		return fmt.Errorf("virtual channel final update: %w", err)
	}
	fin := vb.State().Clone()
	sc.snapshot()
	for _, x := range []struct {
		name string
		ch   *client.Channel
	}{{"M", va}, {"B", vb}} {
		x := x
		if quiet && x.name == "B" {
			sc.bobSent = true // B does not settle
			continue
		}
		vsched.GoNamed("settle-virtual-"+x.name, func() {
			ctx, cancel := context.WithTimeout(context.Background(), 30*time.Second)
			defer cancel()
			if err := x.ch.Settle(ctx, false); err != nil {
				sc.threadErrs = append(sc.threadErrs, x.name+" settle virtual channel: "+err.Error())
			}
		})
	}
	vsched.WaitCond("await-settlement-proposals", func() bool { return sc.realVSet != nil && sc.bobSent })
	sc.pend = append(sc.pend, pendingAuto{Kind: "vsettle", ID: fin.ID, Bals: fin.Balances.Clone(), IndexMap: wantMap})
	return nil
}

// ---- decodability ----

func mEncDec(env *wire.Envelope, ser wire.EnvelopeSerializer) (dec *wire.Envelope, data []byte, err error) {
	defer func() {
		if r := recover(); r != nil {
			err = fmt.Errorf("panic: %v", r)
		}
	}()
	var buf bytes.Buffer
	if err = ser.Encode(&buf, env); err != nil {
		return nil, nil, err
	}
	data = append([]byte{}, buf.Bytes()...)
	dec, err = ser.Decode(bytes.NewReader(data))
	return dec, data, err
}

func mDumpAlloc(a *channel.Allocation) string {
	if a == nil {
		return "<nil>"
	}
	var sb strings.Builder
	fmt.Fprintf(&sb, "backends=%v assets=%d[", a.Backends, len(a.Assets))
	for _, as := range a.Assets {
		if as == nil {
			sb.WriteString("nil ")
			continue
		}
		b, _ := as.MarshalBinary()
		fmt.Fprintf(&sb, "%x ", b)
	}
	sb.WriteString("] bals=")
	for _, row := range a.Balances {
		sb.WriteString("[")
		for _, b := range row {
			if b == nil {
				sb.WriteString("nil ")
			} else {
				sb.WriteString(b.String() + " ")
			}
		}
		sb.WriteString("]")
	}
	sb.WriteString(" locked=")
	for _, l := range a.Locked {
		fmt.Fprintf(&sb, "{%x %v %v}", l.ID[:4], l.Bals, l.IndexMap)
	}
	return sb.String()
}

func mAllocsOf(m wire.Msg) []*channel.Allocation {
	st := func(s *channel.State) *channel.Allocation {
		if s == nil {
			return nil
		}
		return &s.Allocation
	}
	switch x := m.(type) {
	case client.ChannelProposal:
		return []*channel.Allocation{x.Base().InitBals}
	case *client.ChannelUpdateMsg:
		return []*channel.Allocation{st(x.State)}
	case *client.VirtualChannelFundingProposalMsg:
		return []*channel.Allocation{st(x.State), st(x.Initial.State)}
	case *client.VirtualChannelSettlementProposalMsg:
		return []*channel.Allocation{st(x.State), st(x.Final.State)}
	case *client.ChannelSyncMsg:
		return []*channel.Allocation{st(x.CurrentTX.State)}
	}
	return nil
}

func mSameAllocs(a, b wire.Msg) bool {
	x, y := mAllocsOf(a), mAllocsOf(b)
	if len(x) != len(y) {
		return false
	}
	for i := range x {
		if mDumpAlloc(x[i]) != mDumpAlloc(y[i]) {
			return false
		}
	}
	return true
}

// mPrepare proves that the envelope is decodable and reaches the victim as intended: it is
// encoded and decoded with the native serializer (or protobuf when the case asks for it or
// the native codec cannot express the value), the decoded message must re-encode to the same
// bytes and carry the same allocations. Returns the decoded envelope (what the victim sees).
func mPrepare(env *wire.Envelope, forceProto bool) (dec *wire.Envelope, proto bool, why string) {
	try := func(ser wire.EnvelopeSerializer) (*wire.Envelope, string) {
		d, data, err := mEncDec(env, ser)
		if err != nil {
			return nil, err.Error()
		}
		_, data2, err := mEncDec(d, ser)
		if err != nil {
			return nil, "re-encoding: " + err.Error()
		}
		if !bytes.Equal(data, data2) {
			return nil, "decoded message encodes differently"
		}
		if fmt.Sprintf("%T", d.Msg) != fmt.Sprintf("%T", env.Msg) || !mSameAllocs(env.Msg, d.Msg) {
			return nil, "decoded message differs from the crafted one"
		}
		return d, ""
	}
	var w1 string
	if !forceProto {
		if d, w := try(perunser.Serializer()); d != nil {
			return d, false, ""
		} else {
			w1 = "native: " + w
		}
	}
	d, w2 := try(protoser.Serializer())
	if d != nil {
		return d, true, ""
	}
	return nil, false, strings.TrimSpace(w1 + " protobuf: " + w2)
}

// ---- handler policies ----

func rejectProposals(p *Party, _ client.ChannelProposal, r *client.ProposalResponder) {
	ctx, cancel := context.WithTimeout(context.Background(), 5*time.Second)
	defer cancel()
	if err := r.Reject(ctx, "no"); err != nil {
		p.HandlerErrs = append(p.HandlerErrs, "reject proposal: "+err.Error())
	}
}

func rejectUpdates(p *Party, _ *channel.State, _ client.ChannelUpdate, r *client.UpdateResponder) {
	ctx, cancel := context.WithTimeout(context.Background(), 5*time.Second)
	defer cancel()
	if err := r.Reject(ctx, "no"); err != nil {
		p.HandlerErrs = append(p.HandlerErrs, "reject update: "+err.Error())
	}
}

// ---- probes ----

type mProbeRes struct {
	What string
	Res  string // "ok" or the error class
}

func (p mProbeRes) ok() bool { return p.Res == "ok" }

// probe checks that every channel the victim had before the adversarial phase still works in
// both directions, with the real peer M (30 s of virtual time per request). M proposes first:
// the victim's own probe then uses a version no crafted message referred to.
func (sc *mScene) probe() (out []mProbeRes) {
	w := sc.w
	if sc.led != nil {
		// did the victim make a version current that the real M never saw?
		if a, b := sc.lastEnabled(sc.V.Idx, sc.led.ID()), sc.lastEnabled(sc.M.Idx, sc.led.ID()); a != nil && b != nil && a.Version != b.Version {
			sc.ledMoved = true
		}
	}
	w.Bus.Drop = nil
	sc.V.OnProposal, sc.V.OnUpdate = nil, nil
	one := func(what string, ch *client.Channel) {
		ctx, cancel := context.WithTimeout(context.Background(), 30*time.Second)
		defer cancel()
		err := ch.Update(ctx, pay(int(ch.Idx()), 1, false))
		out = append(out, mProbeRes{what, classify(err)})
	}
	if sc.led != nil && !strings.HasPrefix(sc.Pt, "final") && !sc.ledMoved {
		one("update of the ledger channel proposed by M", sc.mled)
		one("update of the ledger channel proposed by V", sc.led)
	}
	if sc.ledMoved {
		// The victim accepted a crafted update of this channel that the real M never sent: M is a version
		// behind and will not answer. The victim must still get through its own request in bounded time:
		// a refusal or "the peer did not respond" is fine, a machine mutex that cannot be taken is not.
		one("update of the ledger channel proposed by V (the real M is out of step: ok = completed, refused or unanswered)", sc.led)
		if r := &out[len(out)-1]; r.Res == "timeout" || r.Res == "rejected" {
			r.Res = "ok"
		}
	}
	if sc.ledB != nil {
		a, b := sc.lastEnabled(sc.V.Idx, sc.ledB.ID()), sc.lastEnabled(sc.B.Idx, sc.ledB.ID())
		if a != nil && b != nil && a.Version != b.Version {
			one("update of the ledger channel with B proposed by V (the real B is out of step: ok = completed, refused or unanswered)", sc.ledB)
			if r := &out[len(out)-1]; r.Res == "timeout" || r.Res == "rejected" {
				r.Res = "ok"
			}
		} else {
			one("update of the ledger channel with B proposed by B", sc.mledB)
			one("update of the ledger channel with B proposed by V", sc.ledB)
		}
	}
	for i := range sc.vsubs {
		if sc.vsubs[i].State().IsFinal {
			continue // the victim's user accepted a final state of this sub-channel: it takes no more updates, by design
		}
		one(fmt.Sprintf("update of sub-channel %d proposed by M", i), sc.msubs[i])
		one(fmt.Sprintf("update of sub-channel %d proposed by V", i), sc.vsubs[i])
	}
	if sc.led == nil {
		_, _, err := w.OpenLedger(1, 0, 5, 5)
		out = append(out, mProbeRes{"fresh ledger channel proposed by M", classify(err)})
	}
	vsched.Sleep(time.Second)
	return out
}

// ---- result plumbing shared by the three drivers ----

// msgsRes is the result of the running worker (set by the Scenarios functions; nil in replay
// mode). Counters are bumped from the Digest functions, which schedrun calls exactly once per
// explored execution (confirmation replays do not pass through Digest).
var msgsRes *report.Result

func msgsCount(name string, n int64) {
	if msgsRes != nil {
		msgsRes.Count(name, n)
	}
}

func splitCase(name string) (pt, sender, msg string) {
	p := strings.SplitN(name, "/", 3)
	for len(p) < 3 {
		p = append(p, "")
	}
	return p[0], p[1], p[2]
}

// harnessPanic reports whether a recorded panic was raised by the harness itself (a bug of the
// driver, never a verdict about the code under test).
func harnessPanic(p string) bool {
	if strings.HasPrefix(p, "harness:") {
		return true
	}
	for _, l := range strings.Split(p, "\n")[1:] {
		l = strings.TrimSpace(l)
		if strings.HasPrefix(l, "perun.network/go-perun/") && !strings.HasPrefix(l, "perun.network/go-perun/log") {
			return false
		}
	}
	return true
}

func sortedKeys(m map[string]bool) []string {
	out := make([]string, 0, len(m))
	for k := range m {
		out = append(out, k)
	}
	sort.Strings(out)
	return out
}

var _ = fx.Enc
