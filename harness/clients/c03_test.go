package clients

import (
	"bytes"
	"context"
	"fmt"
	"math/big"
	"strings"
	"testing"
	"time"

	"perun.network/go-perun/channel"
	"perun.network/go-perun/client"
	"perun.network/go-perun/wallet"
	"verif/engine/explore"
	"verif/engine/report"
	"verif/engine/schedrun"
	"verif/engine/vsched"
)

// ---- C03: honest settlement on the strict ledger ----

type payStep struct {
	From   int
	Amt    int64
	Accept bool
}

type c03prog struct {
	Bal    [2]int64
	Pays   []payStep
	Final  bool
	Settle string   // AB (A first, then B), BA, par (both concurrently)
	Sub    bool     // open a sub-channel, pay inside, finalise it, withdraw it into the parent
	Agree  [2]int64 // funding agreement different from the initial balances (zero value: none)
	SubRej bool     // a sub-channel proposal that the peer rejects, then one more payment
	// SubFinalPays: the only update inside the sub-channel is final AND moves funds (no separate payment)
	SubFinalPays bool
	// SubParentPay: between the sub-channel's final update and its settlement, one more accepted
	// payment in the parent (the parent state the settlement is built on has moved on)
	SubParentPay bool
	// TwoSubs: two sibling sub-channels with one payment each stay OPEN; the (non-final) ledger
	// channel is settled through registration and timeout with both of them
	TwoSubs bool
	// Refuse: the ledger refuses a Withdraw inside a running challenge period instead of waiting
	Refuse bool
	// RegFail: the first Register call of party RegFail-1 fails with a transient error (0: none)
	RegFail int
	// SubFinalByB: the sub-channel's final state is proposed by its second participant
	SubFinalByB bool
}

func (p c03prog) name() string {
	var ps []string
	for _, s := range p.Pays {
		d := "r"
		if s.Accept {
			d = "a"
		}
		ps = append(ps, fmt.Sprintf("%c%d%s", 'A'+s.From, s.Amt, d))
	}
	n := fmt.Sprintf("b=%d.%d/p=%s/", p.Bal[0], p.Bal[1], strings.Join(ps, ","))
	if p.Final {
		n += "final/"
	} else {
		n += "dispute/"
	}
	n += p.Settle
	if p.Sub {
		n += "/sub"
	}
	if p.Agree != [2]int64{} {
		n += fmt.Sprintf("/agree=%d.%d", p.Agree[0], p.Agree[1])
	}
	if p.SubRej {
		n += "/subrej"
	}
	if p.SubFinalPays {
		n += "/finalpays"
	}
	if p.SubParentPay {
		n += "/parentpay"
	}
	if p.TwoSubs {
		n += "/twosubs"
	}
	if p.Refuse {
		n += "/refuse"
	}
	if p.RegFail > 0 {
		n += fmt.Sprintf("/regfail%d", p.RegFail-1)
	}
	if p.SubFinalByB {
		n += "/finalbyB"
	}
	return n
}

// model: expected balances after the program
func (p c03prog) expect() [2]int64 {
	b := p.Bal
	for _, s := range p.Pays {
		if s.Accept {
			b[s.From] -= s.Amt
			b[1-s.From] += s.Amt
		}
	}
	if p.SubRej && b[0] >= 1 { // after the rejected sub-channel proposal A pays 1
		b[0]--
		b[1]++
	}
	if p.Sub { // sub-channel (min(2,a), min(2,b)); inside, A pays 1 to B if it can
		sa := min(2, b[0])
		if sa >= 1 {
			b[0]--
			b[1]++
		}
		if p.SubParentPay && b[0]-max(sa-1, 0) >= 1 { // A's balance in the parent while the sub-channel's funds are locked
			b[0]--
			b[1]++
		}
	}
	return b
}

var c03table = map[string]c03prog{}

type c03obs struct {
	errs     []string
	settle   [2]string
	acct     [2]int64
	funded   [2]int64
	held     int64
	heldSub  int64
	ledger   []string
	viol     []string
	last     [2]int64 // balances in the last state enabled at both parties
	lastOK   bool
	lastVer  uint64
	hErrs    []string
	unsigned int
	subIDs   []channel.ID // TwoSubs: the open sub-channels
	subLast  [2]int64     // TwoSubs: sum over the sub-channels of each party's balance in the last state both signed
	early    []string     // refused early withdrawals by the party whose own registration started the period
}

func decodeState(enc string) *channel.State {
	var s channel.State
	if err := s.Decode(bytes.NewReader([]byte(enc))); err != nil {
		return nil
	}
	return &s
}

// lastCommon returns the newest state of channel id that was made current at both parties.
func lastCommon(evs []enabledEv, id channel.ID) (*channel.State, bool) {
	seen := [2]map[string]bool{{}, {}}
	for _, e := range evs {
		if e.Ch == id && e.Who < 2 {
			seen[e.Who][e.Enc] = true
		}
	}
	var best *channel.State
	for enc := range seen[0] {
		if seen[1][enc] {
			if s := decodeState(enc); s != nil && (best == nil || s.Version > best.Version) {
				best = s
			}
		}
	}
	return best, best != nil
}

func c03exec(t *testing.T, ssc schedrun.Scenario, o vsched.Options) (*vsched.Sched, any) {
	pr := c03lookup(ssc.Name)
	obs := &c03obs{}
	s := vsched.Run(t, o, func() {
		l := NewLedger()
		w := NewWorld(2, l, true)
		decA, decB := "", ""
		for _, st := range pr.Pays {
			d := "r"
			if st.Accept {
				d = "a"
			}
			if st.From == 0 {
				decB += d
			} else {
				decA += d
			}
		}
		if pr.Sub {
			// the sub-channel's funding and withdrawal updates are auto-accepted by the client; the
			// payment and the final update inside the sub-channel reach the user handler of B
			decB += "aa"
			if pr.SubParentPay {
				decB += "a"
			}
		}
		if pr.TwoSubs {
			decB += "aa" // one payment inside each sub-channel
		}
		l.RefuseEarly = pr.Refuse
		if pr.RegFail > 0 {
			l.FailRegister = map[channel.Index]bool{channel.Index(pr.RegFail - 1): true}
		}
		if pr.Final {
			decB += "a"
		}
		w.P[0].OnUpdate, w.P[1].OnUpdate = decider(&decA), decider(&decB)
		vsched.StartExploration()
		var popts []client.ProposalOpts
		if pr.Agree != [2]int64{} {
			popts = append(popts, client.WithFundingAgreement(channel.Balances{{big.NewInt(pr.Agree[0]), big.NewInt(pr.Agree[1])}}))
		}
		ca, cb, err := w.OpenLedger(0, 1, pr.Bal[0], pr.Bal[1], popts...)
		if err != nil {
			obs.errs = append(obs.errs, "open: "+err.Error())
			return
		}
		chs := [2]*client.Channel{ca, cb}
		ctx, cancel := context.WithTimeout(context.Background(), 1000*time.Second)
		defer cancel()
		for i, st := range pr.Pays {
			err := chs[st.From].Update(ctx, pay(st.From, st.Amt, false))
			k := classify(err)
			if (k == "ok") != st.Accept || (k != "ok" && k != "rejected") {
				obs.errs = append(obs.errs, fmt.Sprintf("payment %d: %s", i, k))
			}
		}
		if pr.SubRej {
			// B's user rejects the sub-channel proposal; the parent must stay usable
			w.P[1].OnProposal = func(p *Party, cp client.ChannelProposal, r *client.ProposalResponder) {
				c, cancel := context.WithTimeout(context.Background(), 5*time.Second)
				defer cancel()
				if err := r.Reject(c, "no sub-channel"); err != nil {
					p.HandlerErrs = append(p.HandlerErrs, "reject proposal: "+err.Error())
				}
			}
			alloc := channel.NewAllocation(2, []wallet.BackendID{0}, w.Asset)
			alloc.SetAssetBalances(w.Asset, []channel.Bal{big.NewInt(min(1, ca.State().Balances[0][0].Int64())), big.NewInt(0)})
			prop, err := client.NewSubChannelProposal(ca.ID(), 60, alloc, w.P[0].nextNonce())
			if err != nil {
				obs.errs = append(obs.errs, "sub proposal: "+err.Error())
				return
			}
			pctx, pcancel := context.WithTimeout(context.Background(), 20*time.Second)
			_, err = w.P[0].C.ProposeChannel(pctx, prop)
			pcancel()
			if classify(err) != "rejected" {
				obs.errs = append(obs.errs, "rejected sub-channel proposal returned: "+classify(err))
			}
			w.P[1].OnProposal = nil
			if ca.State().Balances[0][0].Int64() >= 1 {
				uctx, ucancel := context.WithTimeout(context.Background(), 20*time.Second)
				err := ca.Update(uctx, pay(0, 1, false))
				ucancel()
				if err != nil {
					obs.errs = append(obs.errs, "payment after the rejected sub-channel proposal: "+classify(err))
				}
			}
		}
		var subID channel.ID
		if pr.Sub {
			cur := ca.State().Balances[0]
			sa, sb := min(2, cur[0].Int64()), min(2, cur[1].Int64())
			alloc := channel.NewAllocation(2, []wallet.BackendID{0}, w.Asset)
			alloc.SetAssetBalances(w.Asset, []channel.Bal{big.NewInt(sa), big.NewInt(sb)})
			prop, err := client.NewSubChannelProposal(ca.ID(), 60, alloc, w.P[0].nextNonce())
			if err != nil {
				obs.errs = append(obs.errs, "sub proposal: "+err.Error())
				return
			}
			nb := len(w.P[1].Chans)
			sub0, err := w.P[0].C.ProposeChannel(ctx, prop)
			if err != nil {
				obs.errs = append(obs.errs, "open sub: "+err.Error())
				return
			}
			vsched.WaitCond("await-sub", func() bool { return len(w.P[1].Chans) > nb })
			sub1 := w.P[1].Chans[len(w.P[1].Chans)-1]
			subID = sub0.ID()
			if pr.SubFinalPays && sa >= 1 {
				if err := sub0.Update(ctx, pay(0, 1, true)); err != nil {
					obs.errs = append(obs.errs, "sub final payment: "+classify(err))
				}
			} else {
				if sa >= 1 {
					if err := sub0.Update(ctx, pay(0, 1, false)); err != nil {
						obs.errs = append(obs.errs, "sub payment: "+classify(err))
					}
				}
				fin := sub0
				if pr.SubFinalByB {
					fin = sub1
				}
				if err := fin.Update(ctx, pay(0, 0, true)); err != nil {
					obs.errs = append(obs.errs, "sub final: "+classify(err))
				}
			}
			if pr.SubParentPay && ca.State().Balances[0][0].Int64() >= 1 {
				uctx, ucancel := context.WithTimeout(context.Background(), 20*time.Second)
				err := ca.Update(uctx, pay(0, 1, false))
				ucancel()
				if err != nil {
					obs.errs = append(obs.errs, "parent payment before the sub-channel's settlement: "+classify(err))
				}
			}
			done := make(chan string, 2)
			vsched.GoNamed("settle-sub-A", func() { vsched.Send(done, fmt.Sprintf("A:%v", sub0.Settle(ctx, false))) })
			vsched.GoNamed("settle-sub-B", func() { vsched.Send(done, fmt.Sprintf("B:%v", sub1.Settle(ctx, true))) })
			for i := 0; i < 2; i++ {
				if r := vsched.Recv(done); !strings.HasSuffix(r, ":<nil>") {
					obs.errs = append(obs.errs, "settle sub "+r)
				}
			}
		}
		if pr.TwoSubs {
			for k := 0; k < 2; k++ {
				alloc := channel.NewAllocation(2, []wallet.BackendID{0}, w.Asset)
				alloc.SetAssetBalances(w.Asset, []channel.Bal{big.NewInt(2), big.NewInt(1)})
				prop, err := client.NewSubChannelProposal(ca.ID(), 60, alloc, w.P[0].nextNonce())
				if err != nil {
					obs.errs = append(obs.errs, "sub proposal: "+err.Error())
					return
				}
				nb := len(w.P[1].Chans)
				sub0, err := w.P[0].C.ProposeChannel(ctx, prop)
				if err != nil {
					obs.errs = append(obs.errs, "open sub: "+err.Error())
					return
				}
				vsched.WaitCond("await-sub", func() bool { return len(w.P[1].Chans) > nb })
				obs.subIDs = append(obs.subIDs, sub0.ID())
				if err := sub0.Update(ctx, pay(0, int64(k+1), false)); err != nil {
					obs.errs = append(obs.errs, "sub payment: "+classify(err))
				}
			}
		}
		if pr.Final {
			if err := ca.Update(ctx, pay(0, 0, true)); err != nil {
				obs.errs = append(obs.errs, "final update: "+classify(err))
			}
		}
		// honest settlement; a Settle that fails while a challenge period is running is retried
		// after the period (documented usage)
		settle := func(i int, secondary bool) string {
			var err error
			for try := 0; try < 3; try++ {
				sctx, scancel := context.WithTimeout(context.Background(), 1000*time.Second) // a fresh context per call
				err = chs[i].Settle(sctx, secondary)
				scancel()
				if err == nil {
					return "ok"
				}
				vsched.Sleep(61 * time.Second)
			}
			return err.Error()
		}
		switch pr.Settle {
		case "AB":
			obs.settle[0] = settle(0, false)
			obs.settle[1] = settle(1, true)
		case "BA":
			obs.settle[1] = settle(1, false)
			obs.settle[0] = settle(0, true)
		case "ABe":
			// B settles as soon as it has SEEN A's registration (its phase is Registered): inside the
			// challenge period; a ledger that refuses early withdrawals makes B's first attempt fail,
			// B repeats it after the period (documented usage)
			done := make(chan struct{}, 1)
			vsched.GoNamed("settle-A", func() { obs.settle[0] = settle(0, false); vsched.Send(done, struct{}{}) })
			vsched.WaitCond("A-registered", func() bool { return len(l.RegLog) > 0 }) // (a condition must not take locks)
			vsched.Sleep(time.Second)                                               // B's watcher relays the event, B's phase becomes Registered
			if ph := chs[1].Phase(); ph != channel.Registered {
				obs.errs = append(obs.errs, fmt.Sprintf("B's phase is %v one second after A's registration", ph))
			}
			obs.settle[1] = settle(1, true)
			vsched.Recv(done)
		default:
			done := make(chan struct{}, 2)
			vsched.GoNamed("settle-A", func() { obs.settle[0] = settle(0, false); vsched.Send(done, struct{}{}) })
			vsched.GoNamed("settle-B", func() { obs.settle[1] = settle(1, true); vsched.Send(done, struct{}{}) })
			vsched.Recv(done)
			vsched.Recv(done)
		}
		vsched.Sleep(time.Second)
		for i := 0; i < 2; i++ {
			obs.acct[i] = l.Balance(w.P[i].Acc.Address())
			obs.funded[i] = l.Funded[key(w.P[i].Acc.Address())].Int64()
			obs.hErrs = append(obs.hErrs, w.P[i].HandlerErrs...)
		}
		obs.held = l.Held(ca.ID())
		if pr.Sub {
			obs.heldSub = l.Held(subID)
		}
		obs.ledger, obs.viol = l.Log, l.Viol
		for _, id := range obs.subIDs {
			obs.heldSub += l.Held(id)
			if st, ok := lastCommon(w.Enabled, id); ok {
				obs.subLast[0] += st.Balances[0][0].Int64()
				obs.subLast[1] += st.Balances[0][1].Int64()
			} else {
				obs.errs = append(obs.errs, "no common state of a sub-channel")
			}
		}
		for _, e := range l.Early {
			for _, r := range l.RegLog {
				if r.Ch == e.Ch { // the first registration of the channel started the challenge period
					if r.By == fmt.Sprintf("idx%d", e.By) {
						obs.early = append(obs.early, fmt.Sprintf("party %d", e.By))
					}
					break
				}
			}
		}
		if st, ok := lastCommon(w.Enabled, ca.ID()); ok {
			obs.lastOK, obs.lastVer = true, st.Version
			obs.last = [2]int64{st.Balances[0][0].Int64(), st.Balances[0][1].Int64()}
		}
		for _, e := range w.Enabled {
			if !e.Signed {
				obs.unsigned++
			}
		}
	})
	return s, obs
}

func c03check(ssc schedrun.Scenario, s *vsched.Sched, o any) []schedrun.Verdict {
	pr := c03lookup(ssc.Name)
	obs := o.(*c03obs)
	site := fmt.Sprintf("%dpay/%s/%s", len(pr.Pays), map[bool]string{true: "final", false: "dispute"}[pr.Final], pr.Settle)
	if pr.Sub {
		site += "/sub"
	}
	if pr.Agree != [2]int64{} {
		site += "/agree"
	}
	if pr.SubRej {
		site += "/subrej"
	}
	if pr.SubParentPay {
		site += "/parentpay"
	}
	if pr.TwoSubs {
		site += "/twosubs"
	}
	if pr.Refuse {
		site += "/refuse"
	}
	if pr.RegFail > 0 {
		site += "/regfail"
	}
	if pr.SubFinalByB {
		site += "/finalbyB"
	}
	var out []schedrun.Verdict
	seen := map[string]bool{}
	add := func(clause, format string, a ...any) {
		if seen[clause] {
			return
		}
		seen[clause] = true
		out = append(out, schedrun.Verdict{Property: "C03", Clause: clause, Site: site,
			Detail: fmt.Sprintf(format, a...) + fmt.Sprintf("\n    settle=%v accounts=%v funded=%v held=%d errs=%v ledger=%v", obs.settle, obs.acct, obs.funded, obs.held, obs.errs, obs.ledger)})
	}
	if len(s.Panics) > 0 {
		add("panic", "%s", firstLines(s.Panics[0], 14))
		return out
	}
	if s.Deadlock {
		add("deadlock", "the driver cannot finish:\n%s", s.Dump())
		return out
	}
	if s.Capped {
		return nil
	}
	if len(obs.errs) > 0 {
		add("protocol-step-failed", "an honest protocol step failed: %v", obs.errs)
		return out
	}
	if len(obs.early) > 0 {
		// Settle of a channel that is not yet registered registers it and waits for the challenge
		// period it started; only a Settle that finds the channel registered already may meet a
		// running period (and is then repeated, see the driver)
		add("withdraw-inside-own-challenge-period", "Withdraw was called (and refused by the ledger) while the challenge period started by the caller's own registration was still running: %v", obs.early)
	}
	for i, r := range obs.settle {
		if r != "ok" {
			add("settle-failed", "Settle of party %d failed: %s", i, r)
		}
	}
	if len(out) > 0 {
		return out
	}
	if len(obs.viol) > 0 {
		add("ledger-invariant", "the ledger's conservation checks failed: %v", obs.viol)
	}
	for i := 0; i < 2; i++ {
		agreed := pr.Bal[i]
		if pr.Agree != [2]int64{} {
			agreed = pr.Agree[i]
		}
		if obs.funded[i] != agreed {
			add("funding-amount", "funding took %d from party %d, agreed %d", obs.funded[i], i, agreed)
		}
	}
	if !obs.lastOK {
		add("no-common-state", "no state was made current at both parties")
		return out
	}
	want := pr.expect()
	if pr.TwoSubs { // 2+1 locked for each of the two sub-channels
		want[0] -= 4
		want[1] -= 2
	}
	if obs.last != want {
		add("last-agreed-state", "last state both signed (v%d) has balances %v, the accepted updates give %v", obs.lastVer, obs.last, want)
	}
	for i := 0; i < 2; i++ {
		agreed := pr.Bal[i]
		if pr.Agree != [2]int64{} {
			agreed = pr.Agree[i]
		}
		if exp := 100 - agreed + obs.last[i] + obs.subLast[i]; obs.acct[i] != exp {
			add("payout", "party %d ends with %d on the ledger, expected %d (= 100 - %d funded + %d in the last agreed state v%d + %d in its open sub-channels)", i, obs.acct[i], exp, agreed, obs.last[i], obs.lastVer, obs.subLast[i])
		}
	}
	if obs.held != 0 || obs.heldSub != 0 {
		add("funds-left-in-channel", "the ledger still holds %d for the channel (%d for the sub-channel) after both settled", obs.held, obs.heldSub)
	}
	if obs.unsigned > 0 {
		add("enabled-not-fully-signed", "%d transactions became current without all signatures", obs.unsigned)
	}
	return out
}

func c03digest(_ schedrun.Scenario, s *vsched.Sched, o any) string {
	obs := o.(*c03obs)
	return fmt.Sprintf("%v|%v|%v|%v|%v|%v|%v", obs.settle, obs.acct, obs.held, obs.errs, obs.ledger, len(s.Panics) > 0, s.Deadlock)
}

func c03programs(thorough bool) (all []c03prog, small []c03prog) {
	steps := []payStep{}
	for _, from := range []int{0, 1} {
		for _, amt := range []int64{1, 3} {
			for _, acc := range []bool{true, false} {
				steps = append(steps, payStep{from, amt, acc})
			}
		}
	}
	var seqs [][]payStep
	var gen func(cur []payStep, n int)
	gen = func(cur []payStep, n int) {
		seqs = append(seqs, append([]payStep{}, cur...))
		if len(cur) == n {
			return
		}
		for _, st := range steps {
			gen(append(cur, st), n)
		}
	}
	maxPays := 2
	if thorough {
		maxPays = 3
	}
	gen(nil, maxPays)
	affordable := func(bal [2]int64, seq []payStep) bool {
		b := bal
		for _, st := range seq {
			if b[st.From] < st.Amt {
				return false
			}
			if st.Accept {
				b[st.From] -= st.Amt
				b[1-st.From] += st.Amt
			}
		}
		return true
	}
	for _, bal := range [][2]int64{{5, 5}, {10, 0}} {
		for _, seq := range seqs {
			if !affordable(bal, seq) {
				continue
			}
			for _, final := range []bool{true, false} {
				for _, st := range []string{"AB", "BA", "par"} {
					p := c03prog{Bal: bal, Pays: seq, Final: final, Settle: st}
					all = append(all, p)
					if len(seq) <= 1 && bal == [2]int64{5, 5} && (len(seq) == 0 || (seq[0].From == 0 && seq[0].Amt == 1)) {
						small = append(small, p)
					}
				}
			}
		}
	}
	// funding agreement different from the balances; a rejected sub-channel proposal
	for _, final := range []bool{true, false} {
		for _, st := range []string{"AB", "par"} {
			all = append(all, c03prog{Bal: [2]int64{5, 5}, Pays: []payStep{{0, 1, true}}, Final: final, Settle: st, Agree: [2]int64{8, 2}})
			all = append(all, c03prog{Bal: [2]int64{5, 5}, Pays: []payStep{{1, 3, true}}, Final: final, Settle: st, SubRej: true})
		}
	}
	for _, final := range []bool{true, false} {
		all = append(all, c03prog{Bal: [2]int64{5, 5}, Final: final, Settle: "par", Sub: true, SubFinalPays: true})
	}
	// a parent payment between the sub-channel's final update and its settlement; two open sibling
	// sub-channels in a dispute; a ledger that refuses early withdrawals
	for _, st := range []string{"AB", "par"} {
		all = append(all, c03prog{Bal: [2]int64{5, 5}, Final: true, Settle: st, Sub: true, SubParentPay: true})
		all = append(all, c03prog{Bal: [2]int64{5, 5}, Final: false, Settle: st, TwoSubs: true})
		all = append(all, c03prog{Bal: [2]int64{5, 5}, Pays: []payStep{{0, 1, true}}, Final: false, Settle: st, TwoSubs: true, Refuse: true})
	}
	for _, st := range []string{"AB", "BA", "par"} {
		for _, seq := range [][]payStep{nil, {{0, 1, true}}} {
			all = append(all, c03prog{Bal: [2]int64{5, 5}, Pays: seq, Final: false, Settle: st, Refuse: true})
		}
	}
	all = append(all, c03prog{Bal: [2]int64{5, 5}, Final: false, Settle: "par", Sub: true, Refuse: true})
	// the sub-channel is finalised by its second participant
	for _, st := range []string{"AB", "par"} {
		all = append(all, c03prog{Bal: [2]int64{5, 5}, Final: true, Settle: st, Sub: true, SubFinalByB: true})
	}
	// the second party settles inside the challenge period (refused by the ledger, repeated); a
	// Register call that fails once
	for _, seq := range [][]payStep{nil, {{0, 1, true}}} {
		all = append(all, c03prog{Bal: [2]int64{5, 5}, Pays: seq, Final: false, Settle: "ABe", Refuse: true})
	}
	for _, st := range []string{"AB", "par"} {
		for _, who := range []int{1, 2} {
			all = append(all, c03prog{Bal: [2]int64{5, 5}, Pays: []payStep{{0, 1, true}}, Final: false, Settle: st, RegFail: who})
		}
	}
	// sub-channel variants
	for _, bal := range [][2]int64{{5, 5}, {10, 0}} {
		for _, seq := range [][]payStep{nil, {{0, 1, true}}} {
			for _, final := range []bool{true, false} {
				for _, st := range []string{"AB", "par"} {
					all = append(all, c03prog{Bal: bal, Pays: seq, Final: final, Settle: st, Sub: true})
				}
			}
		}
	}
	return
}

func c03scenarios(res *report.Result) []schedrun.Scenario {
	var out []schedrun.Scenario
	all, small := c03programs(res.Thorough())
	isSmall := map[string]bool{}
	for _, p := range small {
		isSmall[p.name()] = true
	}
	for _, p := range all {
		c03table[p.name()] = p
		b, w := 0, 1
		if isSmall[p.name()] {
			b, w = 1, 1500
		}
		if res.Thorough() {
			b, w = 1, 1500
			if isSmall[p.name()] {
				b, w = 2, 400000
			}
			if len(p.Pays) == 3 || p.Sub {
				b, w = 0, 1
				if p.Sub && len(p.Pays) == 0 {
					b, w = 1, 4000
				}
			}
		}
		out = append(out, schedrun.Scenario{Name: p.name(), Mode: explore.Delay, Bound: b, MaxSteps: 400000, Weight: w, Postpone: b > 0})
	}
	return out
}

func c03lookup(n string) c03prog {
	if p, ok := c03table[n]; ok {
		return p
	}
	for _, th := range []bool{false, true} {
		all, _ := c03programs(th)
		for _, p := range all {
			c03table[p.name()] = p
		}
	}
	p, ok := c03table[n]
	if !ok {
		panic("unknown scenario " + n)
	}
	return p
}

var c03harness = schedrun.Harness{Name: "clients", Scenarios: c03scenarios, Exec: c03exec, Check: c03check, Digest: c03digest,
	Describe: func(_ schedrun.Scenario, s *vsched.Sched, o any) string { return fmt.Sprintf("  %+v", *o.(*c03obs)) }, MaxExecsPerProcess: 5000}

func init() { register("C03", &c03harness) }
