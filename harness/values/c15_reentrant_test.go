package values

// C15, re-entrant signing: a signature binds the state it was asked for also when the backend is
// in use by somebody else at the same moment. One goroutine suffices to model the overlap: the
// signing account (a wrapper around the real one) verifies ANOTHER participant's signature on
// ANOTHER state from inside SignData, i.e. while Sign is between encoding the state and
// signing the bytes. Each round is preceded by a failed verification (a state that cannot be
// encoded): a backend that recycles working memory must have cleaned up after it. 8 rounds per
// pair of states (recycling through a pool may or may not hand the same object back).

import (
	"fmt"
	"math/big"

	"perun.network/go-perun/channel"
	"perun.network/go-perun/wallet"
	"verif/harness/fx"
)

type reentrantAcc struct {
	wallet.Account
	during func()
}

func (a reentrantAcc) SignData(d []byte) ([]byte, error) {
	a.during()
	return a.Account.SignData(d)
}

func (c *c15) reentrant(bases []stBase) {
	res := c.res
	for bi, b := range bases {
		if bi >= 2 {
			break
		}
		cat := catalogueFor(b, false)
		var ms []*member
		for _, m := range cat {
			if m.okS && len(ms) < 4 {
				ms = append(ms, m)
			}
		}
		bad := b.build()
		bad.Balances[0][0] = big.NewInt(-1) // cannot be encoded
		for _, x := range ms {
			for _, y := range ms {
				if x == y || string(x.encS) == string(y.encS) {
					continue
				}
				sigY := fx.Sig(1, y.s)
				for round := 0; round < 8; round++ {
					res.Count("evaluations", 1)
					res.Count("reentrant_sign_cases", 1)
					try(func() { channel.Verify(fx.Accs[1].Address(), bad, sigY) }) //nolint:errcheck
					var inner bool
					acc := reentrantAcc{fx.Accs[0], func() {
						ok, err := channel.Verify(fx.Accs[1].Address(), y.s, sigY)
						inner = err == nil && ok
					}}
					var sig wallet.Sig
					var err error
					if p := try(func() { sig, err = channel.Sign(acc, x.s, 0) }); p != "" || err != nil {
						res.Violate("C15", "C15:sig-binding:reentrant-sign-fails", fmt.Sprintf("[%s round %d] Sign(base with %q) while a verification of another state runs: err=%v %s", b.name(), round, x.name, err, p),
							replay{Harness: "values", Prop: "C15", Check: "reentrant"})
						return
					}
					switch {
					case !inner:
						res.Violate("C15", "C15:sig-binding:reentrant-verify-fails", fmt.Sprintf("[%s round %d] participant 1's signature on base with %q does not verify while participant 0 is signing base with %q", b.name(), round, y.name, x.name),
							replay{Harness: "values", Prop: "C15", Check: "reentrant"})
						return
					case !fx.Verifies(0, x.s, sig):
						res.Violate("C15", "C15:sig-binding:signature-not-over-the-state-asked-for", fmt.Sprintf("[%s round %d] Sign(account 0, base with %q), during which participant 1's signature on base with %q was verified, returned a signature that does not verify for the state asked for (it verifies for the other state: %v)", b.name(), round, x.name, y.name, fx.Verifies(0, y.s, sig)),
							replay{Harness: "values", Prop: "C15", Check: "reentrant"})
						return
					}
				}
			}
		}
	}
}
