// Package walk is the reflect/unsafe memory walker behind property C19 (clones share no
// mutable memory). Given a pointer to a value it enumerates
//
//   - Regions: every piece of memory reachable from the value that somebody could write to
//     (the pointee of every pointer, the backing array of every slice, every map object, and
//     every leaf cell inside them), with its address range, and
//   - Locs: every single mutation point (one per scalar cell, pointer cell, interface cell,
//     slice header, map header, map entry, string; first and last byte of a byte array /
//     byte slice), each with an in-place mutator and an undo.
//
// Exported and unexported fields are walked alike (unexported ones through reflect.NewAt).
//
// What the code under test documents as shared is NOT descended into; the rule is structural,
// not a list of field names:
//
//   - struct fields tagged `cloneable:"shallow"` (the repository's own marker: machine.acc,
//     every App field),
//   - cells whose static type is one of the reference interfaces channel.Asset, channel.App,
//     channel.StateApp, channel.ActionApp, channel.AppID, wallet.Account ("asset identifiers,
//     app definitions and signing accounts are shared"),
//   - everything declared in the repository's log package (the logger),
//   - cells whose static type is declared in the standard library's crypto packages: they
//     refer to immutable package-level parameters (the P-256 curve singleton inside every sim
//     address).
//
// The cell that HOLDS such a reference is still a location of its own: overwriting
// clone.Assets[0] must not change original.Assets[0].
package walk

import (
	"bytes"
	"crypto/elliptic"
	"fmt"
	"reflect"
	"sort"
	"strconv"
	"strings"
	"unsafe"

	"perun.network/go-perun/channel"
	"perun.network/go-perun/log"
	"perun.network/go-perun/wallet"
)

// Region is a range of writable memory reachable from a root.
type Region struct {
	Path string // concrete path from the root (indices included)
	Site string // path with indices blanked: stable across shapes, used in violation signatures
	Kind string // pointee | array | map | cell
	Addr uintptr
	Size uintptr
}

// Loc is one mutation point.
type Loc struct {
	Path string
	Site string
	Kind string // scalar | byte | string | pointer | iface | slice-header | map-header | map-entry
	Addr uintptr
	Size uintptr
	mut  func() (undo func())
}

// Mutate changes the location in place and returns the function that restores it.
func (l *Loc) Mutate() (undo func()) { return l.mut() }

// Graph is the result of one walk.
type Graph struct {
	Regions []Region
	Locs    []Loc
	Skipped map[string]int // reason -> number of shared references not descended into
}

var (
	sharedIfaces = []reflect.Type{
		reflect.TypeOf((*channel.Asset)(nil)).Elem(),
		reflect.TypeOf((*channel.App)(nil)).Elem(),
		reflect.TypeOf((*channel.StateApp)(nil)).Elem(),
		reflect.TypeOf((*channel.ActionApp)(nil)).Elem(),
		reflect.TypeOf((*channel.AppID)(nil)).Elem(),
		reflect.TypeOf((*wallet.Account)(nil)).Elem(),
		reflect.TypeOf((*elliptic.Curve)(nil)).Elem(),
	}
	logPkg = reflect.TypeOf((*log.Logger)(nil)).Elem().PkgPath()
)

// sharedType reports whether cells of static type t hold documented shared references, and why.
func sharedType(t reflect.Type) (string, bool) {
	for _, s := range sharedIfaces {
		if t == s {
			return t.String(), true
		}
	}
	if p := t.PkgPath(); p != "" {
		if p == logPkg || strings.HasPrefix(p, logPkg+"/") {
			return "logger", true
		}
		if p == "crypto" || strings.HasPrefix(p, "crypto/") {
			return "crypto parameters", true
		}
	}
	return "", false
}

func opaqueLog(t reflect.Type) bool {
	p := t.PkgPath()
	return p == logPkg || strings.HasPrefix(p, logPkg+"/")
}

// site blanks indices and map keys of a path.
func site(path string) string {
	var b strings.Builder
	depth := 0
	for i := 0; i < len(path); i++ {
		c := path[i]
		switch {
		case c == '[' || c == '{':
			depth++
			b.WriteByte(c)
		case c == ']' || c == '}':
			depth--
			b.WriteByte(c)
		case depth > 0:
		default:
			b.WriteByte(c)
		}
	}
	return b.String()
}

type visitKey struct {
	p uintptr
	t reflect.Type
}

type walker struct {
	g       *Graph
	visited map[visitKey]bool
}

// Collect walks everything reachable from root, which must be a non-nil pointer.
func Collect(root interface{}) *Graph {
	v := reflect.ValueOf(root)
	if v.Kind() != reflect.Ptr || v.IsNil() {
		panic("walk.Collect: root must be a non-nil pointer")
	}
	w := &walker{g: &Graph{Skipped: map[string]int{}}, visited: map[visitKey]bool{}}
	w.pointee(v, "")
	return w.g
}

func (w *walker) region(kind, path string, addr, size uintptr) {
	if size == 0 {
		return // zero-size values all live at runtime.zerobase: not memory anybody can write to
	}
	w.g.Regions = append(w.g.Regions, Region{Path: path, Site: site(path), Kind: kind, Addr: addr, Size: size})
}

func (w *walker) loc(kind, path string, addr, size uintptr, mut func() func()) {
	w.g.Locs = append(w.g.Locs, Loc{Path: path, Site: site(path), Kind: kind, Addr: addr, Size: size, mut: mut})
	if addr != 0 {
		w.region("cell", path, addr, size)
	}
}

// settable turns an addressable value obtained through an unexported field into a settable one.
func settable(v reflect.Value) reflect.Value {
	if v.CanAddr() && !v.CanSet() {
		return reflect.NewAt(v.Type(), unsafe.Pointer(v.UnsafeAddr())).Elem()
	}
	return v
}

// pointee descends into what a non-nil pointer points to.
func (w *walker) pointee(p reflect.Value, path string) {
	et := p.Type().Elem()
	if et.Size() == 0 {
		return
	}
	k := visitKey{p.Pointer(), et}
	if w.visited[k] {
		return
	}
	w.visited[k] = true
	w.region("pointee", path+"*", p.Pointer(), et.Size())
	w.visit(p.Elem(), path+"*")
}

func isByte(t reflect.Type) bool { return t.Kind() == reflect.Uint8 }

func (w *walker) byteLocs(v reflect.Value, path string) {
	n := v.Len()
	idx := []int{0}
	if n > 1 {
		idx = append(idx, n-1)
	}
	for _, i := range idx {
		e := settable(v.Index(i))
		w.g.Locs = append(w.g.Locs, Loc{Path: fmt.Sprintf("%s[%d]", path, i), Site: site(path + "[]"), Kind: "byte", Addr: e.UnsafeAddr(), Size: 1,
			mut: func() func() {
				old := e.Uint()
				e.SetUint(old ^ 1)
				return func() { e.SetUint(old) }
			}})
	}
}

func (w *walker) visit(v reflect.Value, path string) {
	v = settable(v)
	addr := v.CanAddr()
	var a uintptr
	if addr {
		a = v.UnsafeAddr()
	}
	t := v.Type()
	reason, shared := sharedType(t)
	switch v.Kind() {
	case reflect.Bool:
		if addr {
			w.loc("scalar", path, a, t.Size(), func() func() { old := v.Bool(); v.SetBool(!old); return func() { v.SetBool(old) } })
		}
	case reflect.Int, reflect.Int8, reflect.Int16, reflect.Int32, reflect.Int64:
		if addr {
			w.loc("scalar", path, a, t.Size(), func() func() { old := v.Int(); v.SetInt(old ^ 1); return func() { v.SetInt(old) } })
		}
	case reflect.Uint, reflect.Uint8, reflect.Uint16, reflect.Uint32, reflect.Uint64, reflect.Uintptr:
		if addr {
			w.loc("scalar", path, a, t.Size(), func() func() { old := v.Uint(); v.SetUint(old ^ 1); return func() { v.SetUint(old) } })
		}
	case reflect.Float32, reflect.Float64:
		if addr {
			w.loc("scalar", path, a, t.Size(), func() func() { old := v.Float(); v.SetFloat(old + 1); return func() { v.SetFloat(old) } })
		}
	case reflect.Complex64, reflect.Complex128:
		if addr {
			w.loc("scalar", path, a, t.Size(), func() func() { old := v.Complex(); v.SetComplex(old + 1); return func() { v.SetComplex(old) } })
		}
	case reflect.String:
		if addr {
			w.loc("string", path, a, t.Size(), func() func() { old := v.String(); v.SetString(old + "~"); return func() { v.SetString(old) } })
		}
	case reflect.Array:
		if shared {
			w.g.Skipped[reason]++
			return
		}
		if isByte(t.Elem()) && addr && v.Len() > 0 {
			w.region("cell", path, a, t.Size())
			w.byteLocs(v, path)
			return
		}
		for i := 0; i < v.Len(); i++ {
			w.visit(v.Index(i), fmt.Sprintf("%s[%d]", path, i))
		}
	case reflect.Struct:
		if shared {
			w.g.Skipped[reason]++
			return
		}
		for i := 0; i < v.NumField(); i++ {
			f := t.Field(i)
			fp := path + "." + f.Name
			fv := v.Field(i)
			if f.Tag.Get("cloneable") == "shallow" {
				w.g.Skipped[`cloneable:"shallow"`]++
				w.holder(fv, fp)
				continue
			}
			w.visit(fv, fp)
		}
	case reflect.Ptr:
		w.holder(v, path)
		if v.IsNil() {
			return
		}
		if shared {
			w.g.Skipped[reason]++
			return
		}
		if r, sh := sharedType(t.Elem()); sh {
			w.g.Skipped[r]++
			return
		}
		w.pointee(v, path)
	case reflect.Interface:
		w.holder(v, path)
		if v.IsNil() {
			return
		}
		if shared {
			w.g.Skipped[reason]++
			return
		}
		e := v.Elem()
		ep := path + "(" + e.Type().String() + ")"
		if e.Kind() == reflect.Ptr {
			if r, sh := sharedType(e.Type().Elem()); sh {
				w.g.Skipped[r]++
				return
			}
			if !e.IsNil() {
				w.pointee(e, ep)
			}
			return
		}
		w.visit(e, ep) // boxed copy: not addressable, only the pointers inside it matter
	case reflect.Slice:
		w.holder(v, path)
		if shared {
			w.g.Skipped[reason]++
			return
		}
		if v.IsNil() || v.Cap() == 0 {
			return
		}
		w.region("array", path+"[]", v.Pointer(), uintptr(v.Cap())*t.Elem().Size())
		if v.Len() == 0 {
			return
		}
		if isByte(t.Elem()) {
			w.byteLocs(v, path)
			return
		}
		for i := 0; i < v.Len(); i++ {
			w.visit(v.Index(i), fmt.Sprintf("%s[%d]", path, i))
		}
	case reflect.Map:
		w.holder(v, path)
		if shared {
			w.g.Skipped[reason]++
			return
		}
		if v.IsNil() {
			return
		}
		w.region("map", path+"{}", v.Pointer(), 1)
		keys := v.MapKeys()
		sort.Slice(keys, func(i, j int) bool { return keyString(keys[i]) < keyString(keys[j]) })
		for _, k := range keys {
			k := k
			kp := fmt.Sprintf("%s{%s}", path, keyString(k))
			if v.CanSet() || v.CanInterface() {
				m := v
				w.g.Locs = append(w.g.Locs, Loc{Path: kp, Site: site(kp), Kind: "map-entry", mut: func() func() {
					old := m.MapIndex(k)
					m.SetMapIndex(k, reflect.Value{})
					return func() { m.SetMapIndex(k, old) }
				}})
			}
			w.visit(v.MapIndex(k), kp)
		}
	case reflect.Chan, reflect.Func, reflect.UnsafePointer:
		// opaque: nothing of the cloneable types holds them outside the logger
	}
}

// holder records the cell that holds a reference (pointer, interface, slice header, map header)
// as a location: toggling it between nil and non-nil must stay private to its side.
func (w *walker) holder(v reflect.Value, path string) {
	v = settable(v)
	if !v.CanAddr() {
		return
	}
	if opaqueLog(v.Type()) {
		return
	}
	t := v.Type()
	var kind string
	var other func() reflect.Value
	switch v.Kind() {
	case reflect.Ptr:
		kind, other = "pointer", func() reflect.Value { return reflect.New(t.Elem()) }
	case reflect.Interface:
		kind = "iface"
	case reflect.Slice:
		kind, other = "slice-header", func() reflect.Value { return reflect.MakeSlice(t, 0, 0) }
	case reflect.Map:
		kind, other = "map-header", func() reflect.Value { return reflect.MakeMap(t) }
	case reflect.Struct:
		// a shallow-tagged struct field: its cells are private copies, nothing to toggle
		return
	default:
		return
	}
	if v.IsNil() && other == nil {
		w.region("cell", path, v.UnsafeAddr(), t.Size())
		return
	}
	w.loc(kind, path, v.UnsafeAddr(), t.Size(), func() func() {
		old := reflect.New(t).Elem()
		old.Set(v)
		if v.IsNil() {
			v.Set(other())
		} else {
			v.Set(reflect.Zero(t))
		}
		return func() { v.Set(old) }
	})
}

func keyString(k reflect.Value) string {
	switch k.Kind() {
	case reflect.Int, reflect.Int8, reflect.Int16, reflect.Int32, reflect.Int64:
		return fmt.Sprintf("%020d", k.Int()+(1<<62))
	case reflect.Uint, reflect.Uint8, reflect.Uint16, reflect.Uint32, reflect.Uint64:
		return fmt.Sprintf("%020d", k.Uint())
	case reflect.String:
		return k.String()
	}
	return fmt.Sprintf("%v", k)
}

// Overlap is a piece of memory reachable from both roots.
type Overlap struct {
	A, B Region
}

// Overlaps returns every pair (region of a, region of b) whose address ranges intersect.
func Overlaps(a, b *Graph) []Overlap {
	ra := append([]Region{}, a.Regions...)
	rb := append([]Region{}, b.Regions...)
	sort.Slice(ra, func(i, j int) bool { return ra[i].Addr < ra[j].Addr })
	sort.Slice(rb, func(i, j int) bool { return rb[i].Addr < rb[j].Addr })
	var out []Overlap
	j0 := 0
	var maxB uintptr
	for _, r := range rb {
		if r.Size > maxB {
			maxB = r.Size
		}
	}
	for _, x := range ra {
		// regions of b starting before x.Addr-maxB cannot reach x
		for j0 < len(rb) && rb[j0].Addr+maxB <= x.Addr {
			j0++
		}
		for j := j0; j < len(rb) && rb[j].Addr < x.Addr+x.Size; j++ {
			if rb[j].Addr+rb[j].Size > x.Addr {
				out = append(out, Overlap{x, rb[j]})
			}
		}
	}
	return out
}

// OutermostSites reduces overlaps to the outermost shared sites of side A (a shared backing
// array also makes every element cell overlap; only the array is reported).
func OutermostSites(ov []Overlap) map[string]Overlap {
	first := map[string]Overlap{}
	for _, o := range ov {
		if f, ok := first[o.A.Site]; !ok || o.A.Size > f.A.Size {
			first[o.A.Site] = o // the largest region of the site describes it best
		}
	}
	sites := make([]string, 0, len(first))
	for s := range first {
		sites = append(sites, s)
	}
	sort.Strings(sites)
	out := map[string]Overlap{}
	for _, s := range sites {
		inner := false
		for _, t := range sites {
			if t != s && strings.HasPrefix(s, t) {
				inner = true
				break
			}
		}
		if !inner {
			out[s] = first[s]
		}
	}
	return out
}

// Dump renders everything reachable from root (same descent rules as Collect) as text. With
// canon=false it is a snapshot: nil and empty are distinguished and documented shared
// references are rendered by identity, so any in-place change that is observable through root
// changes the text. With canon=true nil and empty slices / maps are rendered alike: two values
// whose canonical dumps agree hold the same data in every exported and unexported field.
func Dump(root interface{}, canon bool) string {
	var b bytes.Buffer
	d := &dumper{b: &b, canon: canon, visited: map[visitKey]bool{}}
	d.dump(reflect.ValueOf(root))
	return b.String()
}

type dumper struct {
	b       *bytes.Buffer
	canon   bool
	visited map[visitKey]bool
}

func (d *dumper) identity(v reflect.Value) {
	// a documented shared reference: dynamic type and, if it is a pointer, its identity
	for v.Kind() == reflect.Interface && !v.IsNil() {
		v = v.Elem()
	}
	switch v.Kind() {
	case reflect.Interface:
		d.b.WriteString("nil")
	case reflect.Ptr, reflect.Map, reflect.Slice, reflect.Chan, reflect.Func, reflect.UnsafePointer:
		d.b.WriteString(v.Type().String())
		d.b.WriteByte('@')
		d.b.WriteString(strconv.FormatUint(uint64(v.Pointer()), 16))
	default:
		d.b.WriteString(v.Type().String())
	}
}

func (d *dumper) dump(v reflect.Value) {
	b := d.b
	if !v.IsValid() {
		b.WriteString("invalid")
		return
	}
	t := v.Type()
	if opaqueLog(t) {
		b.WriteString("<log>")
		return
	}
	_, shared := sharedType(t)
	switch v.Kind() {
	case reflect.Bool:
		b.WriteString(strconv.FormatBool(v.Bool()))
	case reflect.Int, reflect.Int8, reflect.Int16, reflect.Int32, reflect.Int64:
		b.WriteString(strconv.FormatInt(v.Int(), 10))
	case reflect.Uint, reflect.Uint8, reflect.Uint16, reflect.Uint32, reflect.Uint64, reflect.Uintptr:
		b.WriteString(strconv.FormatUint(v.Uint(), 10))
	case reflect.Float32, reflect.Float64:
		b.WriteString(strconv.FormatFloat(v.Float(), 'g', -1, 64))
	case reflect.Complex64, reflect.Complex128:
		b.WriteString(fmt.Sprint(v.Complex()))
	case reflect.String:
		b.WriteString(strconv.Quote(v.String()))
	case reflect.Array:
		if shared {
			d.identity(v)
			return
		}
		d.seq(v)
	case reflect.Slice:
		if shared {
			d.identity(v)
			return
		}
		if v.IsNil() && !d.canon {
			b.WriteString("nil")
			return
		}
		d.seq(v)
	case reflect.Struct:
		if shared {
			d.identity(v)
			return
		}
		b.WriteByte('{')
		for i := 0; i < v.NumField(); i++ {
			f := t.Field(i)
			b.WriteString(f.Name)
			b.WriteByte(':')
			if f.Tag.Get("cloneable") == "shallow" {
				d.identity(v.Field(i))
			} else {
				d.dump(v.Field(i))
			}
			b.WriteByte(' ')
		}
		b.WriteByte('}')
	case reflect.Ptr:
		if v.IsNil() {
			b.WriteString("nil")
			return
		}
		if _, sh := sharedType(t.Elem()); shared || sh {
			d.identity(v)
			return
		}
		if t.Elem().Size() == 0 {
			b.WriteString("&" + t.Elem().String())
			return
		}
		k := visitKey{v.Pointer(), t.Elem()}
		if d.visited[k] {
			b.WriteString("<seen>")
			return
		}
		d.visited[k] = true
		b.WriteByte('&')
		d.dump(v.Elem())
		delete(d.visited, k) // a DAG is rendered in full; only cycles are cut
	case reflect.Interface:
		if v.IsNil() {
			b.WriteString("nil")
			return
		}
		if shared {
			d.identity(v)
			return
		}
		b.WriteByte('(')
		b.WriteString(v.Elem().Type().String())
		b.WriteByte(')')
		d.dump(v.Elem())
	case reflect.Map:
		if shared {
			d.identity(v)
			return
		}
		if v.IsNil() && !d.canon {
			b.WriteString("nil")
			return
		}
		keys := v.MapKeys()
		sort.Slice(keys, func(i, j int) bool { return keyString(keys[i]) < keyString(keys[j]) })
		b.WriteString("map[")
		for _, k := range keys {
			b.WriteString(keyString(k))
			b.WriteByte(':')
			d.dump(v.MapIndex(k))
			b.WriteByte(' ')
		}
		b.WriteByte(']')
	default:
		d.identity(v)
	}
}

func (d *dumper) seq(v reflect.Value) {
	b := d.b
	if isByte(v.Type().Elem()) {
		b.WriteString("x")
		const hex = "0123456789abcdef"
		for i := 0; i < v.Len(); i++ {
			c := byte(v.Index(i).Uint())
			b.WriteByte(hex[c>>4])
			b.WriteByte(hex[c&15])
		}
		return
	}
	b.WriteByte('[')
	for i := 0; i < v.Len(); i++ {
		d.dump(v.Index(i))
		b.WriteByte(' ')
	}
	b.WriteByte(']')
}
