package walk

import (
	"fmt"
	"sort"
	"strings"
)

// Finding is one observation of CheckDisjoint that contradicts "no shared mutable memory".
type Finding struct {
	Clause string // shared-memory | mutation-visible
	Site   string // field path (indices blanked) of the shared region / mutated location
	Detail string
}

// Stats counts what one CheckDisjoint call did.
type Stats struct {
	RegionsA, RegionsB int
	Locs               int // mutation points found on both sides
	Effective          int // mutations that changed the mutated side's own snapshot (all others are no-ops)
	EffectiveSites     map[string]int
	Skipped            map[string]int
}

// CheckDisjoint applies oracle clauses (2) and (3) of C19 to a pair of roots (pointers):
// (2) the address ranges of everything writable that is reachable from a and from b must not
// intersect; (3) every mutation point of either side is mutated in place, the OTHER side's
// snapshot (snapA / snapB: whatever the caller can observe through that side - dump, encodings)
// must stay the same, and the mutation is undone. After all mutations both sides must dump as
// before (otherwise the engine itself is broken: panic).
func CheckDisjoint(a, b interface{}, snapA, snapB func() string) ([]Finding, Stats) {
	ga, gb := Collect(a), Collect(b)
	st := Stats{RegionsA: len(ga.Regions), RegionsB: len(gb.Regions), Skipped: map[string]int{}, EffectiveSites: map[string]int{}}
	for k, n := range ga.Skipped {
		st.Skipped[k] += n
	}
	var out []Finding
	outer := OutermostSites(Overlaps(ga, gb))
	sites := make([]string, 0, len(outer))
	for s := range outer {
		sites = append(sites, s)
	}
	sort.Strings(sites)
	for _, s := range sites {
		o := outer[s]
		out = append(out, Finding{"shared-memory", s, fmt.Sprintf("%s region %s of the first value (%d bytes) and %s region %s of the second value (%d bytes) occupy the same memory",
			o.A.Kind, o.A.Path, o.A.Size, o.B.Kind, o.B.Path, o.B.Size)})
	}
	sharedA := sites
	outerB := OutermostSites(Overlaps(gb, ga))
	sharedB := make([]string, 0, len(outerB))
	for s := range outerB {
		sharedB = append(sharedB, s)
	}
	sort.Strings(sharedB)
	dumpA0, dumpB0 := Dump(a, false), Dump(b, false)
	side := func(name string, g *Graph, own interface{}, own0 string, other func() string, shared []string) {
		before := other()
		for i := range g.Locs {
			l := &g.Locs[i]
			st.Locs++
			undo := l.Mutate()
			after := other()
			changedOwn := Dump(own, false) != own0
			undo()
			if changedOwn {
				st.Effective++
				st.EffectiveSites[l.Site]++
			}
			if after != before {
				// a location inside a region already reported as shared is filed under that region's site:
				// one defect, one site (a visible mutation outside every shared region keeps its own site)
				at := l.Site
				for _, t := range shared {
					if strings.HasPrefix(at, t) {
						at = t
						break
					}
				}
				out = append(out, Finding{"mutation-visible", at, fmt.Sprintf("changing %s location %s of the %s in place changed what is observable through the other value: %s",
					l.Kind, l.Path, name, firstDiff(before, after))})
				before = other()
			}
		}
	}
	side("first value", ga, a, dumpA0, snapB, sharedA)
	side("second value", gb, b, dumpB0, snapA, sharedB)
	if Dump(a, false) != dumpA0 || Dump(b, false) != dumpB0 {
		panic("walk.CheckDisjoint: a mutation was not undone (engine error)")
	}
	return out, st
}

func firstDiff(a, b string) string {
	n := len(a)
	if len(b) < n {
		n = len(b)
	}
	i := 0
	for i < n && a[i] == b[i] {
		i++
	}
	lo := i - 60
	if lo < 0 {
		lo = 0
	}
	cut := func(s string) string {
		hi := i + 60
		if hi > len(s) {
			hi = len(s)
		}
		if lo > len(s) {
			return ""
		}
		return s[lo:hi]
	}
	return fmt.Sprintf("at offset %d: ...%s... -> ...%s...", i, cut(a), cut(b))
}
