package values

// C17: a channel ID commits to the channel parameters.

import (
	"bytes"
	"crypto/sha1"
	"encoding/binary"
	"errors"
	"fmt"
	"io"
	"math"
	"math/big"
	"sort"
	"strings"
	"testing"

	"perun.network/go-perun/apps/payment"
	simchannel "perun.network/go-perun/backend/sim/channel"
	simwallet "perun.network/go-perun/backend/sim/wallet"
	"perun.network/go-perun/channel"
	"perun.network/go-perun/wallet"
	"perun.network/go-perun/wire/perunio"
	"verif/engine/report"
	"verif/harness/fx"
)

// pSpec is an explicit parameter set: the real Params and the oracle's key are both built from it.
type pSpec struct {
	Dur     uint64
	Parts   []int // fixture accounts, in participant order
	App     string
	Nonce   *big.Int
	Ledger  bool
	Virtual bool
	Aux     byte
}

func appOf(name string) channel.App {
	switch name {
	case "none":
		return channel.NoApp()
	case "A":
		return fx.PayApp
	case "B":
		return fx.OtherApp
	}
	panic(name)
}

// freshAddr is a new address object equal to account i's address (never the account's own memory).
func freshAddr(i int) wallet.Address {
	b, _ := fx.Accs[i].Address().MarshalBinary()
	a := &simwallet.Address{}
	if err := a.UnmarshalBinary(b); err != nil {
		panic(err)
	}
	return a
}

func partsOf(ix []int) []map[wallet.BackendID]wallet.Address {
	ps := make([]map[wallet.BackendID]wallet.Address, len(ix))
	for k, i := range ix {
		ps[k] = map[wallet.BackendID]wallet.Address{0: freshAddr(i)}
	}
	return ps
}

func (s pSpec) aux() (a channel.Aux) { a[0] = s.Aux; return }

func (s pSpec) build() (*channel.Params, error) {
	return channel.NewParams(s.Dur, partsOf(s.Parts), appOf(s.App), new(big.Int).Set(s.Nonce), s.Ledger, s.Virtual, s.aux())
}

// key is the oracle: every field the statement names, rendered independently of any encoder.
func (s pSpec) key() string {
	var ps []string
	for _, i := range s.Parts {
		ps = append(ps, fmt.Sprintf("acc%d", i))
	}
	return fmt.Sprintf("dur=%d parts=%s app=%s nonce=%s ledger=%v virtual=%v", s.Dur, strings.Join(ps, ","), s.App, s.Nonce.Text(16), s.Ledger, s.Virtual)
}

func (s pSpec) clone() pSpec {
	c := s
	c.Parts = append([]int{}, s.Parts...)
	c.Nonce = new(big.Int).Set(s.Nonce)
	return c
}

// fieldDiff names the statement's fields in which two specs differ.
func fieldDiff(a, b pSpec) string {
	var d []string
	if a.Dur != b.Dur {
		d = append(d, "duration")
	}
	if len(a.Parts) != len(b.Parts) {
		d = append(d, "part-count")
	} else if fmt.Sprint(a.Parts) != fmt.Sprint(b.Parts) {
		x, y := append([]int{}, a.Parts...), append([]int{}, b.Parts...)
		sort.Ints(x)
		sort.Ints(y)
		if fmt.Sprint(x) == fmt.Sprint(y) {
			d = append(d, "part-order")
		} else {
			d = append(d, "part-address")
		}
	}
	if a.App != b.App {
		d = append(d, "app")
	}
	if a.Nonce.Cmp(b.Nonce) != 0 {
		d = append(d, "nonce")
	}
	if a.Ledger != b.Ledger {
		d = append(d, "ledger-flag")
	}
	if a.Virtual != b.Virtual {
		d = append(d, "virtual-flag")
	}
	if len(d) == 0 {
		return "same-fields"
	}
	return strings.Join(d, "+")
}

type pBase struct {
	NP      int
	App     string
	Ledger  bool
	Virtual bool
	Nonce   string // small | zero | max32
	Dur     uint64
}

func (b pBase) name() string {
	return fmt.Sprintf("%dp-app:%s-ledger:%v-virtual:%v-nonce:%s-dur:%d", b.NP, b.App, b.Ledger, b.Virtual, b.Nonce, b.Dur)
}

var maxNonce = new(big.Int).Sub(new(big.Int).Lsh(big.NewInt(1), 8*channel.MaxNonceLen), big.NewInt(1))

func (b pBase) spec() pSpec {
	s := pSpec{Dur: b.Dur, App: b.App, Ledger: b.Ledger, Virtual: b.Virtual}
	for i := 0; i < b.NP; i++ {
		s.Parts = append(s.Parts, i)
	}
	switch b.Nonce {
	case "small":
		s.Nonce = big.NewInt(0x1234)
	case "zero":
		s.Nonce = new(big.Int)
	case "max32":
		s.Nonce = new(big.Int).Set(maxNonce)
	default:
		panic(b.Nonce)
	}
	return s
}

func pBases(thorough bool) []pBase {
	var out []pBase
	durs := []uint64{60, 1, math.MaxUint64}
	for _, np := range []int{2, 3} {
		for _, app := range []string{"none", "A", "B"} {
			for _, fl := range [][2]bool{{true, false}, {false, false}, {true, true}, {false, true}} {
				for _, n := range []string{"small", "zero", "max32"} {
					for _, d := range durs {
						out = append(out, pBase{np, app, fl[0], fl[1], n, d})
					}
				}
			}
		}
	}
	return out
}

type pMut struct {
	name string
	f    func(s *pSpec) bool // false: not applicable (would leave the documented limits)
}

func pMuts(b pBase) []pMut {
	var ms []pMut
	add := func(n string, f func(s *pSpec) bool) { ms = append(ms, pMut{n, f}) }
	add("rep", func(s *pSpec) bool { return true }) // rebuilt from scratch: equal by construction
	add("dur+1", func(s *pSpec) bool { s.Dur++; return s.Dur != 0 })
	add("dur-1", func(s *pSpec) bool { s.Dur--; return s.Dur != 0 })
	add("dur^hi", func(s *pSpec) bool { s.Dur ^= 1 << 63; return s.Dur != 0 })
	for i := 0; i < b.NP; i++ {
		i := i
		add(fmt.Sprintf("part[%d]=stranger", i), func(s *pSpec) bool { s.Parts[i] = 3; return true })
		for j := i + 1; j < b.NP; j++ {
			j := j
			add(fmt.Sprintf("swap[%d,%d]", i, j), func(s *pSpec) bool { s.Parts[i], s.Parts[j] = s.Parts[j], s.Parts[i]; return true })
		}
		add(fmt.Sprintf("part[%d]=part[%d]", i, (i+1)%b.NP), func(s *pSpec) bool { s.Parts[i] = s.Parts[(i+1)%b.NP]; return true })
	}
	add("part-add", func(s *pSpec) bool { s.Parts = append(s.Parts, 3); return true })
	add("part-drop-last", func(s *pSpec) bool { s.Parts = s.Parts[:len(s.Parts)-1]; return len(s.Parts) >= channel.MinNumParts })
	if b.NP == 3 {
		add("rotate", func(s *pSpec) bool { s.Parts = []int{s.Parts[1], s.Parts[2], s.Parts[0]}; return true })
	}
	for _, a := range []string{"none", "A", "B"} {
		a := a
		if a != b.App {
			add("app="+a, func(s *pSpec) bool { s.App = a; return true })
		}
	}
	fits := func(n *big.Int) bool { return n.Sign() >= 0 && len(n.Bytes()) <= channel.MaxNonceLen }
	add("nonce+1", func(s *pSpec) bool { s.Nonce.Add(s.Nonce, big.NewInt(1)); return fits(s.Nonce) })
	add("nonce-1", func(s *pSpec) bool { s.Nonce.Sub(s.Nonce, big.NewInt(1)); return fits(s.Nonce) })
	add("nonce<<8", func(s *pSpec) bool { s.Nonce.Lsh(s.Nonce, 8); return fits(s.Nonce) && s.Nonce.Sign() > 0 })
	add("nonce>>8", func(s *pSpec) bool {
		o := new(big.Int).Set(s.Nonce)
		s.Nonce.Rsh(s.Nonce, 8)
		return o.Cmp(s.Nonce) != 0
	})
	add("nonce^top", func(s *pSpec) bool { s.Nonce.Xor(s.Nonce, new(big.Int).Lsh(big.NewInt(1), 255)); return true })
	add("ledger", func(s *pSpec) bool { s.Ledger = !s.Ledger; return true })
	add("virtual", func(s *pSpec) bool { s.Virtual = !s.Virtual; return true })
	add("ledger+virtual", func(s *pSpec) bool { s.Ledger, s.Virtual = !s.Ledger, !s.Virtual; return true })
	add("aux", func(s *pSpec) bool { s.Aux = 9; return true })
	return ms
}

type pMember struct {
	name string
	spec pSpec
	p    *channel.Params
}

func pCatalogue(b pBase) []pMember {
	out := []pMember{}
	mk := func(name string, s pSpec) {
		p, err := s.build()
		if err != nil {
			panic(fmt.Sprintf("catalogue member %s/%s is within the documented limits but NewParams refused it: %v", b.name(), name, err))
		}
		out = append(out, pMember{name, s, p})
	}
	mk("base", b.spec())
	for _, m := range pMuts(b) {
		s := b.spec().clone()
		if !m.f(&s) {
			continue
		}
		mk(m.name, s)
	}
	return out
}

type c17 struct {
	res     *report.Result
	verbose bool
}

func (c *c17) pair(b pBase, x, y pMember) {
	res := c.res
	res.Count("evaluations", 1)
	idEq := x.p.ID() == y.p.ID()
	keyEq := x.spec.key() == y.spec.key()
	fd := fieldDiff(x.spec, y.spec)
	if c.verbose {
		fmt.Printf("  pair a=%q b=%q: fields differ in %s; ID(a)=%x ID(b)=%x equal=%v (aux %d vs %d)\n", x.name, y.name, fd, x.p.ID(), y.p.ID(), idEq, x.spec.Aux, y.spec.Aux)
	}
	if x.spec.Aux != y.spec.Aux { // Aux is outside the statement: recorded, not judged
		if idEq {
			res.Count("aux_differs_id_equal", 1)
		} else {
			res.Count("aux_differs_id_differs", 1)
		}
		return
	}
	h := sha1.Sum([]byte(b.name() + "|" + x.name + "|" + y.name))
	res.Seen("nontrivial", fmt.Sprintf("%x", h[:6]))
	res.Seen("field_diffs", fd)
	if idEq == keyEq {
		return
	}
	rp := replay{Harness: "values", Prop: "C17", Check: "pair", Base: b.name(), A: x.name, B: y.name}
	if idEq {
		res.Violate("C17", "C17:id-collision:"+fd, fmt.Sprintf("[%s] parameter sets %q and %q differ in %s but have the same ID %x\n  a: %s\n  b: %s", b.name(), x.name, y.name, fd, x.p.ID(), x.spec.key(), y.spec.key()), rp)
	} else {
		res.Violate("C17", "C17:id-unstable:"+fd, fmt.Sprintf("[%s] parameter sets %q and %q agree on every field but have IDs %x and %x\n  a: %s", b.name(), x.name, y.name, x.p.ID(), y.p.ID(), x.spec.key()), rp)
	}
}

// stable: clone, encode/decode round trip and a fresh CalcID all give the ID stored at construction.
func (c *c17) stable(b pBase, m pMember) {
	res := c.res
	rp := replay{Harness: "values", Prop: "C17", Check: "stable", Base: b.name(), A: m.name}
	id := m.p.ID()
	bad := func(clause, detail string) {
		res.Violate("C17", "C17:"+clause+":"+b.App+"-app", fmt.Sprintf("[%s/%s] %s (ID at construction %x)", b.name(), m.name, detail, id), rp)
	}
	check := func(clause, what string, f func() (channel.ID, error)) {
		res.Count("evaluations", 1)
		var got channel.ID
		var err error
		if p := try(func() { got, err = f() }); p != "" {
			bad(clause+"-panic", what+" panicked: "+trunc(p, 300))
			return
		}
		if c.verbose {
			fmt.Printf("  %-34s -> %x err=%v\n", what, got, err)
		}
		if err != nil {
			bad(clause, fmt.Sprintf("%s failed: %v", what, err))
		} else if got != id {
			bad(clause, fmt.Sprintf("%s = %x", what, got))
		}
	}
	if id == channel.Zero {
		bad("zero-id", "ID is the zero ID")
	}
	check("calcid-fresh", "CalcID(p)", func() (channel.ID, error) { return channel.CalcID(m.p) })
	check("clone-id", "p.Clone().ID()", func() (channel.ID, error) { return m.p.Clone().ID(), nil })
	check("clone-id", "CalcID(p.Clone())", func() (channel.ID, error) { return channel.CalcID(m.p.Clone()) })
	check("clone-id", "p.Clone().Clone().ID()", func() (channel.ID, error) { return m.p.Clone().Clone().ID(), nil })
	e, ok, why := enc(m.p)
	if !ok {
		bad("encode", "valid parameters cannot be encoded: "+why)
		return
	}
	dec := func(raw []byte) func() (channel.ID, error) {
		return func() (channel.ID, error) {
			var d channel.Params
			if err := d.Decode(bytes.NewReader(raw)); err != nil {
				return channel.ID{}, err
			}
			fresh, err := channel.CalcID(&d)
			if err != nil {
				return channel.ID{}, err
			}
			if fresh != d.ID() {
				return fresh, fmt.Errorf("decoded ID %x differs from a fresh CalcID %x", d.ID(), fresh)
			}
			e2, ok, why := enc(&d)
			if !ok || !bytes.Equal(e2, raw) && len(e2) == len(raw) {
				return d.ID(), fmt.Errorf("re-encoding of the decoded parameters differs (%s)", why)
			}
			return d.ID(), nil
		}
	}
	check("decode-id", "Decode(Encode(p)).ID()", dec(e))
	// the receiver of Decode need not be fresh: parameters that held another channel's values
	// (and its ID) are overwritten completely
	check("decode-id-used-receiver", "Decode(Encode(p)) into parameters of another channel", func() (channel.ID, error) {
		d, err := channel.NewParams(99, nParts(2), channel.NoApp(), big.NewInt(0x5eed), true, false, channel.ZeroAux)
		if err != nil {
			panic(err)
		}
		if err := d.Decode(bytes.NewReader(e)); err != nil {
			return channel.ID{}, err
		}
		fresh, err := channel.CalcID(d)
		if err != nil {
			return channel.ID{}, err
		}
		if fresh != d.ID() {
			return d.ID(), fmt.Errorf("ID %x after decoding differs from a fresh CalcID %x of the decoded fields", d.ID(), fresh)
		}
		return d.ID(), nil
	})
	// the same parameters, nonce encoded with a leading zero byte (same number, other byte length)
	if len(m.spec.Nonce.Bytes()) < perunio.MaxBigIntLength {
		check("decode-id-padded-nonce", "Decode(Encode(p) with zero-padded nonce).ID()", dec(encodeParamsRaw(m.p, append([]byte{0}, m.spec.Nonce.Bytes()...))))
		res.Count("padded_nonce_decodes", 1)
	}
}

// encodeParamsRaw writes the encoding of p with the given raw nonce bytes (length-prefixed as the
// real big-integer encoder does), all other fields through the real encoders.
func encodeParamsRaw(p *channel.Params, nonce []byte) []byte {
	var buf bytes.Buffer
	if err := perunio.Encode(&buf, p.ChallengeDuration, wallet.AddressMapArray{Addr: p.Parts}, channel.OptAppEnc{App: p.App}); err != nil {
		panic(err)
	}
	buf.WriteByte(byte(len(nonce)))
	buf.Write(nonce)
	if err := perunio.Encode(&buf, p.LedgerChannel, p.VirtualChannel, p.Aux); err != nil {
		panic(err)
	}
	return buf.Bytes()
}

// ---- documented constraints ----

// bareApp has a definition but is neither a StateApp nor an ActionApp.
type bareApp struct{}

func (bareApp) Def() channel.AppID    { return fx.PayApp.Def() }
func (bareApp) NewData() channel.Data { return channel.NoData() }

type cCase struct {
	name   string
	expect string // "error" (violates a documented constraint) | "value" (inside the limits)
	known  bool   // input of a listed known defect (own signature)
	dur    uint64
	parts  []map[wallet.BackendID]wallet.Address
	app    channel.App
	nonce  *big.Int
	raw    func() []byte // Decode only: hand-made encoding
	noNew  bool          // not expressible as NewParams arguments
	noDec  bool          // not expressible as an encoding
}

func nParts(n int) []map[wallet.BackendID]wallet.Address {
	ps := make([]map[wallet.BackendID]wallet.Address, n)
	for i := range ps {
		ps[i] = map[wallet.BackendID]wallet.Address{0: freshAddr(i % 4)}
	}
	return ps
}

func constraintCases() []cCase {
	n := big.NewInt(0x1234)
	two := func() []map[wallet.BackendID]wallet.Address { return nParts(2) }
	unreg := &payment.App{ID: simchannel.NewRandomAppID(fx.Rng)} // fixture key only; never registered
	cs := []cCase{
		// inside the limits (boundaries): must be accepted
		{name: "valid/2-parts-noapp", expect: "value", dur: 60, parts: two(), app: channel.NoApp(), nonce: n},
		{name: "valid/duration-1", expect: "value", dur: 1, parts: two(), app: channel.NoApp(), nonce: n},
		{name: "valid/duration-max", expect: "value", dur: math.MaxUint64, parts: two(), app: fx.PayApp, nonce: n},
		{name: "valid/max-parts", expect: "value", dur: 60, parts: nParts(channel.MaxNumParts), app: channel.NoApp(), nonce: n},
		{name: "valid/nonce-zero", expect: "value", dur: 60, parts: two(), app: channel.NoApp(), nonce: new(big.Int)},
		{name: "valid/nonce-32-bytes", expect: "value", dur: 60, parts: two(), app: channel.NoApp(), nonce: new(big.Int).Set(maxNonce)},
		{name: "valid/unregistered-state-app", expect: "value", dur: 60, parts: two(), app: unreg, nonce: n, noDec: true},
		// documented constraints (ValidateProposalParameters / ValidateParameters): must be refused
		{name: "duration-0", expect: "error", dur: 0, parts: two(), app: channel.NoApp(), nonce: n},
		{name: "parts-nil", expect: "error", dur: 60, parts: nil, app: channel.NoApp(), nonce: n},
		{name: "parts-empty", expect: "error", dur: 60, parts: nParts(0), app: channel.NoApp(), nonce: n, noDec: true},
		{name: "parts-1", expect: "error", dur: 60, parts: nParts(1), app: channel.NoApp(), nonce: n},
		{name: "parts-max+1", expect: "error", dur: 60, parts: nParts(channel.MaxNumParts + 1), app: channel.NoApp(), nonce: n},
		{name: "nonce-nil", expect: "error", dur: 60, parts: two(), app: channel.NoApp(), nonce: nil, noDec: true},
		{name: "nonce-33-bytes", expect: "error", dur: 60, parts: two(), app: channel.NoApp(), nonce: new(big.Int).Lsh(big.NewInt(1), 8*channel.MaxNonceLen)},
		{name: "nonce-128-bytes", expect: "error", dur: 60, parts: two(), app: channel.NoApp(), nonce: new(big.Int).Lsh(big.NewInt(1), 8*perunio.MaxBigIntLength-1)},
		{name: "nonce-129-bytes", expect: "error", dur: 60, parts: two(), app: channel.NoApp(), nonce: new(big.Int).Lsh(big.NewInt(1), 8*perunio.MaxBigIntLength), noDec: true},
		{name: "app-nil", expect: "error", dur: 60, parts: two(), app: nil, nonce: n, noDec: true},
		{name: "app-neither-state-nor-action", expect: "error", dur: 60, parts: two(), app: bareApp{}, nonce: n, noDec: true},
		{name: "app-not-registered", expect: "error", dur: 60, parts: two(), app: unreg, nonce: n, noNew: true},
		{name: "address-under-wrong-backend-key", expect: "error", dur: 60, parts: []map[wallet.BackendID]wallet.Address{{1: freshAddr(0)}, {0: freshAddr(1)}}, app: channel.NoApp(), nonce: n, noDec: true},
		// inputs of the listed known defects (DESIGN.md section 7, 13 e/f) and one more of the same kind
		{name: "empty-address-map", expect: "error", known: true, dur: 60, parts: []map[wallet.BackendID]wallet.Address{{}, {0: freshAddr(1)}}, app: channel.NoApp(), nonce: n},
		{name: "empty-address-map-second-participant", expect: "error", known: true, dur: 60, parts: []map[wallet.BackendID]wallet.Address{{0: freshAddr(0)}, {}}, app: channel.NoApp(), nonce: n},
		{name: "nil-address-map", expect: "error", known: true, dur: 60, parts: []map[wallet.BackendID]wallet.Address{nil, {0: freshAddr(1)}}, app: channel.NoApp(), nonce: n, noDec: true},
		// a negative nonce is not in the judged family: it is not a documented constraint, cannot come
		// from a peer (nonce shares are hashed, the big-integer decoder yields no negative values) and
		// NewParams panics on it inside CalcID ("encoding of negative big.Int not implemented") - local
		// API misuse, recorded in DESIGN.md section 9.
		{name: "zero-length-address", expect: "error", known: true, noNew: true, raw: func() []byte {
			var b bytes.Buffer
			le := func(v interface{}) { _ = binary.Write(&b, binary.LittleEndian, v) }
			le(uint64(60))
			le(int32(2)) // two participants
			for i := 0; i < 2; i++ {
				le(int32(1))  // one entry
				le(int32(0))  // backend 0
				le(uint16(0)) // address of length zero
			}
			_ = perunio.Encode(&b, channel.OptAppEnc{App: channel.NoApp()}, n, true, false, channel.ZeroAux)
			return b.Bytes()
		}},
	}
	return cs
}

// afterFault: an ID calculation that fails (error or panic) must not influence the next one.
// Every fault kind is followed by NewParams / CalcID / Decode of valid parameter sets whose IDs
// were recorded before the first fault; 3 rounds (an implementation that recycles its working
// state may or may not hand the same object back).
func (c *c17) afterFault(bases []pBase) {
	res := c.res
	n := big.NewInt(0x77)
	two := func() []map[wallet.BackendID]wallet.Address { return nParts(2) }
	faults := []struct {
		name string
		f    func()
	}{
		{"CalcID/nonce-129-bytes", func() {
			channel.CalcID(&channel.Params{ChallengeDuration: 60, Parts: two(), App: channel.NoApp(), Nonce: new(big.Int).Lsh(big.NewInt(1), 8*perunio.MaxBigIntLength), LedgerChannel: true}) //nolint:errcheck
		}},
		{"CalcID/nil-nonce", func() {
			channel.CalcID(&channel.Params{ChallengeDuration: 60, Parts: two(), App: channel.NoApp(), LedgerChannel: true}) //nolint:errcheck
		}},
		{"NewParamsUnsafe/nil-app", func() { channel.NewParamsUnsafe(60, two(), nil, n, true, false, channel.ZeroAux) }},
		{"NewParams/negative-nonce", func() { channel.NewParams(60, two(), channel.NoApp(), big.NewInt(-5), true, false, channel.ZeroAux) }}, //nolint:errcheck
		{"CalcID/nil-participant-map", func() {
			channel.CalcID(&channel.Params{ChallengeDuration: 60, Parts: []map[wallet.BackendID]wallet.Address{nil, nil}, App: channel.NoApp(), Nonce: n, LedgerChannel: true}) //nolint:errcheck
		}},
	}
	type ref struct {
		b   pBase
		m   pMember
		id  channel.ID
		enc []byte
	}
	var refs []ref
	for i, b := range bases {
		if i >= 3 {
			break
		}
		m := pCatalogue(b)[0]
		e, ok, _ := enc(m.p)
		if !ok {
			continue
		}
		refs = append(refs, ref{b, m, m.p.ID(), e})
	}
	for round := 0; round < 3; round++ {
		for _, ft := range faults {
			for _, r := range refs {
				try(ft.f) // the outcome of the fault itself is the business of the constraint cases
				res.Count("evaluations", 1)
				res.Count("after_fault_cases", 1)
				bad := func(what string, got channel.ID) {
					res.Violate("C17", "C17:id-after-failed-calculation:"+ft.name, fmt.Sprintf("[%s, round %d] after a failed ID calculation (%s), %s gives %x, the ID of these parameters is %x", r.b.name(), round, ft.name, what, got, r.id),
						replay{Harness: "values", Prop: "C17", Check: "after-fault", Base: r.b.name(), Case: ft.name})
				}
				var id2 channel.ID
				if pan := try(func() {
					p2, err := r.m.spec.build()
					if err == nil {
						id2 = p2.ID()
					}
				}); pan != "" || id2 != r.id {
					bad("NewParams with the same values", id2)
					continue
				}
				try(ft.f)
				if id3, err := channel.CalcID(r.m.p); err != nil || id3 != r.id {
					bad("CalcID of the same object", id3)
					continue
				}
				try(ft.f)
				var d channel.Params
				if err := d.Decode(bytes.NewReader(r.enc)); err != nil || d.ID() != r.id {
					bad("Decode of their encoding", d.ID())
				}
			}
		}
	}
}

func outcome(f func() (*channel.Params, error)) (kind, detail string) {
	var p *channel.Params
	var err error
	if pan := try(func() { p, err = f() }); pan != "" {
		return "panic", trunc(pan, 300)
	}
	if err != nil {
		return "error", trunc(err.Error(), 300)
	}
	if p == nil {
		return "error", "nil result without error"
	}
	return "value", fmt.Sprintf("ID %x", p.ID())
}

func (c *c17) constraint(cc cCase) {
	res := c.res
	judge := func(fn, kind, detail string) {
		res.Count("evaluations", 1)
		res.Count("constraint_cases", 1)
		res.Seen("nontrivial", "constraint|"+fn+"|"+cc.name)
		if c.verbose {
			fmt.Printf("  %-14s %-40s -> %s (%s), documented: %s\n", fn, cc.name, kind, detail, cc.expect)
		}
		if kind == cc.expect {
			return
		}
		var clause string
		switch {
		case kind == "panic":
			clause = "constraint-panic"
		case kind == "value":
			clause = "constraint-accepted"
		default:
			clause = "valid-refused"
		}
		res.Violate("C17", fmt.Sprintf("C17:%s:%s/%s", clause, fn, cc.name),
			fmt.Sprintf("%s with %s: documented outcome %s, got %s: %s", fn, cc.name, cc.expect, kind, detail),
			replay{Harness: "values", Prop: "C17", Check: "constraint", Case: cc.name})
	}
	if !cc.noNew {
		k, d := outcome(func() (*channel.Params, error) {
			return channel.NewParams(cc.dur, cc.parts, cc.app, cc.nonce, true, false, channel.ZeroAux)
		})
		judge("NewParams", k, d)
	}
	if !cc.noDec {
		var raw []byte
		if cc.raw != nil {
			raw = cc.raw()
		} else {
			lit := &channel.Params{ChallengeDuration: cc.dur, Parts: cc.parts, App: cc.app, Nonce: cc.nonce, LedgerChannel: true}
			b, ok, why := enc(lit)
			if !ok {
				panic(fmt.Sprintf("constraint case %s: cannot build the encoding: %s", cc.name, why))
			}
			raw = b
		}
		k, d := outcome(func() (*channel.Params, error) {
			var p channel.Params
			if err := p.Decode(bytes.NewReader(raw)); err != nil {
				return nil, err
			}
			return &p, nil
		})
		judge("Params.Decode", k, d)
	}
}

// ---- a participant with addresses under two backends (DESIGN.md section 7 item 17) ----

// The sim backend alone cannot express one (NewParams refuses a sim address under another key), so
// the harness registers a second, minimal backend under id 1 whose addresses wrap sim addresses.
// Its CalcID always fails, so channel.CalcID always ends in the sim backend's CalcID.
type addr1 struct{ *simwallet.Address }

func (a *addr1) BackendID() wallet.BackendID { return 1 }
func (a *addr1) Equal(b wallet.Address) bool {
	o, ok := b.(*addr1)
	return ok && a.Address.Equal(o.Address)
}

type wb1 struct{}

func (wb1) NewAddress() wallet.Address { return &addr1{&simwallet.Address{}} }
func (wb1) DecodeSig(io.Reader) (wallet.Sig, error) {
	return nil, errors.New("backend 1 has no signatures")
}
func (wb1) VerifySignature([]byte, wallet.Sig, wallet.Address) (bool, error) {
	return false, errors.New("backend 1 has no signatures")
}

type cb1 struct{}

// (a second backend derives IDs in its own way: which backend is asked must not depend on the
// iteration order of the participant's address map)
func (cb1) CalcID(*channel.Params) (channel.ID, error) {
	var id channel.ID
	for i := range id {
		id[i] = 0xB1
	}
	return id, nil
}
func (cb1) Sign(wallet.Account, *channel.State) (wallet.Sig, error) {
	return nil, errors.New("backend 1")
}
func (cb1) Verify(wallet.Address, *channel.State, wallet.Sig) (bool, error) {
	return false, errors.New("backend 1")
}
func (cb1) NewAsset() channel.Asset          { return &simchannel.Asset{} }
func (cb1) NewAppID() (channel.AppID, error) { return nil, errors.New("backend 1 has no apps") }

// cb2 is a channel backend nobody's address belongs to; it computes a constant (wrong) ID.
type cb2 struct{ cb1 }

func (cb2) CalcID(*channel.Params) (channel.ID, error) {
	var id channel.ID
	for i := range id {
		id[i] = 0xEE
	}
	return id, nil
}

// foreignBackend: a registered backend that no participant of the channel has an address for
// has no say in the channel's ID. 200 calculations per parameter set, after the registration.
func (c *c17) foreignBackend(bases []pBase) {
	res := c.res
	type ref struct {
		b  pBase
		m  pMember
		id channel.ID
	}
	var refs []ref
	for i, b := range bases {
		if i >= 3 {
			break
		}
		m := pCatalogue(b)[0]
		refs = append(refs, ref{b, m, m.p.ID()})
	}
	channel.SetBackend(cb2{}, 2)
	for _, r := range refs {
		for k := 0; k < 200; k++ {
			res.Count("evaluations", 1)
			res.Count("foreign_backend_cases", 1)
			id, err := channel.CalcID(r.m.p)
			var id2 channel.ID
			if p2, err2 := r.m.spec.build(); err2 == nil {
				id2 = p2.ID()
			}
			if err != nil || id != r.id || id2 != r.id {
				res.Violate("C17", "C17:id-unstable:foreign-backend-registered", fmt.Sprintf("[%s, calculation %d] with a third channel backend registered (no participant has an address for it) CalcID gives %x (err=%v), NewParams with the same values %x; the ID of these parameters is %x", r.b.name(), k, id, err, id2, r.id),
					replay{Harness: "values", Prop: "C17", Check: "foreign-backend"})
				return
			}
		}
	}
}

var backend1 bool

func registerBackend1() {
	if !backend1 {
		wallet.SetBackend(wb1{}, 1)
		channel.SetBackend(cb1{}, 1)
		backend1 = true
	}
}

const twoBackendRuns = 64

func (c *c17) twoBackend() {
	res := c.res
	registerBackend1()
	mk := func() (*channel.Params, error) {
		a1 := &addr1{freshAddr(2).(*simwallet.Address)}
		parts := []map[wallet.BackendID]wallet.Address{{0: freshAddr(0), 1: a1}, {0: freshAddr(1)}}
		return channel.NewParams(60, parts, channel.NoApp(), big.NewInt(0x1234), true, false, channel.ZeroAux)
	}
	ids := map[channel.ID]int{}
	fresh := map[channel.ID]int{}
	var first *channel.Params
	for i := 0; i < twoBackendRuns; i++ {
		var p *channel.Params
		var err error
		if pan := try(func() { p, err = mk() }); pan != "" || err != nil {
			res.Note("two-backend participant: NewParams does not build it (%v %s); nothing to judge", err, trunc(pan, 200))
			return
		}
		res.Count("evaluations", 2)
		if first == nil {
			first = p
		}
		ids[p.ID()]++
		if id, err := channel.CalcID(first); err == nil {
			fresh[id]++
		}
	}
	res.Seen("nontrivial", "twobackend")
	res.Note("two-backend participant (sim address under backend 0 + wrapped sim address under harness backend 1): %d constructions of the same parameters gave %d distinct IDs; %d CalcID calls on ONE Params object gave %d distinct IDs",
		twoBackendRuns, len(ids), twoBackendRuns, len(fresh))
	if c.verbose {
		fmt.Printf("  two-backend participant: %d constructions -> %d distinct IDs; CalcID on one object -> %d distinct IDs\n", twoBackendRuns, len(ids), len(fresh))
	}
	if len(ids) > 1 || len(fresh) > 1 {
		res.Violate("C17", "C17:id-unstable:two-backend-participant",
			fmt.Sprintf("the same parameters (participant 0 with addresses under backends 0 and 1) built %d times have %d different IDs; CalcID of one unchanged Params object returned %d different IDs in %d calls (the address map is hashed in Go map iteration order)",
				twoBackendRuns, len(ids), len(fresh), twoBackendRuns),
			replay{Harness: "values", Prop: "C17", Check: "twobackend"})
	}
}

func runC17(t *testing.T, res *report.Result) {
	c := &c17{res: res}
	bases := pBases(res.Thorough())
	byID := map[channel.ID]string{}
	byKey := map[string]channel.ID{}
	members := 0
	for bi, b := range bases {
		cat := pCatalogue(b)
		members += len(cat)
		res.Count("bases", 1)
		for _, x := range cat {
			for _, y := range cat {
				c.pair(b, x, y)
			}
			c.stable(b, x)
			// across ALL bases: ID -> key and key -> ID are functions
			k := x.spec.key()
			if k0, ok := byID[x.p.ID()]; ok && k0 != k {
				res.Violate("C17", "C17:id-collision:across-bases", fmt.Sprintf("ID %x belongs to two different parameter sets:\n  %s\n  %s", x.p.ID(), k0, k),
					replay{Harness: "values", Prop: "C17", Check: "pair", Base: b.name(), A: x.name, B: x.name})
			}
			byID[x.p.ID()] = k
			if id0, ok := byKey[k]; ok && id0 != x.p.ID() {
				res.Violate("C17", "C17:id-unstable:across-bases", fmt.Sprintf("parameter set %s has IDs %x and %x", k, id0, x.p.ID()),
					replay{Harness: "values", Prop: "C17", Check: "pair", Base: b.name(), A: x.name, B: x.name})
			}
			byKey[k] = x.p.ID()
			res.Count("evaluations", 2)
		}
		if bi < 2 {
			var names []string
			for _, m := range cat {
				names = append(names, m.name)
			}
			res.Sample(6, map[string]interface{}{"base": b.name(), "key": cat[0].spec.key(), "id": fmt.Sprintf("%x", cat[0].p.ID()), "members": names})
		}
	}
	res.Count("catalogue_members", int64(members))
	res.Count("distinct_parameter_sets", int64(len(byKey)))
	res.Count("distinct_ids", int64(len(byID)))
	c.afterFault(bases)
	for _, cc := range constraintCases() {
		c.constraint(cc)
	}
	c.twoBackend()
	c.foreignBackend(bases)
	res.Extra["exhaustive"] = true
	res.Extra["bound"] = fmt.Sprintf("%d base parameter sets (2-3 participants x app none/A/B x 4 flag combinations x nonce 0x1234/0/2^256-1 x duration 60/1/2^64-1) x every single-field change; all ordered pairs per base plus ID<->fields bijection over all %d members; %d constraint cases; %d ID calculations of valid parameter sets, each directly after a failed one (5 fault kinds, 3 rounds)",
		len(bases), members, len(constraintCases()), res.Counters["after_fault_cases"])
	res.Note("nonce with another byte length but the same number: not constructible as a big.Int (always normalised); covered on the encoding side (zero-padded nonce bytes, %d decodes)", res.Counters["padded_nonce_decodes"])
	res.Note("Aux is outside the statement: %d ordered pairs differing in Aux had equal IDs, %d different IDs (recorded, not judged)", res.Counters["aux_differs_id_equal"], res.Counters["aux_differs_id_differs"])
}

func replayC17(t *testing.T, res *report.Result, rp replay) {
	c := &c17{res: res, verbose: true}
	switch rp.Check {
	case "constraint":
		for _, cc := range constraintCases() {
			if cc.name == rp.Case {
				c.constraint(cc)
			}
		}
	case "twobackend":
		c.twoBackend()
	case "foreign-backend":
		c.foreignBackend(pBases(res.Thorough()))
	case "after-fault":
		c.afterFault(pBases(res.Thorough()))
	case "pair", "stable":
		for _, b := range pBases(true) {
			if b.name() != rp.Base {
				continue
			}
			var x, y *pMember
			cat := pCatalogue(b)
			for i := range cat {
				if cat[i].name == rp.A {
					x = &cat[i]
				}
				if cat[i].name == rp.B {
					y = &cat[i]
				}
			}
			if x == nil || (rp.Check == "pair" && y == nil) {
				t.Fatalf("unknown member %q / %q", rp.A, rp.B)
			}
			fmt.Printf("  a: %s\n", x.spec.key())
			if rp.Check == "pair" {
				fmt.Printf("  b: %s\n", y.spec.key())
				c.pair(b, *x, *y)
			} else {
				c.stable(b, *x)
			}
		}
	default:
		t.Fatalf("unknown C17 check %q", rp.Check)
	}
	for _, v := range res.Violations {
		fmt.Printf("  VERDICT %s: %s\n", v.Signature, trunc(v.Detail, 400))
	}
}
