package values

// C15: values are equal exactly when their encodings are; a signature binds one state.

import (
	"bytes"
	"crypto/sha1"
	"fmt"
	"math/big"
	"sort"
	"strings"
	"testing"

	"perun.network/go-perun/apps/payment"
	simchannel "perun.network/go-perun/backend/sim/channel"
	"perun.network/go-perun/channel"
	"perun.network/go-perun/wallet"
	"verif/engine/report"
	"verif/harness/fx"
)

// assets of the catalogue (distinct sim assets; [i] and rep(i) are different objects with the same id).
var assets = func() []channel.Asset {
	var a []channel.Asset
	for i := 0; i < 6; i++ {
		a = append(a, &simchannel.Asset{ID: uint64(0xB0 + i)})
	}
	return a
}()

// stBase is one base state of the catalogue.
type stBase struct {
	NA, NP int
	Lock   string // none | 1nil | 1empty | 1id | 1sw | 2idnil | 2swempty
	App    string // none | payment
	Final  bool
}

func (b stBase) name() string {
	f := ""
	if b.Final {
		f = "-final"
	}
	return fmt.Sprintf("%da%dp-lock:%s-%s%s", b.NA, b.NP, b.Lock, b.App, f)
}

var lockKinds = []string{"none", "1nil", "1empty", "1id", "1sw", "2idnil", "2swempty"}

func identity(n int) []channel.Index {
	m := make([]channel.Index, n)
	for i := range m {
		m[i] = channel.Index(i)
	}
	return m
}

func swapped(n int) []channel.Index {
	m := identity(n)
	m[0], m[1] = m[1], m[0]
	return m
}

func mkSub(k, na int, idx []channel.Index) channel.SubAlloc {
	bals := make([]channel.Bal, na)
	for i := range bals {
		bals[i] = big.NewInt(int64(100*(k+1) + i + 1))
	}
	return channel.SubAlloc{ID: channel.ID{byte(9 - k), 7}, Bals: bals, IndexMap: idx}
}

func (b stBase) build() *channel.State {
	s := &channel.State{ID: channel.ID{1, 2, 3, 4}, Version: 3, App: channel.NoApp(), Data: channel.NoData(), IsFinal: b.Final}
	if b.App == "payment" {
		s.App = fx.PayApp
	}
	for i := 0; i < b.NA; i++ {
		s.Backends = append(s.Backends, 0)
		s.Assets = append(s.Assets, assets[i])
		row := make([]channel.Bal, b.NP)
		for j := range row {
			row[j] = big.NewInt(int64(10*(i+1) + j + 1))
		}
		s.Balances = append(s.Balances, row)
	}
	switch b.Lock {
	case "none":
	case "1nil":
		s.Locked = []channel.SubAlloc{mkSub(0, b.NA, nil)}
	case "1empty":
		s.Locked = []channel.SubAlloc{mkSub(0, b.NA, []channel.Index{})}
	case "1id":
		s.Locked = []channel.SubAlloc{mkSub(0, b.NA, identity(b.NP))}
	case "1sw":
		s.Locked = []channel.SubAlloc{mkSub(0, b.NA, swapped(b.NP))}
	case "2idnil":
		s.Locked = []channel.SubAlloc{mkSub(0, b.NA, identity(b.NP)), mkSub(1, b.NA, nil)}
	case "2swempty":
		s.Locked = []channel.SubAlloc{mkSub(0, b.NA, swapped(b.NP)), mkSub(1, b.NA, []channel.Index{})}
	default:
		panic(b.Lock)
	}
	return s
}

func stBases(thorough bool) []stBase {
	var out []stBase
	nas, nps := []int{1, 2}, []int{2, 3}
	if thorough {
		nas, nps = []int{1, 2, 3}, []int{2, 3, 4}
	}
	for _, na := range nas {
		for _, np := range nps {
			for _, l := range lockKinds {
				for _, app := range []string{"none", "payment"} {
					for _, fin := range []bool{false, true} {
						out = append(out, stBase{na, np, l, app, fin})
					}
				}
			}
		}
	}
	if !thorough { // three assets: a few representatives in the quick tier
		for _, l := range []string{"none", "1sw", "2idnil"} {
			out = append(out, stBase{3, 2, l, "none", false})
		}
	}
	return out
}

type mut struct {
	name string
	f    func(s *channel.State)
}

// mutsFor lists every single-field mutation of base b, nested fields included, one per position.
func mutsFor(b stBase) []mut {
	var ms []mut
	add := func(name string, f func(s *channel.State)) { ms = append(ms, mut{name, f}) }
	add("id[0]", func(s *channel.State) { s.ID[0] ^= 1 })
	add("id[31]", func(s *channel.State) { s.ID[31] ^= 0x80 })
	add("version+1", func(s *channel.State) { s.Version++ })
	add("version^hi", func(s *channel.State) { s.Version ^= 1 << 63 })
	add("final", func(s *channel.State) { s.IsFinal = !s.IsFinal })
	add("app", func(s *channel.State) {
		if channel.IsNoApp(s.App) {
			s.App = fx.PayApp
		} else {
			s.App = channel.NoApp()
		}
	})
	add("app=other", func(s *channel.State) { s.App = fx.OtherApp })
	if b.App == "payment" {
		add("app-rep", func(s *channel.State) { s.App = &payment.App{ID: fx.PayApp.Def()} })
	} else {
		add("app-rep", func(s *channel.State) { s.App = channel.NoApp() })
	}
	add("app=nil", func(s *channel.State) { s.App = nil })
	add("data=op7", func(s *channel.State) { s.Data = channel.NewMockOp(7) })
	add("data=op8", func(s *channel.State) { s.Data = channel.NewMockOp(8) })
	add("data-rep", func(s *channel.State) { s.Data = channel.NoData() })
	add("data=nil", func(s *channel.State) { s.Data = nil })
	for i := 0; i < b.NA; i++ {
		for j := 0; j < b.NP; j++ {
			i, j := i, j
			add(fmt.Sprintf("bal[%d][%d]+1", i, j), func(s *channel.State) { s.Balances[i][j] = new(big.Int).Add(s.Balances[i][j], big.NewInt(1)) })
		}
	}
	add("bal[0][0]=2^64+5", func(s *channel.State) {
		s.Balances[0][0] = new(big.Int).Add(new(big.Int).Lsh(big.NewInt(1), 64), big.NewInt(5))
	})
	add("bal[0][0]=0", func(s *channel.State) { s.Balances[0][0] = new(big.Int) })
	add("bal[0][0]-rep", func(s *channel.State) {
		v := new(big.Int).SetBits(append(make([]big.Word, 0, 8), s.Balances[0][0].Bits()...))
		s.Balances[0][0] = v
	})
	add("bal[0][0]=-1", func(s *channel.State) { s.Balances[0][0] = big.NewInt(-1) })
	for i := 0; i < b.NA; i++ {
		i := i
		add(fmt.Sprintf("asset[%d]=other", i), func(s *channel.State) { s.Assets[i] = assets[5] })
		add(fmt.Sprintf("asset[%d]-rep", i), func(s *channel.State) { s.Assets[i] = &simchannel.Asset{ID: uint64(0xB0 + i)} })
		add(fmt.Sprintf("backend[%d]=5", i), func(s *channel.State) { s.Backends[i] = 5 })
	}
	if b.NA >= 2 {
		add("asset-swap01", func(s *channel.State) { s.Assets[0], s.Assets[1] = s.Assets[1], s.Assets[0] })
	}
	nl := len(b.build().Locked)
	for l := 0; l < nl; l++ {
		l := l
		add(fmt.Sprintf("locked[%d].id", l), func(s *channel.State) { s.Locked[l].ID[0] ^= 1 })
		for i := 0; i < b.NA; i++ {
			i := i
			add(fmt.Sprintf("locked[%d].bal[%d]+1", l, i), func(s *channel.State) {
				s.Locked[l].Bals[i] = new(big.Int).Add(s.Locked[l].Bals[i], big.NewInt(1))
			})
		}
		add(fmt.Sprintf("locked[%d].bal[0]=-1", l), func(s *channel.State) { s.Locked[l].Bals[0] = big.NewInt(-1) })
		add(fmt.Sprintf("locked[%d].bals-drop", l), func(s *channel.State) { s.Locked[l].Bals = s.Locked[l].Bals[:len(s.Locked[l].Bals)-1] })
		add(fmt.Sprintf("locked[%d].bals-append", l), func(s *channel.State) { s.Locked[l].Bals = append(s.Locked[l].Bals, big.NewInt(1)) })
		ni := len(b.build().Locked[l].IndexMap)
		for e := 0; e < ni; e++ {
			e := e
			add(fmt.Sprintf("locked[%d].idx[%d]^1", l, e), func(s *channel.State) { s.Locked[l].IndexMap[e] ^= 1 })
		}
		add(fmt.Sprintf("locked[%d].idx-append", l), func(s *channel.State) {
			s.Locked[l].IndexMap = append(append([]channel.Index{}, s.Locked[l].IndexMap...), 0)
		})
		if ni > 0 {
			add(fmt.Sprintf("locked[%d].idx-drop", l), func(s *channel.State) { s.Locked[l].IndexMap = s.Locked[l].IndexMap[:ni-1] })
			add(fmt.Sprintf("locked[%d].idx=nil", l), func(s *channel.State) { s.Locked[l].IndexMap = nil })
		} else {
			add(fmt.Sprintf("locked[%d].idx=identity", l), func(s *channel.State) { s.Locked[l].IndexMap = identity(b.NP) })
			add(fmt.Sprintf("locked[%d].idx=swapped", l), func(s *channel.State) { s.Locked[l].IndexMap = swapped(b.NP) })
			add(fmt.Sprintf("locked[%d].idx-nil-vs-empty", l), func(s *channel.State) {
				if s.Locked[l].IndexMap == nil {
					s.Locked[l].IndexMap = []channel.Index{}
				} else {
					s.Locked[l].IndexMap = nil
				}
			})
		}
	}
	add("locked-add", func(s *channel.State) { s.Locked = append(s.Locked, mkSub(2, b.NA, identity(b.NP))) })
	switch nl {
	case 0:
		add("locked-nil-vs-empty", func(s *channel.State) { s.Locked = []channel.SubAlloc{} })
	case 2:
		add("locked-swap", func(s *channel.State) { s.Locked[0], s.Locked[1] = s.Locked[1], s.Locked[0] })
		fallthrough
	case 1:
		add("locked-drop-last", func(s *channel.State) { s.Locked = s.Locked[:len(s.Locked)-1] })
		add("locked-clear", func(s *channel.State) { s.Locked = nil })
	}
	// dimensions (consistent)
	add("parts+1", func(s *channel.State) {
		for i := range s.Balances {
			s.Balances[i] = append(s.Balances[i], new(big.Int))
		}
	})
	add("parts-1", func(s *channel.State) {
		for i := range s.Balances {
			s.Balances[i] = s.Balances[i][:len(s.Balances[i])-1]
		}
	})
	add("assets+1", func(s *channel.State) {
		s.Backends, s.Assets = append(s.Backends, 0), append(s.Assets, assets[4])
		row := make([]channel.Bal, b.NP)
		for j := range row {
			row[j] = big.NewInt(int64(90 + j))
		}
		s.Balances = append(s.Balances, row)
		for l := range s.Locked {
			s.Locked[l].Bals = append(s.Locked[l].Bals, big.NewInt(int64(900+l)))
		}
	})
	if b.NA >= 2 {
		add("assets-1", func(s *channel.State) {
			n := b.NA - 1
			s.Backends, s.Assets, s.Balances = s.Backends[:n], s.Assets[:n], s.Balances[:n]
			for l := range s.Locked {
				s.Locked[l].Bals = s.Locked[l].Bals[:n]
			}
		})
	}
	// dimensions (one container only: not a valid allocation, but still a value of Balances / a slice
	// that the comparison functions accept)
	add("row[0]+col", func(s *channel.State) { s.Balances[0] = append(s.Balances[0], new(big.Int)) })
	add("row[last]-col", func(s *channel.State) {
		k := len(s.Balances) - 1
		s.Balances[k] = s.Balances[k][:len(s.Balances[k])-1]
	})
	add("rows-drop", func(s *channel.State) { s.Balances = s.Balances[:len(s.Balances)-1] })
	add("rows+1", func(s *channel.State) { s.Balances = append(s.Balances, []channel.Bal{big.NewInt(1), big.NewInt(2)}) })
	add("backends-drop", func(s *channel.State) { s.Backends = s.Backends[:len(s.Backends)-1] })
	// NOT in the judged family (ill-formed beyond what the encoder can represent; found by this
	// harness, recorded in DESIGN.md section 9): a surplus Backends entry ("backends+1") is ignored
	// by Encode, which indexes Backends once per asset, but seen by Equal; ragged balances whose
	// rows merely shift their lengths ("row-shift") encode like rectangular ones because
	// Balances.Encode writes len(b[0]) for every row. Both are outside "one backend id per asset,
	// one balance per asset and participant", the same well-formedness C02 assumes.
	add("assets-drop-only", func(s *channel.State) { s.Assets = s.Assets[:len(s.Assets)-1] })
	return ms
}

// member is one catalogue member with everything that is computed once.
type member struct {
	name                string
	single              bool // base or one mutation
	s                   *channel.State
	encS, encA, encB    []byte
	okS, okA, okB       bool
	encSubs             [][]byte
	okSubs              []bool
	encSubList          []byte
	okSubList           bool
	encAssets, encBacks []byte
}

func encSubList(l []channel.SubAlloc) ([]byte, bool) {
	var buf bytes.Buffer
	fmt.Fprintf(&buf, "%d|", len(l))
	for i := range l {
		b, ok, _ := enc(l[i])
		if !ok {
			return nil, false
		}
		fmt.Fprintf(&buf, "%d:", len(b))
		buf.Write(b)
	}
	return buf.Bytes(), true
}

func newMember(name string, s *channel.State) *member {
	m := &member{name: name, s: s}
	m.encS, m.okS, _ = enc(s)
	m.encA, m.okA, _ = enc(s.Allocation)
	m.encB, m.okB, _ = enc(s.Balances)
	for i := range s.Locked {
		b, ok, _ := enc(s.Locked[i])
		m.encSubs, m.okSubs = append(m.encSubs, b), append(m.okSubs, ok)
	}
	m.encSubList, m.okSubList = encSubList(s.Locked)
	// assets / backends have no encoder of their own: the bytes the allocation encoder writes for them
	var ab, bb bytes.Buffer
	fmt.Fprintf(&ab, "%d|", len(s.Assets))
	for _, a := range s.Assets {
		d, _ := a.MarshalBinary()
		fmt.Fprintf(&ab, "%x,", d)
	}
	fmt.Fprintf(&bb, "%d|", len(s.Backends))
	for _, x := range s.Backends {
		fmt.Fprintf(&bb, "%d,", uint32(x))
	}
	m.encAssets, m.encBacks = ab.Bytes(), bb.Bytes()
	return m
}

// catalogueFor builds base + every single mutation (+ every pair of mutations if double).
func catalogueFor(b stBase, double bool) []*member {
	ms := mutsFor(b)
	out := []*member{newMember("base", b.build())}
	for _, m := range ms {
		s := b.build()
		if p := try(func() { m.f(s) }); p != "" {
			panic(fmt.Sprintf("mutation %s not applicable to %s: %s", m.name, b.name(), p))
		}
		out = append(out, newMember(m.name, s))
	}
	for _, m := range out {
		m.single = true
	}
	if double {
		for i, x := range ms {
			for _, y := range ms[i+1:] {
				s := b.build()
				if p := try(func() { x.f(s); y.f(s) }); p != "" {
					continue // the two mutations exclude each other (the second no longer finds its position)
				}
				if len(s.Backends) > len(s.Assets) {
					// two mutations can combine to a surplus Backends entry ("rows-drop" + "assets-drop-only"):
					// outside the judged family for the reason given in mutsFor (Encode indexes Backends once
					// per asset and cannot represent it)
					continue
				}
				out = append(out, newMember(x.name+" + "+y.name, s))
			}
		}
	}
	return out
}

func memberByName(b stBase, name string) *member {
	ms := mutsFor(b)
	s := b.build()
	if name != "base" {
		for _, part := range strings.Split(name, " + ") {
			found := false
			for _, m := range ms {
				if m.name == part {
					m.f(s)
					found = true
				}
			}
			if !found {
				panic("unknown mutation " + part)
			}
		}
	}
	return newMember(name, s)
}

// ---- structural difference classes (labels for signatures and for the non-trivial rule) ----

func appKey(a channel.App) (k string) {
	defer func() {
		if recover() != nil {
			k = "invalid"
		}
	}()
	if a == nil {
		return "nil"
	}
	if channel.IsNoApp(a) {
		return "none"
	}
	b, _ := a.Def().MarshalBinary()
	return fmt.Sprintf("%x", b)
}

func dataKey(d channel.Data) string {
	if d == nil {
		return "nil"
	}
	b, _ := d.MarshalBinary()
	return fmt.Sprintf("%x", b)
}

func balDiffers(x, y channel.Bal) bool {
	if x == nil || y == nil {
		return x != y
	}
	return x.Cmp(y) != 0
}

func diffBals(a, b channel.Balances, d map[string]bool) {
	if len(a) != len(b) {
		d["dims-rows"] = true
	}
	for i := 0; i < len(a) && i < len(b); i++ {
		if len(a[i]) != len(b[i]) {
			d["dims-parts"] = true
		}
		for j := 0; j < len(a[i]) && j < len(b[i]); j++ {
			if balDiffers(a[i][j], b[i][j]) {
				d["balance"] = true
			}
		}
	}
}

func diffSub(a, b *channel.SubAlloc, d map[string]bool) {
	if a.ID != b.ID {
		d["locked-id"] = true
	}
	if len(a.Bals) != len(b.Bals) {
		d["locked-dims"] = true
	}
	for i := 0; i < len(a.Bals) && i < len(b.Bals); i++ {
		if balDiffers(a.Bals[i], b.Bals[i]) {
			d["locked-amount"] = true
		}
	}
	if len(a.IndexMap) != len(b.IndexMap) {
		d["indexmap-len"] = true // entries of maps of different lengths are not compared position by position
		return
	}
	for i := range a.IndexMap {
		if a.IndexMap[i] != b.IndexMap[i] {
			d["indexmap-entry"] = true
		}
	}
}

func diffSubs(a, b []channel.SubAlloc, d map[string]bool) {
	if len(a) != len(b) {
		d["locked-count"] = true
	}
	for l := 0; l < len(a) && l < len(b); l++ {
		diffSub(&a[l], &b[l], d)
	}
}

func diffAssets(a, b []channel.Asset, d map[string]bool) {
	if len(a) != len(b) {
		d["dims-assets"] = true
	}
	for i := 0; i < len(a) && i < len(b); i++ {
		x, _ := a[i].MarshalBinary()
		y, _ := b[i].MarshalBinary()
		if !bytes.Equal(x, y) {
			d["asset"] = true
		}
	}
}

func diffBackends(a, b []wallet.BackendID, d map[string]bool) {
	if len(a) != len(b) {
		d["dims-backends"] = true
	}
	for i := 0; i < len(a) && i < len(b); i++ {
		if a[i] != b[i] {
			d["backend"] = true
		}
	}
}

func diffAlloc(a, b *channel.Allocation, d map[string]bool) {
	diffBackends(a.Backends, b.Backends, d)
	diffAssets(a.Assets, b.Assets, d)
	diffBals(a.Balances, b.Balances, d)
	diffSubs(a.Locked, b.Locked, d)
}

func diffState(a, b *channel.State, d map[string]bool) {
	if a.ID != b.ID {
		d["id"] = true
	}
	if a.Version != b.Version {
		d["version"] = true
	}
	if a.IsFinal != b.IsFinal {
		d["final"] = true
	}
	if appKey(a.App) != appKey(b.App) {
		d["app"] = true
	}
	if dataKey(a.Data) != dataKey(b.Data) {
		d["data"] = true
	}
	diffAlloc(&a.Allocation, &b.Allocation, d)
}

func classes(d map[string]bool) (string, int) {
	if len(d) == 0 {
		return "same-fields", 0
	}
	ks := make([]string, 0, len(d))
	for k := range d {
		ks = append(ks, k)
	}
	sort.Strings(ks)
	return strings.Join(ks, "+"), len(ks)
}

func appLabel(a channel.App) string {
	switch k := appKey(a); k {
	case "nil", "none", "invalid":
		return k
	case appKey(fx.PayApp):
		return "A"
	case appKey(fx.OtherApp):
		return "B"
	}
	return "other"
}

// contentKey identifies the content of a state independently of the fixture keys.
func contentKey(m *member) []byte {
	return []byte(fmt.Sprintf("%x|%d|%v|%s|%s|%x", m.s.ID, m.s.Version, m.s.IsFinal, appLabel(m.s.App), dataKey(m.s.Data), m.encA))
}

// ---- the pair oracle ----

type c15 struct {
	res     *report.Result
	verbose bool
	only    *replay // replay mode: judge this (function, sub-allocation indices) only
}

// judge compares one comparison function's verdict with byte equality of the encodings.
func (c *c15) judge(b stBase, x, y *member, typ, fn string, ia, ib int, diff func(d map[string]bool), ex, ey []byte, equal func() bool) {
	if c.only != nil && (c.only.Fn != fn || c.only.IA != ia || c.only.IB != ib) {
		return
	}
	var eq bool
	p := try(func() { eq = equal() })
	be := bytes.Equal(ex, ey)
	c.res.Count("evaluations", 1)
	d := map[string]bool{}
	diff(d)
	cls, n := classes(d)
	if n <= 1 {
		// keyed by content (two catalogue positions with the same sub-value are one case); for states the
		// app is rendered by label because the fixture app ids differ from process to process
		kx, ky := ex, ey
		if typ == "State" {
			kx, ky = contentKey(x), contentKey(y)
		}
		h := sha1.Sum([]byte(fmt.Sprintf("%s|%d|%s|%d|%s", fn, len(kx), kx, len(ky), ky)))
		c.res.Seen("nontrivial", fmt.Sprintf("%x", h[:6]))
		c.res.Seen("diff_classes", typ+"/"+cls)
	}
	if be {
		c.res.Count("pairs_equal_encoding", 1)
	}
	if c.verbose {
		fmt.Printf("  %-24s %-10s a=%q b=%q  differ in: %s  equal encodings: %v  function says equal: %v %s\n", fn, typ, x.name, y.name, cls, be, eq, p)
	}
	rp := replay{Harness: "values", Prop: "C15", Check: "equal", Base: b.name(), A: x.name, B: y.name, Type: typ, Fn: fn, IA: ia, IB: ib}
	if p != "" {
		c.res.Violate("C15", fmt.Sprintf("C15:%s-panics:%s/%s", fn, typ, cls),
			fmt.Sprintf("[%s] %s panicked on the encodable pair (%s, %s): %s", b.name(), fn, x.name, y.name, trunc(p, 300)), rp)
		return
	}
	if eq != be {
		what := "says EQUAL although the encodings differ"
		if be {
			what = "says NOT equal although the encodings are byte-identical"
		}
		c.res.Violate("C15", fmt.Sprintf("C15:%s-disagrees:%s/%s", fn, typ, cls),
			fmt.Sprintf("[%s] %s %s: a = base with %q, b = base with %q (they differ in: %s); enc(a)=%x enc(b)=%x",
				b.name(), fn, what, x.name, y.name, cls, trunc(string(ex), 400), trunc(string(ey), 400)), rp)
	}
}

func (c *c15) pair(b stBase, x, y *member) {
	res := c.res
	if x.okS && y.okS {
		c.judge(b, x, y, "State", "State.Equal", 0, 0, func(d map[string]bool) { diffState(x.s, y.s, d) }, x.encS, y.encS,
			func() bool { return x.s.Equal(y.s) == nil })
	} else {
		res.Count("skipped_unencodable_State_pairs", 1)
	}
	if x.okA && y.okA {
		c.judge(b, x, y, "Allocation", "Allocation.Equal", 0, 0, func(d map[string]bool) { diffAlloc(&x.s.Allocation, &y.s.Allocation, d) }, x.encA, y.encA,
			func() bool { return x.s.Allocation.Equal(&y.s.Allocation) == nil })
		c.judge(b, x, y, "Assets", "AssertAssetsEqual", 0, 0, func(d map[string]bool) { diffAssets(x.s.Assets, y.s.Assets, d) }, x.encAssets, y.encAssets,
			func() bool { return channel.AssertAssetsEqual(x.s.Assets, y.s.Assets) == nil })
	} else {
		res.Count("skipped_unencodable_Allocation_pairs", 1)
	}
	if x.okB && y.okB {
		df := func(d map[string]bool) { diffBals(x.s.Balances, y.s.Balances, d) }
		c.judge(b, x, y, "Balances", "Balances.Equal", 0, 0, df, x.encB, y.encB, func() bool { return x.s.Balances.Equal(y.s.Balances) })
		c.judge(b, x, y, "Balances", "Balances.AssertEqual", 0, 0, df, x.encB, y.encB, func() bool { return x.s.Balances.AssertEqual(y.s.Balances) == nil })
	} else {
		res.Count("skipped_unencodable_Balances_pairs", 1)
	}
	if x.okSubList && y.okSubList {
		df := func(d map[string]bool) { diffSubs(x.s.Locked, y.s.Locked, d) }
		c.judge(b, x, y, "SubAllocs", "SubAllocsAssertEqual", 0, 0, df, x.encSubList, y.encSubList,
			func() bool { return channel.SubAllocsAssertEqual(x.s.Locked, y.s.Locked) == nil })
		c.judge(b, x, y, "SubAllocs", "SubAllocsEqual", 0, 0, df, x.encSubList, y.encSubList,
			func() bool { return channel.SubAllocsEqual(x.s.Locked, y.s.Locked) })
	} else {
		res.Count("skipped_unencodable_SubAllocs_pairs", 1)
	}
	for ia := range x.s.Locked {
		for ib := range y.s.Locked {
			if !x.okSubs[ia] || !y.okSubs[ib] {
				res.Count("skipped_unencodable_SubAlloc_pairs", 1)
				continue
			}
			ia, ib := ia, ib
			c.judge(b, x, y, "SubAlloc", "SubAlloc.Equal", ia, ib, func(d map[string]bool) { diffSub(&x.s.Locked[ia], &y.s.Locked[ib], d) }, x.encSubs[ia], y.encSubs[ib],
				func() bool { return x.s.Locked[ia].Equal(&y.s.Locked[ib]) == nil })
		}
	}
}

// ---- signature binding ----

var sigAccs = []int{0, 1, 3} // participant 0, participant 1, stranger

func (c *c15) sigCase(b stBase, x, y *member, k, j int) {
	res := c.res
	sig := fx.Sig(k, x.s)
	var ok bool
	var err error
	p := try(func() { ok, err = channel.Verify(fx.Accs[j].Address(), y.s, sig) })
	res.Count("evaluations", 1)
	res.Count("verifications", 1)
	be := bytes.Equal(x.encS, y.encS)
	want := j == k && be
	d := map[string]bool{}
	diffState(x.s, y.s, d)
	cls, n := classes(d)
	if n <= 1 {
		kx, ky := contentKey(x), contentKey(y)
		h := sha1.Sum([]byte(fmt.Sprintf("sig|%d|%d|%d|%s|%s", k, j, len(kx), kx, ky)))
		res.Seen("nontrivial", fmt.Sprintf("%x", h[:6]))
	}
	if want {
		res.Count("verifications_expected_true", 1)
	}
	if c.verbose {
		fmt.Printf("  Verify(addr %d, base with %q, Sign(acc %d, base with %q)) = %v, %v %s; states differ in: %s; expected %v\n", j, y.name, k, x.name, ok, err, p, cls, want)
	}
	got := p == "" && err == nil && ok
	if got == want && p == "" {
		return
	}
	var cas string
	switch {
	case p != "":
		cas = "verify-panics/" + cls
	case got && j != k:
		cas = "verifies-for-other-address"
	case got:
		cas = "verifies-for-other-state/" + cls
	case be && x.name == y.name:
		cas = "own-signature-rejected"
	default:
		cas = "rejected-for-equal-encoding/" + cls
	}
	res.Violate("C15", "C15:sig-binding:"+cas,
		fmt.Sprintf("[%s] Verify(address of account %d, base with %q, Sign(account %d, base with %q)) = (%v, %v) %s; signer==address: %v, encodings equal: %v (states differ in: %s)",
			b.name(), j, y.name, k, x.name, ok, err, p, j == k, be, cls),
		replay{Harness: "values", Prop: "C15", Check: "sig", Base: b.name(), A: x.name, B: y.name, Signer: k, Addr: j})
}

func runC15(t *testing.T, res *report.Result) {
	c := &c15{res: res}
	bases := stBases(res.Thorough())
	shard, nshards := report.Shard()
	deadline := report.Deadline()
	double := res.Thorough()
	// work unit = one row of a base's pair matrix (member x against every member y, and x as the
	// signed state of the signature cases); units are dealt round-robin to the shards
	unit := 0
	if shard == 0 {
		c.reentrant(bases)
	}
	for bi, b := range bases {
		if deadlinePassed(deadline) {
			res.Cap("deadline reached at base %d of %d", bi, len(bases))
			break
		}
		single := catalogueFor(b, false)
		cat := single
		if double {
			cat = catalogueFor(b, true)
		}
		if bi%nshards == shard { // per-base counters are reported by one shard only
			res.Count("bases", 1)
			res.Count("catalogue_members", int64(len(cat)))
			for _, m := range cat {
				if !m.okS {
					res.Count("members_unencodable_as_State", 1)
				}
			}
			var names []string
			for _, m := range single {
				names = append(names, m.name)
			}
			res.Sample(3, map[string]interface{}{"base": b.name(), "state_encoding": fmt.Sprintf("%x", single[0].encS), "mutations": names})
		}
		for _, x := range cat {
			unit++
			if (unit-1)%nshards != shard {
				continue
			}
			for _, y := range cat {
				if !x.single && !y.single {
					continue // thorough: pairs of two double mutations (4 changes apart) are outside the bound
				}
				c.pair(b, x, y)
				res.Count("ordered_pairs", 1)
			}
			// signature binding over the single-mutation neighbourhood
			if !x.single || !x.okS {
				continue
			}
			for _, k := range sigAccs {
				for _, y := range single {
					if !y.okS {
						continue
					}
					for _, j := range sigAccs {
						c.sigCase(b, x, y, k, j)
					}
				}
			}
		}
	}
	if len(res.Caps) == 0 {
		res.Extra["exhaustive"] = true
	}
	res.Extra["bound"] = fmt.Sprintf("%d base states (assets x participants x 7 sub-allocation/index-map layouts x app none/payment x final flag) x every single-field mutation%s; all ordered pairs per base; signature binding over base + single mutations x 3 signers x 3 addresses",
		len(bases), map[bool]string{true: " and every pair of mutations (pairs with at least one member in the single-mutation neighbourhood)", false: ""}[double])
	res.Note("shard %d/%d: %d bases, %d catalogue members, %d ordered pairs, %d signature verifications", shard, nshards, res.Counters["bases"], res.Counters["catalogue_members"], res.Counters["ordered_pairs"], res.Counters["verifications"])
}

func findBase(name string, thorough bool) (stBase, bool) {
	for _, b := range stBases(true) {
		if b.name() == name {
			return b, true
		}
	}
	for _, b := range stBases(false) {
		if b.name() == name {
			return b, true
		}
	}
	return stBase{}, false
}

func replayC15(t *testing.T, res *report.Result, rp replay) {
	if rp.Check == "reentrant" {
		(&c15{res: res, verbose: true}).reentrant(stBases(res.Thorough()))
		return
	}
	b, ok := findBase(rp.Base, true)
	if !ok {
		t.Fatalf("unknown base %q", rp.Base)
	}
	x, y := memberByName(b, rp.A), memberByName(b, rp.B)
	c := &c15{res: res, verbose: true}
	if rp.Fn != "" {
		c.only = &rp
	}
	fmt.Printf("  base %s: %s\n", b.name(), trunc(fmt.Sprintf("%+v", *b.build()), 600))
	switch rp.Check {
	case "equal":
		c.pair(b, x, y)
	case "sig":
		c.sigCase(b, x, y, rp.Signer, rp.Addr)
	default:
		t.Fatalf("unknown C15 check %q", rp.Check)
	}
	for _, v := range res.Violations {
		fmt.Printf("  VERDICT %s: %s\n", v.Signature, trunc(v.Detail, 400))
	}
}
