package values

// C19, action machine part: an ActionMachine with every subset of its participants' staged
// actions (each action carries its own value), before Init and after a completed Init, is
// cloned; the clone must be equal (canonical dump of all fields: every staged action has the
// value of the original's action at the same index), share no writable memory with the
// original, and no in-place change of one side may show through the other.

import (
	"encoding/binary"
	"fmt"
	"math/big"

	"perun.network/go-perun/channel"
	"perun.network/go-perun/wallet"
	"verif/harness/fx"
	"verif/harness/values/walk"
)

// valAction is an action that carries a value (amount the actor wants in the initial allocation).
type valAction struct{ V uint64 }

func (a *valAction) MarshalBinary() ([]byte, error) {
	return binary.LittleEndian.AppendUint64(nil, a.V), nil
}

func (a *valAction) UnmarshalBinary(b []byte) error {
	if len(b) != 8 {
		return fmt.Errorf("valAction: %d bytes", len(b))
	}
	a.V = binary.LittleEndian.Uint64(b)
	return nil
}

// valApp: the initial allocation gives participant i the amount of its action.
type valApp struct{}

func (valApp) Def() channel.AppID        { return fx.OtherApp.Def() }
func (valApp) NewData() channel.Data     { return channel.NoData() }
func (valApp) NewAction() channel.Action { return &valAction{} }
func (valApp) ValidAction(*channel.Params, *channel.State, channel.Index, channel.Action) error {
	return nil
}

func (valApp) ApplyActions(_ *channel.Params, s *channel.State, acts []channel.Action) (*channel.State, error) {
	n := s.Clone()
	n.Version++
	return n, nil
}

func (valApp) InitState(_ *channel.Params, acts []channel.Action) (channel.Allocation, channel.Data, error) {
	row := make([]int64, len(acts))
	for i, a := range acts {
		row[i] = int64(a.(*valAction).V)
	}
	return fx.Alloc(row), channel.NoData(), nil
}

func (c *c19) actionMachines() {
	for _, n := range []int{2, 3} {
		parts := make([]map[wallet.BackendID]wallet.Address, n)
		for i := range parts {
			parts[i] = fx.Addr(i)
		}
		p := channel.NewParamsUnsafe(60, parts, valApp{}, big.NewInt(int64(400+n)), true, false, channel.ZeroAux)
		for mask := 0; mask < 1<<n; mask++ {
			m, err := channel.NewActionMachine(fx.AccMap(0), *p)
			if err != nil {
				panic("engine: " + err.Error())
			}
			for i := 0; i < n; i++ {
				if mask&(1<<i) != 0 {
					if err := m.AddAction(channel.Index(i), &valAction{V: uint64(10 + 3*i)}); err != nil {
						panic("engine: " + err.Error())
					}
				}
			}
			shape := fmt.Sprintf("%d participants, staged actions of %03b", n, mask)
			rp := replay{Harness: "values", Prop: "C19", Check: "actionmachine"}
			var cl *channel.ActionMachine
			if pan := try(func() { cl = m.Clone() }); pan != "" {
				c.res.Violate("C19", "C19:clone-panic:ActionMachine/Clone", fmt.Sprintf("[%s] Clone panicked: %s", shape, trunc(pan, 300)), rp)
				continue
			}
			c.check("ActionMachine", shape, rp, m, cl, nil, nil, nil)
			// the clone behaves like the original: with all actions staged, Init stages the same state
			if mask == 1<<n-1 {
				eo, ec := m.Init(), cl.Init()
				if (eo == nil) != (ec == nil) || walk.Dump(m.StagingState(), true) != walk.Dump(cl.StagingState(), true) {
					c.res.Violate("C19", "C19:clone-not-equal:ActionMachine/behaviour", fmt.Sprintf("[%s] Init on the original gives %v / %s, on the clone %v / %s", shape, eo, walk.Dump(m.StagingState(), true), ec, walk.Dump(cl.StagingState(), true)), rp)
				}
				c.res.Count("evaluations", 1)
			}
			c.res.Count("action_machine_shapes", 1)
		}
	}
}
