package values

// C19: clones are equal to, and share no mutable memory with, their originals.

import (
	"bytes"
	"crypto/sha1"
	"fmt"
	"math/big"
	"regexp"
	"testing"

	"perun.network/go-perun/channel"
	"perun.network/go-perun/wallet"
	"perun.network/go-perun/wire/perunio"
	"verif/engine/report"
	"verif/harness/values/walk"
)

type c19 struct {
	res     *report.Result
	verbose bool
	printed map[string]bool
}

// snapshot is everything observable through root: the walker's dump (every exported and
// unexported field, nil/empty distinguished) and, when given, the encoding.
func snapshot(root interface{}, e func() perunio.Encoder) string {
	s := ""
	if p := try(func() { s = walk.Dump(root, false) }); p != "" {
		s = "DUMP-PANIC " + p
	}
	if e != nil {
		var b []byte
		var ok bool
		var why string
		if p := try(func() { b, ok, why = enc(e()) }); p != "" {
			ok, why = false, "panic "+p
		}
		if ok {
			s += fmt.Sprintf(" |enc=%x", b)
		} else {
			s += " |unencodable: " + why
		}
	}
	return s
}

// check runs the three oracle clauses on (orig, clone); equal lists the type's own notion of
// equality (clause 1), encO/encC give the encodable view of either side.
func (c *c19) check(typ, shape string, rp replay, orig, clone interface{}, encO, encC func() perunio.Encoder, equal func() []string) {
	res := c.res
	res.Count("evaluations", 1)
	res.Count("clone_checks", 1)
	res.Count("clone_checks_"+typ, 1)
	viol := func(clause, site, detail string) {
		res.Violate("C19", fmt.Sprintf("C19:%s:%s/%s", clause, typ, site), fmt.Sprintf("[%s %s] %s", typ, shape, detail), rp)
		if sig := clause + typ + site; c.verbose && !c.printed[sig] {
			c.printed[sig] = true
			fmt.Printf("  VERDICT C19:%s:%s/%s: %s\n", clause, typ, site, trunc(detail, 400))
		}
	}
	// (1) equal
	if equal != nil {
		var bad []string
		if p := try(func() { bad = equal() }); p != "" {
			viol("clone-not-equal", "panic", "comparing original and clone panicked: "+trunc(p, 300))
		}
		for _, b := range bad {
			viol("clone-not-equal", b, "the clone is not equal to the original: "+b)
		}
	}
	if encO != nil {
		eo, okO, _ := enc(encO())
		ec, okC, whyC := enc(encC())
		if okO != okC {
			viol("clone-not-equal", "encodable", fmt.Sprintf("original encodable: %v, clone encodable: %v (%s)", okO, okC, whyC))
		} else if okO && !bytes.Equal(eo, ec) {
			viol("clone-not-equal", "encoding", fmt.Sprintf("encodings differ: %x vs %x", trunc(string(eo), 300), trunc(string(ec), 300)))
		}
		if okO {
			res.Count("clone_checks_encodable", 1)
		}
	}
	if do, dc := walk.Dump(orig, true), walk.Dump(clone, true); do != dc {
		viol("clone-not-equal", "fields", "canonical dumps (all exported and unexported fields, nil = empty) differ: "+firstDiff(do, dc))
	}
	// (2) + (3)
	fs, st := walk.CheckDisjoint(orig, clone, func() string { return snapshot(orig, encO) }, func() string { return snapshot(clone, encC) })
	for _, f := range fs {
		viol(f.Clause, f.Site, f.Detail)
	}
	res.Count("evaluations", int64(st.Locs))
	res.Count("mutation_checks", int64(st.Locs))
	res.Count("mutation_checks_effective", int64(st.Effective))
	res.Count("regions_compared", int64(st.RegionsA+st.RegionsB))
	if int64(st.Locs) > res.Counters["max_locations_per_pair"] {
		res.Counters["max_locations_per_pair"] = int64(st.Locs)
	}
	for k, n := range st.Skipped {
		res.Count("shared_by_documentation: "+k, int64(n))
	}
	if st.Effective > 0 {
		h := sha1.Sum([]byte(typ + "|" + shape))
		res.Seen("nontrivial", fmt.Sprintf("%x", h[:6]))
	}
	for s := range st.EffectiveSites {
		res.Seen("mutated_sites", typ+s)
	}
	if c.verbose {
		fmt.Printf("  %s %s: regions %d + %d, %d mutation points (%d effective), %d findings\n", typ, shape, st.RegionsA, st.RegionsB, st.Locs, st.Effective, len(fs))
	}
}

func firstDiff(a, b string) string {
	i := 0
	for i < len(a) && i < len(b) && a[i] == b[i] {
		i++
	}
	lo := i - 60
	if lo < 0 {
		lo = 0
	}
	cut := func(s string) string {
		if lo > len(s) {
			return ""
		}
		hi := i + 60
		if hi > len(s) {
			hi = len(s)
		}
		return s[lo:hi]
	}
	return fmt.Sprintf("at offset %d: ...%s... vs ...%s...", i, cut(a), cut(b))
}

var addrRe = regexp.MustCompile(`@[0-9a-f]+`)

// sampleDump is a dump without the (run-dependent) identities of shared references.
func sampleDump(root interface{}) string {
	return trunc(addrRe.ReplaceAllString(walk.Dump(root, false), ""), 500)
}

// ---- shapes ----

type stShape struct {
	base, mut string
	build     func() *channel.State
}

func (s stShape) name() string { return s.base + " / " + s.mut }

// cloneable: the values the property quantifies over have data, an app and no nil balance.
func cloneable(s *channel.State) bool {
	if s.Data == nil || s.App == nil {
		return false
	}
	return true
}

var c19QuickMuts = map[string]bool{"data=op7": true, "bal[0][0]=2^64+5": true, "bal[0][0]=0": true, "locked-nil-vs-empty": true,
	"locked-add": true, "row[0]+col": true, "rows-drop": true, "backends+1": true, "assets-drop-only": true, "bal[0][0]=-1": true}

func specials() []stShape {
	mk := func(name string, f func() *channel.State) stShape { return stShape{"special", name, f} }
	return []stShape{
		mk("all-nil", func() *channel.State { return &channel.State{App: channel.NoApp(), Data: channel.NoData()} }),
		mk("all-empty", func() *channel.State {
			return &channel.State{App: channel.NoApp(), Data: channel.NoData(), Allocation: channel.Allocation{
				Balances: channel.Balances{}, Backends: []wallet.BackendID{}, Assets: []channel.Asset{}, Locked: []channel.SubAlloc{}}}
		}),
		mk("rows-nil-and-empty", func() *channel.State {
			return &channel.State{App: channel.NoApp(), Data: channel.NoData(), Allocation: channel.Allocation{
				Balances: channel.Balances{nil, {}, {big.NewInt(1)}}, Backends: []wallet.BackendID{0}, Assets: []channel.Asset{assets[0]},
				Locked: []channel.SubAlloc{{ID: channel.ID{5}}, {ID: channel.ID{6}, Bals: []channel.Bal{}, IndexMap: []channel.Index{}}}}}
		}),
		mk("spare-capacity", func() *channel.State {
			s := stBase{2, 2, "1sw", "none", false}.build()
			s.Balances = append(make(channel.Balances, 0, 8), s.Balances...)
			s.Balances[0] = append(make([]channel.Bal, 0, 8), s.Balances[0]...)
			s.Locked = append(make([]channel.SubAlloc, 0, 4), s.Locked...)
			s.Locked[0].IndexMap = append(make([]channel.Index, 0, 8), s.Locked[0].IndexMap...)
			s.Assets = append(make([]channel.Asset, 0, 4), s.Assets...)
			s.Backends = append(make([]wallet.BackendID, 0, 4), s.Backends...)
			return s
		}),
		mk("aliased-balance", func() *channel.State { // one big.Int used in two cells of the ORIGINAL
			s := stBase{2, 2, "1id", "none", false}.build()
			s.Balances[1][1] = s.Balances[0][0]
			s.Locked[0].Bals[0] = s.Balances[0][0]
			return s
		}),
	}
}

func stShapes(thorough bool) []stShape {
	var out []stShape
	for _, b := range stBases(thorough) {
		b := b
		out = append(out, stShape{b.name(), "base", b.build})
		for _, m := range mutsFor(b) {
			m := m
			if !thorough && !c19QuickMuts[m.name] {
				continue
			}
			s := b.build()
			m.f(s)
			if !cloneable(s) {
				continue
			}
			out = append(out, stShape{b.name(), m.name, func() *channel.State { s := b.build(); m.f(s); return s }})
		}
	}
	return append(out, specials()...)
}

type sigShape struct {
	name string
	sigs func() []wallet.Sig
}

func fakeSig(k int) wallet.Sig { return bytes.Repeat([]byte{byte(0x11 * (k + 1))}, 64) }

func sigShapes(n int) []sigShape {
	out := []sigShape{
		{"sigs-nil", func() []wallet.Sig { return nil }},
		{"sigs-empty", func() []wallet.Sig { return []wallet.Sig{} }},
		{"sig0-empty-bytes", func() []wallet.Sig { s := make([]wallet.Sig, n); s[0] = []byte{}; return s }},
	}
	for mask := 0; mask < 1<<n; mask++ { // every signature subset
		mask := mask
		out = append(out, sigShape{fmt.Sprintf("mask:%0*b", n, mask), func() []wallet.Sig {
			s := make([]wallet.Sig, n)
			for k := 0; k < n; k++ {
				if mask>>k&1 == 1 {
					s[k] = fakeSig(k)
				}
			}
			return s
		}})
	}
	return out
}

func sigPresence(a, b []wallet.Sig) []string {
	if len(a) != len(b) {
		return []string{"sig-count"}
	}
	for i := range a {
		if (a[i] == nil) != (b[i] == nil) {
			return []string{"sig-presence"}
		}
		if !bytes.Equal(a[i], b[i]) {
			return []string{"sig-bytes"}
		}
	}
	return nil
}

func numParts(s *channel.State) int {
	if len(s.Balances) > 0 && len(s.Balances[0]) >= 1 && len(s.Balances[0]) <= 4 {
		return len(s.Balances[0])
	}
	return 2
}

func (c *c19) state(sh stShape) {
	rp := func(typ, cas string) replay {
		return replay{Harness: "values", Prop: "C19", Check: "clone", Type: typ, Base: sh.base, A: sh.mut, Case: cas}
	}
	{
		s := sh.build()
		var cl *channel.State
		if p := try(func() { cl = s.Clone() }); p != "" {
			c.res.Violate("C19", "C19:clone-panic:State/Clone", fmt.Sprintf("[State %s] Clone panicked: %s", sh.name(), trunc(p, 300)), rp("State", ""))
		} else {
			c.check("State", sh.name(), rp("State", ""), s, cl, func() perunio.Encoder { return s }, func() perunio.Encoder { return cl }, func() (bad []string) {
				if s.Equal(cl) != nil || cl.Equal(s) != nil {
					bad = append(bad, "Equal")
				}
				return
			})
		}
	}
	{
		a := sh.build().Allocation
		var cl channel.Allocation
		if p := try(func() { cl = a.Clone() }); p != "" {
			c.res.Violate("C19", "C19:clone-panic:Allocation/Clone", fmt.Sprintf("[Allocation %s] Clone panicked: %s", sh.name(), trunc(p, 300)), rp("Allocation", ""))
		} else {
			c.check("Allocation", sh.name(), rp("Allocation", ""), &a, &cl, func() perunio.Encoder { return a }, func() perunio.Encoder { return cl }, func() (bad []string) {
				if a.Equal(&cl) != nil || cl.Equal(&a) != nil {
					bad = append(bad, "Equal")
				}
				return
			})
		}
	}
	{
		b := sh.build().Balances
		var cl channel.Balances
		if p := try(func() { cl = b.Clone() }); p != "" {
			c.res.Violate("C19", "C19:clone-panic:Balances/Clone", fmt.Sprintf("[Balances %s] Clone panicked: %s", sh.name(), trunc(p, 300)), rp("Balances", ""))
		} else {
			c.check("Balances", sh.name(), rp("Balances", ""), &b, &cl, func() perunio.Encoder { return b }, func() perunio.Encoder { return cl }, func() (bad []string) {
				if !b.Equal(cl) || !cl.Equal(b) {
					bad = append(bad, "Equal")
				}
				if (b == nil) != (cl == nil) {
					bad = append(bad, "nil-ness")
				}
				return
			})
		}
	}
	n := numParts(sh.build())
	for _, ss := range sigShapes(n) {
		c.transaction(sh, ss, false)
	}
}

func (c *c19) transaction(sh stShape, ss sigShape, nilState bool) {
	rp := replay{Harness: "values", Prop: "C19", Check: "clone", Type: "Transaction", Base: sh.base, A: sh.mut, Case: ss.name}
	tx := channel.Transaction{State: sh.build(), Sigs: ss.sigs()}
	name := sh.name() + " / " + ss.name
	if nilState {
		tx.State = nil
		name = "nil state / " + ss.name
		rp.Base, rp.A = "nil-state", ""
	}
	var cl channel.Transaction
	if p := try(func() { cl = tx.Clone() }); p != "" {
		c.res.Violate("C19", "C19:clone-panic:Transaction/Clone", fmt.Sprintf("[Transaction %s] Clone panicked: %s", name, trunc(p, 300)), rp)
		return
	}
	c.check("Transaction", name, rp, &tx, &cl, func() perunio.Encoder { return tx }, func() perunio.Encoder { return cl }, func() (bad []string) {
		if (tx.State == nil) != (cl.State == nil) {
			bad = append(bad, "state-presence")
		} else if tx.State != nil && (tx.State.Equal(cl.State) != nil || cl.State.Equal(tx.State) != nil) {
			bad = append(bad, "Equal")
		}
		return append(bad, sigPresence(tx.Sigs, cl.Sigs)...)
	})
}

func (c *c19) params(b pBase, mutName string) {
	spec := b.spec()
	if mutName != "base" && mutName != "part-empty" {
		ok := false
		for _, m := range pMuts(b) {
			if m.name == mutName {
				ok = m.f(&spec)
			}
		}
		if !ok {
			return
		}
	}
	p, err := spec.build()
	if err != nil {
		panic(err)
	}
	if mutName == "part-empty" {
		// an allocated but empty participant slot (NewParams refuses it; parameters built directly or
		// by NewParamsUnsafe may carry one): empty is not nil, the clone needs a map of its own
		p.Parts[len(p.Parts)-1] = map[wallet.BackendID]wallet.Address{}
	}
	rp := replay{Harness: "values", Prop: "C19", Check: "clone", Type: "Params", Base: b.name(), A: mutName}
	var cl *channel.Params
	if pan := try(func() { cl = p.Clone() }); pan != "" {
		c.res.Violate("C19", "C19:clone-panic:Params/Clone", fmt.Sprintf("[Params %s] Clone panicked: %s", b.name(), trunc(pan, 300)), rp)
		return
	}
	c.check("Params", b.name()+" / "+mutName, rp, p, cl, func() perunio.Encoder { return p }, func() perunio.Encoder { return cl }, func() (bad []string) {
		if p.ID() != cl.ID() {
			bad = append(bad, "ID")
		}
		if len(p.Parts) != len(cl.Parts) {
			return append(bad, "part-count")
		}
		for i := range p.Parts {
			if len(p.Parts[i]) != len(cl.Parts[i]) {
				bad = append(bad, "address-count")
				continue
			}
			for k, a := range p.Parts[i] {
				if o := cl.Parts[i][k]; o == nil || !a.Equal(o) || !o.Equal(a) {
					bad = append(bad, "address")
				}
			}
		}
		if p.Nonce.Cmp(cl.Nonce) != 0 || p.ChallengeDuration != cl.ChallengeDuration || p.LedgerChannel != cl.LedgerChannel || p.VirtualChannel != cl.VirtualChannel || p.Aux != cl.Aux {
			bad = append(bad, "scalar-field")
		}
		if appKey(p.App) != appKey(cl.App) {
			bad = append(bad, "app")
		}
		return
	})
}

var c19ParamMuts = []string{"base", "aux", "part-add", "nonce^top", "part-empty"}

func runC19(t *testing.T, res *report.Result) {
	c := &c19{res: res}
	shard, nshards := report.Shard()
	deadline := report.Deadline()
	shapes := stShapes(res.Thorough())
	unit := 0
	mine := func() bool { unit++; return (unit-1)%nshards == shard }
	capped := false
	for i, sh := range shapes {
		if !mine() {
			continue
		}
		if deadlinePassed(deadline) {
			res.Cap("deadline reached after %d of %d state shapes", i, len(shapes))
			capped = true
			break
		}
		c.state(sh)
		res.Count("state_shapes", 1)
		if i%97 == 0 {
			res.Sample(8, map[string]interface{}{"type": "State", "shape": sh.name(), "dump": sampleDump(sh.build())})
		}
	}
	for _, ss := range sigShapes(2) {
		if mine() {
			c.transaction(specials()[0], ss, true)
		}
	}
	if mine() {
		c.actionMachines()
	}
	pb := pBases(res.Thorough())
	for i, b := range pb {
		if !mine() {
			continue
		}
		if capped || deadlinePassed(deadline) {
			if !capped {
				res.Cap("deadline reached after %d of %d parameter shapes", i, len(pb))
			}
			break
		}
		for _, m := range c19ParamMuts {
			c.params(b, m)
		}
		res.Count("params_shapes", 1)
		if i%97 == 0 {
			p, _ := b.spec().build()
			res.Sample(8, map[string]interface{}{"type": "Params", "shape": b.name(), "dump": sampleDump(p)})
		}
	}
	if len(res.Caps) == 0 {
		res.Extra["exhaustive"] = true
	}
	res.Extra["bound"] = fmt.Sprintf("%d state shapes (C15's base states, their %s mutations that leave a cloneable value, %d special shapes: all-nil, all-empty, nil/empty rows, spare capacity, aliased balance) each as State, Allocation, Balances and as Transaction with every signature subset + nil/empty signature lists; %d parameter shapes x %d variants; every mutation point of either side of every pair",
		len(shapes), map[bool]string{true: "single-field", false: "selected single-field"}[res.Thorough()], len(specials()), len(pb), len(c19ParamMuts))
	res.Note("shard %d/%d: %d clone checks, %d mutation checks (%d effective = changed the mutated side's own snapshot)", shard, nshards, res.Counters["clone_checks"], res.Counters["mutation_checks"], res.Counters["mutation_checks_effective"])
	res.Counters["distinct_nontrivial_mutation_checks"] = res.Counters["mutation_checks_effective"]
}

func replayC19(t *testing.T, res *report.Result, rp replay) {
	c := &c19{res: res, verbose: true, printed: map[string]bool{}}
	if rp.Check == "actionmachine" {
		c.actionMachines()
		return
	}
	if rp.Type == "Params" {
		for _, b := range pBases(true) {
			if b.name() == rp.Base {
				c.params(b, rp.A)
			}
		}
		return
	}
	if rp.Base == "nil-state" {
		for _, ss := range sigShapes(2) {
			if ss.name == rp.Case {
				c.transaction(specials()[0], ss, true)
			}
		}
		return
	}
	for _, sh := range stShapes(true) {
		if sh.base != rp.Base || sh.mut != rp.A {
			continue
		}
		if rp.Type == "Transaction" {
			for _, ss := range sigShapes(numParts(sh.build())) {
				if ss.name == rp.Case {
					c.transaction(sh, ss, false)
				}
			}
		} else {
			c.state(sh) // State, Allocation, Balances and all transactions of this shape
		}
		return
	}
	// quick-tier bases with three assets are not part of the thorough product under the same index: search them too
	for _, sh := range stShapes(false) {
		if sh.base == rp.Base && sh.mut == rp.A {
			c.state(sh)
			return
		}
	}
	t.Fatalf("unknown shape %q / %q", rp.Base, rp.A)
}
