// Package values: engine ENUM over the value types of the channel package (properties C15,
// C17, C19). Every check is a deterministic nested loop over a structurally generated
// catalogue; the oracle is written from the property statement (byte equality of encodings,
// an independent canonical key of the parameters, a reflect/unsafe memory walk).
package values

import (
	"bytes"
	"encoding/json"
	"fmt"
	"os"
	"testing"
	"time"

	"perun.network/go-perun/wire/perunio"
	"verif/engine/report"
)

// replay is the replay value of every violation of this harness.
type replay struct {
	Harness string `json:"harness"`
	Prop    string `json:"prop"`
	Check   string `json:"check"`            // C15: equal | sig; C17: pair | stable | constraint | twobackend; C19: clone
	Base    string `json:"base,omitempty"`   // name of the base value / shape
	A       string `json:"a,omitempty"`      // mutation name of the first member ("base" = none)
	B       string `json:"b,omitempty"`      // mutation name of the second member
	Type    string `json:"type,omitempty"`   // State | Allocation | Balances | SubAlloc | ...
	Fn      string `json:"fn,omitempty"`     // comparison function judged
	IA      int    `json:"ia,omitempty"`     // sub-allocation index in a (SubAlloc pairs)
	IB      int    `json:"ib,omitempty"`     // sub-allocation index in b
	Signer  int    `json:"signer,omitempty"` // fixture account that signs
	Addr    int    `json:"addr,omitempty"`   // fixture account whose address verifies
	Case    string `json:"case,omitempty"`   // C17 constraint case name
}

// enc encodes e; ok=false if the value cannot be encoded (error or panic of the encoder).
func enc(e perunio.Encoder) (b []byte, ok bool, why string) {
	defer func() {
		if r := recover(); r != nil {
			b, ok, why = nil, false, fmt.Sprintf("panic: %v", r)
		}
	}()
	var buf bytes.Buffer
	if err := e.Encode(&buf); err != nil {
		return nil, false, err.Error()
	}
	return buf.Bytes(), true, ""
}

// try runs f and turns a panic into a string.
func try(f func()) (panicked string) {
	defer func() {
		if r := recover(); r != nil {
			panicked = fmt.Sprintf("%v", r)
			if panicked == "" {
				panicked = "panic"
			}
		}
	}()
	f()
	return ""
}

func deadlinePassed(d time.Time) bool { return !d.IsZero() && time.Now().After(d) }

func trunc(s string, n int) string {
	if len(s) > n {
		return s[:n] + "..."
	}
	return s
}

func loadReplay(t *testing.T, path string) replay {
	b, err := os.ReadFile(path)
	if err != nil {
		t.Fatal(err)
	}
	var f struct {
		Replay replay `json:"replay"`
	}
	if err := json.Unmarshal(b, &f); err != nil {
		t.Fatal(err)
	}
	if f.Replay.Harness == "" { // a bare replay value
		if err := json.Unmarshal(b, &f.Replay); err != nil {
			t.Fatal(err)
		}
	}
	return f.Replay
}

func TestCheck(t *testing.T) {
	prop := os.Getenv("VERIF_PROP")
	if prop == "" {
		prop = "C15"
	}
	res := report.New(prop, "values")
	defer func() {
		if err := res.Write(); err != nil {
			t.Fatal(err)
		}
	}()
	if p := report.ReplayFile(); p != "" {
		rp := loadReplay(t, p)
		fmt.Printf("replay %+v\n", rp)
		n := res.NViolations()
		switch rp.Prop {
		case "C15":
			replayC15(t, res, rp)
		case "C17":
			replayC17(t, res, rp)
		case "C19":
			replayC19(t, res, rp)
		default:
			t.Fatalf("replay for unknown property %q", rp.Prop)
		}
		if res.NViolations() == n {
			fmt.Println("  VERDICT none: the case no longer violates")
		}
		return
	}
	switch prop {
	case "C15":
		runC15(t, res)
	case "C17":
		runC17(t, res)
	case "C19":
		runC19(t, res)
	default:
		t.Fatalf("harness values does not serve %s", prop)
	}
}
