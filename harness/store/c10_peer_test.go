package store

// C10, family "several channels of one peer" - engine FAULT over histories of creating,
// advancing, staging and removing n channels that all have the same two peers, on one real
// keyvalue.PersistRestorer over the fault-injecting store. The per-channel search of
// c10_test.go has one channel per store; the views RestorePeer / RestoreAll / ActivePeers,
// however, walk tables that hold the keys of ALL channels (RestorePeer opens one iterator per
// channel id listed in the peer table), so what a crash inside an operation on one channel
// leaves behind - e.g. a peer-table entry without channel keys between the two batches of
// ChannelRemoved - is met by the restore of the OTHER channels. This family explores exactly
// that: every reachable combination of channel states (all orders of creation and removal,
// so the interrupted channel's id sorts before, between and behind the ids of the live ones),
// every operation, every write boundary of it.
//
// Oracle (statement of C10, per view as in c10_test.go, plus "operations on one channel never
// change what is restored for another"): after dropping everything behind the k-th boundary
// and reopening the store
//   - the channel operated on restores as it was just before or just after the interrupted
//     persister call (exactly after, if no call was interrupted), as a whole or not at all;
//   - every other channel restores exactly as its live machine, through RestoreChannel and
//     inside RestorePeer(p) (both peers) and RestoreAll, which yield nothing else and end
//     without error;
//   - ActivePeers is the set of peers of the other live channels plus, possibly, those of the
//     channel operated on (before / after);
//   - every raw key belongs to a live channel or to the channel operated on.

import (
	"bytes"
	"fmt"
	"strings"
	"testing"
	"time"

	"perun.network/go-perun/channel"
	"perun.network/go-perun/channel/persistence"
	"perun.network/go-perun/channel/persistence/keyvalue"
	"perun.network/go-perun/wallet"
	"perun.network/go-perun/wire"
	"verif/engine/report"
)

const (
	pFamily  = "same-peer-channels"
	pMaxChan = 4
)

// pParams: ledger channels of participants 0 and 1, in ascending order of their ids (= the
// order of their keys in the channel table and in the peer table): k1 < k2 < k3 < k4. The
// nonces are found by the deterministic search of c11_test.go so that the ids reach both ends
// of the key space: k1's id begins with the byte 0x00, k3's and k4's with 0xff (so the last
// channel of the 3 channel and of the 4 channel family sits at the upper end of every range
// that is bounded by id).
var pParams = func() (p [pMaxChan]*channel.Params) {
	first := func(b byte) func(id channel.ID) bool { return func(id channel.ID) bool { return id[0] == b } }
	p[0] = searchParams(2, true, 3000, first(0x00))
	p[1] = searchParams(2, true, 4000, func(id channel.ID) bool { return id[0] != 0x00 && id[0] != 0xff })
	p[2] = searchParams(2, true, 5000, first(0xff))
	k3 := p[2].ID()
	p[3] = searchParams(2, true, 6000, func(id channel.ID) bool { return id[0] == 0xff && bytes.Compare(k3[:], id[:]) < 0 })
	for i := 1; i < pMaxChan; i++ {
		a, b := p[i-1].ID(), p[i].ID()
		if bytes.Compare(a[:], b[:]) >= 0 {
			panic("engine error: channel ids of the several-channels family are not ascending")
		}
	}
	return p
}()

// pPeers: every channel of the family has the peers p0 (own address) and p1.
func pPeers() []map[wallet.BackendID]wire.Address {
	return []map[wallet.BackendID]wire.Address{peerAddr[0], peerAddr[1]}
}

type pworld struct {
	n       int
	b       *backing
	db      *faultDB
	pr      *keyvalue.PersistRestorer
	sm      [pMaxChan]*channel.StateMachine
	pm      [pMaxChan]persistence.StateMachine
	st      [pMaxChan]int  // stAbsent .. stRemoved (as in C11)
	present [pMaxChan]bool // the persister has been told to create and not (yet) to remove the channel
}

func newPWorld(n int, backend string) *pworld {
	b := openBacking(backend)
	db := &faultDB{Database: b.db, limit: -1}
	return &pworld{n: n, b: b, db: db, pr: keyvalue.NewPersistRestorer(db)}
}

func (w *pworld) close() { w.b.close() }

// snap is what a restore must yield for channel i in the present state of the live objects.
func (w *pworld) snap(i int) snap {
	if !w.present[i] {
		return snap{Absent: true}
	}
	return snapOf(w.sm[i], pPeers(), nil)
}

func (w *pworld) canon() string {
	s := ""
	for i := 0; i < w.n; i++ {
		s += fmt.Sprint(w.st[i])
	}
	return s + "|" + canonDigest(w.b.db)
}

func (w *pworld) statusString() string {
	var p []string
	for i := 0; i < w.n; i++ {
		p = append(p, fmt.Sprintf("k%d=%s", i+1, stNames[w.st[i]]))
	}
	return strings.Join(p, " ")
}

type pop struct {
	kind string
	ch   int
}

func (o pop) name() string { return fmt.Sprintf("%s(k%d)", o.kind, o.ch+1) }

func pAlphabet(n int) (out []pop) {
	for _, k := range []string{"Create", "Advance", "Stage", "Remove"} {
		for i := 0; i < n; i++ {
			out = append(out, pop{k, i})
		}
	}
	return out
}

func (w *pworld) offered(o pop) bool {
	switch o.kind {
	case "Create":
		return w.st[o.ch] == stAbsent || w.st[o.ch] == stRemoved
	case "Advance":
		return w.st[o.ch] == stCreated
	case "Stage":
		return w.st[o.ch] == stAdvanced
	case "Remove":
		return w.st[o.ch] == stCreated || w.st[o.ch] == stAdvanced || w.st[o.ch] == stStaged
	}
	return false
}

// pcall is one call of the persisting machine / the persister: the unit that the statement's
// "just before or just after the interrupted operation" refers to.
type pcall struct {
	name string
	run  func(w *pworld, i int) error
}

// calls returns the calls an operation consists of, and the status it leads to.
func (w *pworld) calls(o pop) ([]pcall, int) {
	switch o.kind {
	case "Create":
		return []pcall{{"ChannelCreated", func(w *pworld, i int) error {
			sm, err := channel.NewStateMachine(accMap(0), *pParams[i].Clone())
			if err != nil {
				return err
			}
			w.sm[i], w.pm[i] = sm, persistence.FromStateMachine(sm, w.pr)
			if err := w.pr.ChannelCreated(ctx, w.pm[i], pPeers(), nil); err != nil {
				return err
			}
			w.present[i] = true
			return nil
		}}}, stCreated
	case "Advance":
		return []pcall{
			{"Init", func(w *pworld, i int) error { return w.pm[i].Init(ctx, evenAlloc(2), channel.NoData()) }},
			{"Sig", func(w *pworld, i int) error { _, err := w.pm[i].Sig(ctx); return err }},
			{"AddSig", func(w *pworld, i int) error { return w.pm[i].AddSig(ctx, 1, sigOf(1, w.sm[i].StagingState())) }},
			{"EnableInit", func(w *pworld, i int) error { return w.pm[i].EnableInit(ctx) }},
		}, stAdvanced
	case "Stage":
		return []pcall{
			{"SetFunded", func(w *pworld, i int) error { return w.pm[i].SetFunded(ctx) }},
			{"Update", func(w *pworld, i int) error {
				s := w.sm[i].State().Clone()
				s.Version++
				s.Balances[0][0].Sub(s.Balances[0][0], s.Balances[0][0])
				s.Balances[0][1].Add(s.Balances[0][1], w.sm[i].State().Balances[0][0])
				return w.pm[i].Update(ctx, s, 0)
			}},
			{"Sig", func(w *pworld, i int) error { _, err := w.pm[i].Sig(ctx); return err }},
		}, stStaged
	case "Remove":
		if w.st[o.ch] == stCreated {
			// no phase path leads from InitActing to Withdrawn: the persister is told directly
			return []pcall{{"ChannelRemoved", func(w *pworld, i int) error {
				if err := w.pr.ChannelRemoved(ctx, pParams[i].ID()); err != nil {
					return err
				}
				w.present[i] = false
				return nil
			}}}, stRemoved
		}
		return []pcall{
			{"SetRegistered", func(w *pworld, i int) error { return w.pm[i].SetRegistered(ctx) }},
			{"SetWithdrawing", func(w *pworld, i int) error { return w.pm[i].SetWithdrawing(ctx) }},
			{"SetWithdrawn", func(w *pworld, i int) error {
				if err := w.pm[i].SetWithdrawn(ctx); err != nil {
					return err
				}
				w.present[i] = false
				return nil
			}},
		}, stRemoved
	}
	panic(o.kind)
}

// pcallRec is one executed call: the write boundaries it issued are start+1 .. end.
type pcallRec struct {
	name          string
	start, end    int
	before, after snap
	err           error
}

type pstep struct {
	recs []pcallRec
	W    int
	err  error // the first failed call
}

// step runs the calls of an operation; with limit >= 0 everything behind the limit-th write
// boundary is dropped (the calls keep running, as in c10_test.go).
func (w *pworld) step(o pop, limit int) (s pstep) {
	calls, next := w.calls(o)
	w.db.arm(limit)
	for _, c := range calls {
		r := pcallRec{name: c.name, start: w.db.boundaries, before: w.snap(o.ch)}
		func() {
			defer func() {
				if p := recover(); p != nil {
					r.err = fmt.Errorf("PANIC: %v", p)
				}
			}()
			r.err = c.run(w, o.ch)
		}()
		r.end, r.after = w.db.boundaries, w.snap(o.ch)
		s.recs = append(s.recs, r)
		if r.err != nil && s.err == nil {
			s.err = fmt.Errorf("%s: %v", c.name, r.err)
		}
	}
	s.W = w.db.boundaries
	w.db.arm(-1)
	w.st[o.ch] = next
	return s
}

// allowed returns the states the channel operated on may restore to after a stop behind the
// k-th boundary: before / after the call that had issued some but not all of its boundaries
// (or none yet), exactly the final state if no call was interrupted.
func (s pstep) allowed(k int) (al []snap, call string) {
	for _, r := range s.recs {
		if r.start <= k && k < r.end {
			return []snap{r.before, r.after}, r.name
		}
	}
	return []snap{s.recs[len(s.recs)-1].after}, ""
}

type pFinding struct{ clause, view, detail string }

// unmatched returns the elements of got that are left when every element of want has been
// paired with an equal one, and the number of elements of want without a partner.
func unmatched(got, want []snap) (left []snap, missing int) {
	used := make([]bool, len(got))
	for _, wn := range want {
		found := false
		for j, g := range got {
			if !used[j] && g == wn {
				used[j], found = true, true
				break
			}
		}
		if !found {
			missing++
		}
	}
	for j, g := range got {
		if !used[j] {
			left = append(left, g)
		}
	}
	return
}

// judgeOwn applies the statement to what a view yields for the channel operated on.
func judgeOwn(al []snap, r snap) string {
	if len(al) == 2 {
		return judge(0, 1, al[0], al[1], r)
	}
	return judge(0, 0, al[0], al[0], r)
}

// judgeList judges a channel iterator: others are the live snapshots of the channels that
// were not operated on (all must be yielded, each exactly once, with their data), al the
// allowed states of the channel operated on.
func judgeList(got []snap, errs string, others, al []snap) (clause, detail string) {
	if errs != "" {
		return "restore-error", fmt.Sprintf("the iterator ends with %q after yielding %d channels", errs, len(got))
	}
	left, missing := unmatched(got, others)
	switch {
	case missing > 0:
		return "other-channel-lost", fmt.Sprintf("%d of the %d live channels that were not operated on are not yielded or have other data", missing, len(others))
	case len(left) > 1:
		return "unexpected-channel", fmt.Sprintf("%d channels are yielded beyond the live ones", len(left))
	}
	own := snap{Absent: true}
	if len(left) == 1 {
		own = left[0]
	}
	if c := judgeOwn(al, own); c != "" {
		return c, "the channel operated on is yielded in a state it was never in (or not at all although it is live, or although it is gone)"
	}
	return "", ""
}

// verdicts evaluates the oracle on the store a restarted process would open.
func (w *pworld) verdicts(o pop, k int, s pstep) (out []pFinding) {
	al, call := s.allowed(k)
	pr := keyvalue.NewPersistRestorer(w.b.reopen())
	add := func(clause, view, format string, a ...interface{}) {
		out = append(out, pFinding{clause, view, fmt.Sprintf(format, a...)})
	}
	alStr := func() string {
		var p []string
		for _, a := range al {
			p = append(p, "      "+a.String())
		}
		return strings.Join(p, "\n")
	}
	var others []snap
	for i := 0; i < w.n; i++ {
		// RestoreChannel
		got := restoreChannel(pr, pParams[i].ID())
		if i == o.ch {
			if c := judgeOwn(al, got); c != "" {
				add(c, "RestoreChannel", "RestoreChannel(k%d) yields a state the machine was never in\n    allowed (before / after %s):\n%s\n    restored: %v", i+1, call, alStr(), got)
			}
			continue
		}
		want := w.snap(i)
		if !want.Absent {
			others = append(others, want)
		}
		switch {
		case got == want:
		case got.Err != "":
			add("restore-error", "RestoreChannel", "RestoreChannel(k%d) of a channel that was not operated on (%s): %s", i+1, stNames[w.st[i]], got.Err)
		default:
			add("other-channel-changed", "RestoreChannel", "RestoreChannel(k%d) of a channel that was not operated on (%s):\n    want %v\n    got  %v", i+1, stNames[w.st[i]], want, got)
		}
	}
	// RestorePeer for both peers, RestoreAll
	for pi, p := range pPeers() {
		got, errs := restorePeer(pr, p)
		if c, d := judgeList(got, errs, others, al); c != "" {
			add(c, "RestorePeer", "RestorePeer(p%d): %s\n    live channels not operated on:\n%s\n    allowed for k%d (before / after %s):\n%s\n    yielded:\n%s", pi, d, listString(others), o.ch+1, call, alStr(), listString(got))
			break
		}
	}
	gotAll, errs := restoreAll(pr)
	if c, d := judgeList(gotAll, errs, others, al); c != "" {
		add(c, "RestoreAll", "RestoreAll: %s\n    live channels not operated on:\n%s\n    allowed for k%d (before / after %s):\n%s\n    yielded:\n%s", d, listString(others), o.ch+1, call, alStr(), listString(gotAll))
	}
	// ActivePeers: the peers of the live channels; those of the channel operated on may or may not be there yet / still
	func() {
		defer func() {
			if r := recover(); r != nil {
				add("restore-error", "ActivePeers", "ActivePeers panicked: %v", r)
			}
		}()
		ap, err := pr.ActivePeers(ctx)
		gotP := map[wire.AddrKey]bool{}
		for _, p := range ap {
			gotP[wire.Keys(p)] = true
		}
		ok := false
		for _, a := range al {
			wantP := map[wire.AddrKey]bool{}
			if len(others) > 0 || !a.Absent {
				for _, p := range pPeers() {
					wantP[wire.Keys(p)] = true
				}
			}
			same := len(wantP) == len(gotP) && len(ap) == len(gotP)
			for key := range wantP {
				same = same && gotP[key]
			}
			ok = ok || same
		}
		if err != nil || !ok {
			add("activepeers-mismatch", "ActivePeers", "ActivePeers: err=%v, %d entries, %d distinct; %d live channels not operated on, k%d allowed absent: %v", err, len(ap), len(gotP), len(others), o.ch+1, absentAllowed(al))
		}
	}()
	// raw keys
	ownMay := false
	for _, a := range al {
		ownMay = ownMay || !a.Absent
	}
	keys, _ := dump(w.b.db)
	var residue []string
	for _, key := range keys {
		owner := -1
		for i := 0; i < w.n; i++ {
			id := pParams[i].ID()
			if strings.Contains(key, string(id[:])) {
				owner = i
			}
		}
		if owner < 0 || !(w.present[owner] && owner != o.ch || owner == o.ch && ownMay) {
			residue = append(residue, printable(key, pKeyNames(w.n)))
		}
	}
	if len(residue) > 0 {
		add("residual-key", "keys", "%d keys in the database belong neither to a live channel nor to the channel operated on: %s", len(residue), strings.Join(residue, " "))
	}
	return out
}

func absentAllowed(al []snap) []bool {
	var out []bool
	for _, a := range al {
		out = append(out, a.Absent)
	}
	return out
}

func pKeyNames(n int) map[string]string {
	nm := map[string]string{}
	for i := 0; i < n; i++ {
		id := pParams[i].ID()
		nm[string(id[:])] = fmt.Sprintf("k%d", i+1)
	}
	for pi, p := range pPeers() {
		var b bytes.Buffer
		_ = wire.AddressDecMap(p).Encode(&b)
		nm[b.String()] = fmt.Sprintf("p%d", pi)
	}
	return nm
}

func pNames(alpha []pop, h []int) []string {
	out := make([]string, len(h))
	for i, k := range h {
		out[i] = alpha[k].name()
	}
	return out
}

// pBuild replays a history (fault-free) on a fresh store.
func pBuild(n int, backend string, alpha []pop, h []int) (*pworld, error) {
	w := newPWorld(n, backend)
	for _, k := range h {
		if s := w.step(alpha[k], -1); s.err != nil {
			return w, fmt.Errorf("%s failed: %v", alpha[k].name(), s.err)
		}
	}
	return w, nil
}

// pSearch: BFS to a fixpoint over canonical states (status of each channel + canonical store
// digest); every transition is run fault-free (crash point k = W) and once per boundary k < W.
// Every shard runs the search; the crash points of transition number t belong to shard t mod n.
func pSearch(t *testing.T, res *report.Result, n int, backends []string, deadline time.Time) bool {
	alpha := pAlphabet(n)
	shard, nshards := report.Shard()
	w0 := newPWorld(n, "memorydb")
	seen := map[string]bool{w0.canon(): true}
	w0.close()
	type node struct {
		h  []int
		st [pMaxChan]int // status of each channel in the state (decides which operations are offered)
	}
	frontier := []node{{}}
	nStates, nTrans, maxDepth := 0, 0, 0
	variant := variant{Name: fmt.Sprintf("%dch-same-peers", n), N: 2, App: "noapp"}
	report1 := func(f pFinding, be string, h []int, o pop, k, W int, call string) {
		at := fmt.Sprintf("completed (%d write boundaries)", W)
		if k < W {
			at = fmt.Sprintf("interrupted after %d of %d write boundaries, inside %s", k, W, call)
		}
		res.ViolateC("C10", fmt.Sprintf("C10:%s:%s/%s", f.clause, o.kind, f.view),
			fmt.Sprintf("[%s, %s] %s %s: %s\n  history: %v", variant.Name, be, o.name(), at, f.detail, pNames(alpha, h)),
			c10Replay{Harness: "store", Check: "C10", Family: pFamily, NChan: n, Variant: variant, Backend: be, History: pNames(alpha, h), Op: o.name(), CrashK: k}, len(h)+1)
	}
	for len(frontier) > 0 {
		if !deadline.IsZero() && time.Now().After(deadline) {
			res.Cap("C10 %s: deadline reached with %d states in the frontier", variant.Name, len(frontier))
			return false
		}
		h, base := frontier[0].h, &pworld{n: n, st: frontier[0].st}
		frontier = frontier[1:]
		if nStates%nshards == shard {
			res.Count("states", 1)
		}
		nStates++
		for oi, o := range alpha {
			if !base.offered(o) {
				continue
			}
			mine := nTrans%nshards == shard
			nTrans++
			nh := append(append([]int{}, h...), oi)
			// fault-free run: successor state, W, and the crash point k = W
			w, err := pBuild(n, "memorydb", alpha, h)
			if err != nil {
				t.Fatalf("engine error: replay of a known history failed: %v", err)
			}
			s := w.step(o, -1)
			if s.err != nil {
				if mine {
					res.ViolateC("C10", "C10:operation-failed:"+o.kind, fmt.Sprintf("[%s] %s failed without any fault: %v\n  history: %v", variant.Name, o.name(), s.err, pNames(alpha, h)),
						c10Replay{Harness: "store", Check: "C10", Family: pFamily, NChan: n, Variant: variant, Backend: "memorydb", History: pNames(alpha, h), Op: o.name(), CrashK: s.W}, len(nh))
				}
				w.close()
				continue
			}
			if mine {
				res.Count("transitions", 1)
				res.Seen("writing_ops", fmt.Sprintf("%s@%s:%d", o.kind, variant.Name, s.W))
				for _, be := range backends {
					for k := 0; k <= s.W; k++ {
						wk, sk := w, s
						if k < s.W || be != "memorydb" {
							limit := k
							if k == s.W {
								limit = -1
							}
							wk, _ = pBuild(n, be, alpha, h)
							sk = wk.step(o, limit)
							if sk.W != s.W {
								t.Fatalf("engine error: %s issued %d boundaries, %d in the replay on %s (history %v)", o.name(), s.W, sk.W, be, pNames(alpha, h))
							}
						}
						res.Count("evaluations", 1)
						res.Count("crash_points_same_peer_channels", 1)
						if be == "memorydb" {
							res.Count("distinct_nontrivial", 1)
						} else {
							res.Count("evaluations_"+be, 1)
						}
						_, call := sk.allowed(k)
						for _, f := range wk.verdicts(o, k, sk) {
							report1(f, be, h, o, k, s.W, call)
						}
						if wk != w {
							wk.close()
						}
					}
				}
			}
			key := w.canon()
			if !seen[key] {
				seen[key] = true
				if len(nh) > maxDepth {
					maxDepth = len(nh)
				}
				if len(nh) == 4 && mine {
					res.Sample(8, map[string]interface{}{"check": "C10", "variant": variant.Name, "history": pNames(alpha, nh), "channels": w.statusString(), "write_boundaries_of_last_op": s.W})
				}
				frontier = append(frontier, node{nh, w.st})
			}
			w.close()
		}
	}
	if int64(maxDepth) > res.Counters["max_depth"] {
		res.Counters["max_depth"] = int64(maxDepth)
	}
	if shard == 0 {
		res.Count("variants", 1)
	}
	res.Note("C10 variant %s: %d channels with the peers (p0, p1), ids in key order k1 < .. < k%d; alphabet {Create, Advance, Stage, Remove} x channels; states=%d, transitions=%d, depth=%d, backends=%v (crash points: counter crash_points_same_peer_channels)", variant.Name, n, n, nStates, nTrans, maxDepth, backends)
	return true
}

func pReplayRun(t *testing.T, res *report.Result, rp c10Replay) {
	n := rp.NChan
	if n < 1 || n > pMaxChan {
		t.Fatalf("replay: %d channels", n)
	}
	alpha := pAlphabet(n)
	byName := map[string]int{}
	for i, o := range alpha {
		byName[o.name()] = i
	}
	var h []int
	for _, nm := range rp.History {
		i, ok := byName[nm]
		if !ok {
			t.Fatalf("unknown op %q", nm)
		}
		h = append(h, i)
	}
	oi, ok := byName[rp.Op]
	if !ok {
		t.Fatalf("unknown op %q", rp.Op)
	}
	o := alpha[oi]
	fmt.Printf("C10 replay: family %s, %d channels, backend %s\n  history %v\n", rp.Family, n, rp.Backend, rp.History)
	w0, err := pBuild(n, "memorydb", alpha, h)
	if err != nil {
		t.Fatalf("replay: %v", err)
	}
	fmt.Printf("  state before %s: %s\n", o.name(), w0.statusString())
	s0 := w0.step(o, -1)
	w0.close()
	for _, r := range s0.recs {
		fmt.Printf("  %-16s boundaries %d..%d err=%v\n", r.name, r.start+1, r.end, r.err)
	}
	w, err := pBuild(n, rp.Backend, alpha, h)
	if err != nil {
		t.Fatalf("replay: %v", err)
	}
	defer w.close()
	k, limit := rp.CrashK, rp.CrashK
	if k >= s0.W {
		k, limit = s0.W, -1
	}
	s := w.step(o, limit)
	al, call := s.allowed(k)
	fmt.Printf("  %s issues %d write boundaries; stop after boundary %d (interrupted call: %q)\n", o.name(), s.W, k, call)
	for _, a := range al {
		fmt.Printf("  allowed for k%d: %v\n", o.ch+1, a)
	}
	keys, kv := dump(w.b.db)
	fmt.Println("  surviving store:")
	for _, key := range keys {
		fmt.Printf("    %s = %d bytes\n", printable(key, pKeyNames(n)), len(kv[key]))
	}
	if s0.err != nil {
		res.Violate("C10", "C10:operation-failed:"+o.kind, fmt.Sprintf("%s failed without any fault: %v", o.name(), s0.err), rp)
	}
	for _, f := range w.verdicts(o, k, s) {
		sig := fmt.Sprintf("C10:%s:%s/%s", f.clause, o.kind, f.view)
		fmt.Printf("  VERDICT %s\n    %s\n", sig, strings.ReplaceAll(f.detail, "\n", "\n    "))
		res.Violate("C10", sig, f.detail, rp)
	}
	if res.NViolations() == 0 {
		fmt.Println("  VERDICT none: the case no longer violates")
	}
}
