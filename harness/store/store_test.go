package store

import (
	"os"
	"testing"

	"verif/engine/report"
)

// TestCheck is the worker entry point (see harness/README.md). VERIF_PROP selects C10
// (crash points, engine FAULT) or C11 (views of the restorer, engine SEQ).
func TestCheck(t *testing.T) {
	prop := os.Getenv("VERIF_PROP")
	if prop == "" {
		prop = "C10"
	}
	res := report.New(prop, "store")
	defer func() {
		removeOwnScratch()
		if err := res.Write(); err != nil {
			t.Fatal(err)
		}
	}()
	if p := report.ReplayFile(); p != "" {
		switch loadReplay(t, p, nil) {
		case "C11":
			var rp c11Replay
			loadReplay(t, p, &rp)
			c11ReplayRun(t, res, rp)
		default:
			var rp c10Replay
			loadReplay(t, p, &rp)
			c10ReplayRun(t, res, rp)
		}
		return
	}
	switch prop {
	case "C10":
		c10Run(t, res)
	case "C11":
		c11Run(t, res)
	default:
		t.Fatalf("harness store serves C10 and C11, not %q", prop)
	}
}
