package store

// C10 - engine FAULT: explicit-state search over the real persistence.StateMachine on a
// fault-injecting store; every transition is re-executed once per write boundary with
// everything after that boundary dropped, the store is reopened, and what RestoreChannel /
// RestorePeer yield is compared with the snapshot of the live machine before and after the
// interrupted operation (both taken in the same replay as the crash run).

import (
	"bytes"
	"encoding/json"
	"fmt"
	"math/big"
	"os"
	"strings"
	"testing"
	"time"

	"perun.network/go-perun/channel"
	"perun.network/go-perun/channel/persistence"
	"perun.network/go-perun/channel/persistence/keyvalue"
	"perun.network/go-perun/wallet"
	"perun.network/go-perun/wire"
	"verif/engine/report"
	"verif/harness/fx"
)

type variant struct {
	Name   string
	N      int
	Idx    int
	App    string // "noapp" | "payment"
	Parent bool   // created as a sub-channel (ChannelCreated with a parent id)
	VerCap uint64
	// LevelDB: the crash points of every writing transition are also run on LevelDB on disk.
	LevelDB bool
}

func (v variant) app() channel.App {
	if v.App == "payment" {
		return fx.PayApp
	}
	return channel.NoApp()
}

// parentParams is the (never persisted) ledger channel the sub-channel variants name as parent.
var parentParams = mkParams(2, channel.NoApp(), 6, true)

const (
	lifeNone = iota // ChannelCreated not yet called
	lifeLive
	lifeRemoved // SetWithdrawn succeeded: the persister was told to remove the channel
)

type world struct {
	v      variant
	b      *backing
	db     *faultDB
	pr     *keyvalue.PersistRestorer
	sm     *channel.StateMachine
	m      persistence.StateMachine
	params *channel.Params
	peers  []map[wallet.BackendID]wire.Address
	parent *channel.ID
	life   int
	fixed  *snap // encoding of parameters, peers, parent (liveSnap)
}

func newWorld(v variant, backend string) *world {
	b := openBacking(backend)
	db := &faultDB{Database: b.db, limit: -1}
	pr := keyvalue.NewPersistRestorer(db)
	p := mkParams(v.N, v.app(), 7, !v.Parent)
	sm, err := channel.NewStateMachine(accMap(v.Idx), *p.Clone())
	if err != nil {
		panic(err)
	}
	w := &world{v: v, b: b, db: db, pr: pr, sm: sm, m: persistence.FromStateMachine(sm, pr), params: p}
	for i := 0; i < v.N; i++ {
		w.peers = append(w.peers, peerAddr[i])
	}
	if v.Parent {
		id := parentParams.ID()
		w.parent = &id
	}
	return w
}

func (w *world) close() { w.b.close() }

// clone copies a memorydb world (store content and machine). It is only an accelerator for
// the shards that do not own a transition and merely need its successor state; every state
// found this way is re-derived by replay before it is expanded.
func (w *world) clone() *world {
	b := &backing{kind: "memorydb", db: w.b.reopen()}
	db := &faultDB{Database: b.db, limit: -1}
	pr := keyvalue.NewPersistRestorer(db)
	sm := w.sm.Clone()
	return &world{v: w.v, b: b, db: db, pr: pr, sm: sm, m: persistence.FromStateMachine(sm, pr), params: w.params, peers: w.peers, parent: w.parent, life: w.life}
}

func (w *world) initAlloc() channel.Allocation { return evenAlloc(w.v.N) }

// cand builds a candidate successor of the current state (a function of the current state only).
func (w *world) cand(kind string) *channel.State {
	cur := w.sm.State()
	var s *channel.State
	if cur == nil {
		s = &channel.State{ID: w.params.ID(), App: w.v.app(), Data: channel.NoData(), Allocation: w.initAlloc()}
	} else {
		s = cur.Clone()
	}
	s.Version++
	amt := big.NewInt(1)
	if kind == "alt" {
		amt = big.NewInt(2)
	}
	if s.Balances[0][0].Cmp(amt) >= 0 { // participant 0 pays participant 1
		s.Balances[0][0].Sub(s.Balances[0][0], amt)
		s.Balances[0][1].Add(s.Balances[0][1], amt)
	}
	s.IsFinal = false
	switch kind {
	case "next", "alt":
	case "final":
		s.IsFinal = true
	case "ver+2":
		s.Version++
	default:
		panic(kind)
	}
	return s
}

type op struct {
	name    string
	offered func(w *world) bool
	run     func(w *world) error
}

// ops is the alphabet: ChannelCreated, then every operation of the persisting machine in its
// successful shapes (next / alternative / final successor, valid signatures of every
// participant) plus one failing shape per argument guard; the phase guards fail by themselves
// because every operation is offered in every state.
func ops(v variant) []op {
	if v.N > 3 {
		return opsLarge(v)
	}
	live := func(w *world) bool { return w.life == lifeLive }
	capOK := func(w *world) bool {
		return w.life == lifeLive && (w.sm.State() == nil || w.sm.State().Version < v.VerCap)
	}
	hasCurCap := func(w *world) bool { return capOK(w) && w.sm.State() != nil }
	garbage := bytes.Repeat([]byte{1}, 64)
	other := (v.Idx + 1) % v.N

	o := []op{
		{"ChannelCreated", func(w *world) bool { return w.life == lifeNone }, func(w *world) error {
			err := w.pr.ChannelCreated(ctx, w.m, w.peers, w.parent)
			if err == nil {
				w.life = lifeLive
			}
			return err
		}},
		{"Init(valid)", live, func(w *world) error { return w.m.Init(ctx, w.initAlloc(), channel.NoData()) }},
		{"Init(negative)", live, func(w *world) error {
			a := w.initAlloc()
			a.Balances[0][0] = big.NewInt(-1)
			return w.m.Init(ctx, a, channel.NoData())
		}},
		{"Sig", live, func(w *world) error { _, err := w.m.Sig(ctx); return err }},
	}
	for i := 0; i < v.N; i++ {
		i := i
		o = append(o, op{fmt.Sprintf("AddSig(%d,valid)", i), live, func(w *world) error {
			sig := wallet.Sig(garbage)
			if stg := w.sm.StagingState(); stg != nil {
				sig = sigOf(i, stg)
			}
			return w.m.AddSig(ctx, channel.Index(i), sig)
		}})
	}
	o = append(o, op{fmt.Sprintf("AddSig(%d,garbage)", other), live, func(w *world) error {
		return w.m.AddSig(ctx, channel.Index(other), garbage)
	}})
	o = append(o,
		op{"EnableInit", live, func(w *world) error { return w.m.EnableInit(ctx) }},
		op{"EnableUpdate", live, func(w *world) error { return w.m.EnableUpdate(ctx) }},
		op{"EnableFinal", live, func(w *world) error { return w.m.EnableFinal(ctx) }},
	)
	for _, k := range []string{"next", "alt", "final", "ver+2"} {
		k := k
		o = append(o, op{"Update(" + k + ")", hasCurCap, func(w *world) error { return w.m.Update(ctx, w.cand(k), 0) }})
	}
	o = append(o, op{"Update(next,actor=N)", hasCurCap, func(w *world) error { return w.m.Update(ctx, w.cand("next"), channel.Index(v.N)) }})
	for _, k := range []string{"next", "alt"} {
		k := k
		o = append(o, op{"ForceUpdate(" + k + ")", hasCurCap, func(w *world) error { return w.m.ForceUpdate(ctx, w.cand(k), 0) }})
	}
	o = append(o,
		op{"DiscardUpdate", live, func(w *world) error { return w.m.DiscardUpdate(ctx) }},
		op{"SetFunded", live, func(w *world) error { return w.m.SetFunded(ctx) }},
		op{"SetRegistering", live, func(w *world) error { return w.m.SetRegistering(ctx) }},
		op{"SetRegistered", live, func(w *world) error { return w.m.SetRegistered(ctx) }},
	)
	for _, k := range []string{"next", "alt"} {
		k := k
		o = append(o, op{"SetProgressing(" + k + ")", hasCurCap, func(w *world) error { return w.m.SetProgressing(ctx, w.cand(k)) }})
	}
	o = append(o,
		op{"SetProgressed(next)", capOK, func(w *world) error {
			return w.m.SetProgressed(ctx, channel.NewProgressedEvent(w.params.ID(), &channel.ElapsedTimeout{}, w.cand("next"), 0))
		}},
		op{"SetWithdrawing", live, func(w *world) error { return w.m.SetWithdrawing(ctx) }},
		op{"SetWithdrawn", live, func(w *world) error {
			err := w.m.SetWithdrawn(ctx)
			if err == nil {
				w.life = lifeRemoved
			}
			return err
		}},
	)
	return o
}

// opsLarge is the alphabet of the many-party variants (10 participants: the boundary of the
// signature key width). With one AddSig per slot the signature subsets alone would give 2^N
// states per staged state, so only the slots 0, 1 and N-1 (first, second, last: one and - at
// a wider key - two digits) are offered freely; the slots between are filled in ascending
// order by one operation, offered once slots 1 and N-1 are filled. Every AddSig is still one real call with its own crash points.
// The life cycle is Init .. EnableInit, SetFunded, Update / DiscardUpdate / EnableUpdate,
// SetRegistered, SetWithdrawing, SetWithdrawn; every operation is offered in every live state.
func opsLarge(v variant) []op {
	live := func(w *world) bool { return w.life == lifeLive }
	garbage := bytes.Repeat([]byte{1}, 64)
	addSig := func(w *world, i int) error {
		sig := wallet.Sig(garbage)
		if stg := w.sm.StagingState(); stg != nil {
			sig = sigOf(i, stg)
		}
		return w.m.AddSig(ctx, channel.Index(i), sig)
	}
	o := []op{
		{"ChannelCreated", func(w *world) bool { return w.life == lifeNone }, func(w *world) error {
			err := w.pr.ChannelCreated(ctx, w.m, w.peers, w.parent)
			if err == nil {
				w.life = lifeLive
			}
			return err
		}},
		{"Init(valid)", live, func(w *world) error { return w.m.Init(ctx, w.initAlloc(), channel.NoData()) }},
		{"Sig", live, func(w *world) error { _, err := w.m.Sig(ctx); return err }},
	}
	for _, i := range []int{0, 1, v.N - 1} {
		i := i
		o = append(o, op{fmt.Sprintf("AddSig(%d,valid)", i), live, func(w *world) error { return addSig(w, i) }})
	}
	midOK := func(w *world) bool { // offered once the slots 1 and N-1 are filled (fewer subsets)
		tx := w.sm.StagingTX()
		return w.life == lifeLive && len(tx.Sigs) == v.N && tx.Sigs[1] != nil && tx.Sigs[v.N-1] != nil
	}
	o = append(o,
		op{fmt.Sprintf("AddSig(next of 2..%d,valid)", v.N-2), midOK, func(w *world) error {
			tx := w.sm.StagingTX()
			for i := 2; i <= v.N-2; i++ {
				if i < len(tx.Sigs) && tx.Sigs[i] == nil {
					return addSig(w, i)
				}
			}
			return addSig(w, 2) // nothing staged / all present: the refused shape
		}},
		op{"EnableInit", live, func(w *world) error { return w.m.EnableInit(ctx) }},
		op{"SetFunded", live, func(w *world) error { return w.m.SetFunded(ctx) }},
		op{"Update(next)", func(w *world) bool {
			return w.life == lifeLive && w.sm.State() != nil && w.sm.State().Version < v.VerCap
		}, func(w *world) error { return w.m.Update(ctx, w.cand("next"), 0) }},
		op{"DiscardUpdate", live, func(w *world) error { return w.m.DiscardUpdate(ctx) }},
		op{"EnableUpdate", live, func(w *world) error { return w.m.EnableUpdate(ctx) }},
		op{"SetRegistered", live, func(w *world) error { return w.m.SetRegistered(ctx) }},
		op{"SetWithdrawing", live, func(w *world) error { return w.m.SetWithdrawing(ctx) }},
		op{"SetWithdrawn", live, func(w *world) error {
			err := w.m.SetWithdrawn(ctx)
			if err == nil {
				w.life = lifeRemoved
			}
			return err
		}},
	)
	return o
}

// liveSnap is what a restore must yield for the present state of the live machine.
func (w *world) liveSnap() snap {
	if w.life != lifeLive {
		return snap{Absent: true}
	}
	if w.fixed == nil { // parameters, peers and parent of the live channel never change
		f := snapOf(w.sm, w.peers, w.parent)
		w.fixed = &f
	}
	s := *w.fixed
	s.Idx, s.Phase = w.sm.Idx(), w.sm.Phase()
	s.Cur, s.CurSigs = fx.Enc(w.sm.CurrentTX().State), sigSet(w.sm.CurrentTX())
	s.Stg, s.StgSigs = fx.Enc(w.sm.StagingTX().State), sigSet(w.sm.StagingTX())
	s.CurSlots, s.StgSlots = slots(w.sm.CurrentTX()), slots(w.sm.StagingTX())
	return s
}

func (w *world) sigStatus(tx channel.Transaction) string {
	out := ""
	for i := 0; i < w.v.N; i++ {
		switch {
		case tx.State == nil || i >= len(tx.Sigs) || tx.Sigs[i] == nil:
			out += "-"
		case verifies(i, tx.State, tx.Sigs[i]):
			out += "V"
		default:
			out += "X"
		}
	}
	return out
}

// canon = canonical state of the machine (as in harness/machine: phase, current and staged
// state bytes, per-slot signature validity) + life + canonical digest of the whole store.
func (w *world) canon() string {
	return fmt.Sprintf("%d|%d|%s|%s|%s|%s|%s", w.life, w.sm.Phase(), short(fx.Enc(w.sm.CurrentTX().State)), w.sigStatus(w.sm.CurrentTX()),
		short(fx.Enc(w.sm.StagingTX().State)), w.sigStatus(w.sm.StagingTX()), canonDigest(w.b.db))
}

var paths = []string{"RestoreChannel", "RestorePeer"}

// observe reopens the store and returns, per restore path, what a restarted process would be
// given for this channel. RestorePeer is asked for every peer of the channel; the views are
// reported separately (each is judged on its own).
func (w *world) observe() map[string][]snap {
	pr := keyvalue.NewPersistRestorer(w.b.reopen())
	out := map[string][]snap{"RestoreChannel": {restoreChannel(pr, w.params.ID())}}
	for pi, p := range w.peers {
		if n := len(w.peers); n > 3 && pi != 0 && pi != 1 && pi != n-1 {
			continue // many-party variants: the first, second and last peer
		}
		list, errs := restorePeer(pr, p)
		var s snap
		switch {
		case errs != "":
			s = snap{Err: errs}
		case len(list) == 0:
			s = snap{Absent: true}
		case len(list) == 1:
			s = list[0]
		default:
			s = snap{Err: fmt.Sprintf("%d channels restored for a peer of one channel", len(list))}
		}
		out["RestorePeer"] = append(out["RestorePeer"], s)
	}
	return out
}

func sigEntries(s string) map[string]bool {
	m := map[string]bool{}
	if s != "" {
		for _, e := range strings.Split(s, ",") {
			m[e] = true
		}
	}
	return m
}

// judge applies the statement to one restore: r must equal before or after, and after if the
// operation completed (k == W). Returns "" or the violated clause.
func judge(k, W int, before, after, r snap) string {
	allowed := []snap{after}
	if k < W {
		allowed = []snap{before, after}
	}
	for _, a := range allowed {
		if r == a {
			return ""
		}
	}
	if r.Err != "" {
		return "restore-error"
	}
	// everything but the number of signature slots agrees with an allowed state?
	for _, a := range allowed {
		x := r
		x.CurSlots, x.StgSlots = a.CurSlots, a.StgSlots
		if x == a {
			return "signature-slot-count"
		}
	}
	// everything but the staged signature slots agrees with an allowed state?
	for _, a := range allowed {
		x, y := r, a
		x.StgSigs, y.StgSigs = "", ""
		if x != y || r.Absent {
			continue
		}
		got, want := sigEntries(r.StgSigs), sigEntries(a.StgSigs)
		wantBytes := map[string]bool{}
		for e := range want {
			wantBytes[strings.SplitN(e, ":", 2)[1]] = true
		}
		extra, moved := false, false
		for e := range got {
			if !want[e] {
				extra = true
				if wantBytes[strings.SplitN(e, ":", 2)[1]] {
					moved = true
				}
			}
		}
		switch {
		case moved:
			return "signature-wrong-slot"
		case extra:
			return "stale-signature" // a signature the machine does not hold for this staged state
		default:
			return "lost-signature"
		}
	}
	if k == W {
		return "completed-op-not-after"
	}
	return "restored-neither-before-nor-after"
}

// clauseClass identifies the two names of "differs from every allowed state" (they only say
// whether the operation had completed).
func clauseClass(c string) string {
	if c == "completed-op-not-after" || c == "restored-neither-before-nor-after" {
		return "mismatch"
	}
	return c
}

// stepResult is one execution of an operation, possibly cut at a boundary.
type stepResult struct {
	before, after snap
	W             int
	err           error
	panicked      string
	// copies of the live machine just before / after the operation: the reference for
	// "continuing with the restored machine" (continued)
	smBefore, smAfter *channel.StateMachine
}

func (w *world) step(o *op, limit int) (r stepResult) {
	r.before = w.liveSnap()
	r.smBefore = w.sm.Clone()
	w.db.arm(limit)
	func() {
		defer func() {
			if p := recover(); p != nil {
				r.panicked = fmt.Sprint(p)
				r.err = fmt.Errorf("PANIC: %v", p)
			}
		}()
		r.err = o.run(w)
	}()
	r.W = w.db.boundaries
	w.db.arm(-1)
	r.after = w.liveSnap()
	r.smAfter = w.sm.Clone()
	return r
}

// signOn performs the next signing operations on a machine - Sig(), then AddSig of the next
// participant with a signature that is valid for whatever is staged - and describes what
// happened: which call failed, the phase and the validity of every signature slot afterwards.
// A panic is recovered and returned.
func (w *world) signOn(m *channel.StateMachine) (outcome, panicked string) {
	defer func() {
		if p := recover(); p != nil {
			panicked = fmt.Sprint(p)
		}
	}()
	_, e1 := m.Sig()
	other := (w.v.Idx + 1) % w.v.N
	sig := wallet.Sig(bytes.Repeat([]byte{1}, 64))
	if stg := m.StagingState(); stg != nil {
		sig = sigOf(other, stg)
	}
	e2 := m.AddSig(channel.Index(other), sig)
	return fmt.Sprintf("Sig ok=%v, AddSig(%d) ok=%v, phase=%v, staged=%s", e1 == nil, other, e2 == nil, m.Phase(), w.sigStatus(m.StagingTX())), ""
}

// continued is the second oracle of a crash point: a process that restarts does not only
// look at what it restored, it goes on with it. The channel restored by RestoreChannel is
// turned into a machine (channel.RestoreStateMachine) and the next signing operations are
// performed on it; it must not panic and must behave like the live machine did in the state
// that was restored (the copy taken just before resp. just after the interrupted operation).
func (w *world) continued(o *op, k int, r stepResult) (clause, detail string) {
	if w.life == lifeNone {
		return "", ""
	}
	pr := keyvalue.NewPersistRestorer(w.b.reopen())
	var ch *persistence.Channel
	var got snap
	func() {
		defer func() {
			if p := recover(); p != nil {
				got = snap{Err: fmt.Sprintf("panic: %v", p)}
			}
		}()
		c, err := pr.RestoreChannel(ctx, w.params.ID())
		if err != nil {
			got = snap{Absent: true}
			return
		}
		ch, got = c, snapOf(c, c.PeersV, c.Parent)
	}()
	if ch == nil {
		return "", "" // nothing restored (judged by the first oracle)
	}
	var ref *channel.StateMachine
	switch {
	case got == r.after:
		ref = r.smAfter.Clone()
	case k < r.W && got == r.before:
		ref = r.smBefore.Clone()
	}
	finding := func(cl, format string, a ...interface{}) {
		clause = cl
		detail = fmt.Sprintf("%s interrupted after %d of %d write boundaries: ", o.name, k, r.W) + fmt.Sprintf(format, a...) + fmt.Sprintf("\n  restored = %v", got)
	}
	var m *channel.StateMachine
	var err error
	func() {
		defer func() {
			if p := recover(); p != nil {
				err = fmt.Errorf("PANIC: %v", p)
			}
		}()
		m, err = channel.RestoreStateMachine(accMap(w.v.Idx), ch)
	}()
	if err != nil {
		finding("restored-machine-not-built", "channel.RestoreStateMachine refuses what RestoreChannel yields: %v", err)
		return
	}
	res, panicked := w.signOn(m)
	if panicked != "" {
		finding("restored-machine-panics", "the machine built from what RestoreChannel yields panics in Sig / AddSig: %s", panicked)
		return
	}
	if ref != nil {
		if want, p := w.signOn(ref); p == "" && want != res {
			finding("restored-machine-diverges", "the machine built from what RestoreChannel yields does not go on like the live machine in the restored state\n  live machine:     %s\n  restored machine: %s", want, res)
		}
	}
	return
}

// pathContinued is the key of the second oracle in the origin table of build.
const pathContinued = "continued"

// continuedFindings wraps continued into a finding; like the restore paths, a failure that the
// store already showed at rest before the operation is attributed to the operation after
// which it first appeared.
func (w *world) continuedFindings(o *op, k int, r stepResult, org map[string]origin) []c10Finding {
	cl, detail := w.continued(o, k, r)
	if cl == "" {
		return nil
	}
	site, inh := opKind(o.name), false
	if og, ok := org[pathContinued]; ok && og.Clause == cl {
		site, inh = og.Op, true
	}
	return []c10Finding{{fmt.Sprintf("C10:%s:%s/RestoreChannel", cl, site), detail, inh}}
}

type origin struct{ Op, Clause string }

// build replays a history on a fresh store. With atRest it also checks after every step that
// the store at rest restores to the live state, and tracks per restore path which operation
// first left it inconsistent (and how): later crash points that merely inherit that
// inconsistency are attributed to it instead of to the operation they interrupt.
func build(v variant, backend string, all []op, h []int, atRest bool, trace func(string)) (*world, map[string]origin) {
	w := newWorld(v, backend)
	org := map[string]origin{}
	for _, k := range h {
		r := w.step(&all[k], -1)
		if !atRest {
			continue
		}
		obs := w.observe()
		line := fmt.Sprintf("  %-24s err=%v writes=%d -> phase=%v cur=%s staged=%s", all[k].name, r.err != nil, r.W, w.sm.Phase(), w.sigStatus(w.sm.CurrentTX()), w.sigStatus(w.sm.StagingTX()))
		for _, p := range paths {
			cl := ""
			for _, s := range obs[p] {
				if c := judge(0, 0, r.after, r.after, s); c != "" {
					cl = c
					break
				}
			}
			switch {
			case cl == "":
				delete(org, p)
			case clauseClass(org[p].Clause) != clauseClass(cl):
				org[p] = origin{opKind(all[k].name), cl}
			}
			if cl != "" {
				line += fmt.Sprintf("  [%s at rest: %s since %s]", p, cl, org[p].Op)
			}
		}
		switch cl, _ := w.continued(&all[k], r.W, r); {
		case cl == "":
			delete(org, pathContinued)
		case org[pathContinued].Clause != cl:
			org[pathContinued] = origin{opKind(all[k].name), cl}
			fallthrough
		default:
			line += fmt.Sprintf("  [restored machine at rest: %s since %s]", cl, org[pathContinued].Op)
		}
		if trace != nil {
			trace(line)
		}
	}
	return w, org
}

type c10Replay struct {
	Harness string   `json:"harness"`
	Check   string   `json:"check"`
	Variant variant  `json:"variant"`
	Backend string   `json:"backend"`
	History []string `json:"history"`
	Op      string   `json:"op"`
	CrashK  int      `json:"crash_k"`
	Family  string   `json:"family,omitempty"` // "": one channel per store; pFamily: several channels of one peer (c10_peer_test.go)
	NChan   int      `json:"channels,omitempty"`
}

func names(all []op, h []int) []string {
	out := make([]string, len(h))
	for i, k := range h {
		out[i] = all[k].name
	}
	return out
}

type c10Finding struct {
	sig, detail string
	inherited   bool
}

// verdicts judges the observation of one crash point on every restore path.
func verdicts(o *op, k int, r stepResult, obs map[string][]snap, org map[string]origin) (out []c10Finding) {
	for _, p := range paths {
		for pi, s := range obs[p] {
			cl := judge(k, r.W, r.before, r.after, s)
			if cl == "" {
				continue
			}
			site, inh := opKind(o.name), false
			if og, ok := org[p]; ok && clauseClass(og.Clause) == clauseClass(cl) {
				cl, site, inh = og.Clause, og.Op, true // the store was already inconsistent in this way before the operation
			}
			view := p
			if p == "RestorePeer" {
				view = fmt.Sprintf("RestorePeer(peer %d)", pi)
			}
			out = append(out, c10Finding{fmt.Sprintf("C10:%s:%s/%s", cl, site, p),
				fmt.Sprintf("%s interrupted after %d of %d write boundaries (err=%v): %s yields a state the machine was never in\n  before   = %v\n  after    = %v\n  restored = %v",
					o.name, k, r.W, r.err, view, r.before, r.after, s), inh})
			break
		}
	}
	return out
}

func c10Variants(thorough bool) []variant {
	if !thorough {
		return []variant{
			{"2p-noapp-idx0", 2, 0, "noapp", false, 1, false},
			{"2p-noapp-idx0-sub", 2, 0, "noapp", true, 1, false},
			{"2p-noapp-idx1", 2, 1, "noapp", false, 1, false},
			{"10p-noapp-idx0", 10, 0, "noapp", false, 1, false},
		}
	}
	// LevelDB costs ~30 ms per crash point (two opens of a database on disk): it gets the
	// whole space of the quick tier; the larger spaces run on memorydb.
	return []variant{
		{"2p-noapp-idx0+leveldb", 2, 0, "noapp", false, 1, true},
		{"2p-noapp-idx0-sub+leveldb", 2, 0, "noapp", true, 1, true},
		{"2p-noapp-idx0", 2, 0, "noapp", false, 2, false},
		{"2p-noapp-idx0-sub", 2, 0, "noapp", true, 2, false},
		{"2p-noapp-idx1", 2, 1, "noapp", false, 2, false},
		{"2p-payment-idx0", 2, 0, "payment", false, 2, false},
		{"3p-noapp-idx1-sub", 3, 1, "noapp", true, 1, false},
		{"10p-noapp-idx0", 10, 0, "noapp", false, 1, false},
		{"10p-noapp-idx9-sub", 10, 9, "noapp", true, 1, false},
	}
}

// c10Search: BFS to a fixpoint. Every shard runs the (cheap) search itself; the crash points
// of transition number t belong to shard t mod n.
func c10Search(t *testing.T, res *report.Result, v variant, deadline time.Time) bool {
	all := ops(v)
	backends := []string{"memorydb"}
	if v.LevelDB {
		backends = append(backends, "leveldb")
	}
	shard, nshards := report.Shard()
	w0, _ := build(v, "memorydb", all, nil, false, nil)
	seen := map[string]bool{w0.canon(): true}
	type node struct {
		h   []int
		key string
	}
	frontier := []node{{nil, w0.canon()}}
	w0.close()
	nStates, nTrans, maxDepth := 0, 0, 0
	violate := func(f c10Finding, backend string, h []int, o *op, k int) {
		if f.inherited {
			res.Count("crash_points_inheriting_an_earlier_inconsistency", 1)
		}
		cost := len(h) + 1
		if f.inherited {
			cost += 1000 // prefer the counterexample in which the inconsistency arises
		}
		res.ViolateC("C10", f.sig, fmt.Sprintf("[%s, %s] %s\n  history: %v", v.Name, backend, f.detail, names(all, h)),
			c10Replay{"store", "C10", v, backend, names(all, h), o.name, k, "", 0}, cost)
	}
	for len(frontier) > 0 {
		if !deadline.IsZero() && time.Now().After(deadline) {
			res.Cap("C10 %s: deadline reached with %d states in the frontier", v.Name, len(frontier))
			return false
		}
		h := frontier[0].h
		if nStates%nshards == shard {
			res.Count("states", 1)
		}
		nStates++
		base, org := build(v, "memorydb", all, h, true, nil) // one replay per discovered state; never modified
		if base.canon() != frontier[0].key {
			t.Fatalf("engine error: the state reached by replaying %v is not the state it was discovered as", names(all, h))
		}
		frontier = frontier[1:]
		var w *world // a replayed world in state s for the transitions this shard owns
		for oi := range all {
			o := &all[oi]
			if !o.offered(base) {
				continue
			}
			mine := nTrans%nshards == shard
			nTrans++
			var cur *world
			if mine {
				if w == nil {
					w, _ = build(v, "memorydb", all, h, false, nil)
				}
				cur = w
			} else {
				cur = base.clone()
			}
			raw0 := rawDigest(cur.b.db)
			r := cur.step(o, -1) // no fault: counts W and is the crash point k = W
			changed := r.W > 0 || r.before != r.after || rawDigest(cur.b.db) != raw0
			if mine {
				res.Count("transitions", 1)
				if r.err != nil {
					res.Count("transitions_refused", 1)
				} else {
					res.Seen("writing_ops", fmt.Sprintf("%s:%d", opKind(o.name), r.W))
				}
				if r.panicked != "" {
					res.Violate("C10", "C10:panic:"+opKind(o.name), fmt.Sprintf("[%s] %s panicked: %s\n  history: %v", v.Name, o.name, r.panicked, names(all, h)),
						c10Replay{"store", "C10", v, "memorydb", names(all, h), o.name, r.W, "", 0})
				}
				if r.err != nil && r.W > 0 {
					res.Violate("C10", "C10:failed-op-wrote:"+opKind(o.name), fmt.Sprintf("[%s] %s returned %v but issued %d write boundaries\n  history: %v", v.Name, o.name, r.err, r.W, names(all, h)),
						c10Replay{"store", "C10", v, "memorydb", names(all, h), o.name, r.W, "", 0})
				}
				res.Count("evaluations", 1)
				if r.W > 0 {
					res.Count("distinct_nontrivial", 1)
				}
				for _, f := range append(verdicts(o, r.W, r, cur.observe(), org), cur.continuedFindings(o, r.W, r, org)...) {
					violate(f, "memorydb", h, o, r.W)
				}
				for k := 0; k < r.W; k++ { // the crash points inside the operation
					w2, _ := build(v, "memorydb", all, h, false, nil)
					r2 := w2.step(o, k)
					if r2.W != r.W {
						t.Fatalf("engine error: %s issued %d boundaries, %d in the replay (history %v)", o.name, r.W, r2.W, names(all, h))
					}
					res.Count("evaluations", 1)
					res.Count("distinct_nontrivial", 1)
					for _, f := range append(verdicts(o, k, r2, w2.observe(), org), w2.continuedFindings(o, k, r2, org)...) {
						violate(f, "memorydb", h, o, k)
					}
					w2.close()
				}
				// further backends: the transitions that write, every boundary, real reopen from disk
				for _, be := range backends {
					if be == "memorydb" || r.W == 0 {
						continue
					}
					for k := 0; k <= r.W; k++ {
						w3, _ := build(v, be, all, h, false, nil)
						limit := k
						if k == r.W {
							limit = -1
						}
						r3 := w3.step(o, limit)
						if r3.W != r.W {
							t.Fatalf("engine error: %s issued %d boundaries on memorydb, %d on %s", o.name, r.W, r3.W, be)
						}
						res.Count("evaluations", 1)
						res.Count("evaluations_"+be, 1)
						for _, f := range verdicts(o, k, r3, w3.observe(), org) {
							violate(f, be, h, o, k)
						}
						w3.close()
					}
				}
				if changed {
					w = nil // used up; the next owned transition replays again
				}
			}
			if !changed {
				continue // refused without a trace: the world is still in state s
			}
			key := cur.canon()
			if !seen[key] {
				seen[key] = true
				nh := append(append([]int{}, h...), oi)
				if len(nh) > maxDepth {
					maxDepth = len(nh)
				}
				if len(nh) <= 5 && mine {
					res.Sample(6, map[string]interface{}{"check": "C10", "variant": v.Name, "history": names(all, nh), "phase": cur.sm.Phase().String(), "write_boundaries_of_last_op": r.W})
				}
				frontier = append(frontier, node{nh, key})
			}
		}
		base.close()
	}
	if int64(maxDepth) > res.Counters["max_depth"] {
		res.Counters["max_depth"] = int64(maxDepth)
	}
	if shard == 0 {
		res.Count("variants", 1)
	}
	res.Note("C10 variant %s: %d ops in alphabet, version cap %d, states=%d, transitions=%d, depth=%d, backends=%v", v.Name, len(all), v.VerCap, nStates, nTrans, maxDepth, backends)
	return true
}

func c10Run(t *testing.T, res *report.Result) {
	deadline := report.Deadline()
	exhaustive := true
	for _, v := range c10Variants(res.Thorough()) {
		if !c10Search(t, res, v, deadline) {
			exhaustive = false
			break
		}
	}
	// several channels of one peer on one store (c10_peer_test.go): 3 channels in the quick tier;
	// thorough: 4 channels on memorydb and the 3 channel space again on LevelDB on disk
	if exhaustive {
		if !res.Thorough() {
			exhaustive = pSearch(t, res, 3, []string{"memorydb"}, deadline)
		} else {
			exhaustive = pSearch(t, res, 4, []string{"memorydb"}, deadline) && pSearch(t, res, 3, []string{"leveldb"}, deadline)
		}
	}
	res.Counters["traces_validated_against_impl"] = res.Counters["transitions"]
	if exhaustive {
		res.Extra["exhaustive"] = true
	}
	res.Extra["bound"] = "fixpoint over canonical states (machine state + canonical store digest) below the version cap of each variant (see notes); every transition x every write boundary; plus the fixpoint over the states of 3 (thorough 4) channels of one peer on one store (status of each channel + canonical store digest), every operation x every write boundary"
	if res.Thorough() {
		res.Note("LevelDB: every boundary of every transition that writes; a refused operation issues no write boundary (checked on memorydb), so recovery has nothing to act on")
	}
}

func c10ReplayRun(t *testing.T, res *report.Result, rp c10Replay) {
	if rp.Family == pFamily {
		pReplayRun(t, res, rp)
		return
	}
	all := ops(rp.Variant)
	byName := map[string]int{}
	for i := range all {
		byName[all[i].name] = i
	}
	var h []int
	for _, n := range rp.History {
		i, ok := byName[n]
		if !ok {
			t.Fatalf("unknown op %q", n)
		}
		h = append(h, i)
	}
	oi, ok := byName[rp.Op]
	if !ok {
		t.Fatalf("unknown op %q", rp.Op)
	}
	o := &all[oi]
	fmt.Printf("C10 replay: variant %s, backend %s\n", rp.Variant.Name, rp.Backend)
	w, org := build(rp.Variant, "memorydb", all, h, true, func(s string) { fmt.Println(s) })
	r := w.step(o, -1)
	w.close()
	fmt.Printf("  %s issues %d write boundaries (err=%v); crash after boundary %d\n", o.name, r.W, r.err, rp.CrashK)
	if r.err != nil && r.W > 0 {
		res.Violate("C10", "C10:failed-op-wrote:"+opKind(o.name), fmt.Sprintf("%s returned %v but issued %d write boundaries", o.name, r.err, r.W), rp)
	}
	w2, _ := build(rp.Variant, rp.Backend, all, h, false, nil)
	defer w2.close()
	limit := rp.CrashK
	if limit >= r.W {
		limit = -1
	}
	r2 := w2.step(o, limit)
	obs := w2.observe()
	fmt.Printf("  before   = %v\n  after    = %v\n", r2.before, r2.after)
	for _, p := range paths {
		for i, s := range obs[p] {
			fmt.Printf("  %s[%d] -> %v\n", p, i, s)
		}
	}
	keys, kv := dump(w2.b.db)
	id := w2.params.ID()
	nm := map[string]string{string(id[:]): "id"}
	for i, p := range w2.peers {
		var b bytes.Buffer
		_ = wire.AddressDecMap(p).Encode(&b)
		nm[b.String()] = fmt.Sprintf("peer%d", i)
	}
	fmt.Println("  surviving store:")
	for _, k := range keys {
		fmt.Printf("    %s = %d bytes\n", printable(k, nm), len(kv[k]))
	}
	fs := append(verdicts(o, min(rp.CrashK, r2.W), r2, obs, org), w2.continuedFindings(o, min(rp.CrashK, r2.W), r2, org)...)
	if r2.panicked != "" {
		res.Violate("C10", "C10:panic:"+opKind(o.name), o.name+" panicked: "+r2.panicked, rp)
	}
	for _, f := range fs {
		fmt.Printf("  VERDICT %s\n    %s\n", f.sig, strings.ReplaceAll(f.detail, "\n", "\n    "))
		res.Violate("C10", f.sig, f.detail, rp)
	}
	if res.NViolations() == 0 {
		fmt.Println("  VERDICT none: the case no longer violates")
	}
}

func loadReplay(t *testing.T, path string, into interface{}) string {
	b, err := os.ReadFile(path)
	if err != nil {
		t.Fatal(err)
	}
	var f struct {
		Replay json.RawMessage `json:"replay"`
	}
	if err := json.Unmarshal(b, &f); err != nil || f.Replay == nil {
		f.Replay = b // a bare replay value
	}
	var c struct {
		Check string `json:"check"`
	}
	_ = json.Unmarshal(f.Replay, &c)
	if into != nil {
		if err := json.Unmarshal(f.Replay, into); err != nil {
			t.Fatal(err)
		}
	}
	return c.Check
}
