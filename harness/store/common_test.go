// Package store: engines FAULT (C10) and SEQ (C11) over the real keyvalue.PersistRestorer.
//
// The object under test is always the real code: persistence.StateMachine (C10) / the
// persister API (C11) over keyvalue.PersistRestorer over a real sortedkv.Database (memorydb,
// thorough tier also LevelDB on disk). This file holds what both checks share: the
// fault-injecting store wrapper, the observation of a restore ("snapshot"), the canonical
// digest of a store and the fixtures.
package store

import (
	"bytes"
	"context"
	"crypto/sha1"
	"fmt"
	"math/big"
	"math/rand"
	"os"
	"path/filepath"
	"regexp"
	"sort"
	"strconv"
	"strings"
	"sync/atomic"

	simwallet "perun.network/go-perun/backend/sim/wallet"
	simwire "perun.network/go-perun/backend/sim/wire"
	"perun.network/go-perun/channel"
	"perun.network/go-perun/channel/persistence"
	"perun.network/go-perun/channel/persistence/keyvalue"
	"perun.network/go-perun/wallet"
	"perun.network/go-perun/wire"
	"polycry.pt/poly-go/sortedkv"
	sleveldb "polycry.pt/poly-go/sortedkv/leveldb"
	"polycry.pt/poly-go/sortedkv/memorydb"
	"verif/harness/fx"
)

var ctx = context.Background()

// ---------------------------------------------------------------------------------------
// fault-injecting store

// faultDB wraps a real sortedkv.Database and counts write boundaries: Put, PutBytes and
// Delete issued directly on the database (tables forward to them) and Batch.Apply; a batch is
// one atomic boundary (the stated crash model: no torn batch, no reordering). With limit >= 0
// everything after the limit-th boundary is dropped (the process "stopped" there: the code
// keeps running, but nothing it writes reaches the store). Reads pass through.
type faultDB struct {
	sortedkv.Database
	boundaries int
	limit      int // -1: no fault
}

func (d *faultDB) arm(limit int) { d.boundaries, d.limit = 0, limit }

func (d *faultDB) pass() bool {
	d.boundaries++
	return d.limit < 0 || d.boundaries <= d.limit
}

func (d *faultDB) Put(k, v string) error {
	if !d.pass() {
		return nil
	}
	return d.Database.Put(k, v)
}

func (d *faultDB) PutBytes(k string, v []byte) error {
	if !d.pass() {
		return nil
	}
	return d.Database.PutBytes(k, v)
}

func (d *faultDB) Delete(k string) error {
	if !d.pass() {
		return nil
	}
	return d.Database.Delete(k)
}

func (d *faultDB) NewBatch() sortedkv.Batch {
	return &faultBatch{Batch: d.Database.NewBatch(), d: d}
}

type faultBatch struct {
	sortedkv.Batch
	d *faultDB
}

func (b *faultBatch) Apply() error {
	if !b.d.pass() {
		return nil
	}
	return b.Batch.Apply()
}

// ---------------------------------------------------------------------------------------
// backends

var (
	buildDir   string
	ldbCounter int64
)

// scratchRoot finds /verif/.build (the directory holding engine/report) from the working directory.
func scratchRoot() string {
	if buildDir != "" {
		return buildDir
	}
	dir, _ := os.Getwd()
	for d := dir; d != "/" && d != "."; d = filepath.Dir(d) {
		if _, err := os.Stat(filepath.Join(d, "engine", "report", "report.go")); err == nil {
			buildDir = filepath.Join(d, ".build")
			_ = os.MkdirAll(buildDir, 0o755)
			return buildDir
		}
	}
	buildDir = os.TempDir()
	return buildDir
}

// backing is one real store instance; for LevelDB it owns a scratch directory.
type backing struct {
	kind string // "memorydb" | "leveldb"
	dir  string
	db   sortedkv.Database
}

func openBacking(kind string) *backing {
	switch kind {
	case "memorydb":
		return &backing{kind: kind, db: memorydb.NewDatabase()}
	case "leveldb":
		dir := filepath.Join(scratchRoot(), fmt.Sprintf("leveldb-%d-%d", os.Getpid(), atomic.AddInt64(&ldbCounter, 1)))
		_ = os.RemoveAll(dir)
		db, err := sleveldb.LoadDatabase(dir)
		if err != nil {
			panic(fmt.Sprintf("engine error: cannot create LevelDB at %s: %v", dir, err))
		}
		return &backing{kind: kind, dir: dir, db: db}
	}
	panic("unknown backend " + kind)
}

// reopen returns the store a restarted process would see. memorydb: a fresh database holding
// a copy of the surviving content. LevelDB: the database is closed and loaded again from its
// directory, so goleveldb's journal recovery runs.
func (b *backing) reopen() sortedkv.Database {
	if b.kind == "memorydb" {
		data := map[string]string{}
		it := b.db.NewIterator()
		for it.Next() {
			data[it.Key()] = it.Value()
		}
		_ = it.Close()
		return memorydb.FromData(data)
	}
	if err := b.db.Close(); err != nil {
		panic(fmt.Sprintf("engine error: closing LevelDB: %v", err))
	}
	db, err := sleveldb.LoadDatabase(b.dir)
	if err != nil {
		panic(fmt.Sprintf("engine error: reopening LevelDB at %s: %v", b.dir, err))
	}
	b.db = db
	return db
}

func (b *backing) close() {
	if b.kind == "leveldb" {
		_ = b.db.Close()
		_ = os.RemoveAll(b.dir)
	}
}

// removeOwnScratch removes whatever LevelDB directory of this process is left (after a panic).
func removeOwnScratch() {
	m, _ := filepath.Glob(filepath.Join(scratchRoot(), fmt.Sprintf("leveldb-%d-*", os.Getpid())))
	for _, d := range m {
		_ = os.RemoveAll(d)
	}
}

// ---------------------------------------------------------------------------------------
// fixtures

// peerAddr are wire addresses: peerAddr[i] belongs to participant i of the C10 channels; C11
// assigns them per channel (see cPeerIdx).
var peerAddr [11]map[wallet.BackendID]wire.Address

// maxParts is the largest channel of this harness: 10 participants, the first number at which
// the width of the zero-padded signature keys (staging:sig:<i>) could change.
const maxParts = 10

// accs are the participants' accounts: accs[i] = fx.Accs[i] for i < 4, further ones from an
// own generator (keys only).
var accs = func() (a [maxParts]*simwallet.Account) {
	seed, _ := strconv.ParseInt(os.Getenv("VERIF_SEED"), 10, 64)
	rng := rand.New(rand.NewSource(seed + 3))
	for i := range a {
		if i < len(fx.Accs) {
			a[i] = fx.Accs[i]
		} else {
			a[i] = simwallet.NewRandomAccount(rng)
		}
	}
	return a
}()

func accMap(i int) map[wallet.BackendID]wallet.Account {
	return map[wallet.BackendID]wallet.Account{0: accs[i]}
}

// mkParams builds channel parameters for participants 0..n-1 (fx.Params for up to 10 participants).
func mkParams(n int, app channel.App, nonce int64, ledger bool) *channel.Params {
	parts := make([]map[wallet.BackendID]wallet.Address, n)
	for i := range parts {
		parts[i] = map[wallet.BackendID]wallet.Address{0: accs[i].Address()}
	}
	p, err := channel.NewParams(60, parts, app, big.NewInt(nonce), ledger, false, channel.ZeroAux)
	if err != nil {
		panic(err)
	}
	return p
}

// evenAlloc: one asset, 5 units for each of n participants.
func evenAlloc(n int) channel.Allocation {
	row := make([]int64, n)
	for i := range row {
		row[i] = 5
	}
	return fx.Alloc(row)
}

var sigCache = map[string]wallet.Sig{}

// sigOf returns participant i's signature over st (cached: ECDSA signing dominates replay time).
func sigOf(i int, st *channel.State) wallet.Sig {
	k := fmt.Sprintf("%d|%s", i, fx.Enc(st))
	if s, ok := sigCache[k]; ok {
		return s
	}
	s, err := channel.Sign(accs[i], st, 0)
	if err != nil {
		panic(err)
	}
	sigCache[k] = s
	return s
}

// notFound is the class of the error RestoreChannel returns for a channel that never
// existed; a channel that is absent (not yet created / removed) must restore with exactly
// this class. The oracle thereby does not depend on the wording of the message.
var notFound string

var idHex = regexp.MustCompile(`[0-9a-f]{64}`)

func errClass(err error) string { return idHex.ReplaceAllString(err.Error(), "<id>") }

func init() {
	// own generator (keys only): fx.Rng's position depends on ecdsa.GenerateKey's MaybeReadByte
	seed, _ := strconv.ParseInt(os.Getenv("VERIF_SEED"), 10, 64)
	rng := rand.New(rand.NewSource(seed + 2))
	for i := range peerAddr {
		peerAddr[i] = map[wallet.BackendID]wire.Address{0: simwire.NewRandomAddress(rng)}
	}
	never := mkParams(2, channel.NoApp(), 999, true)
	_, err := keyvalue.NewPersistRestorer(memorydb.NewDatabase()).RestoreChannel(ctx, never.ID())
	if err == nil {
		panic("engine error: restoring from an empty store succeeded")
	}
	notFound = errClass(err)
}

// ---------------------------------------------------------------------------------------
// snapshots: what a restore yields / what the live machine holds

// snap is everything the property names: participant index, parameters, phase, current
// transaction, staged state, staged signature slots as a set of (index, bytes), peers,
// parent. nil and all-nil signature slices are identified (only non-nil slots are listed).
type snap struct {
	Absent  bool   // the channel is not in the store ("no such channel")
	Err     string // the restore failed in another way / panicked
	Idx     channel.Index
	Params  string
	Phase   channel.Phase
	Cur     string
	CurSigs string
	Stg     string
	StgSigs string
	// CurSlots / StgSlots: the NUMBER of signature slots of the current / staged transaction
	// (one per participant) if it has a state, -1 if it has none. A transaction with a state
	// and fewer slots cannot be signed (Sig / AddSig index the slots); without a state the
	// restorer may hand out an empty or an all-nil slice, which no operation can tell apart.
	CurSlots, StgSlots int
	Peers              string
	Parent  string
}

func slots(tx channel.Transaction) int {
	if tx.State == nil {
		return -1
	}
	return len(tx.Sigs)
}

func sigSet(tx channel.Transaction) string {
	var p []string
	for i, s := range tx.Sigs {
		if s != nil {
			p = append(p, fmt.Sprintf("%d:%x", i, []byte(s)))
		}
	}
	return strings.Join(p, ",")
}

func snapOf(s channel.Source, peers []map[wallet.BackendID]wire.Address, parent *channel.ID) snap {
	var pb, peerb bytes.Buffer
	if err := s.Params().Encode(&pb); err != nil {
		return snap{Err: "params not encodable: " + err.Error()}
	}
	if err := wire.AddressMapArray(peers).Encode(&peerb); err != nil {
		return snap{Err: "peers not encodable: " + err.Error()}
	}
	par := "none"
	if parent != nil {
		par = fmt.Sprintf("%x", parent[:])
	}
	return snap{Idx: s.Idx(), Params: pb.String(), Phase: s.Phase(),
		Cur: fx.Enc(s.CurrentTX().State), CurSigs: sigSet(s.CurrentTX()),
		Stg: fx.Enc(s.StagingTX().State), StgSigs: sigSet(s.StagingTX()),
		CurSlots: slots(s.CurrentTX()), StgSlots: slots(s.StagingTX()),
		Peers: peerb.String(), Parent: par}
}

func short(s string) string {
	if s == "" {
		return "-"
	}
	h := sha1.Sum([]byte(s))
	return fmt.Sprintf("%x", h[:4])
}

func parentString(p string) string {
	if len(p) > 8 {
		return p[:8]
	}
	return p
}

func shortSigs(s string) string {
	if s == "" {
		return "{}"
	}
	var out []string
	for _, e := range strings.Split(s, ",") {
		p := strings.SplitN(e, ":", 2)
		out = append(out, p[0]+":"+short(p[1]))
	}
	return "{" + strings.Join(out, ",") + "}"
}

// String abbreviates byte strings by a short hash (equal hashes <=> equal bytes within one trace).
func (s snap) String() string {
	switch {
	case s.Absent:
		return "absent"
	case s.Err != "":
		return "ERROR(" + s.Err + ")"
	}
	return fmt.Sprintf("idx=%d params=%s phase=%v cur=%s curSigs=%s/%d slots staged=%s stagedSigs=%s/%d slots peers=%s parent=%s",
		s.Idx, short(s.Params), s.Phase, short(s.Cur), shortSigs(s.CurSigs), s.CurSlots, short(s.Stg), shortSigs(s.StgSigs), s.StgSlots, short(s.Peers), parentString(s.Parent))
}

// restoreChannel observes RestoreChannel(id).
func restoreChannel(pr *keyvalue.PersistRestorer, id channel.ID) (s snap) {
	defer func() {
		if r := recover(); r != nil {
			s = snap{Err: fmt.Sprintf("panic: %v", r)}
		}
	}()
	ch, err := pr.RestoreChannel(ctx, id)
	if err != nil {
		if errClass(err) == notFound {
			return snap{Absent: true}
		}
		return snap{Err: errClass(err)}
	}
	return snapOf(ch, ch.PeersV, ch.Parent)
}

// drain observes a channel iterator: every channel it yields and the error it ends with.
func drain(open func() (persistence.ChannelIterator, error)) (out []snap, errs string) {
	defer func() {
		if r := recover(); r != nil {
			errs = fmt.Sprintf("panic: %v", r)
		}
	}()
	it, err := open()
	if err != nil {
		return nil, errClass(err)
	}
	for it.Next(ctx) {
		ch := it.Channel()
		out = append(out, snapOf(ch, ch.PeersV, ch.Parent))
		if len(out) > 64 {
			return out, "iterator does not end"
		}
	}
	if err := it.Close(); err != nil {
		return out, errClass(err)
	}
	return out, ""
}

func restorePeer(pr *keyvalue.PersistRestorer, peer map[wallet.BackendID]wire.Address) ([]snap, string) {
	return drain(func() (persistence.ChannelIterator, error) { return pr.RestorePeer(peer) })
}

func restoreAll(pr *keyvalue.PersistRestorer) ([]snap, string) {
	return drain(func() (persistence.ChannelIterator, error) { return pr.RestoreAll() })
}

// ---------------------------------------------------------------------------------------
// store content

func dump(db sortedkv.Database) (keys []string, kv map[string][]byte) {
	kv = map[string][]byte{}
	it := db.NewIterator()
	for it.Next() {
		k := it.Key()
		kv[k] = append([]byte{}, it.ValueBytes()...)
		keys = append(keys, k)
	}
	_ = it.Close()
	sort.Strings(keys)
	return keys, kv
}

// rawDigest identifies the exact content of a store.
func rawDigest(db sortedkv.Database) string {
	keys, kv := dump(db)
	h := sha1.New()
	for _, k := range keys {
		fmt.Fprintf(h, "%d:%s=%d:%s;", len(k), k, len(kv[k]), kv[k])
	}
	return fmt.Sprintf("%x", h.Sum(nil)[:10])
}

var (
	verifyCache = map[string]bool{}
)

func verifies(i int, st *channel.State, sig []byte) bool {
	if st == nil || len(sig) == 0 || i < 0 || i >= len(accs) {
		return false
	}
	k := fmt.Sprintf("%d|%x|%s", i, sig, fx.Enc(st))
	if v, ok := verifyCache[k]; ok {
		return v
	}
	ok, err := channel.Verify(accs[i].Address(), st, sig)
	v := err == nil && ok
	if len(verifyCache) > 200000 {
		verifyCache = map[string]bool{}
	}
	verifyCache[k] = v
	return v
}

const sigInfix = ":staging:sig:"

// canonDigest is the digest of every key/value of the store in which signature BYTES are
// replaced by their validity status (machine.Sig() uses fresh ECDSA randomness in every
// replay; with the bytes in the key the search would never close): a staging signature slot
// is '-' (empty), 'V' (verifies for its slot over the staged state stored next to it) or 'X'
// (anything else, in particular a signature left over from an earlier staged state); the
// current transaction is its state plus the status of each slot. Participant i of every
// channel of this harness is accs[i].
func canonDigest(db sortedkv.Database) string {
	keys, kv := dump(db)
	h := sha1.New()
	for _, k := range keys {
		v := kv[k]
		if p := strings.Index(k, sigInfix); p >= 0 {
			idx, err := strconv.Atoi(k[p+len(sigInfix):])
			st := "-"
			if len(v) > 0 {
				st = "X"
				if sv := kv[k[:p]+":staging:state"]; err == nil && len(sv) > 0 {
					var s channel.State
					if s.Decode(bytes.NewReader(sv)) == nil && verifies(idx, &s, v) {
						st = "V"
					}
				}
			}
			fmt.Fprintf(h, "%d:%s=%s;", len(k), k, st)
			continue
		}
		if strings.HasSuffix(k, ":current") {
			var tx channel.Transaction
			if tx.Decode(bytes.NewReader(v)) == nil {
				st := ""
				for i, s := range tx.Sigs {
					switch {
					case s == nil:
						st += "-"
					case verifies(i, tx.State, s):
						st += "V"
					default:
						st += "X"
					}
				}
				fmt.Fprintf(h, "%d:%s=tx(%x,%s);", len(k), k, fx.Enc(tx.State), st)
				continue
			}
		}
		fmt.Fprintf(h, "%d:%s=%d:%s;", len(k), k, len(v), v)
	}
	return fmt.Sprintf("%x", h.Sum(nil)[:10])
}

// printable renders a raw key for messages: channel ids and peer addresses are binary.
func printable(k string, names map[string]string) string {
	for raw, name := range names {
		k = strings.ReplaceAll(k, raw, "<"+name+">")
	}
	return strconv.QuoteToASCII(k)
}

func opKind(name string) string { return strings.SplitN(name, "(", 2)[0] }
