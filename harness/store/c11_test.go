package store

// C11 - engine SEQ: explicit-state search over histories of creating, advancing and removing
// three channels on one real keyvalue.PersistRestorer; after every step all views of the
// restorer and the raw key set of the database are compared with the reference set of live
// channels (the live machines themselves are the reference for the data).

import (
	"bytes"
	"fmt"
	"sort"
	"strings"
	"testing"
	"time"

	"perun.network/go-perun/channel"
	"perun.network/go-perun/channel/persistence"
	"perun.network/go-perun/channel/persistence/keyvalue"
	"perun.network/go-perun/wallet"
	"perun.network/go-perun/wire"
	"verif/engine/report"
	"verif/harness/fx"
)

const nChan = 3

// Channels: c1 ledger channel with peers (p0,p1); c2 sub-channel of c1 (same peers, created
// with c1's id as parent); c3 ledger channel with peers (p0,p3). p0 is the own address.
var cParams = [nChan]*channel.Params{
	fx.Params(2, channel.NoApp(), 101, true, false),
	fx.Params(2, channel.NoApp(), 102, false, false),
	fx.Params(2, channel.NoApp(), 103, true, false),
}

var cPeerIdx = [nChan][]int{{0, 1}, {0, 1}, {0, 3}}

var allPeers = []int{0, 1, 3}

func cPeers(i int) []map[wallet.BackendID]wire.Address {
	var out []map[wallet.BackendID]wire.Address
	for _, p := range cPeerIdx[i] {
		out = append(out, peerAddr[p])
	}
	return out
}

func cParent(i int) *channel.ID {
	if i != 1 {
		return nil
	}
	id := cParams[0].ID()
	return &id
}

const (
	stAbsent = iota
	stCreated
	stAdvanced // initial state signed by both and enabled (phase Funding)
	stStaged   // funded, one update staged and signed by one side
	stRemoved
)

var stNames = []string{"absent", "created", "advanced", "staged", "removed"}

type cworld struct {
	b  *backing
	pr *keyvalue.PersistRestorer
	sm [nChan]*channel.StateMachine
	pm [nChan]persistence.StateMachine
	st [nChan]int
}

func newCWorld(backend string) *cworld {
	b := openBacking(backend)
	return &cworld{b: b, pr: keyvalue.NewPersistRestorer(b.db)}
}

func (w *cworld) close() { w.b.close() }

func (w *cworld) live(i int) bool {
	return w.st[i] == stCreated || w.st[i] == stAdvanced || w.st[i] == stStaged
}

type cop struct {
	kind string
	ch   int
}

func (o cop) name() string { return fmt.Sprintf("%s(c%d)", o.kind, o.ch+1) }

func cAlphabet() []cop {
	kinds := []string{"Create", "Advance", "Stage", "Remove"}
	var out []cop
	for _, k := range kinds {
		for i := 0; i < nChan; i++ {
			out = append(out, cop{k, i})
		}
	}
	return out
}

func (w *cworld) offered(o cop) bool {
	switch o.kind {
	case "Create":
		return w.st[o.ch] == stAbsent || w.st[o.ch] == stRemoved
	case "Advance":
		return w.st[o.ch] == stCreated
	case "Stage":
		return w.st[o.ch] == stAdvanced
	case "Remove":
		return w.live(o.ch)
	}
	return false
}

// do runs one operation through the real persister; every call must succeed.
func (w *cworld) do(o cop) (err error) {
	defer func() {
		if r := recover(); r != nil {
			err = fmt.Errorf("PANIC: %v", r)
		}
	}()
	i := o.ch
	first := func(errs ...error) error {
		for _, e := range errs {
			if e != nil {
				return e
			}
		}
		return nil
	}
	switch o.kind {
	case "Create":
		sm, err := channel.NewStateMachine(fx.AccMap(0), *cParams[i].Clone())
		if err != nil {
			return err
		}
		w.sm[i], w.pm[i] = sm, persistence.FromStateMachine(sm, w.pr)
		if err := w.pr.ChannelCreated(ctx, w.pm[i], cPeers(i), cParent(i)); err != nil {
			return err
		}
		w.st[i] = stCreated
	case "Advance":
		m := &w.pm[i]
		if err := m.Init(ctx, fx.Alloc([]int64{5, 5}), channel.NoData()); err != nil {
			return err
		}
		if _, err := m.Sig(ctx); err != nil {
			return err
		}
		if err := first(m.AddSig(ctx, 1, fx.Sig(1, w.sm[i].StagingState())), m.EnableInit(ctx)); err != nil {
			return err
		}
		w.st[i] = stAdvanced
	case "Stage":
		m := &w.pm[i]
		if err := m.SetFunded(ctx); err != nil {
			return err
		}
		s := w.sm[i].State().Clone()
		s.Version++
		s.Balances[0][0].Sub(s.Balances[0][0], s.Balances[0][0])
		s.Balances[0][1].Add(s.Balances[0][1], w.sm[i].State().Balances[0][0])
		if err := m.Update(ctx, s, 0); err != nil {
			return err
		}
		if _, err := m.Sig(ctx); err != nil {
			return err
		}
		w.st[i] = stStaged
	case "Remove":
		m := &w.pm[i]
		if w.st[i] == stCreated {
			// no phase path leads from InitActing to Withdrawn: the persister is told directly
			if err := w.pr.ChannelRemoved(ctx, cParams[i].ID()); err != nil {
				return err
			}
		} else if err := first(m.SetRegistered(ctx), m.SetWithdrawing(ctx), m.SetWithdrawn(ctx)); err != nil {
			return err
		}
		w.st[i] = stRemoved
	}
	return nil
}

func (w *cworld) liveSnap(i int) snap {
	if !w.live(i) {
		return snap{Absent: true}
	}
	return snapOf(w.sm[i], cPeers(i), cParent(i))
}

func (w *cworld) canon() string {
	s := ""
	for i := 0; i < nChan; i++ {
		s += fmt.Sprint(w.st[i])
	}
	return s + "|" + canonDigest(w.b.db)
}

func (w *cworld) statusString() string {
	var p []string
	for i := 0; i < nChan; i++ {
		p = append(p, fmt.Sprintf("c%d=%s", i+1, stNames[w.st[i]]))
	}
	return strings.Join(p, " ")
}

type cviol struct{ clause, detail string }

// sameSet compares a list of restored channels with the wanted ones (as multisets).
func sameSet(got []snap, want []snap) (missing, extra int) {
	used := make([]bool, len(got))
	for _, wn := range want {
		found := false
		for j, g := range got {
			if !used[j] && g == wn {
				used[j], found = true, true
				break
			}
		}
		if !found {
			missing++
		}
	}
	for _, u := range used {
		if !u {
			extra++
		}
	}
	return
}

func listString(l []snap) string {
	var p []string
	for _, s := range l {
		p = append(p, "    "+s.String())
	}
	if len(p) == 0 {
		return "    (none)"
	}
	return strings.Join(p, "\n")
}

// keyNames maps the binary parts of raw keys to readable names.
func keyNames() map[string]string {
	nm := map[string]string{}
	for i := 0; i < nChan; i++ {
		id := cParams[i].ID()
		nm[string(id[:])] = fmt.Sprintf("c%d", i+1)
	}
	for _, p := range allPeers {
		var b bytes.Buffer
		_ = wire.AddressDecMap(peerAddr[p]).Encode(&b)
		nm[b.String()] = fmt.Sprintf("p%d", p)
	}
	return nm
}

// check is the oracle, evaluated on the store a restarted process would open. prev holds what
// RestoreChannel yielded for every channel before the operation op (nil: no operation).
func (w *cworld) check(op *cop, prev []snap) (out []cviol) {
	db := w.b.reopen()
	pr := keyvalue.NewPersistRestorer(db)
	if w.b.kind != "memorydb" { // the world goes on with the reopened database
		w.pr = pr
		for i := 0; i < nChan; i++ {
			if w.sm[i] != nil {
				w.pm[i] = persistence.FromStateMachine(w.sm[i], pr)
			}
		}
	}
	add := func(clause, format string, a ...interface{}) {
		out = append(out, cviol{clause, fmt.Sprintf(format, a...)})
	}

	// RestoreChannel: live channels with their data; channels that are not there fail like a channel that never was
	for i := 0; i < nChan; i++ {
		got := restoreChannel(pr, cParams[i].ID())
		switch {
		case w.live(i):
			if want := w.liveSnap(i); got != want {
				add("restorechannel-mismatch", "RestoreChannel(c%d) of a live channel:\n    want %v\n    got  %v", i+1, want, got)
			}
		case got.Err != "":
			add("removed-restorable-wrong-error", "RestoreChannel(c%d) of a channel that is %s fails with %q; a channel that never existed fails with %q", i+1, stNames[w.st[i]], got.Err, notFound)
		case !got.Absent:
			add("removed-restorable", "RestoreChannel(c%d) of a channel that is %s succeeds: %v", i+1, stNames[w.st[i]], got)
		}
		if op != nil && prev != nil && i != op.ch && got != prev[i] {
			add("cross-channel-change", "%s changed what RestoreChannel(c%d) yields:\n    before %v\n    after  %v", op.name(), i+1, prev[i], got)
		}
	}
	// RestorePeer
	for _, p := range allPeers {
		var want []snap
		for i := 0; i < nChan; i++ {
			if w.live(i) && (cPeerIdx[i][0] == p || cPeerIdx[i][1] == p) {
				want = append(want, w.liveSnap(i))
			}
		}
		got, errs := restorePeer(pr, peerAddr[p])
		if miss, extra := sameSet(got, want); errs != "" || miss+extra > 0 {
			add("restorepeer-mismatch", "RestorePeer(p%d): error %q, %d live channels of the peer missing or with other data, %d unexpected\n   want\n%s\n   got\n%s", p, errs, miss, extra, listString(want), listString(got))
		}
	}
	// ActivePeers
	wantP := map[wire.AddrKey]string{}
	for i := 0; i < nChan; i++ {
		if w.live(i) {
			for _, p := range cPeerIdx[i] {
				wantP[wire.Keys(peerAddr[p])] = fmt.Sprintf("p%d", p)
			}
		}
	}
	func() {
		defer func() {
			if r := recover(); r != nil {
				add("activepeers-mismatch", "ActivePeers panicked: %v", r)
			}
		}()
		ap, err := pr.ActivePeers(ctx)
		gotP := map[wire.AddrKey]bool{}
		for _, p := range ap {
			gotP[wire.Keys(p)] = true
		}
		bad := err != nil || len(gotP) != len(wantP) || len(ap) != len(gotP)
		for k := range wantP {
			if !gotP[k] {
				bad = true
			}
		}
		if bad {
			var wn []string
			for _, n := range wantP {
				wn = append(wn, n)
			}
			sort.Strings(wn)
			add("activepeers-mismatch", "ActivePeers: err=%v, %d entries, %d distinct; peers of live channels: %v", err, len(ap), len(gotP), wn)
		}
	}()
	// RestoreAll
	var wantAll []snap
	for i := 0; i < nChan; i++ {
		if w.live(i) {
			wantAll = append(wantAll, w.liveSnap(i))
		}
	}
	gotAll, errs := restoreAll(pr)
	if errs != "" {
		add("restoreall-error", "RestoreAll ends with error %q after yielding %d of %d live channels", errs, len(gotAll), len(wantAll))
	} else if miss, extra := sameSet(gotAll, wantAll); miss+extra > 0 {
		add("restoreall-missing", "RestoreAll: %d live channels missing or with other data, %d unexpected\n   want\n%s\n   got\n%s", miss, extra, listString(wantAll), listString(gotAll))
	}
	// raw keys: every key belongs to (contains the id of) a live channel
	keys, _ := dump(db)
	nm := keyNames()
	var residue []string
	for _, k := range keys {
		owner := -1
		for i := 0; i < nChan; i++ {
			id := cParams[i].ID()
			if strings.Contains(k, string(id[:])) {
				owner = i
			}
		}
		if owner < 0 || !w.live(owner) {
			residue = append(residue, printable(k, nm))
		}
	}
	if len(residue) > 0 {
		add("residual-key", "%d keys in the database belong to no live channel: %s", len(residue), strings.Join(residue, " "))
	}
	return out
}

type c11Replay struct {
	Harness string      `json:"harness"`
	Check   string      `json:"check"`
	Tier    string      `json:"tier"`
	Backend string      `json:"backend"`
	History []string    `json:"history"`
	Op      string      `json:"op"`
	CrashK  interface{} `json:"crash_k"`
}

// cwalk replays a history, evaluating the oracle after every step; origin[clause] is the kind
// of the operation after which the clause first failed (and has failed since): a later step
// that merely inherits the failure is attributed to it. Returns the world, the origins and
// the violations of the last step.
func cwalk(backend string, alpha []cop, h []int, trace func(string)) (*cworld, map[string]string, []cviol, error) {
	w := newCWorld(backend)
	org := map[string]string{}
	var last []cviol
	for _, k := range h {
		o := alpha[k]
		prev := make([]snap, nChan)
		for i := range prev {
			prev[i] = restoreChannel(w.pr, cParams[i].ID())
		}
		if err := w.do(o); err != nil {
			return w, org, nil, fmt.Errorf("%s failed: %v", o.name(), err)
		}
		last = w.check(&o, prev)
		now := map[string]bool{}
		for _, v := range last {
			now[v.clause] = true
			if org[v.clause] == "" {
				org[v.clause] = o.kind
			}
		}
		for c := range org {
			if !now[c] {
				delete(org, c)
			}
		}
		if trace != nil {
			var cl []string
			for c, by := range org {
				cl = append(cl, c+" (since "+by+")")
			}
			sort.Strings(cl)
			trace(fmt.Sprintf("  %-12s -> %s   violated: %v", o.name(), w.statusString(), cl))
		}
	}
	return w, org, last, nil
}

func cnames(alpha []cop, h []int) []string {
	out := make([]string, len(h))
	for i, k := range h {
		out[i] = alpha[k].name()
	}
	return out
}

func c11Run(t *testing.T, res *report.Result) {
	alpha := cAlphabet()
	backends := []string{"memorydb"}
	if res.Thorough() {
		backends = append(backends, "leveldb")
	}
	deadline := report.Deadline()
	w0 := newCWorld("memorydb")
	seen := map[string]bool{w0.canon(): true}
	for _, v := range w0.check(nil, nil) {
		res.Violate("C11", "C11:"+v.clause+":empty-store", v.detail, c11Replay{"store", "C11", res.Tier, "memorydb", []string{}, "", nil})
	}
	frontier := [][]int{nil}
	res.Count("states", 1)
	maxDepth := 0
	for len(frontier) > 0 {
		if !deadline.IsZero() && time.Now().After(deadline) {
			res.Cap("C11: deadline reached with %d states in the frontier", len(frontier))
			break
		}
		h := frontier[0]
		frontier = frontier[1:]
		base, _, _, err := cwalk("memorydb", alpha, h, nil)
		if err != nil {
			t.Fatalf("engine error: replay of a known history failed: %v", err)
		}
		for oi, o := range alpha {
			if !base.offered(o) {
				continue
			}
			res.Count("transitions", 1)
			nh := append(append([]int{}, h...), oi)
			var next *cworld
			for _, be := range backends {
				w, org, viols, err := cwalk(be, alpha, nh, nil)
				rp := c11Replay{"store", "C11", res.Tier, be, cnames(alpha, h), o.name(), nil}
				if err != nil {
					res.Violate("C11", "C11:operation-failed:"+o.kind, fmt.Sprintf("[%s] %v\n  history: %v", be, err, cnames(alpha, nh)), rp)
					w.close()
					continue
				}
				res.Count("evaluations", 1)
				for _, v := range viols {
					by := org[v.clause]
					if by != o.kind {
						res.Count("steps_inheriting_an_earlier_inconsistency", 1)
					}
					res.Violate("C11", fmt.Sprintf("C11:%s:%s", v.clause, by), fmt.Sprintf("[%s] after %s (%s): %s\n  history: %v", be, o.name(), w.statusString(), v.detail, cnames(alpha, nh)), rp)
				}
				if be == "memorydb" {
					next = w
				} else {
					w.close()
				}
			}
			if next == nil {
				continue
			}
			key := next.canon()
			if !seen[key] {
				seen[key] = true
				res.Count("states", 1)
				if len(nh) > maxDepth {
					maxDepth = len(nh)
				}
				if len(nh) >= 3 {
					res.Sample(6, map[string]interface{}{"check": "C11", "history": cnames(alpha, nh), "channels": next.statusString()})
				}
				frontier = append(frontier, nh)
			}
			next.close()
		}
		base.close()
	}
	res.Counters["max_depth"] = int64(maxDepth)
	res.Counters["distinct_nontrivial"] = res.Counters["states"]
	res.Counters["traces_validated_against_impl"] = res.Counters["transitions"]
	if len(res.Caps) == 0 {
		res.Extra["exhaustive"] = true
	}
	res.Extra["bound"] = "fixpoint over canonical states (status of each of 3 channels + canonical store digest); every order of the operations incl. create after remove"
	res.Note("C11: alphabet %v x 3 channels, backends %v, states=%d, depth=%d", func() []string {
		m, out := map[string]bool{}, []string{}
		for _, o := range alpha {
			if !m[o.kind] {
				m[o.kind] = true
				out = append(out, o.kind)
			}
		}
		return out
	}(), backends, len(seen), maxDepth)
}

func c11ReplayRun(t *testing.T, res *report.Result, rp c11Replay) {
	alpha := cAlphabet()
	byName := map[string]int{}
	for i, o := range alpha {
		byName[o.name()] = i
	}
	var h []int
	for _, n := range append(append([]string{}, rp.History...), rp.Op) {
		if n == "" {
			continue
		}
		i, ok := byName[n]
		if !ok {
			t.Fatalf("unknown op %q", n)
		}
		h = append(h, i)
	}
	fmt.Printf("C11 replay on %s\n", rp.Backend)
	w, org, viols, err := cwalk(rp.Backend, alpha, h, func(s string) { fmt.Println(s) })
	defer w.close()
	if err != nil {
		fmt.Printf("  VERDICT operation-failed: %v\n", err)
		res.Violate("C11", "C11:operation-failed:"+opKind(rp.Op), err.Error(), rp)
		return
	}
	keys, kv := dump(w.b.db)
	nm := keyNames()
	fmt.Println("  store:")
	for _, k := range keys {
		fmt.Printf("    %s = %d bytes\n", printable(k, nm), len(kv[k]))
	}
	for _, v := range viols {
		sig := fmt.Sprintf("C11:%s:%s", v.clause, org[v.clause])
		fmt.Printf("  VERDICT %s\n    %s\n", sig, strings.ReplaceAll(v.detail, "\n", "\n    "))
		res.Violate("C11", sig, v.detail, rp)
	}
	if len(viols) == 0 {
		fmt.Println("  VERDICT none: the history no longer violates")
	}
}
