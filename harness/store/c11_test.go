package store

// C11 - engine SEQ: explicit-state search over histories of creating, advancing and removing
// three channels on one real keyvalue.PersistRestorer; after every step all views of the
// restorer and the raw key set of the database are compared with the reference set of live
// channels (the live machines themselves are the reference for the data).

import (
	"bytes"
	"fmt"
	"sort"
	"strings"
	"testing"
	"time"

	"perun.network/go-perun/channel"
	"perun.network/go-perun/channel/persistence"
	"perun.network/go-perun/channel/persistence/keyvalue"
	"perun.network/go-perun/wallet"
	"perun.network/go-perun/wire"
	"verif/engine/report"
)

const nChan = 4

// Channels: c1 ledger channel with peers (p0,p1); c2 sub-channel of c1 (same peers, created
// with c1's id as parent); c3 ledger channel with THREE participants and the two peers (p0,p3)
// - the peer p3 takes part with two accounts, so the number of signature slots (participants)
// differs from the number of peers, which the Persister interface allows; c4 ledger channel
// with 10 participants and 10 peers (p0,p1,p3,p4..p10: it shares a peer with every other
// channel). p0 is the own address. 10 participants is the first number at which the width of
// the zero-padded signature keys could change.
//
// Channel ids are hashes of the parameters; the nonces are chosen at start-up by a
// deterministic search (first nonce from a fixed start for which the id has the wanted
// shape) so that the ids cover the ends of the key space: c1's id begins with the byte 0x00,
// c2's with 0xff (both are channels of the peers p0 and p1, which thus have a channel at
// either end of every table and range that is ordered or bounded by id - a scan with an upper
// bound 'prefix + 0xff' ends before c2), and c4's nonce is the first one from 104 on that puts
// its id strictly between the smallest and the largest id of c1..c3, so that in key order (the
// order RestoreAll and the table iterators walk) channels lie before AND behind it.
var cParams = func() (p [nChan]*channel.Params) {
	p[0] = searchParams(2, true, 1000, func(id channel.ID) bool { return id[0] == 0x00 })
	p[1] = searchParams(2, false, 2000, func(id channel.ID) bool { return id[0] == 0xff })
	p[2] = mkParams(3, channel.NoApp(), 103, true)
	lo, hi := p[0].ID(), p[0].ID()
	for _, q := range p[1:3] {
		id := q.ID()
		if bytes.Compare(id[:], lo[:]) < 0 {
			lo = id
		}
		if bytes.Compare(id[:], hi[:]) > 0 {
			hi = id
		}
	}
	p[3] = searchParams(maxParts, true, 104, func(id channel.ID) bool {
		return bytes.Compare(lo[:], id[:]) < 0 && bytes.Compare(id[:], hi[:]) < 0
	})
	return p
}()

// searchParams returns the parameters of an n-party channel with the first nonce >= from whose
// id satisfies ok (an id is a hash: a first byte is hit after 256 nonces on average; the
// search depends on the fixture keys only, never on chance).
func searchParams(n int, ledger bool, from int64, ok func(id channel.ID) bool) *channel.Params {
	for nonce := from; nonce < from+1_000_000; nonce++ {
		if p := mkParams(n, channel.NoApp(), nonce, ledger); ok(p.ID()) {
			return p
		}
	}
	panic("engine error: no nonce gives a channel id of the wanted shape")
}

var cPeerIdx = [nChan][]int{{0, 1}, {0, 1}, {0, 3}, {0, 1, 3, 4, 5, 6, 7, 8, 9, 10}}

var allPeers = []int{0, 1, 3, 4, 5, 6, 7, 8, 9, 10}

func cPeers(i int) []map[wallet.BackendID]wire.Address {
	var out []map[wallet.BackendID]wire.Address
	for _, p := range cPeerIdx[i] {
		out = append(out, peerAddr[p])
	}
	return out
}

func hasPeer(i, p int) bool {
	for _, q := range cPeerIdx[i] {
		if q == p {
			return true
		}
	}
	return false
}

func cParent(i int) *channel.ID {
	if i != 1 {
		return nil
	}
	id := cParams[0].ID()
	return &id
}

const (
	stAbsent = iota
	stCreated
	stAdvanced // initial state signed by both and enabled (phase Funding)
	stStaged   // funded, one update staged and signed by one side
	stRemoved
	stFunded // funded, nothing staged: an update was staged, signed by one side and discarded (peer rejection)
)

var stNames = []string{"absent", "created", "advanced", "staged", "removed", "funded"}

type cworld struct {
	b     *backing
	pr    *keyvalue.PersistRestorer
	sm    [nChan]*channel.StateMachine
	pm    [nChan]persistence.StateMachine
	st    [nChan]int
	c4Idx int // own index in the 10-party channel (0 or 9); 0 in c1..c3
}

func newCWorld(backend string, c4Idx int) *cworld {
	b := openBacking(backend)
	return &cworld{b: b, pr: keyvalue.NewPersistRestorer(b.db), c4Idx: c4Idx}
}

// own is the own participant index in channel i.
func (w *cworld) own(i int) int {
	if i == 3 {
		return w.c4Idx
	}
	return 0
}

func (w *cworld) close() { w.b.close() }

func (w *cworld) live(i int) bool {
	return w.st[i] == stCreated || w.st[i] == stAdvanced || w.st[i] == stStaged || w.st[i] == stFunded
}

type cop struct {
	kind string
	ch   int
}

func (o cop) name() string { return fmt.Sprintf("%s(c%d)", o.kind, o.ch+1) }

func cAlphabet() []cop {
	kinds := []string{"Create", "Advance", "Stage", "Reject", "Remove"}
	var out []cop
	for _, k := range kinds {
		for i := 0; i < nChan; i++ {
			out = append(out, cop{k, i})
		}
	}
	return out
}

func (w *cworld) offered(o cop) bool {
	switch o.kind {
	case "Create":
		return w.st[o.ch] == stAbsent || w.st[o.ch] == stRemoved
	case "Advance":
		return w.st[o.ch] == stCreated
	case "Stage", "Reject":
		return w.st[o.ch] == stAdvanced || w.st[o.ch] == stFunded
	case "Remove":
		return w.live(o.ch)
	}
	return false
}

// do runs one operation through the real persister; every call must succeed.
func (w *cworld) do(o cop) (err error) {
	defer func() {
		if r := recover(); r != nil {
			err = fmt.Errorf("PANIC: %v", r)
		}
	}()
	i := o.ch
	first := func(errs ...error) error {
		for _, e := range errs {
			if e != nil {
				return e
			}
		}
		return nil
	}
	switch o.kind {
	case "Create":
		sm, err := channel.NewStateMachine(accMap(w.own(i)), *cParams[i].Clone())
		if err != nil {
			return err
		}
		w.sm[i], w.pm[i] = sm, persistence.FromStateMachine(sm, w.pr)
		if err := w.pr.ChannelCreated(ctx, w.pm[i], cPeers(i), cParent(i)); err != nil {
			return err
		}
		w.st[i] = stCreated
	case "Advance":
		m := &w.pm[i]
		n := len(cParams[i].Parts)
		if err := m.Init(ctx, evenAlloc(n), channel.NoData()); err != nil {
			return err
		}
		if _, err := m.Sig(ctx); err != nil {
			return err
		}
		for j := 0; j < n; j++ {
			if j == w.own(i) {
				continue
			}
			if err := m.AddSig(ctx, channel.Index(j), sigOf(j, w.sm[i].StagingState())); err != nil {
				return err
			}
		}
		if err := m.EnableInit(ctx); err != nil {
			return err
		}
		w.st[i] = stAdvanced
	case "Stage", "Reject":
		m := &w.pm[i]
		if w.st[i] == stAdvanced {
			if err := m.SetFunded(ctx); err != nil {
				return err
			}
		}
		s := w.sm[i].State().Clone()
		s.Version++
		s.Balances[0][0].Sub(s.Balances[0][0], s.Balances[0][0])
		s.Balances[0][1].Add(s.Balances[0][1], w.sm[i].State().Balances[0][0])
		if err := m.Update(ctx, s, 0); err != nil {
			return err
		}
		if _, err := m.Sig(ctx); err != nil {
			return err
		}
		w.st[i] = stStaged
		if o.kind == "Reject" { // the peer rejects: the staged, half-signed update is discarded
			if err := m.DiscardUpdate(ctx); err != nil {
				return err
			}
			w.st[i] = stFunded
		}
	case "Remove":
		m := &w.pm[i]
		if w.st[i] == stCreated {
			// no phase path leads from InitActing to Withdrawn: the persister is told directly
			if err := w.pr.ChannelRemoved(ctx, cParams[i].ID()); err != nil {
				return err
			}
		} else if err := first(m.SetRegistered(ctx), m.SetWithdrawing(ctx), m.SetWithdrawn(ctx)); err != nil {
			return err
		}
		w.st[i] = stRemoved
	}
	return nil
}

func (w *cworld) liveSnap(i int) snap {
	if !w.live(i) {
		return snap{Absent: true}
	}
	return snapOf(w.sm[i], cPeers(i), cParent(i))
}

func (w *cworld) canon() string {
	s := ""
	for i := 0; i < nChan; i++ {
		s += fmt.Sprint(w.st[i])
	}
	return s + "|" + canonDigest(w.b.db)
}

func (w *cworld) statusString() string {
	var p []string
	for i := 0; i < nChan; i++ {
		p = append(p, fmt.Sprintf("c%d=%s", i+1, stNames[w.st[i]]))
	}
	return strings.Join(p, " ")
}

type cviol struct{ clause, detail string }

// sameSet compares a list of restored channels with the wanted ones (as multisets).
func sameSet(got []snap, want []snap) (missing, extra int) {
	used := make([]bool, len(got))
	for _, wn := range want {
		found := false
		for j, g := range got {
			if !used[j] && g == wn {
				used[j], found = true, true
				break
			}
		}
		if !found {
			missing++
		}
	}
	for _, u := range used {
		if !u {
			extra++
		}
	}
	return
}

func listString(l []snap) string {
	var p []string
	for _, s := range l {
		p = append(p, "    "+s.String())
	}
	if len(p) == 0 {
		return "    (none)"
	}
	return strings.Join(p, "\n")
}

// keyNames maps the binary parts of raw keys to readable names.
func keyNames() map[string]string {
	nm := map[string]string{}
	for i := 0; i < nChan; i++ {
		id := cParams[i].ID()
		nm[string(id[:])] = fmt.Sprintf("c%d", i+1)
	}
	for _, p := range allPeers {
		var b bytes.Buffer
		_ = wire.AddressDecMap(peerAddr[p]).Encode(&b)
		nm[b.String()] = fmt.Sprintf("p%d", p)
	}
	return nm
}

// check is the oracle, evaluated on the store a restarted process would open. prev holds what
// RestoreChannel yielded for every channel before the operation op (nil: no operation).
func (w *cworld) check(op *cop, prev []snap) (out []cviol) {
	db := w.b.reopen()
	pr := keyvalue.NewPersistRestorer(db)
	if w.b.kind != "memorydb" { // the world goes on with the reopened database
		w.pr = pr
		for i := 0; i < nChan; i++ {
			if w.sm[i] != nil {
				w.pm[i] = persistence.FromStateMachine(w.sm[i], pr)
			}
		}
	}
	add := func(clause, format string, a ...interface{}) {
		out = append(out, cviol{clause, fmt.Sprintf(format, a...)})
	}

	// RestoreChannel: live channels with their data; channels that are not there fail like a channel that never was
	for i := 0; i < nChan; i++ {
		got := restoreChannel(pr, cParams[i].ID())
		switch {
		case w.live(i):
			if want := w.liveSnap(i); got != want {
				add("restorechannel-mismatch", "RestoreChannel(c%d) of a live channel:\n    want %v\n    got  %v", i+1, want, got)
			}
		case got.Err != "":
			add("removed-restorable-wrong-error", "RestoreChannel(c%d) of a channel that is %s fails with %q; a channel that never existed fails with %q", i+1, stNames[w.st[i]], got.Err, notFound)
		case !got.Absent:
			add("removed-restorable", "RestoreChannel(c%d) of a channel that is %s succeeds: %v", i+1, stNames[w.st[i]], got)
		}
		if op != nil && prev != nil && i != op.ch && got != prev[i] {
			add("cross-channel-change", "%s changed what RestoreChannel(c%d) yields:\n    before %v\n    after  %v", op.name(), i+1, prev[i], got)
		}
	}
	// RestorePeer
	for _, p := range allPeers {
		var want []snap
		for i := 0; i < nChan; i++ {
			if w.live(i) && hasPeer(i, p) {
				want = append(want, w.liveSnap(i))
			}
		}
		got, errs := restorePeer(pr, peerAddr[p])
		if miss, extra := sameSet(got, want); errs != "" || miss+extra > 0 {
			add("restorepeer-mismatch", "RestorePeer(p%d): error %q, %d live channels of the peer missing or with other data, %d unexpected\n   want\n%s\n   got\n%s", p, errs, miss, extra, listString(want), listString(got))
		}
	}
	// ActivePeers
	wantP := map[wire.AddrKey]string{}
	for i := 0; i < nChan; i++ {
		if w.live(i) {
			for _, p := range cPeerIdx[i] {
				wantP[wire.Keys(peerAddr[p])] = fmt.Sprintf("p%d", p)
			}
		}
	}
	func() {
		defer func() {
			if r := recover(); r != nil {
				add("activepeers-mismatch", "ActivePeers panicked: %v", r)
			}
		}()
		ap, err := pr.ActivePeers(ctx)
		gotP := map[wire.AddrKey]bool{}
		for _, p := range ap {
			gotP[wire.Keys(p)] = true
		}
		bad := err != nil || len(gotP) != len(wantP) || len(ap) != len(gotP)
		for k := range wantP {
			if !gotP[k] {
				bad = true
			}
		}
		if bad {
			var wn []string
			for _, n := range wantP {
				wn = append(wn, n)
			}
			sort.Strings(wn)
			add("activepeers-mismatch", "ActivePeers: err=%v, %d entries, %d distinct; peers of live channels: %v", err, len(ap), len(gotP), wn)
		}
	}()
	// RestoreAll
	var wantAll []snap
	for i := 0; i < nChan; i++ {
		if w.live(i) {
			wantAll = append(wantAll, w.liveSnap(i))
		}
	}
	gotAll, errs := restoreAll(pr)
	if errs != "" {
		add("restoreall-error", "RestoreAll ends with error %q after yielding %d of %d live channels", errs, len(gotAll), len(wantAll))
	} else if miss, extra := sameSet(gotAll, wantAll); miss+extra > 0 {
		add("restoreall-missing", "RestoreAll: %d live channels missing or with other data, %d unexpected\n   want\n%s\n   got\n%s", miss, extra, listString(wantAll), listString(gotAll))
	}
	// raw keys: every key belongs to (contains the id of) a live channel
	keys, _ := dump(db)
	nm := keyNames()
	var residue []string
	for _, k := range keys {
		owner := -1
		for i := 0; i < nChan; i++ {
			id := cParams[i].ID()
			if strings.Contains(k, string(id[:])) {
				owner = i
			}
		}
		if owner < 0 || !w.live(owner) {
			residue = append(residue, printable(k, nm))
		}
	}
	if len(residue) > 0 {
		add("residual-key", "%d keys in the database belong to no live channel: %s", len(residue), strings.Join(residue, " "))
	}
	return out
}

type c11Replay struct {
	Harness string      `json:"harness"`
	Check   string      `json:"check"`
	Tier    string      `json:"tier"`
	Backend string      `json:"backend"`
	C4Idx   int         `json:"c4_idx"` // own index in the 10-party channel c4
	History []string    `json:"history"`
	Op      string      `json:"op"`
	CrashK  interface{} `json:"crash_k"`
}

// cstep runs one operation on w and evaluates the oracle. org maps a clause to the kind of
// the operation after which it first failed (and has failed since): a later step that merely
// inherits the failure is attributed to it. org is updated in place.
func cstep(w *cworld, o cop, org map[string]string) ([]cviol, error) {
	prev := make([]snap, nChan)
	for i := range prev {
		prev[i] = restoreChannel(w.pr, cParams[i].ID())
	}
	if err := w.do(o); err != nil {
		return nil, fmt.Errorf("%s failed: %v", o.name(), err)
	}
	viols := w.check(&o, prev)
	now := map[string]bool{}
	for _, v := range viols {
		now[v.clause] = true
		if org[v.clause] == "" {
			org[v.clause] = o.kind
		}
	}
	for c := range org {
		if !now[c] {
			delete(org, c)
		}
	}
	return viols, nil
}

// cwalk replays a history on a fresh store. With every = true the oracle is evaluated after
// each step (replay mode; the origins are built up from nothing). Otherwise the steps before
// the last one are only executed - the oracle judged each of them when it was the last step
// of its own transition - and org0 must be the origins of the state reached by h[:len(h)-1].
// Returns the world, the origins after the last step and its violations.
func cwalk(backend string, c4Idx int, alpha []cop, h []int, org0 map[string]string, every bool, trace func(string)) (*cworld, map[string]string, []cviol, error) {
	w := newCWorld(backend, c4Idx)
	org := map[string]string{}
	for c, k := range org0 {
		org[c] = k
	}
	var last []cviol
	for n, k := range h {
		o := alpha[k]
		if !every && n < len(h)-1 {
			if err := w.do(o); err != nil {
				return w, org, nil, fmt.Errorf("%s failed: %v", o.name(), err)
			}
			continue
		}
		var err error
		if last, err = cstep(w, o, org); err != nil {
			return w, org, nil, err
		}
		if trace != nil {
			var cl []string
			for c, by := range org {
				cl = append(cl, c+" (since "+by+")")
			}
			sort.Strings(cl)
			trace(fmt.Sprintf("  %-12s -> %s   violated: %v", o.name(), w.statusString(), cl))
		}
	}
	return w, org, last, nil
}

func cnames(alpha []cop, h []int) []string {
	out := make([]string, len(h))
	for i, k := range h {
		out[i] = alpha[k].name()
	}
	return out
}

// c11Search: BFS to a fixpoint for one own index in c4.
func c11Search(t *testing.T, res *report.Result, c4Idx int, backends []string, deadline time.Time) {
	alpha := cAlphabet()
	// Every shard runs the search on memorydb (states and origins come from it); transition
	// number t is counted, reported and run on the further backends by shard t mod n.
	shard, nshards := report.Shard()
	w0 := newCWorld("memorydb", c4Idx)
	seen := map[string]bool{w0.canon(): true}
	for _, v := range w0.check(nil, nil) {
		res.Violate("C11", "C11:"+v.clause+":empty-store", v.detail, c11Replay{"store", "C11", res.Tier, "memorydb", c4Idx, []string{}, "", nil})
	}
	type node struct {
		h   []int
		org map[string]string
	}
	frontier := []node{{nil, map[string]string{}}}
	if shard == 0 {
		res.Count("states", 1)
	}
	nStates, nTrans, maxDepth := 1, 0, 0
	for len(frontier) > 0 {
		if !deadline.IsZero() && time.Now().After(deadline) {
			res.Cap("C11: deadline reached with %d states in the frontier", len(frontier))
			break
		}
		cur := frontier[0]
		frontier = frontier[1:]
		h := cur.h
		base := newCWorld("memorydb", c4Idx) // only the status of the channels is needed here
		for _, k := range h {
			if err := base.do(alpha[k]); err != nil {
				t.Fatalf("engine error: replay of a known history failed: %v", err)
			}
		}
		for oi, o := range alpha {
			if !base.offered(o) {
				continue
			}
			mine := nTrans%nshards == shard
			nTrans++
			if mine {
				res.Count("transitions", 1)
			}
			nh := append(append([]int{}, h...), oi)
			var next *cworld
			var nextOrg map[string]string
			for _, be := range backends {
				if be != "memorydb" && !mine {
					continue
				}
				w, org, viols, err := cwalk(be, c4Idx, alpha, nh, cur.org, false, nil)
				rp := c11Replay{"store", "C11", res.Tier, be, c4Idx, cnames(alpha, h), o.name(), nil}
				if err != nil {
					res.ViolateC("C11", "C11:operation-failed:"+o.kind, fmt.Sprintf("[%s, own index %d in c4] %v\n  history: %v", be, c4Idx, err, cnames(alpha, nh)), rp, len(nh))
					w.close()
					continue
				}
				if be == "memorydb" {
					next, nextOrg = w, org
				}
				if !mine {
					continue
				}
				res.Count("evaluations", 1)
				for _, v := range viols {
					by, cost := org[v.clause], len(nh)
					if _, inherited := cur.org[v.clause]; inherited {
						res.Count("steps_inheriting_an_earlier_inconsistency", 1)
						cost += 1000 // prefer the counterexample in which the inconsistency arises
					}
					res.ViolateC("C11", fmt.Sprintf("C11:%s:%s", v.clause, by), fmt.Sprintf("[%s, own index %d in c4] after %s (%s): %s\n  history: %v", be, c4Idx, o.name(), w.statusString(), v.detail, cnames(alpha, nh)), rp, cost)
				}
				if be != "memorydb" {
					w.close()
				}
			}
			if next == nil {
				continue
			}
			key := next.canon()
			if !seen[key] {
				seen[key] = true
				if nStates%nshards == shard {
					res.Count("states", 1)
				}
				nStates++
				if len(nh) > maxDepth {
					maxDepth = len(nh)
				}
				if len(nh) >= 3 {
					res.Sample(6, map[string]interface{}{"check": "C11", "history": cnames(alpha, nh), "channels": next.statusString()})
				}
				frontier = append(frontier, node{nh, nextOrg})
			}
			next.close()
		}
		base.close()
	}
	if int64(maxDepth) > res.Counters["max_depth"] {
		res.Counters["max_depth"] = int64(maxDepth)
	}
	res.Note("C11, own index %d in the 10-party channel c4: alphabet {Create, Advance, Stage, Reject, Remove} x %d channels, backends %v, states=%d, transitions=%d, depth=%d", c4Idx, nChan, backends, nStates, nTrans, maxDepth)
}

func c11Run(t *testing.T, res *report.Result) {
	backends, idxs := []string{"memorydb"}, []int{0}
	if res.Thorough() {
		backends, idxs = append(backends, "leveldb"), []int{0, maxParts - 1}
	}
	deadline := report.Deadline()
	for _, c4Idx := range idxs {
		c11Search(t, res, c4Idx, backends, deadline)
	}
	res.Counters["distinct_nontrivial"] = res.Counters["states"]
	res.Counters["traces_validated_against_impl"] = res.Counters["transitions"]
	if len(res.Caps) == 0 {
		res.Extra["exhaustive"] = true
	}
	res.Extra["bound"] = "fixpoint over canonical states (status of each of 4 channels + canonical store digest); every order of the operations incl. create after remove"
}

func c11ReplayRun(t *testing.T, res *report.Result, rp c11Replay) {
	alpha := cAlphabet()
	byName := map[string]int{}
	for i, o := range alpha {
		byName[o.name()] = i
	}
	var h []int
	for _, n := range append(append([]string{}, rp.History...), rp.Op) {
		if n == "" {
			continue
		}
		i, ok := byName[n]
		if !ok {
			t.Fatalf("unknown op %q", n)
		}
		h = append(h, i)
	}
	fmt.Printf("C11 replay on %s, own index %d in c4\n", rp.Backend, rp.C4Idx)
	w, org, viols, err := cwalk(rp.Backend, rp.C4Idx, alpha, h, nil, true, func(s string) { fmt.Println(s) })
	defer w.close()
	if err != nil {
		fmt.Printf("  VERDICT operation-failed: %v\n", err)
		res.Violate("C11", "C11:operation-failed:"+opKind(rp.Op), err.Error(), rp)
		return
	}
	keys, kv := dump(w.b.db)
	nm := keyNames()
	fmt.Println("  store:")
	for _, k := range keys {
		fmt.Printf("    %s = %d bytes\n", printable(k, nm), len(kv[k]))
	}
	for _, v := range viols {
		sig := fmt.Sprintf("C11:%s:%s", v.clause, org[v.clause])
		fmt.Printf("  VERDICT %s\n    %s\n", sig, strings.ReplaceAll(v.detail, "\n", "\n    "))
		res.Violate("C11", sig, v.detail, rp)
	}
	if len(viols) == 0 {
		fmt.Println("  VERDICT none: the history no longer violates")
	}
}
