package machine

// C09, action machine part: explicit-state search over a real channel.ActionMachine (two
// participants, own index 0) against a reference model. Alphabet: AddAction(i, v) for both
// participants and two values, Init, Update, Sig, AddSig(1), EnableInit, SetFunded,
// EnableUpdate, DiscardUpdate. The app moves the sum of this round's action values from
// participant 0 to participant 1 (and refuses when participant 0 cannot pay), so the staged
// state shows which actions an Update applied. Oracle per operation: it succeeds exactly when
// the reference does; afterwards phase, current state and staged state are the reference's;
// an operation that returns an error changes none of them. The staged actions are not
// observable directly; they show in what AddAction accepts and in what Update stages.
// Search: breadth-first to the fixpoint over reference states, version cap 2 (two complete
// update rounds: what a round leaves behind shows in the next one).

import (
	"encoding/binary"
	"errors"
	"fmt"
	"math/big"

	"perun.network/go-perun/channel"
	"verif/engine/report"
	"verif/harness/fx"
)

type actAction struct{ V uint64 }

func (a *actAction) MarshalBinary() ([]byte, error) {
	return binary.LittleEndian.AppendUint64(nil, a.V), nil
}

func (a *actAction) UnmarshalBinary(b []byte) error {
	if len(b) != 8 {
		return fmt.Errorf("actAction: %d bytes", len(b))
	}
	a.V = binary.LittleEndian.Uint64(b)
	return nil
}

type actApp struct{}

func (actApp) Def() channel.AppID        { return fx.OtherApp.Def() }
func (actApp) NewData() channel.Data     { return channel.NoData() }
func (actApp) NewAction() channel.Action { return &actAction{} }
func (actApp) ValidAction(*channel.Params, *channel.State, channel.Index, channel.Action) error {
	return nil
}

func (actApp) ApplyActions(_ *channel.Params, s *channel.State, acts []channel.Action) (*channel.State, error) {
	total := int64(0)
	for _, a := range acts {
		if a != nil {
			total += int64(a.(*actAction).V)
		}
	}
	n := s.Clone()
	n.Version++
	if n.Balances[0][0].Cmp(big.NewInt(total)) < 0 {
		return nil, errors.New("actApp: participant 0 cannot pay")
	}
	n.Balances[0][0].Sub(n.Balances[0][0], big.NewInt(total))
	n.Balances[0][1].Add(n.Balances[0][1], big.NewInt(total))
	return n, nil
}

func (actApp) InitState(*channel.Params, []channel.Action) (channel.Allocation, channel.Data, error) {
	return fx.Alloc([]int64{3, 3}), channel.NoData(), nil
}

// aref is the reference model and, being a function of the history, the canonical state.
type aref struct {
	Phase      channel.Phase
	HasCur     bool
	CurV, CurB int64
	HasStg     bool
	StgV, StgB int64
	Sig0, Sig1 bool
	Acts       [2]int64 // 0: no action staged
}

type aop struct {
	name string
	run  func(m *channel.ActionMachine) error
	ref  func(r *aref) bool // applies the operation to the reference; false: refused, r unchanged
}

const actVerCap = 2

func actionOps() []aop {
	var o []aop
	signing := func(r *aref) bool { return r.Phase == channel.InitSigning || r.Phase == channel.Signing }
	for i := 0; i < 2; i++ {
		for _, v := range []int64{1, 2} {
			i, v := i, v
			o = append(o, aop{fmt.Sprintf("AddAction(%d,%d)", i, v),
				func(m *channel.ActionMachine) error { return m.AddAction(channel.Index(i), &actAction{uint64(v)}) },
				func(r *aref) bool {
					if (r.Phase != channel.InitActing && r.Phase != channel.Acting) || r.Acts[i] != 0 {
						return false
					}
					r.Acts[i] = v
					return true
				}})
		}
	}
	o = append(o, aop{"Init", func(m *channel.ActionMachine) error { return m.Init() }, func(r *aref) bool {
		if r.Phase != channel.InitActing {
			return false
		}
		r.Phase, r.HasStg, r.StgV, r.StgB, r.Sig0, r.Sig1, r.Acts = channel.InitSigning, true, 0, 3, false, false, [2]int64{}
		return true
	}})
	o = append(o, aop{"Update", func(m *channel.ActionMachine) error { return m.Update() }, func(r *aref) bool {
		if r.Phase != channel.Acting || r.Acts[0]+r.Acts[1] > r.CurB {
			return false
		}
		r.Phase, r.HasStg, r.StgV, r.StgB, r.Sig0, r.Sig1 = channel.Signing, true, r.CurV+1, r.CurB-r.Acts[0]-r.Acts[1], false, false
		r.Acts = [2]int64{}
		return true
	}})
	o = append(o, aop{"Sig", func(m *channel.ActionMachine) error { _, err := m.Sig(); return err }, func(r *aref) bool {
		if !signing(r) {
			return false
		}
		r.Sig0 = true
		return true
	}})
	o = append(o, aop{"AddSig(1)", func(m *channel.ActionMachine) error {
		st := m.StagingState()
		if st == nil {
			st = &channel.State{ID: m.ID(), App: actApp{}, Data: channel.NoData(), Allocation: fx.Alloc([]int64{3, 3})}
		}
		return m.AddSig(1, fx.Sig(1, st))
	}, func(r *aref) bool {
		if !signing(r) || r.Sig1 {
			return false
		}
		r.Sig1 = true
		return true
	}})
	enable := func(from, to channel.Phase) func(r *aref) bool {
		return func(r *aref) bool {
			if r.Phase != from || !r.Sig0 || !r.Sig1 {
				return false
			}
			r.Phase, r.HasCur, r.CurV, r.CurB, r.HasStg, r.StgV, r.StgB, r.Sig0, r.Sig1 = to, true, r.StgV, r.StgB, false, 0, 0, false, false
			return true
		}
	}
	o = append(o, aop{"EnableInit", func(m *channel.ActionMachine) error { return m.EnableInit() }, enable(channel.InitSigning, channel.Funding)})
	o = append(o, aop{"SetFunded", func(m *channel.ActionMachine) error { return m.SetFunded() }, func(r *aref) bool {
		if r.Phase != channel.Funding {
			return false
		}
		r.Phase = channel.Acting
		return true
	}})
	o = append(o, aop{"EnableUpdate", func(m *channel.ActionMachine) error { return m.EnableUpdate() }, enable(channel.Signing, channel.Acting)})
	o = append(o, aop{"DiscardUpdate", func(m *channel.ActionMachine) error { return m.DiscardUpdate() }, func(r *aref) bool {
		if r.Phase != channel.Signing {
			return false
		}
		r.Phase, r.HasStg, r.StgV, r.StgB, r.Sig0, r.Sig1 = channel.Acting, false, 0, 0, false, false
		return true
	}})
	return o
}

// aview is what the machine shows: phase, current and staged state (version, participant 0's balance).
func aview(m *channel.ActionMachine) string {
	f := func(s *channel.State) string {
		if s == nil {
			return "-"
		}
		return fmt.Sprintf("v%d/%v/%v", s.Version, s.Balances[0][0], s.Balances[0][1])
	}
	return fmt.Sprintf("phase=%v cur=%s stg=%s", m.Phase(), f(m.State()), f(m.StagingState()))
}

func (r *aref) view() string {
	f := func(has bool, v, b int64) string {
		if !has {
			return "-"
		}
		return fmt.Sprintf("v%d/%d/%d", v, b, 6-b)
	}
	return fmt.Sprintf("phase=%v cur=%s stg=%s", r.Phase, f(r.HasCur, r.CurV, r.CurB), f(r.HasStg, r.StgV, r.StgB))
}

type actReplay struct {
	Harness string   `json:"harness"`
	Family  string   `json:"family"`
	History []string `json:"history"`
	Op      string   `json:"op"`
}

func newActionMachine() *channel.ActionMachine {
	p := fx.Params(2, actApp{}, 9, true, false)
	m, err := channel.NewActionMachine(fx.AccMap(0), *p.Clone())
	if err != nil {
		panic(err)
	}
	return m
}

// actionStep applies one operation to machine and reference and judges it; "" if it conforms.
func actionStep(m *channel.ActionMachine, r *aref, o aop) (verdict, clause string) {
	before := aview(m)
	var err error
	pan := func() (p string) {
		defer func() {
			if x := recover(); x != nil {
				p = fmt.Sprint(x)
			}
		}()
		err = o.run(m)
		return ""
	}()
	if pan != "" {
		return "panic: " + pan, "panic"
	}
	ok := o.ref(r)
	switch {
	case ok != (err == nil):
		return fmt.Sprintf("returned %v, the documented precondition holds: %v", err, ok), "accept-mismatch"
	case err != nil && aview(m) != before:
		return fmt.Sprintf("returned an error but changed the machine: %s -> %s", before, aview(m)), "error-changed-state"
	case aview(m) != r.view():
		return fmt.Sprintf("machine shows %s, expected %s", aview(m), r.view()), "wrong-result"
	}
	return "", ""
}

func actionSearch(res *report.Result) {
	all := actionOps()
	type node struct {
		hist []int
	}
	build := func(h []int) (*channel.ActionMachine, *aref) {
		m, r := newActionMachine(), &aref{Phase: channel.InitActing}
		for _, k := range h {
			if err := all[k].run(m); err == nil {
				all[k].ref(r)
			}
		}
		return m, r
	}
	seen := map[aref]bool{{Phase: channel.InitActing}: true}
	frontier := []node{{}}
	reported := map[string]bool{}
	for len(frontier) > 0 {
		n := frontier[0]
		frontier = frontier[1:]
		for k, o := range all {
			m, r := build(n.hist)
			prev := *r
			if o.name == "Update" && r.CurV >= actVerCap {
				continue // the version cap bounds the search, it is not part of the reference
			}
			verdict, clause := actionStep(m, r, o)
			res.Count("action_transitions", 1)
			res.Count("transitions", 1)
			if verdict != "" {
				opn := o.name
				if i := len(opn) - 1; opn[i] == ')' { // one signature per operation, not per argument
					for j := range opn {
						if opn[j] == '(' {
							opn = opn[:j]
							break
						}
					}
				}
				sig := fmt.Sprintf("C09:%s:action/%s", clause, opn)
				if !reported[sig] {
					reported[sig] = true
					var names []string
					for _, q := range n.hist {
						names = append(names, all[q].name)
					}
					res.Violate("C09", sig, fmt.Sprintf("[action machine] %s: %s   after %v", o.name, verdict, names), actReplay{"machine", "action", names, o.name})
				}
				continue
			}
			if *r != prev {
				res.Seen("action_changing_ops", o.name)
			}
			if !seen[*r] {
				seen[*r] = true
				frontier = append(frontier, node{append(append([]int{}, n.hist...), k)})
			}
		}
	}
	res.Counters["action_states"] = int64(len(seen))
	res.Count("states", int64(len(seen)))
	res.Note("action machine: %d reference states to the fixpoint (version cap %d), %d transitions", len(seen), actVerCap, res.Counters["action_transitions"])
}

func actionReplay(res *report.Result, rp actReplay) {
	all := actionOps()
	byName := map[string]aop{}
	for _, o := range all {
		byName[o.name] = o
	}
	m, r := newActionMachine(), &aref{Phase: channel.InitActing}
	for _, n := range append(append([]string{}, rp.History...), rp.Op) {
		o, ok := byName[n]
		if !ok {
			panic("unknown op " + n)
		}
		verdict, clause := actionStep(m, r, o)
		fmt.Printf("  %-18s -> %s\n", n, aview(m))
		if verdict != "" {
			opn := n
			for j := range opn {
				if opn[j] == '(' {
					opn = opn[:j]
					break
				}
			}
			fmt.Printf("  VERDICT C09 %s: %s\n", clause, verdict)
			res.Violate("C09", fmt.Sprintf("C09:%s:action/%s", clause, opn), fmt.Sprintf("[action machine] %s: %s", n, verdict), rp)
			return
		}
	}
	fmt.Println("  VERDICT none: the history no longer violates")
}
