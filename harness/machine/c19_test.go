package machine

import "verif/engine/report"

// c19Hook is replaced in c19 (machine clones) once the walker exists.
var c19Hook func(res *report.Result, v variant, w *world, hist []string)
