package machine

// C19, machine part: for every machine state discovered by the search, StateMachine.Clone,
// persistence.CloneSource and persistence.FromSource must yield a value that is equal to the
// machine (phase, index, parameters, current and staged transaction incl. signature bytes), that
// shares no writable memory with it (reflect/unsafe walk, verif/harness/values/walk) and through
// which no in-place change of the machine - and vice versa - can be observed (every mutation
// point of either side is changed, the other side's snapshot compared, the change undone).

import (
	"bytes"
	"encoding/json"
	"fmt"
	"os"
	"testing"

	"perun.network/go-perun/channel"
	"perun.network/go-perun/channel/persistence"
	"perun.network/go-perun/wire/perunio"
	"verif/engine/report"
	"verif/harness/values/walk"
)

// c19Hook is installed by TestCheck as the state hook when VERIF_PROP=C19.
var c19Hook = c19Check

func encHex(e perunio.Encoder) (s string) {
	defer func() {
		if r := recover(); r != nil {
			s = fmt.Sprintf("PANIC %v", r)
		}
	}()
	var b bytes.Buffer
	if err := e.Encode(&b); err != nil {
		return "ERR " + err.Error()
	}
	return fmt.Sprintf("%x", b.Bytes())
}

// view is what the channel.Source interface shows of a machine or a persistence snapshot.
func view(s channel.Source) (out string) {
	defer func() {
		if r := recover(); r != nil {
			out = fmt.Sprintf("VIEW-PANIC %v", r)
		}
	}()
	p := s.Params()
	return fmt.Sprintf("phase=%d idx=%d id=%x params=%s pid=%x cur=%s cursigs=%s stg=%s stgsigs=%s", s.Phase(), s.Idx(), s.ID(), encHex(p), p.ID(),
		encHex(s.CurrentTX()), sigsString(s.CurrentTX()), encHex(s.StagingTX()), sigsString(s.StagingTX()))
}

func snapOf(root interface{}, s channel.Source) func() string {
	return func() (out string) {
		defer func() {
			if r := recover(); r != nil {
				out = fmt.Sprintf("SNAP-PANIC %v", r)
			}
		}()
		return walk.Dump(root, false) + " |" + view(s)
	}
}

func c19Check(res *report.Result, v variant, w *world, hist []string) {
	rp := replay{"machine", v, hist, ""}
	where := fmt.Sprintf("[%s] phase %v after %v", v.Name, w.m.Phase(), hist)
	viol := func(site, clause, field, detail string) {
		res.Violate("C19", fmt.Sprintf("C19:%s:%s/%s", clause, site, field), where+": "+detail, rp)
	}
	pair := func(site string, orig interface{}, os channel.Source, clone interface{}, cs channel.Source, sameType bool) {
		res.Count("c19_clone_checks", 1)
		// (1) equal
		if a, b := view(os), view(cs); a != b {
			viol(site, "clone-not-equal", "source-view", "phase/index/parameters/transactions of the copy differ from the machine: "+diffAt(a, b))
		}
		if sameType {
			if a, b := walk.Dump(orig, true), walk.Dump(clone, true); a != b {
				viol(site, "clone-not-equal", "fields", "canonical dumps (all exported and unexported fields) differ: "+diffAt(a, b))
			}
		}
		// (2) + (3)
		fs, st := walk.CheckDisjoint(orig, clone, snapOf(orig, os), snapOf(clone, cs))
		for _, f := range fs {
			viol(site, f.Clause, f.Site, f.Detail)
		}
		res.Count("c19_mutation_checks", int64(st.Locs))
		res.Count("c19_mutation_checks_effective", int64(st.Effective))
		res.Count("c19_regions_compared", int64(st.RegionsA+st.RegionsB))
		for k, n := range st.Skipped {
			res.Count("c19_shared_by_documentation: "+k, int64(n))
		}
		for s := range st.EffectiveSites {
			res.Seen("c19_mutated_sites", site+s)
		}
	}
	guard := func(site string, f func()) {
		defer func() {
			if r := recover(); r != nil {
				if s, ok := r.(string); ok && len(s) > 5 && s[:5] == "walk." {
					panic(r) // engine error, not an observation
				}
				viol(site, "clone-panic", "Clone", fmt.Sprintf("panic: %v", r))
			}
		}()
		f()
	}
	guard("machine", func() { c := w.m.Clone(); pair("machine", w.m, w.m, c, c, true) })
	guard("CloneSource", func() { s := persistence.CloneSource(w.m); pair("CloneSource", w.m, w.m, s, s, false) })
	guard("FromSource", func() { s := persistence.FromSource(w.m, nil, nil); pair("FromSource", w.m, w.m, s, s, false) })
	// a snapshot of a snapshot (what a restored channel is): the source is a *persistence.Channel
	guard("CloneSource(Channel)", func() {
		ch := persistence.FromSource(w.m, nil, nil)
		s := persistence.CloneSource(ch)
		pair("CloneSource(Channel)", ch, ch, s, s, false)
	})
	res.Count("c19_machine_states", 1)
}

func diffAt(a, b string) string {
	i := 0
	for i < len(a) && i < len(b) && a[i] == b[i] {
		i++
	}
	lo := i - 50
	if lo < 0 {
		lo = 0
	}
	cut := func(s string) string {
		if lo > len(s) {
			return ""
		}
		hi := i + 50
		if hi > len(s) {
			hi = len(s)
		}
		return s[lo:hi]
	}
	return fmt.Sprintf("at offset %d: ...%s... vs ...%s...", i, cut(a), cut(b))
}

// TestMain only intercepts replays of C19 machine findings (replay value with "op": ""): the
// history is re-run on a fresh machine and the hook applied to the state it ends in. Everything
// else goes to the ordinary TestCheck.
func TestMain(m *testing.M) {
	if p := report.ReplayFile(); p != "" && os.Getenv("VERIF_PROP") == "C19" {
		os.Exit(c19Replay(p))
	}
	os.Exit(m.Run())
}

func c19Replay(path string) int {
	b, err := os.ReadFile(path)
	if err != nil {
		fmt.Println(err)
		return 2
	}
	var f struct {
		Replay replay `json:"replay"`
	}
	if err := json.Unmarshal(b, &f); err != nil {
		fmt.Println(err)
		return 2
	}
	rp := f.Replay
	res := report.New("C19", "machine")
	all := ops(rp.Variant)
	byName := map[string]*op{}
	for i := range all {
		byName[all[i].name] = &all[i]
	}
	w := newWorld(rp.Variant)
	steps := append([]string{}, rp.History...)
	if rp.Op != "" {
		steps = append(steps, rp.Op)
	}
	for _, n := range steps {
		o := byName[n]
		if o == nil {
			fmt.Printf("unknown op %q\n", n)
			return 2
		}
		if vi := w.apply(o); vi != nil {
			fmt.Printf("  history no longer replays: %s %s: %s\n", vi.prop, vi.clause, vi.detail)
			return 2
		}
		fmt.Printf("  %-28s -> phase=%v cur=%s stg=%s\n", n, w.m.Phase(), w.sigStatus(w.m.CurrentTX()), w.sigStatus(w.m.StagingTX()))
	}
	c19Check(res, rp.Variant, w, rp.History)
	for _, v := range res.Violations {
		fmt.Printf("  VERDICT %s: %s\n", v.Signature, v.Detail)
	}
	if len(res.Violations) == 0 {
		fmt.Println("  VERDICT none: the clone checks hold in this state")
	}
	if err := res.Write(); err != nil {
		fmt.Println(err)
		return 2
	}
	return 0
}
