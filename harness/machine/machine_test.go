// Package machine: engine SEQ over the real channel.StateMachine (properties C01, C09, and the
// machine parts of C17 and C19). Breadth-first search to a fixpoint over canonical states;
// every transition runs the real operation and a reference automaton transcribed from the
// documentation of machine.go / statemachine.go.
package machine

import (
	"bytes"
	"crypto/sha1"
	"encoding/json"
	"fmt"
	"math/big"
	"os"
	"strings"
	"testing"

	"perun.network/go-perun/channel"
	"perun.network/go-perun/wallet"
	"verif/engine/report"
	"verif/harness/fx"
)

type variant struct {
	Name   string
	N      int
	App    string // "noapp" | "payment"
	Idx    int
	VerCap uint64
}

func (v variant) app() channel.App {
	if v.App == "payment" {
		return fx.PayApp
	}
	return channel.NoApp()
}

type world struct {
	v      variant
	params *channel.Params
	m      *channel.StateMachine
	// reference model
	rPhase   channel.Phase
	rCur     string // encoding of current state ("" = none)
	rCurProg bool   // current state adopted from a progression event
	rCurFin  bool
	rStg     string
	rStgFin  bool
	rSigs    []bool
}

func newWorld(v variant) *world {
	p := fx.Params(v.N, v.app(), 7, true, false)
	m, err := channel.NewStateMachine(fx.AccMap(v.Idx), *p.Clone())
	if err != nil {
		panic(err)
	}
	return &world{v: v, params: p, m: m, rPhase: channel.InitActing, rSigs: make([]bool, v.N)}
}

func (w *world) initAlloc() channel.Allocation {
	row := make([]int64, w.v.N)
	for i := range row {
		row[i] = 5
	}
	return fx.Alloc(row)
}

// cand builds a candidate successor of the current state (a function of the present state only).
func (w *world) cand(kind string) *channel.State {
	cur := w.m.State()
	var s *channel.State
	if cur == nil {
		s = &channel.State{ID: w.params.ID(), App: w.v.app(), Data: channel.NoData(), Allocation: w.initAlloc()}
	} else {
		s = cur.Clone()
	}
	s.Version++
	if len(s.Balances[0]) >= 2 && s.Balances[0][0].Sign() > 0 { // participant 0 pays one unit to participant 1
		s.Balances[0][0].Sub(s.Balances[0][0], big.NewInt(1))
		s.Balances[0][1].Add(s.Balances[0][1], big.NewInt(1))
	}
	s.IsFinal = false
	switch kind {
	case "next":
	case "final":
		s.IsFinal = true
	case "ver+2":
		s.Version++
	case "foreignid":
		s.ID[0] ^= 1
	case "sum+1":
		s.Balances[0][0].Add(s.Balances[0][0], big.NewInt(1))
	case "dropcol": // one balance column fewer than the channel has participants (forced updates are unchecked)
		if n := len(s.Balances[0]); n > 1 {
			s.Balances[0][n-2].Add(s.Balances[0][n-2], s.Balances[0][n-1])
			s.Balances[0] = s.Balances[0][:n-1]
		}
	case "addcol":
		s.Balances[0] = append(s.Balances[0], big.NewInt(0))
	case "negbal", "negbal2": // not encodable (a forced update is unchecked): nobody can sign such a state
		n := len(s.Balances[0])
		d := int64(1)
		if kind == "negbal2" {
			d = 2
		}
		s.Balances[0][0].Sub(s.Balances[0][0], big.NewInt(100+d))
		s.Balances[0][n-1].Add(s.Balances[0][n-1], big.NewInt(100+d))
	default:
		panic(kind)
	}
	return s
}

type snap struct {
	Phase            channel.Phase
	Cur, Stg         string
	CurSigs, StgSigs string
}

func sigsString(tx channel.Transaction) string {
	var parts []string
	for _, s := range tx.Sigs {
		if s == nil {
			parts = append(parts, "nil")
		} else {
			parts = append(parts, fmt.Sprintf("%x", []byte(s)))
		}
	}
	return fmt.Sprintf("%d:%s", len(tx.Sigs), strings.Join(parts, ","))
}

func (w *world) snapshot() snap {
	return snap{w.m.Phase(), fx.Enc(w.m.CurrentTX().State), fx.Enc(w.m.StagingTX().State), sigsString(w.m.CurrentTX()), sigsString(w.m.StagingTX())}
}

// sigStatus: per participant slot '-' (absent), 'V' (verifies over the transaction's state), 'X'.
func (w *world) sigStatus(tx channel.Transaction) string {
	out := ""
	for i := 0; i < w.v.N; i++ {
		switch {
		case tx.State == nil || i >= len(tx.Sigs) || tx.Sigs[i] == nil:
			out += "-"
		case fx.Verifies(i, tx.State, tx.Sigs[i]):
			out += "V"
		default:
			out += "X"
		}
	}
	if len(tx.Sigs) > w.v.N {
		out += fmt.Sprintf("+%d", len(tx.Sigs)-w.v.N)
	}
	return out
}

// canon: the fields the machine's future can depend on. Signature bytes are replaced by
// their validity status (ECDSA signatures differ from replay to replay).
func (w *world) canon() string {
	h := sha1.Sum([]byte(fmt.Sprintf("%d|%v|%s|%x|%s|%x", w.m.Phase(), w.rCurProg, w.sigStatus(w.m.CurrentTX()),
		fx.Enc(w.m.CurrentTX().State), w.sigStatus(w.m.StagingTX()), fx.Enc(w.m.StagingTX().State))))
	return fmt.Sprintf("%x", h[:10])
}

type op struct {
	name    string
	offered func(w *world) bool
	arg     func(w *world) *channel.State
	run     func(w *world, arg *channel.State) error
	// ref applies the reference automaton; returns whether the operation must succeed.
	ref func(w *world, arg *channel.State) bool
}

func in(p channel.Phase, ps ...channel.Phase) bool {
	for _, q := range ps {
		if p == q {
			return true
		}
	}
	return false
}

func (w *world) refStage(s *channel.State, ph channel.Phase) {
	w.rStg, w.rStgFin, w.rSigs, w.rPhase = fx.Enc(s), s.IsFinal, make([]bool, w.v.N), ph
}

func (w *world) allSigs() bool {
	for _, b := range w.rSigs {
		if !b {
			return false
		}
	}
	return true
}

func (w *world) refEnable(to channel.Phase) bool {
	if !w.allSigs() || (to == channel.Final) != w.rStgFin {
		return false
	}
	w.rCur, w.rCurFin, w.rCurProg = w.rStg, w.rStgFin, false
	w.rStg, w.rSigs, w.rPhase = "", make([]bool, w.v.N), to
	return true
}

// validNext is the acceptability of the five candidate kinds, written from the statement of
// C02 for this restricted family (the full predicate lives in the C02 harness).
func validNext(w *world, kind string, actor int) bool {
	if w.rCurFin || actor >= w.v.N {
		return false
	}
	if len(w.m.State().Balances[0]) != w.v.N {
		return false // the candidate inherits the column count of a force-installed current state
	}
	if kind != "next" && kind != "final" {
		return false
	}
	if w.v.App == "payment" && actor != 0 {
		// participant 0's balance decreases (if it had funds); only actor 0 may pay.
		cur := w.m.State()
		return cur.Balances[0][0].Sign() == 0
	}
	return true
}

func ops(v variant) []op {
	var o []op
	capOK := func(w *world) bool { return w.m.State() == nil || w.m.State().Version < v.VerCap }
	hasCur := func(w *world) bool { return w.m.State() != nil }

	// Init
	initRef := func(w *world, _ *channel.State) bool {
		if w.rPhase != channel.InitActing {
			return false
		}
		st := &channel.State{ID: w.params.ID(), App: v.app(), Data: channel.NoData(), Allocation: w.initAlloc()}
		w.refStage(st, channel.InitSigning)
		return true
	}
	o = append(o, op{name: "Init(valid)", run: func(w *world, _ *channel.State) error { return w.m.Init(w.initAlloc(), channel.NoData()) }, ref: initRef})
	refuse := func(w *world, _ *channel.State) bool { return false }
	o = append(o, op{name: "Init(extra-column)", run: func(w *world, _ *channel.State) error {
		a := w.initAlloc()
		a.Balances[0] = append(a.Balances[0], big.NewInt(1))
		return w.m.Init(a, channel.NoData())
	}, ref: refuse})
	o = append(o, op{name: "Init(negative)", run: func(w *world, _ *channel.State) error {
		a := w.initAlloc()
		a.Balances[0][0] = big.NewInt(-1)
		return w.m.Init(a, channel.NoData())
	}, ref: refuse})

	// Update / CheckUpdate / ForceUpdate
	actors := []int{0, 1, v.N}
	for _, k := range []string{"next", "final", "ver+2", "foreignid", "sum+1"} {
		k := k
		for _, actor := range actors {
			actor := actor
			// beyond the version cap only where the reference refuses (successors of a final state: no new states)
			o = append(o, op{name: fmt.Sprintf("Update(%s,actor=%d)", k, actor), offered: func(w *world) bool { return hasCur(w) && (capOK(w) || w.rCurFin) },
				arg: func(w *world) *channel.State { return w.cand(k) },
				run: func(w *world, s *channel.State) error { return w.m.Update(s, channel.Index(actor)) },
				ref: func(w *world, s *channel.State) bool {
					if w.rPhase != channel.Acting || !validNext(w, k, actor) {
						return false
					}
					w.refStage(s, channel.Signing)
					return true
				}})
		}
		// CheckUpdate must never change anything; with a valid signature it accepts exactly the valid successors.
		// (offered beyond the version cap too: it changes nothing, and the successors of a final state in the
		// phases after Final exist only there)
		o = append(o, op{name: fmt.Sprintf("CheckUpdate(%s)", k), offered: func(w *world) bool { return hasCur(w) },
			arg: func(w *world) *channel.State { return w.cand(k) },
			run: func(w *world, s *channel.State) error {
				before := w.snapshot()
				err := w.m.CheckUpdate(s, 0, fx.Sig(0, s), 0)
				if w.snapshot() != before {
					return fmt.Errorf("ORACLE: CheckUpdate changed the machine")
				}
				if (err == nil) != validNext(w, k, 0) {
					return fmt.Errorf("ORACLE: CheckUpdate(%s) returned %v, valid=%v", k, err, validNext(w, k, 0))
				}
				return fmt.Errorf("checked") // reported as 'no change'
			}, ref: refuse})
		if k != "next" && k != "final" {
			continue
		}
		if v.N < 2 {
			continue
		}
		// the signer need not be the actor: participant 1's signature under an update by actor 0
		// is checked against participant 1's key - and participant 0's signature is not participant 1's
		for _, signer := range []int{1, 0} {
			signer := signer
			o = append(o, op{name: fmt.Sprintf("CheckUpdate(%s,actor=0,sigIdx=1,signedBy=%d)", k, signer), offered: func(w *world) bool { return hasCur(w) && capOK(w) },
				arg: func(w *world) *channel.State { return w.cand(k) },
				run: func(w *world, s *channel.State) error {
					before := w.snapshot()
					err := w.m.CheckUpdate(s, 0, fx.Sig(signer, s), 1)
					if w.snapshot() != before {
						return fmt.Errorf("ORACLE: CheckUpdate changed the machine")
					}
					if want := validNext(w, k, 0) && signer == 1; (err == nil) != want {
						return fmt.Errorf("ORACLE: CheckUpdate(%s, actor 0, signature slot 1 signed by %d) returned %v, valid=%v", k, signer, err, want)
					}
					return fmt.Errorf("checked")
				}, ref: refuse})
		}
	}
	// before there is a current state (the channel has not been initialised, e.g. an opening that
	// was abandoned and restored after a restart) every update is refused - with an error
	o = append(o, op{name: "Update(next,actor=0)/no-current-state", offered: func(w *world) bool { return !hasCur(w) && capOK(w) },
		arg: func(w *world) *channel.State { return w.cand("next") },
		run: func(w *world, s *channel.State) error { return w.m.Update(s, 0) }, ref: refuse})
	o = append(o, op{name: "CheckUpdate(next)/no-current-state", offered: func(w *world) bool { return !hasCur(w) && capOK(w) },
		arg: func(w *world) *channel.State { return w.cand("next") },
		run: func(w *world, s *channel.State) error {
			before := w.snapshot()
			err := w.m.CheckUpdate(s, 0, fx.Sig(0, s), 0)
			if w.snapshot() != before {
				return fmt.Errorf("ORACLE: CheckUpdate changed the machine")
			}
			if err == nil {
				return fmt.Errorf("ORACLE: CheckUpdate accepted an update of a channel that has no current state")
			}
			return fmt.Errorf("checked")
		}, ref: refuse})
	// a candidate that passed CheckUpdate and is CHANGED afterwards is judged again by Update (the
	// same object: a verdict remembered per object must not outlive the object's content)
	o = append(o, op{name: "Update(checked-then-changed)", offered: func(w *world) bool { return hasCur(w) && capOK(w) },
		arg: func(w *world) *channel.State { return w.cand("next") },
		run: func(w *world, s *channel.State) error {
			w.m.CheckUpdate(s, 0, fx.Sig(0, s), 0) //nolint:errcheck
			s.Balances[0][0].Add(s.Balances[0][0], big.NewInt(1))
			return w.m.Update(s, 0)
		}, ref: refuse})
	for _, k := range []string{"next", "final", "dropcol", "addcol", "negbal", "negbal2"} {
		k := k
		o = append(o, op{name: "ForceUpdate(" + k + ")", offered: func(w *world) bool { return hasCur(w) && capOK(w) },
			arg: func(w *world) *channel.State { return w.cand(k) },
			run: func(w *world, s *channel.State) error { return w.m.ForceUpdate(s, 0) },
			ref: func(w *world, s *channel.State) bool { w.refStage(s, channel.Signing); return true }})
	}

	// Sig
	o = append(o, op{name: "Sig", run: func(w *world, _ *channel.State) error {
		sig, err := w.m.Sig()
		if err == nil {
			if !fx.Verifies(w.v.Idx, w.m.StagingState(), sig) {
				return fmt.Errorf("ORACLE: own signature does not verify over the staged state")
			}
			sig2, err2 := w.m.Sig()
			if err2 != nil || !bytes.Equal(sig, sig2) {
				return fmt.Errorf("ORACLE: second Sig() did not return the stored signature")
			}
		} else if sig != nil {
			return fmt.Errorf("ORACLE: Sig() returned an error and a signature")
		}
		return err
	}, ref: func(w *world, _ *channel.State) bool {
		if !in(w.rPhase, channel.InitSigning, channel.Signing, channel.Progressing) || strings.HasPrefix(w.rStg, "ERR:") {
			return false // (a state that cannot be encoded cannot be signed)
		}
		w.rSigs[w.v.Idx] = true
		return true
	}})

	// AddSig
	for i := 0; i < v.N; i++ {
		i := i
		for _, kind := range []string{"valid", "sibling", "overcurrent", "foreign", "garbage", "empty"} {
			kind := kind
			o = append(o, op{name: fmt.Sprintf("AddSig(%d,%s)", i, kind), run: func(w *world, _ *channel.State) error {
				var sig wallet.Sig
				stg := w.m.StagingState()
				switch kind {
				case "valid":
					if stg != nil {
						sig = fx.Sig(i, stg)
					}
				case "sibling": // valid signature by i over a different state of the same version (replay)
					if stg != nil {
						sib := stg.Clone()
						sib.IsFinal = !sib.IsFinal
						sig = fx.Sig(i, sib)
					}
				case "overcurrent": // valid signature by i over the current state (replay of the previous round)
					if w.m.State() != nil {
						sig = fx.Sig(i, w.m.State())
					}
				case "foreign": // valid signature over the staged state, by another participant
					if stg != nil {
						sig = fx.Sig((i+1)%v.N, stg)
					}
				case "garbage":
					sig = bytes.Repeat([]byte{1}, 64)
				case "empty":
					sig = []byte{}
				}
				if sig == nil {
					sig = bytes.Repeat([]byte{4}, 64)
				}
				return w.m.AddSig(channel.Index(i), sig)
			}, ref: func(w *world, _ *channel.State) bool {
				if !in(w.rPhase, channel.InitSigning, channel.Signing, channel.Progressing) || w.rSigs[i] || strings.HasPrefix(w.rStg, "ERR:") {
					return false
				}
				valid := kind == "valid"
				if kind == "overcurrent" && w.rCur != "" && w.rCur == w.rStg {
					valid = true // the staged state IS the current state (forced re-staging): same bytes
				}
				if !valid {
					return false
				}
				w.rSigs[i] = true
				return true
			}})
		}
	}

	simple := func(name string, run func(w *world) error, ref func(w *world) bool) {
		o = append(o, op{name: name, run: func(w *world, _ *channel.State) error { return run(w) }, ref: func(w *world, _ *channel.State) bool { return ref(w) }})
	}
	simple("EnableInit", func(w *world) error { return w.m.EnableInit() }, func(w *world) bool {
		return w.rPhase == channel.InitSigning && w.refEnable(channel.Funding)
	})
	simple("EnableUpdate", func(w *world) error { return w.m.EnableUpdate() }, func(w *world) bool {
		return w.rPhase == channel.Signing && w.refEnable(channel.Acting)
	})
	simple("EnableFinal", func(w *world) error { return w.m.EnableFinal() }, func(w *world) bool {
		return w.rPhase == channel.Signing && w.refEnable(channel.Final)
	})
	simple("DiscardUpdate", func(w *world) error { return w.m.DiscardUpdate() }, func(w *world) bool {
		if w.rPhase != channel.Signing {
			return false
		}
		w.rStg, w.rSigs, w.rPhase = "", make([]bool, v.N), channel.Acting
		return true
	})
	simple("SetFunded", func(w *world) error { return w.m.SetFunded() }, func(w *world) bool {
		if w.rPhase != channel.Funding {
			return false
		}
		w.rPhase = channel.Acting
		return true
	})
	simple("SetRegistering", func(w *world) error { return w.m.SetRegistering() }, func(w *world) bool {
		if w.rPhase < channel.Funding {
			return false
		}
		w.rPhase = channel.Registering
		return true
	})
	simple("SetRegistered", func(w *world) error { return w.m.SetRegistered() }, func(w *world) bool {
		if w.rPhase < channel.Funding {
			return false
		}
		w.rPhase = channel.Registered
		return true
	})
	simple("SetWithdrawing", func(w *world) error { return w.m.SetWithdrawing() }, func(w *world) bool {
		if !in(w.rPhase, channel.Final, channel.Registered, channel.Progressed, channel.Withdrawing) {
			return false
		}
		w.rPhase = channel.Withdrawing
		return true
	})
	simple("SetWithdrawn", func(w *world) error { return w.m.SetWithdrawn() }, func(w *world) bool {
		if w.rPhase != channel.Withdrawing {
			return false
		}
		w.rPhase = channel.Withdrawn
		return true
	})
	o = append(o, op{name: "SetProgressing(next)", offered: func(w *world) bool { return hasCur(w) && capOK(w) },
		arg: func(w *world) *channel.State { return w.cand("next") },
		run: func(w *world, s *channel.State) error { return w.m.SetProgressing(s) },
		ref: func(w *world, s *channel.State) bool {
			if !in(w.rPhase, channel.Registered, channel.Progressing, channel.Progressed) {
				return false
			}
			w.refStage(s, channel.Progressing)
			return true
		}})
	// the progressed event carries the state that is on chain: "next" is what SetProgressing(next)
	// stages, "final" differs from it (somebody else's progression of the same version)
	for _, k := range []string{"next", "final"} {
		k := k
		o = append(o, op{name: "SetProgressed(" + k + ")", offered: capOK,
			arg: func(w *world) *channel.State { return w.cand(k) },
			run: func(w *world, s *channel.State) error {
				return w.m.SetProgressed(channel.NewProgressedEvent(w.params.ID(), &channel.ElapsedTimeout{}, s, 0))
			},
			ref: func(w *world, s *channel.State) bool {
				w.rCur, w.rCurFin, w.rCurProg = fx.Enc(s), s.IsFinal, true
				w.rStg, w.rSigs, w.rPhase = "", make([]bool, v.N), channel.Progressed
				return true
			}})
	}
	// a signature that passed CheckUpdate for participant 0 on this very object is not thereby
	// participant 1's: Update with the checked object, then AddSig at the other index
	if v.N >= 2 {
		o = append(o, op{name: "Update(checked)+AddSig(1,checked-sig-of-0)", offered: func(w *world) bool { return hasCur(w) && capOK(w) },
			arg: func(w *world) *channel.State { return w.cand("next") },
			run: func(w *world, s *channel.State) error {
				sig := fx.Sig(0, s)
				w.m.CheckUpdate(s, 0, sig, 0) //nolint:errcheck
				if err := w.m.Update(s, 0); err != nil {
					return err
				}
				if err := w.m.AddSig(1, sig); err == nil {
					return fmt.Errorf("ORACLE: AddSig(1) accepted participant 0's signature (it had passed CheckUpdate for index 0 on the same object)")
				}
				return nil
			},
			ref: func(w *world, s *channel.State) bool {
				if w.rPhase != channel.Acting || !validNext(w, "next", 0) {
					return false
				}
				w.refStage(s, channel.Signing)
				return true
			}})
	}
	return o
}

func (w *world) clone() *world {
	c := *w
	c.m = w.m.Clone()
	c.rSigs = append([]bool{}, w.rSigs...)
	return &c
}

type viol struct{ prop, clause, detail string }

// apply runs one operation on the real machine and on the reference; returns a violation or nil.
// applyAll runs one operation and returns every violated clause: the first failing clause of
// the phase protocol (C09) AND, judged independently on the machine's state afterwards, the
// signature invariants (C01) - one property must not mask the other.
func (w *world) applyAll(o *op) []*viol {
	var out []*viol
	before := w.snapshot()
	if v := w.apply(o); v != nil {
		out = append(out, v)
		if v.prop == "C01" {
			return out
		}
	}
	func() {
		defer func() { recover() }() //nolint:errcheck
		if v := w.c01(o, before); v != nil {
			out = append(out, v)
		}
	}()
	// C17 (machine part), judged independently as well: a state the machine creates itself (Init)
	// carries the ID of its parameters and version 0
	if strings.HasPrefix(o.name, "Init(") && w.m.Phase() == channel.InitSigning && before.Phase == channel.InitActing {
		if s := w.m.StagingState(); s == nil || s.ID != w.m.Params().ID() || s.Version != 0 {
			out = append(out, &viol{"C17", "init-state-id", "the state created by Init does not carry Params().ID() / version 0"})
		}
	}
	return out
}

// c01: the signature invariants, evaluated on the real machine.
func (w *world) c01(o *op, before snap) *viol {
	// the current state is fully signed unless adopted from a progression event
	if cur := w.m.CurrentTX(); cur.State != nil && !w.rCurProg {
		if st := w.sigStatus(cur); st != strings.Repeat("V", w.v.N) || len(cur.Sigs) != w.v.N {
			return &viol{"C01", "current-not-fully-signed", fmt.Sprintf("current state v%d has signature status %s (%d slots for %d participants) after %s (phase before %v)", cur.Version, st, len(cur.Sigs), w.v.N, o.name, before.Phase)}
		}
	}
	// "stored with it": every stored staging signature verifies for its slot over exactly the staged state
	if st := w.sigStatus(w.m.StagingTX()); strings.Contains(st, "X") {
		return &viol{"C01", "staged-invalid-sig", fmt.Sprintf("staged slot holds a signature that does not verify (%s) after %s (phase before %v)", st, o.name, before.Phase)}
	}
	return nil
}

func (w *world) apply(o *op) (v *viol) {
	before := w.snapshot()
	defer func() {
		if r := recover(); r != nil {
			v = &viol{"C09", "panic", fmt.Sprintf("PANIC in %s: %v (phase before %v)", o.name, r, before.Phase)}
		}
	}()
	var arg *channel.State
	if o.arg != nil {
		arg = o.arg(w)
	}
	err := o.run(w, arg)
	if err != nil && strings.HasPrefix(err.Error(), "ORACLE") {
		return &viol{"C09", "oracle", o.name + ": " + err.Error()}
	}
	want := o.ref(w, arg)
	if (err == nil) != want {
		return &viol{"C09", "accept-mismatch", fmt.Sprintf("%s in phase %v: real err=%v, documented precondition says ok=%v", o.name, before.Phase, err, want)}
	}
	after := w.snapshot()
	if err != nil && after != before {
		return &viol{"C09", "failed-op-changed-state", fmt.Sprintf("%s failed (%v) but changed the machine: %+v -> %+v", o.name, err, before, after)}
	}
	if err == nil {
		if after.Phase != w.rPhase {
			return &viol{"C09", "post-phase", fmt.Sprintf("%s from %v: phase %v, documented %v", o.name, before.Phase, after.Phase, w.rPhase)}
		}
		if after.Cur != w.rCur || after.Stg != w.rStg {
			return &viol{"C09", "post-state", fmt.Sprintf("%s from %v: current/staged state differ from the documented effect", o.name, before.Phase)}
		}
		// signature slots of the staged transaction must mirror the reference
		st := w.sigStatus(w.m.StagingTX())
		for i, has := range w.rSigs {
			if w.rStg != "" && (st[i] != '-') != has {
				return &viol{"C09", "post-sigs", fmt.Sprintf("%s from %v: staged signature slots %s, reference %v", o.name, before.Phase, st, w.rSigs)}
			}
		}
	}
	return nil
}

type replay struct {
	Harness string   `json:"harness"`
	Variant variant  `json:"variant"`
	History []string `json:"history"`
	Op      string   `json:"op"`
}

func variants(thorough bool) []variant {
	vs := []variant{
		{"2p-noapp-idx0", 2, "noapp", 0, 1}, {"2p-noapp-idx1", 2, "noapp", 1, 1},
		{"2p-payment-idx0", 2, "payment", 0, 1},
	}
	if thorough {
		vs = []variant{
			{"2p-noapp-idx0", 2, "noapp", 0, 2}, {"2p-noapp-idx1", 2, "noapp", 1, 2},
			{"2p-payment-idx0", 2, "payment", 0, 2}, {"2p-payment-idx1", 2, "payment", 1, 2},
			{"3p-noapp-idx0", 3, "noapp", 0, 1}, {"3p-noapp-idx2", 3, "noapp", 2, 1}, {"3p-payment-idx1", 3, "payment", 1, 1},
		}
	}
	return vs
}

// Hook lets other properties (C19) inspect every discovered state.
var stateHook func(res *report.Result, v variant, w *world, hist []string)

func names(all []op, h []int) []string {
	out := make([]string, len(h))
	for i, k := range h {
		out[i] = all[k].name
	}
	return out
}

func search(t *testing.T, res *report.Result, v variant) {
	all := ops(v)
	build := func(h []int) (*world, *viol) {
		w := newWorld(v)
		for _, k := range h {
			if vis := w.applyAll(&all[k]); len(vis) > 0 {
				return w, vis[0]
			}
		}
		return w, nil
	}
	w0, _ := build(nil)
	seen := map[string]bool{w0.canon(): true}
	frontier := [][]int{nil}
	maxDepth := 0
	res.Count("states", 1)
	for len(frontier) > 0 {
		h := frontier[0]
		frontier = frontier[1:]
		base, vi := build(h) // one replay per discovered state
		if vi != nil {
			t.Fatalf("engine error: replay of a known-good history failed: %+v", vi)
		}
		if stateHook != nil {
			stateHook(res, v, base, names(all, h))
		}
		for k := range all {
			w := base.clone()
			if all[k].offered != nil && !all[k].offered(w) {
				continue
			}
			res.Count("transitions", 1)
			if vis := w.applyAll(&all[k]); len(vis) > 0 {
				for _, vi := range vis {
					sig := fmt.Sprintf("%s:%s:%s/%s", vi.prop, vi.clause, v.App, strings.SplitN(all[k].name, "(", 2)[0])
					res.ViolateC(vi.prop, sig, fmt.Sprintf("[%s] %s   after %v", v.Name, vi.detail, names(all, h)),
						replay{"machine", v, names(all, h), all[k].name}, len(h))
				}
				continue
			}
			if w.snapshot() == base.snapshot() {
				res.Count("transitions_refused_or_noop", 1)
			} else {
				res.Count("transitions_changing", 1)
				res.Seen("changing_ops", v.Name+"/"+all[k].name)
			}
			key := w.canon()
			if !seen[key] {
				seen[key] = true
				res.Count("states", 1)
				nh := append(append([]int{}, h...), k)
				// the clone is only an accelerator: the new state must be reproducible by replay
				if w2, v2 := build(nh); v2 != nil || w2.canon() != key {
					res.Violate("C19", "C19:machine-clone-diverges:"+v.App, fmt.Sprintf("[%s] state derived from StateMachine.Clone() differs from the replayed state after %v", v.Name, names(all, nh)),
						replay{"machine", v, names(all, h), all[k].name})
					continue
				}
				if len(nh) > maxDepth {
					maxDepth = len(nh)
				}
				if len(nh) <= 6 {
					res.Sample(6, map[string]interface{}{"variant": v.Name, "history": names(all, nh), "phase": w.m.Phase().String()})
				}
				frontier = append(frontier, nh)
			}
		}
	}
	res.Count("variants", 1)
	if int64(maxDepth) > res.Counters["max_depth"] {
		res.Counters["max_depth"] = int64(maxDepth)
	}
	res.Note("variant %s: %d ops in alphabet, states=%d, depth=%d", v.Name, len(all), len(seen), maxDepth)
}

func runReplay(t *testing.T, res *report.Result, path string) {
	b, err := os.ReadFile(path)
	if err != nil {
		t.Fatal(err)
	}
	var fa struct {
		Replay actReplay `json:"replay"`
	}
	if json.Unmarshal(b, &fa) == nil && fa.Replay.Family == "action" {
		actionReplay(res, fa.Replay)
		return
	}
	var f struct {
		Replay replay `json:"replay"`
	}
	if err := json.Unmarshal(b, &f); err != nil {
		t.Fatal(err)
	}
	rp := f.Replay
	all := ops(rp.Variant)
	byName := map[string]*op{}
	for i := range all {
		byName[all[i].name] = &all[i]
	}
	w := newWorld(rp.Variant)
	for _, n := range append(append([]string{}, rp.History...), rp.Op) {
		o := byName[n]
		if o == nil {
			t.Fatalf("unknown op %q", n)
		}
		vis := w.applyAll(o)
		fmt.Printf("  %-28s -> phase=%v cur=%s stg=%s\n", n, w.m.Phase(), w.sigStatus(w.m.CurrentTX()), w.sigStatus(w.m.StagingTX()))
		for _, vi := range vis {
			fmt.Printf("  VERDICT %s %s: %s\n", vi.prop, vi.clause, vi.detail)
			res.Violate(vi.prop, fmt.Sprintf("%s:%s:%s/%s", vi.prop, vi.clause, rp.Variant.App, strings.SplitN(n, "(", 2)[0]), vi.detail, rp)
		}
		if len(vis) > 0 {
			return
		}
	}
	fmt.Println("  VERDICT none: the history no longer violates")
}

func TestCheck(t *testing.T) {
	prop := os.Getenv("VERIF_PROP")
	if prop == "" {
		prop = "C09"
	}
	res := report.New(prop, "machine")
	defer func() {
		if err := res.Write(); err != nil {
			t.Fatal(err)
		}
	}()
	if p := report.ReplayFile(); p != "" {
		runReplay(t, res, p)
		return
	}
	if prop == "C19" {
		stateHook = c19Hook
	}
	for _, v := range variants(res.Thorough()) {
		search(t, res, v)
	}
	if prop == "C09" {
		actionSearch(res)
	}
	if fx.TwinUnavailable {
		res.Note("twin keys asked for (VERIF_FX_TWIN) but the sim wallet's account type could not be given a chosen key: this pass ran with ordinary keys")
	}
	res.Extra["exhaustive"] = true
	res.Counters["distinct_nontrivial"] = res.Counters["states"]
	res.Counters["evaluations"] = res.Counters["transitions"]
	res.Counters["traces_validated_against_impl"] = res.Counters["transitions"]
	res.Extra["bound"] = "fixpoint over canonical states; version cap per variant (see notes)"
}
