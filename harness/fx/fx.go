// Package fx holds the fixtures shared by the harnesses: deterministic sim-backend accounts,
// assets, apps, parameter sets and encoding helpers. VERIF_SEED only selects the keys.
package fx

import (
	"bytes"
	"crypto/ecdsa"
	"crypto/sha256"
	"fmt"
	"math/big"
	"math/rand"
	"os"
	"reflect"
	"strconv"
	"strings"
	"sync"
	"unsafe"

	"perun.network/go-perun/apps/payment"
	_ "perun.network/go-perun/backend/sim" // registers the sim backend (id 0)
	simchannel "perun.network/go-perun/backend/sim/channel"
	simwallet "perun.network/go-perun/backend/sim/wallet"
	"perun.network/go-perun/channel"
	"perun.network/go-perun/wallet"
)

var (
	// Rng is the fixture RNG (keys only).
	Rng *rand.Rand
	// Accs are the participants' accounts; Accs[3] is a stranger.
	Accs [4]*simwallet.Account
	// Assets are three distinct sim assets.
	Assets [3]channel.Asset
	// PayApp is a registered payment app, OtherApp another registered payment-rule app with a different id.
	PayApp, OtherApp channel.App
)

func init() {
	seed, _ := strconv.ParseInt(os.Getenv("VERIF_SEED"), 10, 64)
	Rng = rand.New(rand.NewSource(seed + 1))
	for i := range Accs {
		Accs[i] = simwallet.NewRandomAccount(Rng)
	}
	if os.Getenv("VERIF_FX_TWIN") == "1" {
		// boundary choice of keys: participant 1's key is the negation of participant 0's, so the
		// two addresses share their X coordinate and differ in Y only
		if t, ok := twinOf(Accs[0]); ok {
			Accs[1] = t
		} else {
			// the sim wallet's account type has changed shape: the pass runs with ordinary keys
			// (it then repeats the first pass; no verdict depends on the keys being twins)
			TwinUnavailable = true
		}
	}
	for i := range Assets {
		Assets[i] = &simchannel.Asset{ID: uint64(0xA0 + i)}
	}
	PayApp = &payment.App{ID: simchannel.NewRandomAppID(Rng)}
	OtherApp = &payment.App{ID: simchannel.NewRandomAppID(Rng)}
	channel.RegisterApp(PayApp)
	channel.RegisterApp(OtherApp)
}

// Addr returns participant i's address map.
func Addr(i int) map[wallet.BackendID]wallet.Address {
	return map[wallet.BackendID]wallet.Address{0: Accs[i].Address()}
}

// AccMap returns participant i's account map.
func AccMap(i int) map[wallet.BackendID]wallet.Account {
	return map[wallet.BackendID]wallet.Account{0: Accs[i]}
}

// Params builds channel parameters for participants 0..n-1.
func Params(n int, app channel.App, nonce int64, ledger, virtual bool) *channel.Params {
	parts := make([]map[wallet.BackendID]wallet.Address, n)
	for i := range parts {
		parts[i] = Addr(i)
	}
	p, err := channel.NewParams(60, parts, app, big.NewInt(nonce), ledger, virtual, channel.ZeroAux)
	if err != nil {
		panic(err)
	}
	return p
}

// Alloc builds an allocation with one row per asset.
func Alloc(rows ...[]int64) channel.Allocation {
	a := channel.Allocation{}
	for i, row := range rows {
		a.Backends = append(a.Backends, 0)
		a.Assets = append(a.Assets, Assets[i])
		var r []channel.Bal
		for _, v := range row {
			r = append(r, big.NewInt(v))
		}
		a.Balances = append(a.Balances, r)
	}
	return a
}

// Enc is the binary encoding of a state as a string ("" for nil, "ERR:.." if not encodable).
func Enc(s *channel.State) string {
	if s == nil {
		return ""
	}
	var b bytes.Buffer
	if err := s.Encode(&b); err != nil {
		return "ERR:" + err.Error()
	}
	return b.String()
}

var (
	sigMu    sync.Mutex
	sigCache = map[string]wallet.Sig{}
)

// Sig returns participant i's signature over st (cached: ECDSA signing dominates replay time).
func Sig(i int, st *channel.State) wallet.Sig {
	k := fmt.Sprintf("%d|%s", i, Enc(st))
	sigMu.Lock()
	defer sigMu.Unlock()
	if s, ok := sigCache[k]; ok {
		return s
	}
	s, err := channel.Sign(Accs[i], st, 0)
	if err != nil {
		if strings.HasPrefix(Enc(st), "ERR:") {
			return nil // a state that cannot be encoded cannot be signed: the callers fall back to a garbage signature
		}
		panic(err)
	}
	sigCache[k] = s
	return s
}

// Verifies reports whether sig is participant i's signature over st. It is the reference the
// oracles use, written against the signature scheme of the sim backend (ECDSA over the SHA-256
// digest of the state's full encoding, r || s with 32 bytes each) and not through the backends'
// own Verify: a state that cannot be encoded has no valid signature.
func Verifies(i int, st *channel.State, sig wallet.Sig) bool {
	if st == nil || len(sig) != 64 {
		return false
	}
	enc := Enc(st)
	if strings.HasPrefix(enc, "ERR:") {
		return false
	}
	d := sha256.Sum256([]byte(enc))
	pk := (*ecdsa.PublicKey)(Accs[i].Address().(*simwallet.Address))
	return ecdsa.Verify(pk, d[:], new(big.Int).SetBytes(sig[:32]), new(big.Int).SetBytes(sig[32:]))
}

// twinOf returns an account whose private key is the negation (mod the group order) of a's: its
// public key is (X, -Y). The sim wallet has no constructor from a key, so the key of a fresh
// account is replaced in place.
// TwinUnavailable reports that VERIF_FX_TWIN was asked for but could not be honoured.
var TwinUnavailable bool

func twinOf(a *simwallet.Account) (t *simwallet.Account, ok bool) {
	defer func() {
		if recover() != nil {
			t, ok = nil, false
		}
	}()
	priv := func(acc *simwallet.Account) *reflect.Value {
		f := reflect.ValueOf(acc).Elem().FieldByName("privKey")
		v := reflect.NewAt(f.Type(), unsafe.Pointer(f.UnsafeAddr())).Elem()
		return &v
	}
	k := priv(a).Interface().(*ecdsa.PrivateKey)
	d := new(big.Int).Sub(k.Curve.Params().N, k.D)
	x, y := k.Curve.ScalarBaseMult(d.Bytes())
	t = simwallet.NewRandomAccount(Rng)
	priv(t).Set(reflect.ValueOf(&ecdsa.PrivateKey{PublicKey: ecdsa.PublicKey{Curve: k.Curve, X: x, Y: y}, D: d}))
	if x.Cmp(k.X) != 0 || y.Cmp(k.Y) == 0 {
		return nil, false
	}
	return t, true
}
