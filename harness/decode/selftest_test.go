package decode

import (
	"fmt"
	"os"
	"testing"
)

// TestPlanPartition is a self-test of the harness (not run by ./check; run it by hand with
// VERIF_TIER=quick|thorough): the plans of the shards, each built from its own call of
// cat.Seeds() as in separate worker processes, partition the cases of the unsharded plan -
// no case is run twice, none is lost.
func TestPlanPartition(t *testing.T) {
	tier := os.Getenv("VERIF_TIER")
	key := func(c *testCase) string {
		return fmt.Sprintf("%s|%s|%s|%d|%d|%s|%s", c.Seed, c.Family, c.Mut.Op, c.Mut.Off, c.Mut.Len, c.Mut.Val, c.Mut.Note)
	}
	all := map[string]int{}
	one := buildPlan(tier, 0, 1)
	one.each(func(idx int, mk func() *testCase) bool { all[key(mk())]++; return true })
	fmt.Println("unsharded:", len(all), "distinct case keys,", one.count(), "cases")
	const n = 5
	got := map[string]int{}
	total := 0
	for sh := 0; sh < n; sh++ {
		p := buildPlan(tier, sh, n)
		cnt := 0
		p.each(func(idx int, mk func() *testCase) bool { got[key(mk())]++; cnt++; return true })
		fmt.Println(" shard", sh, "cases", cnt, "seeds", len(p.Seeds))
		total += cnt
	}
	miss, dup := 0, 0
	for k, c := range all {
		if got[k] < c {
			miss++
			if miss < 5 {
				fmt.Println("missing:", k)
			}
		}
		if got[k] > c {
			dup++
			if dup < 5 {
				fmt.Println("dup:", k)
			}
		}
	}
	extra := 0
	for k := range got {
		if all[k] == 0 {
			extra++
			if extra < 5 {
				fmt.Println("extra:", k)
			}
		}
	}
	fmt.Println("sharded total", total, "missing", miss, "dup", dup, "extra", extra)
	if miss+dup+extra > 0 {
		t.Fail()
	}
}
