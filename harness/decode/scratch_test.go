package decode

import (
	"fmt"
	"sort"
	"strings"
	"testing"

	"verif/harness/codec/cat"
)

func TestScratch(t *testing.T) {
	seeds := cat.Seeds()
	type g struct {
		n    int
		lens map[int]int
	}
	groups := map[string]*g{}
	var keys []string
	for _, s := range seeds {
		k := s.Kind
		if strings.HasSuffix(s.Kind, "-envelope") {
			p := strings.SplitN(s.Name, "/", 3)
			k = s.Kind + "/" + p[1]
		}
		if groups[k] == nil {
			groups[k] = &g{lens: map[int]int{}}
			keys = append(keys, k)
		}
		groups[k].n++
		groups[k].lens[len(s.Bytes)]++
	}
	for _, k := range keys {
		var ls []int
		for l := range groups[k].lens {
			ls = append(ls, l)
		}
		sort.Ints(ls)
		if len(ls) > 14 {
			fmt.Println(k, groups[k].n, len(ls), ls[:6], "...", ls[len(ls)-6:])
		} else {
			fmt.Println(k, groups[k].n, len(ls), ls)
		}
	}
}
