package decode

import (
	"bytes"
	"encoding/binary"
	"fmt"
	"math/big"
	"strings"

	"google.golang.org/protobuf/proto"
	"perun.network/go-perun/channel"
	"perun.network/go-perun/client"
	"perun.network/go-perun/wallet"
	"perun.network/go-perun/wire"
	"perun.network/go-perun/wire/perunio"
	"perun.network/go-perun/wire/protobuf"
	"verif/harness/codec/cat"
)

// Family (4): well-formed encodings that really contain as many assets / participants /
// sub-allocations / integer bytes as the documented limit (positive control: must be accepted;
// written by the real encoder) and one more (must be rejected). The over-limit native
// encodings are written by the small hand encoders below - the real encoders refuse them - and
// every hand encoder is checked against the real encoder at the limit (byte for byte) before
// its over-limit output is used. Over-limit protobuf encodings are made by duplicating the last
// elements in the parsed tree of the real at-limit encoding.

// The documented limits (channel/allocation.go, wire/perunio/bigint.go, channel/params.go),
// written down here independently of the constants of the code under test.
const (
	limAssets = 1024
	limParts  = 1024
	limLocked = 1024
	limBigInt = 128
	limNonce  = 32
)

type limitCase struct {
	Name   string // unique: "<container>.<path>=<limit>@limit[+1]"
	Site   string // "<structure>.<limit>": the site of the signature (the container is in the detail)
	Kind   string
	Limit  string
	Expect string
	mk     func() (input []byte, mutOff int, err error)
}

func (lc *limitCase) build() *testCase {
	c := &testCase{Seed: "limit/" + lc.Name, Kind: lc.Kind, Family: "limit", Expect: lc.Expect, Limit: lc.Site, Site: "limit:" + lc.Site, Changed: true,
		Mut: mutation{Op: "limit", Note: lc.Name + " must " + lc.Expect}}
	func() {
		defer func() {
			if r := recover(); r != nil {
				c.Broken = fmt.Sprintf("builder panicked: %v", r)
			}
		}()
		in, off, err := lc.mk()
		if err != nil {
			c.Broken = err.Error()
			return
		}
		c.Input, c.MutOff, c.Mut.Off = in, off, off
	}()
	return c
}

// ---- hand encoders of the native format (little endian, see wire/perunio) ----

type enc struct{ bytes.Buffer }

func (e *enc) u16(v int)    { binary.Write(e, binary.LittleEndian, uint16(v)) }
func (e *enc) u32(v uint32) { binary.Write(e, binary.LittleEndian, v) }
func (e *enc) i32(v int32)  { binary.Write(e, binary.LittleEndian, v) }
func (e *enc) bigint(b []byte) {
	e.WriteByte(byte(len(b)))
	e.Write(b)
}

// intBytes: the big-endian bytes of an integer that needs exactly n bytes (n = 0: zero).
func intBytes(n int) []byte { return intBytesTop(n, 0) }

// intBytesTop: the same with a chosen first (most significant) byte; 0 stands for 0x80. The
// byte length of an integer is a function of its bit length, and a check that derives it by
// rounding (BitLen/8, (BitLen+8)/8, BitLen >= 8*limit ...) is wrong only for some first bytes:
// 0x01 (bit length 8n-7, the smallest n byte integer) and 0x7f (8n-1) expose rounding down,
// 0x80 and 0xff (8n) rounding up.
func intBytesTop(n int, top byte) []byte {
	if n == 0 {
		return nil
	}
	if top == 0 {
		top = 0x80
	}
	b := make([]byte, n)
	if n > 1 {
		b[n-1] = 0x01
	}
	b[0] = top
	return b
}

// allocDim describes an allocation: dimensions and the byte length (and first byte, 0 = 0x80)
// of balance [0][0] and of the first balance of the first sub-allocation (all other balances are 1).
type allocDim struct {
	assets, parts, locked int
	balLen, subBalLen     int
	balTop, subBalTop     byte
}

func (d allocDim) bal(i, j int) []byte {
	if i == 0 && j == 0 && d.balLen > 0 {
		return intBytesTop(d.balLen, d.balTop)
	}
	return []byte{1}
}

func (d allocDim) subBal(k, i int) []byte {
	if k == 0 && i == 0 && d.subBalLen > 0 {
		return intBytesTop(d.subBalLen, d.subBalTop)
	}
	return []byte{1}
}

// firstBytes are the boundary integers of family (4) beyond the 0x80.. ones of the basic
// pairs: exactly at the limit (accepted) and one byte beyond it (rejected), per first byte.
var firstBytes = []struct {
	over bool
	top  byte
}{{false, 0x01}, {false, 0xff}, {true, 0x01}, {true, 0x7f}, {true, 0xff}}

func topSuffix(over bool, top byte) (suffix, expect string) {
	if over {
		return fmt.Sprintf("(first-byte=%02x)@limit+1", top), "reject"
	}
	return fmt.Sprintf("(first-byte=%02x)@limit", top), "accept"
}

func subID(k int) channel.ID { return cat.ID32(fmt.Sprintf("limit/sub/%d", k)) }

// real builds the allocation as a value (for the real encoder).
func (d allocDim) real() *channel.Allocation {
	a := &channel.Allocation{Balances: d.realBalances()}
	for i := 0; i < d.assets; i++ {
		a.Backends = append(a.Backends, 0)
		a.Assets = append(a.Assets, cat.Asset(i))
	}
	for k := 0; k < d.locked; k++ {
		a.Locked = append(a.Locked, *d.realSub(k, d.assets))
	}
	return a
}

func (d allocDim) realBalances() channel.Balances {
	b := make(channel.Balances, d.assets)
	for i := range b {
		b[i] = make([]channel.Bal, d.parts)
		for j := range b[i] {
			b[i][j] = new(big.Int).SetBytes(d.bal(i, j))
		}
	}
	return b
}

func (d allocDim) realSub(k, nbals int) *channel.SubAlloc {
	s := &channel.SubAlloc{ID: subID(k), IndexMap: []channel.Index{}}
	for i := 0; i < nbals; i++ {
		s.Bals = append(s.Bals, new(big.Int).SetBytes(d.subBal(k, i)))
	}
	return s
}

func (d allocDim) handBalances(e *enc) {
	e.u16(d.assets)
	e.u16(d.parts)
	for i := 0; i < d.assets; i++ {
		for j := 0; j < d.parts; j++ {
			e.bigint(d.bal(i, j))
		}
	}
}

func (d allocDim) handSub(e *enc, k, nbals int) {
	id := subID(k)
	e.Write(id[:])
	e.u16(nbals)
	for i := 0; i < nbals; i++ {
		e.bigint(d.subBal(k, i))
	}
	e.u16(0) // empty index map
}

func (d allocDim) handAlloc(e *enc) {
	e.u16(d.assets)
	e.u16(d.parts)
	e.u16(d.locked)
	for i := 0; i < d.assets; i++ {
		e.u32(0) // backend id
		ab, _ := cat.Asset(i).MarshalBinary()
		e.u16(len(ab))
		e.Write(ab)
	}
	d.handBalances(e)
	for k := 0; k < d.locked; k++ {
		d.handSub(e, k, d.assets)
	}
}

func handParts(e *enc, n int) { // wallet.AddressMapArray of n one-entry maps
	e.i32(int32(n))
	for i := 0; i < n; i++ {
		e.i32(1)
		e.i32(0)
		ab, _ := cat.WalletAddr(i).MarshalBinary()
		e.u16(len(ab))
		e.Write(ab)
	}
}

func handPeers(e *enc, n int) { // wire.AddressMapArray of n one-entry maps
	e.i32(int32(n))
	for i := 0; i < n; i++ {
		e.i32(1)
		e.i32(0)
		ab, _ := cat.WireAddr(i).MarshalBinary()
		e.u16(len(ab))
		e.Write(ab)
	}
}

func realParts(n int) []map[wallet.BackendID]wallet.Address {
	out := make([]map[wallet.BackendID]wallet.Address, n)
	for i := range out {
		out[i] = map[wallet.BackendID]wallet.Address{0: cat.WalletAddr(i)}
	}
	return out
}

func realPeers(n int) []map[wallet.BackendID]wire.Address {
	out := make([]map[wallet.BackendID]wire.Address, n)
	for i := range out {
		out[i] = map[wallet.BackendID]wire.Address{0: cat.WireAddr(i)}
	}
	return out
}

func encodeNative(v interface{}) ([]byte, error) {
	var buf bytes.Buffer
	err := perunio.Encode(&buf, v)
	return buf.Bytes(), err
}

func hand(f func(e *enc)) []byte {
	e := &enc{}
	f(e)
	return e.Bytes()
}

// splice replaces the single occurrence of part in outer by repl.
func splice(outer, part, repl []byte) ([]byte, int, error) {
	i := bytes.Index(outer, part)
	if i < 0 || len(part) == 0 {
		return nil, 0, fmt.Errorf("HARNESS: part not found in the outer encoding")
	}
	if bytes.Index(outer[i+1:], part) >= 0 {
		return nil, 0, fmt.Errorf("HARNESS: part occurs twice in the outer encoding")
	}
	out := append(append(append([]byte{}, outer[:i]...), repl...), outer[i+len(part):]...)
	return out, i, nil
}

// ---- containers: ways to put a part (allocation, balances, ...) into something a decoder kind accepts ----

func envelope(m wire.Msg) *wire.Envelope {
	return &wire.Envelope{Sender: cat.WireMap(cat.MapOne0, 0), Recipient: cat.WireMap(cat.MapOne0, 2), Msg: m}
}

func encodeEnv(s cat.Ser, m wire.Msg) ([]byte, error) { return cat.EncodeEnvelope(s, envelope(m)) }

func stateWith(a *channel.Allocation) *channel.State {
	return &channel.State{ID: cat.ID32("limit/state"), Version: 7, Allocation: *a, App: channel.NoApp(), Data: channel.NoData()}
}

func paramsWith(parts []map[wallet.BackendID]wallet.Address, nonceLen int) *channel.Params {
	return paramsWithTop(parts, nonceLen, 0)
}

// paramsWithTop: the nonce has nonceLen bytes and the given first byte (0 = 0x80).
func paramsWithTop(parts []map[wallet.BackendID]wallet.Address, nonceLen int, top byte) *channel.Params {
	return channel.NewParamsUnsafe(60, parts, channel.NoApp(), new(big.Int).SetBytes(intBytesTop(nonceLen, top)), true, false, cat.Aux(1))
}

func baseProposalWith(init *channel.Allocation, fa channel.Balances) client.BaseChannelProposal {
	return client.BaseChannelProposal{ProposalID: cat.ID32("limit/prop"), ChallengeDuration: 60, NonceShare: cat.ID32("limit/ns"),
		App: channel.NoApp(), InitData: channel.NoData(), InitBals: init, FundingAgreement: fa, Aux: cat.Aux(0)}
}

func proposalWith(init *channel.Allocation, fa channel.Balances, peers []map[wallet.BackendID]wire.Address) *client.LedgerChannelProposalMsg {
	return &client.LedgerChannelProposalMsg{BaseChannelProposal: baseProposalWith(init, fa), Participant: cat.WalletMap(cat.MapOne0, 1), Peers: peers}
}

func subProposalWith(init *channel.Allocation, fa channel.Balances) *client.SubChannelProposalMsg {
	return &client.SubChannelProposalMsg{BaseChannelProposal: baseProposalWith(init, fa), Parent: cat.ID32("limit/subparent")}
}

func virtualProposalWith(init *channel.Allocation, fa channel.Balances) *client.VirtualChannelProposalMsg {
	return &client.VirtualChannelProposalMsg{BaseChannelProposal: baseProposalWith(init, fa), Proposer: cat.WalletMap(cat.MapOne0, 1), Peers: realPeers(2),
		Parents: []channel.ID{cat.ID32("limit/vparent/0"), cat.ID32("limit/vparent/1")}, IndexMaps: [][]channel.Index{{0, 1}, {1, 0}}}
}

// proposalKinds: the three proposal messages share BaseChannelProposal (initial balances and
// funding agreement); pbBase finds it in a parsed protobuf envelope.
var proposalKinds = []struct {
	name   string
	mk     func(init *channel.Allocation, fa channel.Balances) wire.Msg
	pbBase func(env *protobuf.Envelope) *protobuf.BaseChannelProposal
}{
	{"LedgerChannelProposalMsg", func(init *channel.Allocation, fa channel.Balances) wire.Msg {
		return proposalWith(init, fa, realPeers(2))
	},
		func(env *protobuf.Envelope) *protobuf.BaseChannelProposal {
			return env.GetLedgerChannelProposalMsg().GetBaseChannelProposal()
		}},
	{"SubChannelProposalMsg", func(init *channel.Allocation, fa channel.Balances) wire.Msg { return subProposalWith(init, fa) },
		func(env *protobuf.Envelope) *protobuf.BaseChannelProposal {
			return env.GetSubChannelProposalMsg().GetBaseChannelProposal()
		}},
	{"VirtualChannelProposalMsg", func(init *channel.Allocation, fa channel.Balances) wire.Msg { return virtualProposalWith(init, fa) },
		func(env *protobuf.Envelope) *protobuf.BaseChannelProposal {
			return env.GetVirtualChannelProposalMsg().GetBaseChannelProposal()
		}},
}

func fundingWith(p *channel.Params, st *channel.State) *client.VirtualChannelFundingProposalMsg {
	upd := stateWith(allocDim{assets: 2, parts: 3}.real()) // differs from every allocation that is spliced
	upd.ID = cat.ID32("limit/parent")
	return &client.VirtualChannelFundingProposalMsg{
		ChannelUpdateMsg: client.ChannelUpdateMsg{ChannelUpdate: client.ChannelUpdate{State: upd, ActorIdx: 1}, Sig: cat.Sig("limit/upd")},
		Initial:          channel.SignedState{Params: p, State: st, Sigs: make([]wallet.Sig, st.NumParts())},
		IndexMap:         []channel.Index{0, 1}}
}

// otherState: a state whose allocation differs from every allocation that is spliced (the
// other state of a message that carries two).
func otherState(label string) *channel.State {
	st := stateWith(allocDim{assets: 2, parts: 3}.real())
	st.ID = cat.ID32("limit/" + label)
	return st
}

func updateWith(st *channel.State) client.ChannelUpdateMsg {
	return client.ChannelUpdateMsg{ChannelUpdate: client.ChannelUpdate{State: st, ActorIdx: 1}, Sig: cat.Sig("limit/upd")}
}

func signedWith(p *channel.Params, st *channel.State) channel.SignedState {
	return channel.SignedState{Params: p, State: st, Sigs: make([]wallet.Sig, st.NumParts())}
}

// container wraps an allocation into an outer encoding for one decoder kind.
type container struct {
	name    string
	kind    string
	ser     cat.Ser // 0: value codec
	sigTail bool    // the outer encoding ends with a signature mask of ceil(parts/8) bytes
	wrap    func(a *channel.Allocation) (interface{}, wire.Msg)
	// pb finds the allocation in the parsed protobuf envelope, and the list of signature slots
	// (one per participant) that has to grow with it, if there is one.
	pb func(env *protobuf.Envelope) (*protobuf.Allocation, *[][]byte)
}

func (ct container) encode(a *channel.Allocation) ([]byte, error) {
	v, m := ct.wrap(a)
	if m != nil {
		return encodeEnv(ct.ser, m)
	}
	return encodeNative(v)
}

var smallDim = allocDim{assets: 1, parts: 2} // every outer encoding is first made around this allocation

func allocContainers(ser cat.Ser) []container {
	kind := ser.String() + "-envelope"
	cs := []container{
		{name: "ChannelUpdateMsg.state.allocation", kind: kind, ser: ser, wrap: func(a *channel.Allocation) (interface{}, wire.Msg) {
			return nil, &client.ChannelUpdateMsg{ChannelUpdate: client.ChannelUpdate{State: stateWith(a), ActorIdx: 1}, Sig: cat.Sig("limit/upd")}
		}, pb: func(env *protobuf.Envelope) (*protobuf.Allocation, *[][]byte) {
			return env.GetChannelUpdateMsg().GetChannelUpdate().GetState().GetAllocation(), nil
		}},
		{name: "ChannelSyncMsg.current_tx.state.allocation", kind: kind, ser: ser, sigTail: true, wrap: func(a *channel.Allocation) (interface{}, wire.Msg) {
			st := stateWith(a)
			return nil, &client.ChannelSyncMsg{Phase: 3, CurrentTX: channel.Transaction{State: st, Sigs: make([]wallet.Sig, st.NumParts())}}
		}, pb: func(env *protobuf.Envelope) (*protobuf.Allocation, *[][]byte) {
			tx := env.GetChannelSyncMsg().GetCurrentTx()
			return tx.GetState().GetAllocation(), &tx.Sigs
		}},
		{name: "VirtualChannelFundingProposalMsg.initial.state.allocation", kind: kind, ser: ser, sigTail: true, wrap: func(a *channel.Allocation) (interface{}, wire.Msg) {
			return nil, fundingWith(paramsWith(realParts(2), 32), stateWith(a))
		}, pb: func(env *protobuf.Envelope) (*protobuf.Allocation, *[][]byte) {
			in := env.GetVirtualChannelFundingProposalMsg().GetInitial()
			return in.GetState().GetAllocation(), &in.Sigs
		}},
		{name: "LedgerChannelProposalMsg.init_bals", kind: kind, ser: ser, wrap: func(a *channel.Allocation) (interface{}, wire.Msg) {
			return nil, proposalWith(a, channel.Balances{{big.NewInt(7), big.NewInt(9)}}, realPeers(2))
		}, pb: func(env *protobuf.Envelope) (*protobuf.Allocation, *[][]byte) {
			return env.GetLedgerChannelProposalMsg().GetBaseChannelProposal().GetInitBals(), nil
		}},
		// the remaining places of an allocation in a message: the parent's update inside the two
		// virtual channel messages, the final state of a settlement, the other two proposals
		{name: "VirtualChannelFundingProposalMsg.channel_update.state.allocation", kind: kind, ser: ser, wrap: func(a *channel.Allocation) (interface{}, wire.Msg) {
			return nil, &client.VirtualChannelFundingProposalMsg{ChannelUpdateMsg: updateWith(stateWith(a)),
				Initial: signedWith(paramsWith(realParts(3), 32), otherState("initial")), IndexMap: []channel.Index{0, 1, 2}}
		}, pb: func(env *protobuf.Envelope) (*protobuf.Allocation, *[][]byte) {
			return env.GetVirtualChannelFundingProposalMsg().GetChannelUpdateMsg().GetChannelUpdate().GetState().GetAllocation(), nil
		}},
		{name: "VirtualChannelSettlementProposalMsg.channel_update.state.allocation", kind: kind, ser: ser, wrap: func(a *channel.Allocation) (interface{}, wire.Msg) {
			return nil, &client.VirtualChannelSettlementProposalMsg{ChannelUpdateMsg: updateWith(stateWith(a)),
				Final: signedWith(paramsWith(realParts(3), 32), otherState("final"))}
		}, pb: func(env *protobuf.Envelope) (*protobuf.Allocation, *[][]byte) {
			return env.GetVirtualChannelSettlementProposalMsg().GetChannelUpdateMsg().GetChannelUpdate().GetState().GetAllocation(), nil
		}},
		{name: "VirtualChannelSettlementProposalMsg.final.state.allocation", kind: kind, ser: ser, sigTail: true, wrap: func(a *channel.Allocation) (interface{}, wire.Msg) {
			return nil, &client.VirtualChannelSettlementProposalMsg{ChannelUpdateMsg: updateWith(otherState("parent")),
				Final: signedWith(paramsWith(realParts(2), 32), stateWith(a))}
		}, pb: func(env *protobuf.Envelope) (*protobuf.Allocation, *[][]byte) {
			fin := env.GetVirtualChannelSettlementProposalMsg().GetFinal()
			return fin.GetState().GetAllocation(), &fin.Sigs
		}},
		{name: "SubChannelProposalMsg.init_bals", kind: kind, ser: ser, wrap: func(a *channel.Allocation) (interface{}, wire.Msg) {
			return nil, subProposalWith(a, channel.Balances{{big.NewInt(7), big.NewInt(9)}})
		}, pb: func(env *protobuf.Envelope) (*protobuf.Allocation, *[][]byte) {
			return env.GetSubChannelProposalMsg().GetBaseChannelProposal().GetInitBals(), nil
		}},
		{name: "VirtualChannelProposalMsg.init_bals", kind: kind, ser: ser, wrap: func(a *channel.Allocation) (interface{}, wire.Msg) {
			return nil, virtualProposalWith(a, channel.Balances{{big.NewInt(7), big.NewInt(9)}})
		}, pb: func(env *protobuf.Envelope) (*protobuf.Allocation, *[][]byte) {
			return env.GetVirtualChannelProposalMsg().GetBaseChannelProposal().GetInitBals(), nil
		}},
	}
	if ser == cat.Native {
		cs = append(cs,
			container{name: "Allocation", kind: "value:channel.Allocation", wrap: func(a *channel.Allocation) (interface{}, wire.Msg) { return a, nil }},
			container{name: "State.allocation", kind: "value:channel.State", wrap: func(a *channel.Allocation) (interface{}, wire.Msg) { return stateWith(a), nil }},
			container{name: "Transaction.state.allocation", kind: "value:channel.Transaction", sigTail: true, wrap: func(a *channel.Allocation) (interface{}, wire.Msg) {
				st := stateWith(a)
				return channel.Transaction{State: st, Sigs: make([]wallet.Sig, st.NumParts())}, nil
			}})
	}
	return cs
}

// nativeAllocCase builds, for a native container, the outer encoding around the allocation d.
// Within the limits the real encoder writes it (and the hand encoder is compared with it);
// beyond them the hand-encoded allocation is spliced into the real outer encoding of a small one.
func nativeAllocCase(ct container, d allocDim, within bool) ([]byte, int, error) {
	small, err := ct.encode(smallDim.real())
	if err != nil {
		return nil, 0, fmt.Errorf("HARNESS: encoding the small outer value: %v", err)
	}
	smallPart := hand(smallDim.handAlloc)
	viaHand := func(d allocDim) ([]byte, int, error) {
		out, off, err := splice(small, smallPart, hand(d.handAlloc))
		if err != nil {
			return nil, 0, err
		}
		if ct.sigTail {
			out = append(out, make([]byte, (d.parts+7)/8-(smallDim.parts+7)/8)...)
		}
		return out, off, nil
	}
	if within {
		realEnc, err := ct.encode(d.real())
		if err != nil {
			return nil, 0, fmt.Errorf("HARNESS: the real encoder refuses the at-limit value: %v", err)
		}
		h, off, err := viaHand(d)
		if err != nil {
			return nil, 0, err
		}
		if !bytes.Equal(h, realEnc) {
			return nil, 0, fmt.Errorf("HARNESS: hand encoder disagrees with the real encoder at the limit (%d vs %d bytes)", len(h), len(realEnc))
		}
		return realEnc, off, nil
	}
	// self-check of the hand encoder at the limit of every dimension before going beyond
	chk := d
	if chk.assets > limAssets {
		chk.assets = limAssets
	}
	if chk.parts > limParts {
		chk.parts = limParts
	}
	if chk.locked > limLocked {
		chk.locked = limLocked
	}
	if chk.balLen > limBigInt {
		chk.balLen = limBigInt
	}
	if chk.subBalLen > limBigInt {
		chk.subBalLen = limBigInt
	}
	if _, _, err := nativeAllocCase(ct, chk, true); err != nil {
		return nil, 0, err
	}
	return viaHand(d)
}

// pbAllocCase: protobuf container. Within the limits: the real encoder. Beyond: the parsed tree
// of the real at-limit encoding with the last elements duplicated.
func pbAllocCase(ct container, d allocDim, within bool) ([]byte, int, error) {
	chk := d
	grow := ""
	switch {
	case d.assets > limAssets:
		chk.assets, grow = limAssets, "assets"
	case d.parts > limParts:
		chk.parts, grow = limParts, "parts"
	case d.locked > limLocked:
		chk.locked, grow = limLocked, "locked"
	case d.balLen > limBigInt:
		chk.balLen, grow = limBigInt, "bal"
	case d.subBalLen > limBigInt:
		chk.subBalLen, grow = limBigInt, "subbal"
	}
	at, err := ct.encode(chk.real())
	if err != nil {
		return nil, 0, fmt.Errorf("HARNESS: the real protobuf encoder refuses the at-limit value: %v", err)
	}
	if within {
		return at, 2, nil
	}
	env, err := pbDecodeSeed(at)
	if err != nil {
		return nil, 0, err
	}
	if ct.pb == nil {
		return nil, 0, fmt.Errorf("HARNESS: container %s has no protobuf path", ct.name)
	}
	al, sigs := ct.pb(env)
	if al == nil {
		return nil, 0, fmt.Errorf("HARNESS: no allocation in the parsed tree")
	}
	if grow == "parts" && sigs != nil {
		*sigs = append(*sigs, []byte{})
	}
	one := []byte{1}
	switch grow {
	case "assets":
		al.Assets = append(al.Assets, al.Assets[len(al.Assets)-1])
		al.Backends = append(al.Backends, al.Backends[len(al.Backends)-1])
		rows := al.Balances.Balances
		al.Balances.Balances = append(rows, proto.Clone(rows[len(rows)-1]).(*protobuf.Balance))
		for _, l := range al.Locked {
			l.Bals.Balance = append(l.Bals.Balance, one)
		}
	case "parts":
		for _, row := range al.Balances.Balances {
			row.Balance = append(row.Balance, one)
		}
	case "locked":
		al.Locked = append(al.Locked, proto.Clone(al.Locked[len(al.Locked)-1]).(*protobuf.SubAlloc))
	case "bal":
		al.Balances.Balances[0].Balance[0] = d.bal(0, 0)
	case "subbal":
		al.Locked[0].Bals.Balance[0] = d.subBal(0, 0)
	default:
		return nil, 0, fmt.Errorf("HARNESS: nothing to grow")
	}
	in, err := pbFrame(env)
	return in, 2, err
}

// limitCases is the fixed list of family (4).
func limitCases() []limitCase {
	var out []limitCase
	add := func(path, suffix, kind, site, expect string, mk func() ([]byte, int, error)) {
		out = append(out, limitCase{Name: path + suffix, Site: site, Kind: kind, Limit: site, Expect: expect, mk: mk})
	}
	// path: where the structure sits (unique name); site: "<structure>.<limit>"
	pair := func(path, kind, site string, at, over func() ([]byte, int, error)) {
		add(path, "@limit", kind, site, "accept", at)
		add(path, "@limit+1", kind, site, "reject", over)
	}

	// allocations inside every container, native and protobuf
	dims := []struct {
		limit    string
		at, over allocDim
	}{
		{"assets", allocDim{assets: limAssets, parts: 2}, allocDim{assets: limAssets + 1, parts: 2}},
		{"participants", allocDim{assets: 1, parts: limParts}, allocDim{assets: 1, parts: limParts + 1}},
		{"sub-allocations", allocDim{assets: 1, parts: 2, locked: limLocked}, allocDim{assets: 1, parts: 2, locked: limLocked + 1}},
		{"balance-bytes", allocDim{assets: 1, parts: 2, balLen: limBigInt}, allocDim{assets: 1, parts: 2, balLen: limBigInt + 1}},
		{"sub-allocation-balance-bytes", allocDim{assets: 1, parts: 2, locked: 1, subBalLen: limBigInt}, allocDim{assets: 1, parts: 2, locked: 1, subBalLen: limBigInt + 1}},
	}
	for _, ser := range cat.Sers {
		for _, ct := range allocContainers(ser) {
			for _, dm := range dims {
				ct, dm := ct, dm
				f := nativeAllocCase
				if ser == cat.Protobuf {
					f = pbAllocCase
				}
				pair(ct.name+"."+dm.limit, ct.kind, "Allocation."+dm.limit,
					func() ([]byte, int, error) { return f(ct, dm.at, true) },
					func() ([]byte, int, error) { return f(ct, dm.over, false) })
				// the integer dimensions again with the other first bytes
				if dm.at.balLen == 0 && dm.at.subBalLen == 0 {
					continue
				}
				for _, fb := range firstBytes {
					fb, d := fb, dm.at
					if fb.over {
						d = dm.over
					}
					d.balTop, d.subBalTop = fb.top, fb.top
					suffix, expect := topSuffix(fb.over, fb.top)
					add(ct.name+"."+dm.limit, suffix, ct.kind, "Allocation."+dm.limit, expect,
						func() ([]byte, int, error) { return f(ct, d, !fb.over) })
				}
			}
		}
	}

	// balances: as a value and as the funding agreement of a proposal
	balDims := []struct {
		limit    string
		at, over allocDim
	}{
		{"assets", allocDim{assets: limAssets, parts: 2}, allocDim{assets: limAssets + 1, parts: 2}},
		{"participants", allocDim{assets: 1, parts: limParts}, allocDim{assets: 1, parts: limParts + 1}},
		{"balance-bytes", allocDim{assets: 1, parts: 2, balLen: limBigInt}, allocDim{assets: 1, parts: 2, balLen: limBigInt + 1}},
		{"balance-bytes-255", allocDim{assets: 1, parts: 2, balLen: limBigInt}, allocDim{assets: 1, parts: 2, balLen: 255}},
	}
	// balAt / balOver: the balances dm.at from the real encoder (checked against the hand
	// encoder), dm.over from the hand encoder (after the same check at the limit)
	balAt := func(at allocDim) ([]byte, int, error) {
		r, err := encodeNative(at.realBalances())
		if err == nil && !bytes.Equal(r, hand(at.handBalances)) {
			err = fmt.Errorf("HARNESS: hand encoder disagrees with the real encoder at the limit")
		}
		return r, 0, err
	}
	balOver := func(at, over allocDim) ([]byte, int, error) {
		if _, _, err := balAt(at); err != nil {
			return nil, 0, err
		}
		return hand(over.handBalances), 0, nil
	}
	// funding agreement of a proposal (distinct values 7, 9 mark the small one)
	smallFA := channel.Balances{{big.NewInt(7), big.NewInt(9)}}
	smallFAEnc := hand(func(e *enc) { e.u16(1); e.u16(2); e.bigint([]byte{7}); e.bigint([]byte{9}) })
	faInit := allocDim{assets: 1, parts: 2}
	faNativeAt := func(pk int, at allocDim) ([]byte, int, error) {
		r, err := encodeEnv(cat.Native, proposalKinds[pk].mk(faInit.real(), at.realBalances()))
		return r, 0, err
	}
	faNativeOver := func(pk int, at, over allocDim) ([]byte, int, error) {
		small, err := encodeEnv(cat.Native, proposalKinds[pk].mk(faInit.real(), smallFA))
		if err != nil {
			return nil, 0, err
		}
		atEnc, _, err := faNativeAt(pk, at)
		if err != nil {
			return nil, 0, err
		}
		if h, _, err := splice(small, smallFAEnc, hand(at.handBalances)); err != nil || !bytes.Equal(h, atEnc) {
			return nil, 0, fmt.Errorf("HARNESS: spliced hand encoding disagrees with the real encoder at the limit (%v)", err)
		}
		return splice(small, smallFAEnc, hand(over.handBalances))
	}
	faPBAt := func(pk int, at allocDim) ([]byte, int, error) {
		r, err := encodeEnv(cat.Protobuf, proposalKinds[pk].mk(faInit.real(), at.realBalances()))
		return r, 2, err
	}
	faPBOver := func(pk int, at, over allocDim) ([]byte, int, error) {
		atEnc, _, err := faPBAt(pk, at)
		if err != nil {
			return nil, 0, err
		}
		env, err := pbDecodeSeed(atEnc)
		if err != nil {
			return nil, 0, err
		}
		fa := proposalKinds[pk].pbBase(env).GetFundingAgreement()
		if fa == nil {
			return nil, 0, fmt.Errorf("HARNESS: no funding agreement in the parsed tree")
		}
		switch {
		case over.assets > limAssets:
			fa.Balances = append(fa.Balances, proto.Clone(fa.Balances[0]).(*protobuf.Balance))
		case over.parts > limParts:
			fa.Balances[0].Balance = append(fa.Balances[0].Balance, []byte{1})
		default:
			fa.Balances[0].Balance[0] = over.bal(0, 0)
		}
		in, err := pbFrame(env)
		return in, 2, err
	}
	for _, dm := range balDims {
		dm := dm
		bsite := "Balances." + strings.TrimSuffix(dm.limit, "-255")
		// variants: the basic pair, and for the integer dimension the other first bytes
		type variant struct {
			suffixAt, suffixOver string // "" = no such case
			at, over             allocDim
		}
		vs := []variant{{"@limit", "@limit+1", dm.at, dm.over}}
		if dm.limit == "balance-bytes" {
			for _, fb := range firstBytes {
				at, over := dm.at, dm.over
				at.balTop, over.balTop = fb.top, fb.top
				suffix, _ := topSuffix(fb.over, fb.top)
				if fb.over {
					vs = append(vs, variant{"", suffix, at, over})
				} else {
					vs = append(vs, variant{suffix, "", at, over})
				}
			}
		}
		for _, v := range vs {
			v := v
			cases := func(path, kind string, at, over func() ([]byte, int, error)) {
				if v.suffixAt != "" {
					add(path, v.suffixAt, kind, bsite, "accept", at)
				}
				if v.suffixOver != "" {
					add(path, v.suffixOver, kind, bsite, "reject", over)
				}
			}
			cases("Balances."+dm.limit, "value:channel.Balances",
				func() ([]byte, int, error) { return balAt(v.at) },
				func() ([]byte, int, error) { return balOver(v.at, v.over) })
			for pk := range proposalKinds {
				pk := pk
				path := proposalKinds[pk].name + ".funding_agreement." + dm.limit
				cases(path, "native-envelope",
					func() ([]byte, int, error) { return faNativeAt(pk, v.at) },
					func() ([]byte, int, error) { return faNativeOver(pk, v.at, v.over) })
				cases(path, "protobuf-envelope",
					func() ([]byte, int, error) { return faPBAt(pk, v.at) },
					func() ([]byte, int, error) { return faPBOver(pk, v.at, v.over) })
			}
		}
	}

	// big integers on their own
	for _, n := range []int{limBigInt + 1, 255} {
		n := n
		pair(fmt.Sprintf("BigInt.bytes-%d", n), "value:perunio.BigInt", "BigInt.integer-bytes",
			func() ([]byte, int, error) {
				r, err := encodeNative(perunio.BigInt{Int: new(big.Int).SetBytes(intBytes(limBigInt))})
				if err == nil && !bytes.Equal(r, hand(func(e *enc) { e.bigint(intBytes(limBigInt)) })) {
					err = fmt.Errorf("HARNESS: hand encoder disagrees with the real encoder at the limit")
				}
				return r, 0, err
			},
			func() ([]byte, int, error) { return hand(func(e *enc) { e.bigint(intBytes(n)) }), 0, nil })
	}
	for _, fb := range firstBytes {
		fb := fb
		suffix, expect := topSuffix(fb.over, fb.top)
		add("BigInt.bytes", suffix, "value:perunio.BigInt", "BigInt.integer-bytes", expect, func() ([]byte, int, error) {
			h := hand(func(e *enc) { e.bigint(intBytesTop(limBigInt, fb.top)) })
			r, err := encodeNative(perunio.BigInt{Int: new(big.Int).SetBytes(intBytesTop(limBigInt, fb.top))})
			if err != nil || !bytes.Equal(r, h) {
				return nil, 0, fmt.Errorf("HARNESS: hand encoder disagrees with the real encoder at the limit (%v)", err)
			}
			if fb.over {
				return hand(func(e *enc) { e.bigint(intBytesTop(limBigInt+1, fb.top)) }), 0, nil
			}
			return r, 0, nil
		})
	}

	// sub-allocation value: number of balances (one per asset)
	sd := allocDim{}
	pair("SubAlloc.bals", "value:channel.SubAlloc", "SubAlloc.assets",
		func() ([]byte, int, error) {
			r, err := encodeNative(*sd.realSub(0, limAssets))
			if err == nil && !bytes.Equal(r, hand(func(e *enc) { sd.handSub(e, 0, limAssets) })) {
				err = fmt.Errorf("HARNESS: hand encoder disagrees with the real encoder at the limit")
			}
			return r, 32, err
		},
		func() ([]byte, int, error) {
			if r, err := encodeNative(*sd.realSub(0, limAssets)); err != nil || !bytes.Equal(r, hand(func(e *enc) { sd.handSub(e, 0, limAssets) })) {
				return nil, 0, fmt.Errorf("HARNESS: hand encoder disagrees with the real encoder at the limit (%v)", err)
			}
			return hand(func(e *enc) { sd.handSub(e, 0, limAssets+1) }), 32, nil
		})
	bd := allocDim{subBalLen: limBigInt}
	bo := allocDim{subBalLen: limBigInt + 1}
	pair("SubAlloc.balance-bytes", "value:channel.SubAlloc", "SubAlloc.balance-bytes",
		func() ([]byte, int, error) { r, err := encodeNative(*bd.realSub(0, 2)); return r, 34, err },
		func() ([]byte, int, error) { return hand(func(e *enc) { bo.handSub(e, 0, 2) }), 34, nil })
	for _, fb := range firstBytes {
		fb := fb
		suffix, expect := topSuffix(fb.over, fb.top)
		add("SubAlloc.balance-bytes", suffix, "value:channel.SubAlloc", "SubAlloc.balance-bytes", expect, func() ([]byte, int, error) {
			at, over := bd, bo
			at.subBalTop, over.subBalTop = fb.top, fb.top
			r, err := encodeNative(*at.realSub(0, 2))
			if err != nil || !bytes.Equal(r, hand(func(e *enc) { at.handSub(e, 0, 2) })) {
				return nil, 0, fmt.Errorf("HARNESS: hand encoder disagrees with the real encoder at the limit (%v)", err)
			}
			if fb.over {
				return hand(func(e *enc) { over.handSub(e, 0, 2) }), 34, nil
			}
			return r, 34, nil
		})
	}

	// channel parameters: participants and nonce length; as a value, and inside the signed
	// state of a virtual channel funding proposal (native and protobuf)
	smallParts := hand(func(e *enc) { handParts(e, 2) })
	paramsNative := func(n int, within bool, wrap func(p *channel.Params) ([]byte, error)) ([]byte, int, error) {
		small, err := wrap(paramsWith(realParts(2), limNonce))
		if err != nil {
			return nil, 0, err
		}
		at, err := wrap(paramsWith(realParts(limParts), limNonce))
		if err != nil {
			return nil, 0, fmt.Errorf("HARNESS: the real encoder refuses the at-limit value: %v", err)
		}
		h, off, err := splice(small, smallParts, hand(func(e *enc) { handParts(e, limParts) }))
		if err != nil || !bytes.Equal(h, at) {
			return nil, 0, fmt.Errorf("HARNESS: spliced hand encoding disagrees with the real encoder at the limit (%v)", err)
		}
		if within {
			return at, off, nil
		}
		return splice(small, smallParts, hand(func(e *enc) { handParts(e, n) }))
	}
	valueWrap := func(p *channel.Params) ([]byte, error) { return encodeNative(p) }
	fundWrap := func(s cat.Ser) func(p *channel.Params) ([]byte, error) {
		return func(p *channel.Params) ([]byte, error) {
			return encodeEnv(s, fundingWith(p, stateWith(allocDim{assets: 1, parts: 2}.real())))
		}
	}
	pair("Params.parts", "value:channel.Params", "Params.participants",
		func() ([]byte, int, error) { return paramsNative(limParts, true, valueWrap) },
		func() ([]byte, int, error) { return paramsNative(limParts+1, false, valueWrap) })
	pair("VirtualChannelFundingProposalMsg.initial.params.parts", "native-envelope", "Params.participants",
		func() ([]byte, int, error) { return paramsNative(limParts, true, fundWrap(cat.Native)) },
		func() ([]byte, int, error) { return paramsNative(limParts+1, false, fundWrap(cat.Native)) })
	// the nonce: the real encoders do not check its length
	pair("Params.nonce", "value:channel.Params", "Params.nonce-bytes",
		func() ([]byte, int, error) {
			r, err := encodeNative(paramsWith(realParts(2), limNonce))
			return r, 8, err
		},
		func() ([]byte, int, error) {
			r, err := encodeNative(paramsWith(realParts(2), limNonce+1))
			return r, 8, err
		})
	settleWrap := func(s cat.Ser) func(p *channel.Params) ([]byte, error) {
		return func(p *channel.Params) ([]byte, error) {
			return encodeEnv(s, &client.VirtualChannelSettlementProposalMsg{ChannelUpdateMsg: updateWith(otherState("parent")),
				Final: signedWith(p, stateWith(allocDim{assets: 1, parts: 2}.real()))})
		}
	}
	for _, s := range cat.Sers {
		s := s
		off := 0
		if s == cat.Protobuf {
			off = 2
		}
		pair("VirtualChannelFundingProposalMsg.initial.params.nonce", s.String()+"-envelope", "Params.nonce-bytes",
			func() ([]byte, int, error) {
				r, err := fundWrap(s)(paramsWith(realParts(2), limNonce))
				return r, off, err
			},
			func() ([]byte, int, error) {
				r, err := fundWrap(s)(paramsWith(realParts(2), limNonce+1))
				return r, off, err
			})
		pair("VirtualChannelSettlementProposalMsg.final.params.nonce", s.String()+"-envelope", "Params.nonce-bytes",
			func() ([]byte, int, error) {
				r, err := settleWrap(s)(paramsWith(realParts(2), limNonce))
				return r, off, err
			},
			func() ([]byte, int, error) {
				r, err := settleWrap(s)(paramsWith(realParts(2), limNonce+1))
				return r, off, err
			})
	}
	// the nonce again with the other first bytes, in every place
	for _, fb := range firstBytes {
		fb := fb
		n := limNonce
		if fb.over {
			n++
		}
		suffix, expect := topSuffix(fb.over, fb.top)
		add("Params.nonce", suffix, "value:channel.Params", "Params.nonce-bytes", expect,
			func() ([]byte, int, error) {
				r, err := encodeNative(paramsWithTop(realParts(2), n, fb.top))
				return r, 8, err
			})
		for _, s := range cat.Sers {
			s := s
			off := 0
			if s == cat.Protobuf {
				off = 2
			}
			add("VirtualChannelFundingProposalMsg.initial.params.nonce", suffix, s.String()+"-envelope", "Params.nonce-bytes", expect,
				func() ([]byte, int, error) {
					r, err := fundWrap(s)(paramsWithTop(realParts(2), n, fb.top))
					return r, off, err
				})
			add("VirtualChannelSettlementProposalMsg.final.params.nonce", suffix, s.String()+"-envelope", "Params.nonce-bytes", expect,
				func() ([]byte, int, error) {
					r, err := settleWrap(s)(paramsWithTop(realParts(2), n, fb.top))
					return r, off, err
				})
		}
	}
	// protobuf: 1025 full participants do not fit a 64 KiB frame; 1025 participants without
	// address do (no positive control: the real encoder cannot express 1024 either)
	add("VirtualChannelFundingProposalMsg.initial.params.parts(no-address)", "@limit+1", "protobuf-envelope", "Params.participants", "reject",
		func() ([]byte, int, error) {
			at, err := fundWrap(cat.Protobuf)(paramsWith(realParts(2), limNonce))
			if err != nil {
				return nil, 0, err
			}
			env, err := pbDecodeSeed(at)
			if err != nil {
				return nil, 0, err
			}
			pp := env.GetVirtualChannelFundingProposalMsg().GetInitial().GetParams()
			for len(pp.Parts) < limParts+1 {
				pp.Parts = append(pp.Parts, &protobuf.Address{})
			}
			in, err := pbFrame(env)
			return in, 2, err
		})

	// peers of a ledger channel proposal (one per participant)
	smallPeers := hand(func(e *enc) { handPeers(e, 2) })
	init := allocDim{assets: 1, parts: 2}
	fa := channel.Balances{{big.NewInt(7), big.NewInt(9)}}
	pair("LedgerChannelProposalMsg.peers", "native-envelope", "LedgerChannelProposalMsg.peers",
		func() ([]byte, int, error) {
			r, err := encodeEnv(cat.Native, proposalWith(init.real(), fa, realPeers(limParts)))
			return r, 0, err
		},
		func() ([]byte, int, error) {
			small, err := encodeEnv(cat.Native, proposalWith(init.real(), fa, realPeers(2)))
			if err != nil {
				return nil, 0, err
			}
			at, err := encodeEnv(cat.Native, proposalWith(init.real(), fa, realPeers(limParts)))
			if err != nil {
				return nil, 0, err
			}
			if h, _, err := splice(small, smallPeers, hand(func(e *enc) { handPeers(e, limParts) })); err != nil || !bytes.Equal(h, at) {
				return nil, 0, fmt.Errorf("HARNESS: spliced hand encoding disagrees with the real encoder at the limit (%v)", err)
			}
			return splice(small, smallPeers, hand(func(e *enc) { handPeers(e, limParts+1) }))
		})
	pair("LedgerChannelProposalMsg.peers", "protobuf-envelope", "LedgerChannelProposalMsg.peers",
		func() ([]byte, int, error) {
			r, err := encodeEnv(cat.Protobuf, proposalWith(init.real(), fa, realPeers(limParts)))
			return r, 2, err
		},
		func() ([]byte, int, error) {
			at, err := encodeEnv(cat.Protobuf, proposalWith(init.real(), fa, realPeers(limParts)))
			if err != nil {
				return nil, 0, err
			}
			env, err := pbDecodeSeed(at)
			if err != nil {
				return nil, 0, err
			}
			m := env.GetLedgerChannelProposalMsg()
			m.Peers = append(m.Peers, proto.Clone(m.Peers[len(m.Peers)-1]).(*protobuf.Address))
			in, err := pbFrame(env)
			return in, 2, err
		})
	return out
}
