// Package decode: engine ENUM for C13 - decoding arbitrary bytes never panics and enforces the
// documented size limits. Inputs are enumerated (never sampled) from the seed catalogue
// verif/harness/codec/cat: truncations, single byte substitutions, multi-byte writes over the
// encoder's own length / count / identifier fields, well-formed encodings at and beyond the
// documented limits, and structural mutations of the protobuf message tree. Every input is
// given to the real decoder of its kind (native envelope, protobuf envelope, value codec).
//
// Process layout. A decoder may die in a way that cannot be recovered in-process (a runtime
// fatal error when a hostile length makes it allocate more than the address-space cap, a stack
// overflow) or hang. TestCheck therefore never decodes anything itself: it is a supervisor that
// re-executes this test binary as a child under `ulimit -v`. The batch child runs the cases of
// the shard in order, writes the index of the case it is about to run to a progress file, and
// checkpoints its cumulative result about once per second. If the child dies, the supervisor
// re-runs the case named by the progress file ALONE in a fresh child under the same cap (earlier
// garbage counts against the cap, so only a death of the lone run is a verdict), records
// C13:fatal / C13:hang if that dies too or otherwise the ordinary result of the lone run, and
// restarts the batch after the last checkpoint with that case on the skip list.
package decode

import (
	"bytes"
	"compress/gzip"
	"encoding/base64"
	"encoding/binary"
	"encoding/hex"
	"encoding/json"
	"fmt"
	"io"
	"os"
	"os/exec"
	"path/filepath"
	"runtime"
	"sort"
	"strconv"
	"strings"
	"sync/atomic"
	"syscall"
	"testing"
	"time"

	"verif/engine/report"
)

const (
	defaultMemKB   = 4194304          // address-space cap of the children (KiB), as in C13.json
	stallLimit     = 90 * time.Second // no new case for this long: the supervisor kills the child
	exitHang       = 97               // exit code of a child whose watchdog fired
	maxLoneRuns    = 20000            // safety valve per shard
	progressIdle   = ^uint64(0)       // progress record of a child that is not inside a case
	checkpointTick = time.Second
)

// watchdogLimit: one decode may take this long before the child aborts itself.
var watchdogLimit = func() time.Duration {
	if v, err := strconv.Atoi(os.Getenv("VERIF_DECODE_WATCHDOG_S")); err == nil && v > 0 { // self-test of the supervision only
		return time.Duration(v) * time.Second
	}
	return 20 * time.Second
}()

func memKB() int {
	if v, err := strconv.Atoi(os.Getenv("VERIF_DECODE_MEMLIMIT_KB")); err == nil && v > 0 {
		return v
	}
	return defaultMemKB
}

// batchMemKB is the (lower) cap of the batch child. A decoder that allocates what a hostile
// length field announces touches gigabytes before it dies under the full cap, which takes
// seconds; the batch child dies earlier and cheaper. That is sound because a death of the batch
// child is never a verdict: the suspect input is always re-run alone under the full cap.
func batchMemKB() int {
	if v, err := strconv.Atoi(os.Getenv("VERIF_DECODE_BATCH_MEMLIMIT_KB")); err == nil && v > 0 {
		return v
	}
	return 2359296 // 2.25 GiB: the Go runtime of this binary needs 1.6 GiB of address space before the first case
}

func TestCheck(t *testing.T) {
	switch os.Getenv("VERIF_DECODE_MODE") {
	case "batch":
		childBatch()
		return
	case "lone":
		childLone()
		return
	}
	prop := os.Getenv("VERIF_PROP")
	if prop == "" {
		prop = "C13"
	}
	if prop != "C13" {
		t.Fatalf("harness decode does not serve %s", prop)
	}
	res := report.New("C13", "decode")
	defer func() {
		if err := res.Write(); err != nil {
			t.Fatal(err)
		}
	}()
	dir, err := workDir()
	if err != nil {
		t.Fatal(err)
	}
	defer os.RemoveAll(dir)
	if p := report.ReplayFile(); p != "" {
		if err := runReplay(res, dir, p); err != nil {
			t.Fatal(err)
		}
		return
	}
	if err := supervise(res, dir); err != nil {
		t.Fatal(err)
	}
}

func workDir() (string, error) {
	if out := os.Getenv("VERIF_OUT"); out != "" {
		d := out + ".d"
		os.RemoveAll(d)
		return d, os.MkdirAll(d, 0o755)
	}
	return os.MkdirTemp("", "verif-decode-")
}

// ---------------------------------------------------------------- children

// progress is the file in which a child announces the case it is about to run: 8 bytes index,
// 8 bytes sequence number, rewritten in place before every decode (no fsync needed: the file
// must survive the death of the process, not of the machine).
type progress struct {
	f   *os.File
	seq uint64
	buf [16]byte
}

func openProgress(dir string) (*progress, error) {
	f, err := os.OpenFile(filepath.Join(dir, "progress"), os.O_RDWR|os.O_CREATE|os.O_TRUNC, 0o644)
	if err != nil {
		return nil, err
	}
	p := &progress{f: f}
	p.set(progressIdle)
	return p, nil
}

func (p *progress) set(idx uint64) {
	p.seq++
	binary.LittleEndian.PutUint64(p.buf[:8], idx)
	binary.LittleEndian.PutUint64(p.buf[8:], p.seq)
	p.f.WriteAt(p.buf[:], 0)
}

func readProgress(dir string) (idx, seq uint64, ok bool) {
	b, err := os.ReadFile(filepath.Join(dir, "progress"))
	if err != nil || len(b) < 16 {
		return 0, 0, false
	}
	return binary.LittleEndian.Uint64(b[:8]), binary.LittleEndian.Uint64(b[8:]), true
}

// watchdog aborts the process when one case runs longer than watchdogLimit.
type watchdog struct{ started atomic.Int64 }

func (w *watchdog) run() {
	go func() {
		for {
			time.Sleep(500 * time.Millisecond)
			if s := w.started.Load(); s != 0 && time.Since(time.Unix(0, s)) > watchdogLimit {
				fmt.Fprintf(os.Stderr, "HARNESS-WATCHDOG: one decode has been running for more than %v; aborting\n", watchdogLimit)
				buf := make([]byte, 1<<20)
				os.Stderr.Write(buf[:runtime.Stack(buf, true)]) // where is it? (all goroutines; the supervisor picks the decoding one)
				os.Exit(exitHang)
			}
		}
	}()
}

func die(format string, a ...interface{}) {
	fmt.Fprintf(os.Stderr, "HARNESS: "+format+"\n", a...)
	os.Exit(3)
}

func readJSON(path string, v interface{}) error {
	b, err := os.ReadFile(path)
	if err != nil {
		return err
	}
	return json.Unmarshal(b, v)
}

func writeJSON(path string, v interface{}) error {
	b, err := json.Marshal(v)
	if err != nil {
		return err
	}
	tmp := path + ".tmp"
	if err := os.WriteFile(tmp, b, 0o644); err != nil {
		return err
	}
	return os.Rename(tmp, path)
}

// hashSet is the shard's set of distinct non-trivial inputs (64 bits of sha1). It lives in the
// child; new members are appended to a file at every checkpoint so that a restarted child
// continues with the same set.
type hashSet struct {
	m       map[uint64]struct{}
	pending []uint64
	path    string
}

func loadHashes(dir string, n int) (*hashSet, error) {
	h := &hashSet{m: map[uint64]struct{}{}, path: filepath.Join(dir, "hashes")}
	b, err := os.ReadFile(h.path)
	if err != nil && !os.IsNotExist(err) {
		return nil, err
	}
	if len(b) < 8*n {
		return nil, fmt.Errorf("hash file has %d bytes, checkpoint says %d entries", len(b), n)
	}
	for i := 0; i < n; i++ {
		h.m[binary.LittleEndian.Uint64(b[8*i:])] = struct{}{}
	}
	return h, os.WriteFile(h.path, b[:8*n], 0o644) // drop what was appended after the checkpoint
}

func (h *hashSet) seen(k uint64) bool { // true if new
	if _, ok := h.m[k]; ok {
		return false
	}
	h.m[k] = struct{}{}
	h.pending = append(h.pending, k)
	return true
}

func (h *hashSet) flush() (int, error) {
	if len(h.pending) == 0 {
		return 0, nil
	}
	b := make([]byte, 8*len(h.pending))
	for i, k := range h.pending {
		binary.LittleEndian.PutUint64(b[8*i:], k)
	}
	f, err := os.OpenFile(h.path, os.O_WRONLY|os.O_APPEND|os.O_CREATE, 0o644)
	if err != nil {
		return 0, err
	}
	defer f.Close()
	if _, err := f.Write(b); err != nil {
		return 0, err
	}
	n := len(h.pending)
	h.pending = h.pending[:0]
	return n, nil
}

// childBatch runs the cases of the shard from the last checkpoint on.
func childBatch() {
	dir := os.Getenv("VERIF_DECODE_DIR")
	prog, err := openProgress(dir)
	if err != nil {
		die("progress file: %v", err)
	}
	var pl plan
	if err := readJSON(filepath.Join(dir, "plan.json"), &pl); err != nil {
		die("plan: %v", err)
	}
	st := newState()
	statePath := filepath.Join(dir, "state.json")
	if _, err := os.Stat(statePath); err == nil {
		if err := readJSON(statePath, st); err != nil {
			die("state: %v", err)
		}
	}
	skip := map[int]bool{}
	var skipList []int
	if err := readJSON(filepath.Join(dir, "skip.json"), &skipList); err != nil && !os.IsNotExist(err) {
		die("skip list: %v", err)
	}
	for _, k := range skipList {
		skip[k] = true
	}
	hs, err := loadHashes(dir, st.NHashes)
	if err != nil {
		die("hashes: %v", err)
	}
	deadline := report.Deadline()
	wd := &watchdog{}
	wd.run()
	checkpoint := func(next int, done bool) {
		n, err := hs.flush()
		if err != nil {
			die("hashes: %v", err)
		}
		st.NHashes += n
		st.Next, st.Done = next, done
		if err := writeJSON(statePath, st); err != nil {
			die("checkpoint: %v", err)
		}
	}
	last := time.Now()
	from := st.Next
	total, stopAt := 0, -1
	pl.each(func(idx int, mk func() *testCase) bool {
		total = idx + 1
		if idx < from || skip[idx] {
			return true
		}
		now := time.Now()
		if now.Sub(last) >= checkpointTick {
			checkpoint(idx, false)
			last = now
			if !deadline.IsZero() && now.After(deadline) {
				st.Capped = fmt.Sprintf("deadline reached at case %d of shard %d/%d", idx, pl.Shard, pl.NShards)
				stopAt = idx
				return false
			}
		}
		c := mk()
		if c.Broken != "" {
			switch c.Broken {
			case "inapplicable":
				st.Counters["pb_pair_second_target_gone"]++
			case "oversize":
				st.Counters["pb_mutation_exceeds_frame"]++
			default:
				st.Counters["harness_case_not_built"]++
				st.note("case not built: %s %s: %s", c.Kind, c.Seed, c.Broken)
			}
			return true
		}
		if c.Site == "field4" || c.Site == "field8" {
			// a hostile value in a 4 or 8 byte field is what typically kills a decoder: make
			// everything before it durable, so that a restart has nothing to repeat
			checkpoint(idx, false)
			last = now
		}
		prog.set(uint64(idx))
		wd.started.Store(now.UnixNano())
		o := decodeOne(c.Kind, c.Input)
		wd.started.Store(0)
		st.account(c, &o, hs.seen)
		if o.Millis >= 50 {
			runtime.GC() // a slow case usually leaves a lot of garbage, which counts against the cap
		}
		if o.Millis >= 200 {
			last = time.Time{} // slow cases are not repeated after a restart: checkpoint before the next case
		}
		return true
	})
	prog.set(progressIdle)
	if stopAt >= 0 {
		checkpoint(stopAt, true)
	} else {
		checkpoint(total, true)
	}
}

// loneFile is what the supervisor hands to a lone child.
type loneFile struct {
	Case    testCase `json:"case"`
	Verbose bool     `json:"verbose"`
}

// childLone runs exactly one case and writes its outcome.
func childLone() {
	dir := os.Getenv("VERIF_DECODE_DIR")
	var lf loneFile
	if err := readJSON(filepath.Join(dir, "lone.json"), &lf); err != nil {
		die("lone case: %v", err)
	}
	wd := &watchdog{}
	wd.run()
	wd.started.Store(time.Now().UnixNano())
	o := decodeOne(lf.Case.Kind, lf.Case.Input)
	wd.started.Store(0)
	if err := writeJSON(filepath.Join(dir, "lone.out.json"), &o); err != nil {
		die("lone outcome: %v", err)
	}
}

// ---------------------------------------------------------------- supervisor

type childExit struct {
	code    int // -1: killed by a signal
	signal  string
	stalled bool // killed by the supervisor because the progress record did not change
	stderr  string
	wall    time.Duration
}

func (e childExit) String() string {
	s := fmt.Sprintf("exit code %d", e.code)
	if e.signal != "" {
		s = "killed by " + e.signal
	}
	if e.stalled {
		s += " (killed by the supervisor: no progress for " + stallLimit.String() + ")"
	}
	return s
}

// runChild re-executes this test binary in the given mode under the address-space cap.
func runChild(mode, dir string) childExit {
	errPath := filepath.Join(dir, mode+".stderr")
	errf, err := os.Create(errPath)
	if err != nil {
		return childExit{code: 3, stderr: err.Error()}
	}
	defer errf.Close()
	kb := memKB()
	if mode == "batch" && batchMemKB() < kb {
		kb = batchMemKB()
	}
	cmd := exec.Command("bash", "-c", fmt.Sprintf("ulimit -v %d 2>/dev/null; exec \"$@\"", kb), "x",
		os.Args[0], "-test.run", "^TestCheck$", "-test.timeout", "0", "-test.count", "1")
	env := []string{}
	for _, e := range os.Environ() {
		if strings.HasPrefix(e, "VERIF_OUT=") || strings.HasPrefix(e, "VERIF_REPLAY=") || strings.HasPrefix(e, "GOMEMLIMIT=") ||
			strings.HasPrefix(e, "VERIF_DECODE_MODE=") || strings.HasPrefix(e, "VERIF_DECODE_DIR=") || strings.HasPrefix(e, "VERIF_DECODE_MEMLIMIT_KB=") {
			continue
		}
		env = append(env, e)
	}
	// no GOMEMLIMIT: near the limit the collector would run back to back over a live heap that it
	// cannot shrink; instead the batch child collects right after every case that was slow
	env = append(env, "VERIF_DECODE_MODE="+mode, "VERIF_DECODE_DIR="+dir, fmt.Sprintf("VERIF_DECODE_MEMLIMIT_KB=%d", kb))
	cmd.Env = env
	cmd.Stdout = errf
	cmd.Stderr = errf
	t0 := time.Now()
	if err := cmd.Start(); err != nil {
		return childExit{code: 3, stderr: err.Error()}
	}
	done := make(chan error, 1)
	go func() { done <- cmd.Wait() }()
	var ex childExit
	lastSeq, lastChange := uint64(0), time.Now()
	tick := time.NewTicker(500 * time.Millisecond)
	defer tick.Stop()
wait:
	for {
		select {
		case err := <-done:
			if err != nil {
				ex.code = -1
				if ee, ok := err.(*exec.ExitError); ok {
					ex.code = ee.ExitCode()
					if ws, ok := ee.Sys().(syscall.WaitStatus); ok && ws.Signaled() {
						ex.signal = ws.Signal().String()
					}
				}
			}
			break wait
		case <-tick.C:
			_, seq, ok := readProgress(dir)
			if mode == "lone" || !ok {
				seq = 0
			}
			if seq != lastSeq {
				lastSeq, lastChange = seq, time.Now()
			} else if time.Since(lastChange) > stallLimit {
				ex.stalled = true
				cmd.Process.Kill()
			}
		}
	}
	ex.wall = time.Since(t0)
	errf.Sync()
	if b, err := os.ReadFile(errPath); err == nil {
		if len(b) > 24000 {
			b = b[:24000]
		}
		ex.stderr = string(b)
	}
	return ex
}

// traceOf returns the lines of the goroutine trace that matters in the output of a dying Go
// process: the goroutine that was decoding if several were printed (watchdog), else the first.
func traceOf(stderr string) []string {
	var blocks [][]string
	for _, l := range strings.Split(stderr, "\n") {
		if strings.HasPrefix(l, "goroutine ") {
			blocks = append(blocks, nil)
		}
		if len(blocks) > 0 {
			blocks[len(blocks)-1] = append(blocks[len(blocks)-1], l)
		}
	}
	for _, b := range blocks {
		for _, l := range b {
			if strings.Contains(l, "harness/decode.decodeOne(") {
				return b
			}
		}
	}
	if len(blocks) > 0 {
		return blocks[0]
	}
	return nil
}

// fatalSite finds the innermost function of the module under test (not package log) in that trace.
func fatalSite(stderr string) string {
	for _, l := range traceOf(stderr) {
		if !strings.HasPrefix(l, perunPrefix) {
			continue
		}
		fn := strings.TrimPrefix(l, perunPrefix)
		if strings.HasPrefix(fn, "log.") || strings.HasPrefix(fn, "log/") {
			continue
		}
		if i := strings.LastIndex(fn, "("); i > 0 { // cut the argument list
			fn = fn[:i]
		}
		return fn
	}
	return ""
}

// stderrDigest: what the process printed before its traces, then the trace that matters.
func stderrDigest(s string) string {
	var keep []string
	for _, l := range strings.Split(s, "\n") {
		if strings.HasPrefix(l, "goroutine ") {
			break
		}
		l = strings.TrimRight(l, " \r")
		if l == "" || strings.HasPrefix(l, "pkg/test:") {
			continue
		}
		if keep = append(keep, stripVolatile(l)); len(keep) >= 8 {
			break
		}
	}
	for i, l := range traceOf(s) {
		if i >= 26 {
			break
		}
		keep = append(keep, stripVolatile(strings.TrimRight(l, " \r")))
	}
	return strings.Join(keep, "\n")
}

// loneResult is the verdict of running one case alone.
type loneResult struct {
	c       *testCase
	outcome *outcome // nil: the lone run died too
	exit    childExit
}

func runLone(dir string, c *testCase, verbose bool) loneResult {
	os.Remove(filepath.Join(dir, "lone.out.json"))
	if err := writeJSON(filepath.Join(dir, "lone.json"), &loneFile{Case: *c, Verbose: verbose}); err != nil {
		return loneResult{c: c, exit: childExit{code: 3, stderr: err.Error()}}
	}
	ex := runChild("lone", dir)
	lr := loneResult{c: c, exit: ex}
	var o outcome
	if err := readJSON(filepath.Join(dir, "lone.out.json"), &o); err == nil && o.Status != "" {
		lr.outcome = &o
	}
	return lr
}

// accountLone applies the oracle to a case that was run alone.
func accountLone(st *shardState, lr loneResult, seen func(uint64) bool) {
	c := lr.c
	if lr.outcome != nil {
		st.account(c, lr.outcome, seen)
		return
	}
	st.Counters["evaluations"]++
	st.Counters["fam_"+c.Family]++
	st.Counters["dec_"+c.Kind]++
	hang := lr.exit.code == exitHang || lr.exit.stalled
	clause, what := "fatal", fmt.Sprintf("the decoder killed its process (%s) under an address-space cap of %d KiB although the input has only %d bytes; it was run alone in a fresh process", lr.exit, memKB(), len(c.Input))
	if hang {
		clause, what = "hang", fmt.Sprintf("the decoder did not return within %v (%s); it was run alone in a fresh process", watchdogLimit, lr.exit)
		st.Counters["hangs_confirmed"]++
	} else {
		st.Counters["fatal_confirmed"]++
	}
	site := fatalSite(lr.exit.stderr)
	if site == "" {
		site = c.Site
	}
	st.Counters[clause+"_site:"+site]++
	st.violate("C13:"+clause+":"+c.Kind+"/"+site, fmt.Sprintf("%s\n%s\nlast output of the process:\n%s", what, c.describe(), stderrDigest(lr.exit.stderr)), c)
	if c.Changed && c.Family != "seed" {
		st.Counters["nontrivial"]++
		if seen(inputHash(c.Kind, c.Input)) {
			st.Counters["distinct_nontrivial"]++
		}
	}
}

func supervise(res *report.Result, dir string) error {
	shard, nshards := report.Shard()
	t0 := time.Now()
	pl := buildPlan(res.Tier, shard, nshards)
	planS := time.Since(t0).Seconds()
	if err := writeJSON(filepath.Join(dir, "plan.json"), pl); err != nil {
		return err
	}
	var skip []int
	var lones []loneResult
	restarts, unconfirmed := 0, 0
	for {
		if err := writeJSON(filepath.Join(dir, "skip.json"), skip); err != nil {
			return err
		}
		ex := runChild("batch", dir)
		st := newState()
		stErr := readJSON(filepath.Join(dir, "state.json"), st)
		if ex.code == 0 && ex.signal == "" && !ex.stalled {
			if stErr != nil || !st.Done {
				return fmt.Errorf("batch child ended without a complete result (%v): %s", stErr, stderrDigest(ex.stderr))
			}
			break
		}
		// the child died: find the case it was in
		k, _, ok := readProgress(dir)
		if !ok || k == progressIdle {
			return fmt.Errorf("batch child died outside of a case (%s):\n%s", ex, stderrDigest(ex.stderr))
		}
		for _, s := range skip {
			if s == int(k) {
				return fmt.Errorf("batch child died in case %d which is on the skip list (%s):\n%s", k, ex, stderrDigest(ex.stderr))
			}
		}
		if len(lones) >= maxLoneRuns {
			res.Cap("shard %d/%d: more than %d worker deaths; stopped at case %d", shard, nshards, maxLoneRuns, k)
			break
		}
		c := pl.caseAt(int(k))
		if c == nil || c.Broken != "" {
			return fmt.Errorf("batch child died in case %d which the supervisor cannot rebuild (%s):\n%s", k, ex, stderrDigest(ex.stderr))
		}
		lr := runLone(dir, c, false)
		if lr.outcome != nil {
			unconfirmed++
		}
		if os.Getenv("VERIF_DECODE_DEBUG") != "" {
			verdict := "died alone too: " + lr.exit.String()
			if lr.outcome != nil {
				verdict = "alone: " + lr.outcome.Status
			}
			fmt.Fprintf(os.Stderr, "[decode %d/%d] batch child %s after %.1fs in case %d (%s %s %s@%d %s); %s after %.1fs\n", shard, nshards, ex, ex.wall.Seconds(), k,
				c.Seed, c.Family, c.Mut.Op, c.Mut.Off, c.Mut.Val, verdict, lr.exit.wall.Seconds())
		}
		lones = append(lones, lr)
		skip = append(skip, int(k))
		restarts++
	}
	st := newState()
	if err := readJSON(filepath.Join(dir, "state.json"), st); err != nil {
		return err
	}
	if len(lones) > 0 {
		hs, err := loadHashes(dir, st.NHashes)
		if err != nil {
			return err
		}
		for _, lr := range lones {
			accountLone(st, lr, hs.seen)
		}
	}
	st.Counters["worker_deaths"] += int64(restarts)
	st.Counters["worker_deaths_not_reproduced_alone"] += int64(unconfirmed)
	for _, s := range pl.Seeds {
		if !s.Own {
			continue // counted by the shard that owns the seed
		}
		st.Counters["seeds_owned"]++
		if s.Dense {
			st.Counters["seeds_dense"]++
		}
		if s.TruncFrom >= 0 {
			st.Counters["seeds_truncated"]++
		}
		if s.PB {
			st.Counters["seeds_pbtree"]++
		}
		if s.PBPairs {
			st.Counters["seeds_pbpairs"]++
		}
	}
	st.Counters["max_plan_s"] = int64(planS + 0.5)
	st.Counters["max_shard_wall_s"] = int64(time.Since(t0).Seconds() + 0.5)
	st.Counters["shard_wall_s_sum"] = int64(time.Since(t0).Seconds() + 0.5)
	publish(res, st, pl)
	return nil
}

// publish turns the shard state into the report.
func publish(res *report.Result, st *shardState, pl *plan) {
	for k, v := range st.Counters {
		if strings.HasPrefix(k, "max_") {
			if v > res.Counters[k] {
				res.Counters[k] = v
			}
			continue
		}
		res.Count(k, v)
	}
	sigs := make([]string, 0, len(st.Viol))
	for s := range st.Viol {
		sigs = append(sigs, s)
	}
	sort.Strings(sigs)
	for _, s := range sigs {
		v := st.Viol[s]
		res.ViolateC("C13", s, fmt.Sprintf("[%d inputs of this shard] %s", v.Count, v.Detail), v.Replay, v.Cost)
		for i := int64(1); i < v.Count; i++ {
			res.ViolateC("C13", s, "", nil, 1<<30)
		}
	}
	for _, s := range st.Samples {
		res.Sample(12, s)
	}
	for _, n := range st.Notes {
		res.Note("%s", n)
	}
	if pl != nil {
		for _, n := range pl.Notes {
			res.Note("%s", n)
		}
		res.Extra["bound"] = fmt.Sprintf("tier %s: %d of %d catalogue seeds with dense families (substitution, field writes), %d with truncations, %d protobuf seeds with single tree mutations, %d with pairs; %d limit cases; address-space cap %d KiB",
			pl.Tier, pl.DenseSeeds, pl.TotalSeeds, pl.TruncSeeds, pl.PBSeeds, pl.PBPairSeeds, len(limitCases()), memKB())
	}
	if st.Capped != "" {
		res.Cap("%s", st.Capped)
	}
	if st.Counters["harness_case_not_built"] > 0 {
		res.Cap("%d cases could not be built by the harness (see notes)", st.Counters["harness_case_not_built"])
	}
	res.Extra["exhaustive"] = st.Done && st.Capped == ""
}

// ---------------------------------------------------------------- replay

type replayFile struct {
	Signature string `json:"signature"`
	Replay    struct {
		Harness string   `json:"harness"`
		Decoder string   `json:"decoder"`
		Seed    string   `json:"seed"`
		Family  string   `json:"family"`
		Mut     mutation `json:"mutation"`
		Hex     string   `json:"hex"`
		Gzip    string   `json:"input_gzip_b64"`
		Expect  string   `json:"expect"`
		Limit   string   `json:"limit"`
		MutOff  int      `json:"mutoff"`
		Site    string   `json:"site"`
	} `json:"replay"`
}

func runReplay(res *report.Result, dir, path string) error {
	var f replayFile
	if err := readJSON(path, &f); err != nil {
		return err
	}
	rp := f.Replay
	if rp.Harness != "decode" {
		return fmt.Errorf("replay file is not for this harness: %q", rp.Harness)
	}
	var input []byte
	var err error
	if rp.Gzip != "" {
		z, err := base64.StdEncoding.DecodeString(rp.Gzip)
		if err != nil {
			return err
		}
		zr, err := gzip.NewReader(bytes.NewReader(z))
		if err != nil {
			return err
		}
		if input, err = io.ReadAll(zr); err != nil {
			return err
		}
	} else if input, err = hex.DecodeString(rp.Hex); err != nil {
		return err
	}
	c := &testCase{Seed: rp.Seed, Kind: rp.Decoder, Family: rp.Family, Mut: rp.Mut, Input: input, Expect: rp.Expect, Limit: rp.Limit,
		MutOff: rp.MutOff, Site: rp.Site, Changed: true}
	fmt.Printf("replay C13: %s\n  (reported as %s)\n  running the input alone in a child process under ulimit -v %d\n", c.describe(), f.Signature, memKB())
	lr := runLone(dir, c, true)
	st := newState()
	accountLone(st, lr, func(uint64) bool { return true })
	if lr.outcome != nil {
		o := lr.outcome
		fmt.Printf("  result: %s, consumed %d of %d bytes, %d ms\n", o.Status, o.Consumed, len(input), o.Millis)
		if o.Err != "" {
			fmt.Printf("  error: %s\n", o.Err)
		}
		if o.Status == "panic" {
			fmt.Printf("  panic: %s\n  site: %s\n  stack (innermost first):\n    %s\n", o.Panic, o.Site, strings.ReplaceAll(o.Stack, "\n", "\n    "))
		}
	} else {
		fmt.Printf("  the child did not survive: %s\n  output of the child:\n    %s\n", lr.exit, strings.ReplaceAll(stderrDigest(lr.exit.stderr), "\n", "\n    "))
	}
	publish(res, st, nil)
	res.Extra["exhaustive"] = false
	if res.NViolations() == 0 {
		fmt.Println("  VERDICT none: the case no longer violates")
	}
	for _, v := range res.Violations {
		fmt.Printf("  VERDICT %s\n", v.Signature)
	}
	return nil
}
