package decode

import (
	"bytes"
	"encoding/binary"
	"encoding/hex"
	"fmt"
	"math"
	"strings"

	"google.golang.org/protobuf/proto"
	"google.golang.org/protobuf/reflect/protoreflect"
	"perun.network/go-perun/wire/protobuf"
)

// Family (5): structural mutations of the protobuf message tree of a seed. The seed's body is
// unmarshalled into the generated wire.pb types, one (or two) fields are changed through
// protoreflect, the tree is marshalled again by the protobuf library, framed, and given to the
// real protobuf envelope decoder.

// pbStep leads from a message into a sub-message: field number and element index (-1: singular).
type pbStep struct {
	Num int32
	Idx int
}

// pbMut is one mutation of one field.
type pbMut struct {
	Path []pbStep // to the message that holds the field
	Num  int32    // the field (for oneof-unset: 0)
	Idx  int      // element of a repeated field; -1: the field as a whole
	Op   string
	U    uint64 // numeric argument (bit pattern)
	B    []byte // bytes / string argument
	One  string // oneof name (oneof-unset)
	Name string // readable: field path with indices and the operation
	Site string // field path without indices
}

func (m *pbMut) sameTarget(o *pbMut) bool {
	if m.Num != o.Num || m.Idx != o.Idx || m.One != o.One || len(m.Path) != len(o.Path) {
		return false
	}
	for i := range m.Path {
		if m.Path[i] != o.Path[i] {
			return false
		}
	}
	return true
}

var pbMarshal = proto.MarshalOptions{Deterministic: true}

func pbDecodeSeed(seed []byte) (*protobuf.Envelope, error) {
	if len(seed) < 2 || int(binary.BigEndian.Uint16(seed)) != len(seed)-2 {
		return nil, fmt.Errorf("seed is not one protobuf frame")
	}
	env := &protobuf.Envelope{}
	if err := proto.Unmarshal(seed[2:], env); err != nil {
		return nil, err
	}
	return env, nil
}

func pbFrame(env proto.Message) ([]byte, error) {
	body, err := pbMarshal.Marshal(env)
	if err != nil {
		return nil, err
	}
	if len(body) > math.MaxUint16 {
		return nil, fmt.Errorf("body of %d bytes does not fit a frame", len(body))
	}
	out := make([]byte, 2, 2+len(body))
	binary.BigEndian.PutUint16(out, uint16(len(body)))
	return append(out, body...), nil
}

var pbNumeric = map[protoreflect.Kind][]uint64{
	protoreflect.Uint32Kind:   {0, 1, 0xff, 0x100, 0xffff, 0x10000, math.MaxUint32},
	protoreflect.Fixed32Kind:  {0, 1, 0xff, 0x100, 0xffff, 0x10000, math.MaxUint32},
	protoreflect.Uint64Kind:   {0, 1, 1 << 63, math.MaxUint64},
	protoreflect.Fixed64Kind:  {0, 1, 1 << 63, math.MaxUint64},
	protoreflect.Int32Kind:    {0, 1, uint64(math.MaxInt32), 1<<64 - 1, 1<<64 - 1<<31},
	protoreflect.Sint32Kind:   {0, 1, uint64(math.MaxInt32), 1<<64 - 1, 1<<64 - 1<<31},
	protoreflect.Sfixed32Kind: {0, 1, uint64(math.MaxInt32), 1<<64 - 1, 1<<64 - 1<<31},
	protoreflect.Int64Kind:    {0, 1, uint64(math.MaxInt64), 1<<64 - 1, 1 << 63},
	protoreflect.Sint64Kind:   {0, 1, uint64(math.MaxInt64), 1<<64 - 1, 1 << 63},
	protoreflect.Sfixed64Kind: {0, 1, uint64(math.MaxInt64), 1<<64 - 1, 1 << 63},
}

// identifier values for 4-byte bytes fields (backend ids travel as 4 big-endian bytes)
var pbIDs = []uint32{0, 1, 2, 0x7fff, 0xffff, 0xffffffff, 0x80000000, 0x7fffffff}

func scalarBits(fd protoreflect.FieldDescriptor, v protoreflect.Value) uint64 {
	switch fd.Kind() {
	case protoreflect.Uint32Kind, protoreflect.Fixed32Kind, protoreflect.Uint64Kind, protoreflect.Fixed64Kind:
		return v.Uint()
	case protoreflect.BoolKind:
		if v.Bool() {
			return 1
		}
		return 0
	case protoreflect.EnumKind:
		return uint64(v.Enum())
	default:
		return uint64(v.Int())
	}
}

func scalarValue(fd protoreflect.FieldDescriptor, u uint64) protoreflect.Value {
	switch fd.Kind() {
	case protoreflect.Uint32Kind, protoreflect.Fixed32Kind:
		return protoreflect.ValueOfUint32(uint32(u))
	case protoreflect.Uint64Kind, protoreflect.Fixed64Kind:
		return protoreflect.ValueOfUint64(u)
	case protoreflect.Int32Kind, protoreflect.Sint32Kind, protoreflect.Sfixed32Kind:
		return protoreflect.ValueOfInt32(int32(u))
	case protoreflect.BoolKind:
		return protoreflect.ValueOfBool(u != 0)
	case protoreflect.EnumKind:
		return protoreflect.ValueOfEnum(protoreflect.EnumNumber(int32(u)))
	default:
		return protoreflect.ValueOfInt64(int64(u))
	}
}

// pbEnumerate lists every single mutation of the tree in a fixed order (fields in declaration
// order, elements by index, depth first).
func pbEnumerate(root protoreflect.Message) []pbMut {
	var out []pbMut
	var walk func(m protoreflect.Message, path []pbStep, name, site string)
	walk = func(m protoreflect.Message, path []pbStep, name, site string) {
		add := func(fd protoreflect.FieldDescriptor, idx int, op string, u uint64, b []byte) {
			mu := pbMut{Path: append([]pbStep{}, path...), Idx: idx, Op: op, U: u, B: b}
			fname := ""
			if fd != nil {
				mu.Num = int32(fd.Number())
				fname = string(fd.Name())
			}
			mu.Site = strings.TrimPrefix(site+"."+fname, ".")
			mu.Name = strings.TrimPrefix(name+"."+fname, ".")
			if idx >= 0 {
				mu.Name += fmt.Sprintf("[%d]", idx)
			}
			mu.Name += ":" + op
			out = append(out, mu)
		}
		md := m.Descriptor()
		for i := 0; i < md.Oneofs().Len(); i++ {
			od := md.Oneofs().Get(i)
			if od.IsSynthetic() {
				continue
			}
			cur := m.WhichOneof(od)
			if cur != nil {
				mu := pbMut{Path: append([]pbStep{}, path...), Idx: -1, Op: "oneof-unset", One: string(od.Name())}
				mu.Site = strings.TrimPrefix(site+"."+string(od.Name()), ".")
				mu.Name = strings.TrimPrefix(name+"."+string(od.Name()), ".") + ":oneof-unset"
				out = append(out, mu)
			}
			for j := 0; j < od.Fields().Len(); j++ {
				fd := od.Fields().Get(j)
				if (cur != nil && fd.Number() == cur.Number()) || fd.Kind() != protoreflect.MessageKind {
					continue
				}
				add(fd, -1, "oneof-set-empty", 0, nil)
			}
		}
		bytesOps := func(fd protoreflect.FieldDescriptor, idx int, cur []byte) {
			if len(cur) > 0 {
				add(fd, idx, "empty", 0, []byte{})
			}
			if len(cur) != 1 {
				one := []byte{0}
				if len(cur) > 0 {
					one = []byte{cur[0]}
				}
				add(fd, idx, "1byte", 0, one)
			}
			if len(cur) > 0 {
				add(fd, idx, "+1byte", 0, append(append([]byte{}, cur...), 0))
			}
			if len(cur) == 4 && fd.Kind() == protoreflect.BytesKind {
				for _, id := range pbIDs {
					var b [4]byte
					binary.BigEndian.PutUint32(b[:], id)
					if !bytes.Equal(b[:], cur) {
						add(fd, idx, "id="+hex.EncodeToString(b[:]), 0, b[:])
					}
				}
			}
		}
		scalarOps := func(fd protoreflect.FieldDescriptor, idx int, v protoreflect.Value) {
			switch fd.Kind() {
			case protoreflect.BytesKind:
				bytesOps(fd, idx, v.Bytes())
			case protoreflect.StringKind:
				bytesOps(fd, idx, []byte(v.String()))
			case protoreflect.BoolKind:
				add(fd, idx, "flip", 1-scalarBits(fd, v), nil)
			case protoreflect.FloatKind, protoreflect.DoubleKind, protoreflect.GroupKind:
				// not used by wire.proto
			case protoreflect.EnumKind:
				for _, u := range []uint64{0, 1, uint64(math.MaxInt32)} {
					if u != scalarBits(fd, v) {
						add(fd, idx, fmt.Sprintf("num=%#x", u), u, nil)
					}
				}
			default:
				for _, u := range pbNumeric[fd.Kind()] {
					if u != scalarBits(fd, v) {
						add(fd, idx, fmt.Sprintf("num=%#x", u), u, nil)
					}
				}
			}
		}
		for i := 0; i < md.Fields().Len(); i++ {
			fd := md.Fields().Get(i)
			if fd.ContainingOneof() != nil && !fd.ContainingOneof().IsSynthetic() && !m.Has(fd) {
				continue // the other members of a oneof are handled above
			}
			fname, fsite := strings.TrimPrefix(name+"."+string(fd.Name()), "."), strings.TrimPrefix(site+"."+string(fd.Name()), ".")
			switch {
			case fd.IsMap():
				// wire.proto has no map fields
			case fd.IsList():
				l := m.Get(fd).List()
				n := l.Len()
				if n > 0 {
					add(fd, -1, "list-empty", 0, nil)
					add(fd, -1, "list-drop-last", 0, nil)
					add(fd, -1, "list-dup-last", 0, nil)
				} else {
					add(fd, -1, "list-add-default", 0, nil)
				}
				for k := 0; k < n; k++ {
					if fd.Kind() == protoreflect.MessageKind {
						add(fd, k, "elem-empty", 0, nil)
						walk(l.Get(k).Message(), append(append([]pbStep{}, path...), pbStep{int32(fd.Number()), k}), fmt.Sprintf("%s[%d]", fname, k), fsite)
					} else {
						scalarOps(fd, k, l.Get(k))
					}
				}
			case fd.Kind() == protoreflect.MessageKind:
				if m.Has(fd) {
					if fd.ContainingOneof() == nil {
						add(fd, -1, "msg-nil", 0, nil)
					}
					add(fd, -1, "msg-empty", 0, nil)
					walk(m.Get(fd).Message(), append(append([]pbStep{}, path...), pbStep{int32(fd.Number()), -1}), fname, fsite)
				} else {
					add(fd, -1, "msg-empty", 0, nil)
				}
			default:
				scalarOps(fd, -1, m.Get(fd))
			}
		}
	}
	walk(root, nil, "", "")
	return out
}

// pbApply performs the mutation on the tree; false if its target does not exist (any more).
func pbApply(root protoreflect.Message, mu *pbMut) bool {
	m := root
	for _, st := range mu.Path {
		fd := m.Descriptor().Fields().ByNumber(protoreflect.FieldNumber(st.Num))
		if fd == nil || fd.Kind() != protoreflect.MessageKind {
			return false
		}
		if st.Idx >= 0 {
			if !fd.IsList() {
				return false
			}
			l := m.Get(fd).List()
			if st.Idx >= l.Len() {
				return false
			}
			m = l.Get(st.Idx).Message()
		} else {
			if fd.IsList() || !m.Has(fd) {
				return false
			}
			m = m.Mutable(fd).Message()
		}
	}
	if mu.Op == "oneof-unset" {
		od := m.Descriptor().Oneofs().ByName(protoreflect.Name(mu.One))
		if od == nil {
			return false
		}
		cur := m.WhichOneof(od)
		if cur == nil {
			return false
		}
		m.Clear(cur)
		return true
	}
	fd := m.Descriptor().Fields().ByNumber(protoreflect.FieldNumber(mu.Num))
	if fd == nil {
		return false
	}
	scalar := func() protoreflect.Value {
		switch fd.Kind() {
		case protoreflect.BytesKind:
			return protoreflect.ValueOfBytes(append([]byte{}, mu.B...))
		case protoreflect.StringKind:
			return protoreflect.ValueOfString(string(mu.B))
		default:
			return scalarValue(fd, mu.U)
		}
	}
	switch mu.Op {
	case "oneof-set-empty", "msg-empty":
		if fd.Kind() != protoreflect.MessageKind || fd.IsList() {
			return false
		}
		m.Set(fd, m.NewField(fd))
	case "msg-nil":
		if !m.Has(fd) {
			return false
		}
		m.Clear(fd)
	case "list-empty":
		if !fd.IsList() || m.Get(fd).List().Len() == 0 {
			return false
		}
		m.Clear(fd)
	case "list-drop-last":
		if !fd.IsList() || m.Get(fd).List().Len() == 0 {
			return false
		}
		l := m.Mutable(fd).List()
		l.Truncate(l.Len() - 1)
	case "list-dup-last":
		if !fd.IsList() || m.Get(fd).List().Len() == 0 {
			return false
		}
		l := m.Mutable(fd).List()
		last := l.Get(l.Len() - 1)
		switch fd.Kind() {
		case protoreflect.MessageKind:
			l.Append(protoreflect.ValueOfMessage(proto.Clone(last.Message().Interface()).ProtoReflect()))
		case protoreflect.BytesKind:
			l.Append(protoreflect.ValueOfBytes(append([]byte{}, last.Bytes()...)))
		default:
			l.Append(last)
		}
	case "list-add-default":
		if !fd.IsList() {
			return false
		}
		l := m.Mutable(fd).List()
		l.Append(l.NewElement())
	case "elem-empty":
		if !fd.IsList() || mu.Idx >= m.Get(fd).List().Len() {
			return false
		}
		l := m.Mutable(fd).List()
		l.Set(mu.Idx, l.NewElement())
	default: // scalar operations
		if fd.Kind() == protoreflect.MessageKind {
			return false
		}
		if mu.Idx >= 0 {
			if !fd.IsList() || mu.Idx >= m.Get(fd).List().Len() {
				return false
			}
			m.Mutable(fd).List().Set(mu.Idx, scalar())
		} else {
			if fd.IsList() {
				return false
			}
			m.Set(fd, scalar())
		}
	}
	return true
}

// pbCount is the number of single mutations of a seed (0 if it cannot be parsed).
func pbCount(seed []byte) int {
	env, err := pbDecodeSeed(seed)
	if err != nil {
		return 0
	}
	return len(pbEnumerate(env.ProtoReflect()))
}

// pbCases emits the single mutations of the seed and, if planned, every pair of mutations of
// two different fields (the second is applied to the result of the first; a pair whose second
// target no longer exists is emitted as a broken case so that indices stay aligned).
func pbCases(s *planSeed, base func(string) *testCase, emit func(func() *testCase) bool) bool {
	env, err := pbDecodeSeed(s.Bytes)
	if err != nil {
		return emit(func() *testCase {
			c := base("pbtree")
			c.Broken = "seed does not parse as a protobuf frame: " + err.Error()
			return c
		})
	}
	muts := pbEnumerate(env.ProtoReflect())
	build := func(fam string, ms ...*pbMut) *testCase {
		c := base(fam)
		c.MutOff = -1
		tree := proto.Clone(env).(*protobuf.Envelope)
		var names []string
		for _, mu := range ms {
			names = append(names, mu.Name)
			if !pbApply(tree.ProtoReflect(), mu) {
				c.Broken = "inapplicable"
			}
		}
		c.Site = ms[len(ms)-1].Site
		c.Mut = mutation{Op: "pb", Off: -1, Note: strings.Join(names, " + ")}
		if c.Broken != "" {
			return c
		}
		in, err := pbFrame(tree)
		if err != nil {
			c.Broken = "oversize"
			return c
		}
		c.Input = in
		c.Changed = !bytes.Equal(in, s.Bytes)
		return c
	}
	for i := range muts {
		mu := &muts[i]
		if !emit(func() *testCase { return build("pbtree", mu) }) {
			return false
		}
	}
	if s.PBPairs {
		for i := range muts {
			for j := i + 1; j < len(muts); j++ {
				a, b := &muts[i], &muts[j]
				if a.sameTarget(b) {
					continue
				}
				if !emit(func() *testCase { return build("pbpair", a, b) }) {
					return false
				}
			}
		}
	}
	return true
}
