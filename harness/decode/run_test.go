package decode

import (
	"bytes"
	"compress/gzip"
	"crypto/sha1"
	"encoding/base64"
	"encoding/binary"
	"encoding/hex"
	"fmt"
	"io"
	"path/filepath"
	"regexp"
	"runtime"
	"strings"
	"time"

	"verif/harness/codec/cat"
)

const perunPrefix = "perun.network/go-perun/"

// reader hands the decoder the whole input (chunking is C16's subject) and records how far
// the decoder got: off is the number of bytes consumed, hitEOF that it asked for more than
// the input holds.
type reader struct {
	data   []byte
	off    int
	hitEOF bool
}

func (r *reader) Read(p []byte) (int, error) {
	if len(p) == 0 {
		return 0, nil
	}
	if r.off >= len(r.data) {
		r.hitEOF = true
		return 0, io.EOF
	}
	n := copy(p, r.data[r.off:])
	r.off += n
	return n, nil
}

// outcome is what one decoder call did.
type outcome struct {
	Status   string `json:"status"` // ok | error | panic
	Err      string `json:"err,omitempty"`
	Panic    string `json:"panic,omitempty"`
	Site     string `json:"site,omitempty"`  // innermost go-perun function (not package log) on the panic stack
	Stack    string `json:"stack,omitempty"` // panic stack, innermost first
	Consumed int    `json:"consumed"`
	HitEOF   bool   `json:"hit_eof"`
	Millis   int64  `json:"ms"`
}

var zeros = func() map[string]func() cat.Codec {
	m := map[string]func() cat.Codec{}
	for _, v := range cat.Values() {
		if m["value:"+v.Type] == nil {
			m["value:"+v.Type] = v.Zero
		}
	}
	return m
}()

// decodeOne feeds input to the real decoder of the kind and observes the result. A panic of the
// decoder is recovered and attributed; a runtime fatal error (out of memory, stack overflow)
// cannot be recovered and kills the process - that is what the supervising parent is for.
func decodeOne(kind string, input []byte) (o outcome) {
	r := &reader{data: input}
	t0 := time.Now()
	defer func() {
		if p := recover(); p != nil {
			o.Status = "panic"
			o.Panic = stripVolatile(fmt.Sprint(p))
			o.Site, o.Stack = panicSite()
		}
		o.Consumed, o.HitEOF = r.off, r.hitEOF
		o.Millis = time.Since(t0).Milliseconds()
	}()
	var err error
	switch {
	case kind == "native-envelope":
		_, err = cat.Native.Serializer().Decode(r)
	case kind == "protobuf-envelope":
		_, err = cat.Protobuf.Serializer().Decode(r)
	default:
		z := zeros[kind]
		if z == nil {
			panic("HARNESS: no decoder for kind " + kind)
		}
		err = z().Decode(r)
	}
	if err != nil {
		o.Status, o.Err = "error", err.Error()
		if len(o.Err) > 300 {
			o.Err = o.Err[:300] + "..."
		}
	} else {
		o.Status = "ok"
	}
	return
}

// panicSite walks the stack of the panicking goroutine (called from the deferred function of
// decodeOne) and returns the innermost function of the module under test that is not in its
// log package (log.Panicf is how the code under test panics on purpose; the defect is its caller).
func panicSite() (site, stack string) {
	pcs := make([]uintptr, 96)
	n := runtime.Callers(3, pcs)
	frames := runtime.CallersFrames(pcs[:n])
	var lines []string
	first := ""
	for {
		f, more := frames.Next()
		fn := f.Function
		if strings.Contains(fn, "harness/decode.decodeOne") {
			break
		}
		if fn != "" {
			lines = append(lines, fmt.Sprintf("%s (%s:%d)", fn, filepath.Base(f.File), f.Line))
			if site == "" && strings.HasPrefix(fn, perunPrefix) {
				rest := strings.TrimPrefix(fn, perunPrefix)
				if !strings.HasPrefix(rest, "log.") && !strings.HasPrefix(rest, "log/") {
					site = rest
				}
			}
			if first == "" && !strings.HasPrefix(fn, "runtime.") {
				first = fn
			}
		}
		if !more {
			break
		}
	}
	if site == "" {
		site = "outside-module:" + first
	}
	if len(lines) > 24 {
		lines = lines[:24]
	}
	return site, strings.Join(lines, "\n")
}

var (
	reHexAddr = regexp.MustCompile(`0x[0-9a-fA-F]{5,}`)
	reLongHex = regexp.MustCompile(`[0-9a-fA-F]{24,}`)
	reGorout  = regexp.MustCompile(`goroutine \d+`)
	reTime    = regexp.MustCompile(`\d{4}-\d\d-\d\d[ T]\d\d:\d\d:\d\d(\.\d+)?( [+-]\d{4})?( [A-Z]{3,4})?( m=[+-][\d.]+)?`)
)

// stripVolatile removes addresses and long hex strings from a message.
func stripVolatile(s string) string {
	s = reHexAddr.ReplaceAllString(s, "0x?")
	s = reLongHex.ReplaceAllString(s, "<hex>")
	s = reGorout.ReplaceAllString(s, "goroutine N")
	s = reTime.ReplaceAllString(s, "<time>")
	if len(s) > 600 {
		s = s[:600] + "..."
	}
	return s
}

// mutation describes how the input was derived from its seed.
type mutation struct {
	Op   string `json:"op"`
	Off  int    `json:"off"`
	Len  int    `json:"len,omitempty"`
	Val  string `json:"val,omitempty"`
	Note string `json:"note,omitempty"`
}

// testCase is one input for one decoder.
type testCase struct {
	Idx    int      `json:"idx"`
	Seed   string   `json:"seed"`
	Kind   string   `json:"decoder"`
	Family string   `json:"family"`
	Mut    mutation `json:"mutation"`
	Input  []byte   `json:"input"`
	// Expect: "" (any result but a panic), "seed" (undamaged seed: informational), "accept"
	// (at-limit control), "reject" (over-limit encoding).
	Expect string `json:"expect,omitempty"`
	Limit  string `json:"limit,omitempty"`
	// MutOff is the offset the non-trivial rule refers to; -1: not measurable (protobuf tree).
	MutOff int `json:"mutoff"`
	// Changed: the input differs from the seed (protobuf tree mutations can be no-ops).
	Changed bool `json:"changed"`
	// Site is the fallback site of fatal / hang signatures: mutated field kind or family.
	Site string `json:"site"`
	// Broken: the harness could not build the case (self-check failed); it is not run.
	Broken string `json:"broken,omitempty"`
}

func (c *testCase) replay() map[string]interface{} {
	rp := map[string]interface{}{"harness": "decode", "decoder": c.Kind, "seed": c.Seed, "family": c.Family,
		"mutation": c.Mut, "expect": c.Expect, "limit": c.Limit, "mutoff": c.MutOff, "site": c.Site, "len": len(c.Input)}
	if len(c.Input) <= 4096 {
		rp["hex"] = hex.EncodeToString(c.Input)
	} else {
		var buf bytes.Buffer
		zw := gzip.NewWriter(&buf)
		zw.Write(c.Input)
		zw.Close()
		rp["input_gzip_b64"] = base64.StdEncoding.EncodeToString(buf.Bytes())
	}
	return rp
}

func (c *testCase) describe() string {
	return fmt.Sprintf("decoder %s, seed %q, family %s, mutation %s@%d len %d val %s %s, input %d bytes %s",
		c.Kind, c.Seed, c.Family, c.Mut.Op, c.Mut.Off, c.Mut.Len, c.Mut.Val, c.Mut.Note, len(c.Input), hexPrefix(c.Input, 48))
}

func hexPrefix(b []byte, n int) string {
	if len(b) > n {
		return fmt.Sprintf("%x..", b[:n])
	}
	return fmt.Sprintf("%x", b)
}

func inputHash(kind string, in []byte) uint64 {
	h := sha1.New()
	h.Write([]byte(kind))
	h.Write([]byte{0})
	h.Write(in)
	return binary.BigEndian.Uint64(h.Sum(nil)[:8])
}

// violRec is one violation signature of a shard.
type violRec struct {
	Count  int64                  `json:"count"`
	Detail string                 `json:"detail"`
	Replay map[string]interface{} `json:"replay"`
	Cost   int                    `json:"cost"`
}

// shardState is the cumulative result of a shard; the batch child checkpoints it, the parent
// adds the cases it had to run alone and turns it into the report.
type shardState struct {
	Next     int                 `json:"next"` // every case with index < Next is accounted (or on the skip list)
	Done     bool                `json:"done"`
	Capped   string              `json:"capped,omitempty"`
	Counters map[string]int64    `json:"counters"`
	Viol     map[string]*violRec `json:"viol"`
	Samples  []interface{}       `json:"samples"`
	Sampled  map[string]int      `json:"sampled"`
	NHashes  int                 `json:"nhashes"`
	Notes    []string            `json:"notes"`
}

func newState() *shardState {
	return &shardState{Counters: map[string]int64{}, Viol: map[string]*violRec{}, Sampled: map[string]int{}, Samples: []interface{}{}}
}

func (st *shardState) note(format string, a ...interface{}) {
	s := fmt.Sprintf(format, a...)
	for _, n := range st.Notes {
		if n == s {
			return
		}
	}
	if len(st.Notes) < 60 {
		st.Notes = append(st.Notes, s)
	}
}

func (st *shardState) violate(sig, detail string, c *testCase) {
	v := st.Viol[sig]
	if v == nil {
		v = &violRec{Cost: 1 << 30}
		st.Viol[sig] = v
	}
	v.Count++
	if len(c.Input) < v.Cost { // keep the shortest input per signature
		if len(detail) > 3500 {
			detail = detail[:3500] + "..."
		}
		v.Cost, v.Detail, v.Replay = len(c.Input), detail, c.replay()
	}
}

// nontrivial is the rule of the evidence file: the decoder got as far as the damage.
func nontrivial(c *testCase, o *outcome) bool {
	switch c.Family {
	case "seed":
		return false
	case "truncate":
		return o.HitEOF // the decoder consumed every byte before the cut and asked for more
	case "pbtree", "pbpair":
		// not measurable inside proto.Unmarshal and the converters: counted only when the
		// mutation changed the encoding and the whole frame was read
		return c.Changed && o.Consumed >= len(c.Input)
	default:
		return c.Changed && o.Consumed > c.MutOff
	}
}

// account applies the oracle of C13 to one evaluated case.
func (st *shardState) account(c *testCase, o *outcome, seen func(uint64) bool) {
	ct := st.Counters
	ct["evaluations"]++
	ct["fam_"+c.Family]++
	ct["dec_"+c.Kind]++
	switch o.Status {
	case "ok":
		ct["successes"]++
	case "error":
		ct["errors"]++
	case "panic":
		ct["panics"]++
		ct["panic_site:"+o.Site]++
		st.violate("C13:panic:"+c.Kind+"/"+o.Site,
			fmt.Sprintf("decoder panicked: %s\n%s\nstack (innermost first):\n%s", o.Panic, c.describe(), o.Stack), c)
	}
	switch c.Expect {
	case "seed":
		if o.Status == "ok" {
			ct["seed_controls_ok"]++
		} else {
			ct["seed_controls_failed"]++
			st.note("undamaged seed %s is not decoded by %s: %s %s%s", c.Seed, c.Kind, o.Status, o.Err, o.Panic)
		}
	case "accept":
		switch o.Status {
		case "ok":
			ct["limit_controls_ok"]++
		case "error":
			st.violate("C13:limit-control-rejected:"+c.Kind+"/"+c.Limit,
				fmt.Sprintf("an encoding exactly at the documented limit, written by the real encoder, is rejected: %s\n%s", o.Err, c.describe()), c)
		}
	case "reject":
		switch o.Status {
		case "error":
			ct["limit_rejected_ok"]++
		case "ok":
			st.violate("C13:limit-not-enforced:"+c.Kind+"/"+c.Limit,
				fmt.Sprintf("a well-formed encoding beyond the documented limit was decoded without error (%d of %d bytes consumed)\n%s", o.Consumed, len(c.Input), c.describe()), c)
		}
	}
	if o.Millis >= 1000 {
		ct["slow_cases_over_1s"]++
	}
	if o.Millis > ct["max_case_ms"] {
		ct["max_case_ms"] = o.Millis
	}
	if len(c.Input) > 0 && int64(len(c.Input)) > ct["max_input_len"] {
		ct["max_input_len"] = int64(len(c.Input))
	}
	if nontrivial(c, o) {
		ct["nontrivial"]++
		if seen(inputHash(c.Kind, c.Input)) {
			ct["distinct_nontrivial"]++
		}
	}
	if st.Sampled[c.Family] < 2 && c.Family != "seed" && (c.Idx%7 == 3 || c.Family == "limit") {
		st.Sampled[c.Family]++
		st.Samples = append(st.Samples, map[string]interface{}{"family": c.Family, "decoder": c.Kind, "seed": c.Seed, "mutation": c.Mut,
			"input": hexPrefix(c.Input, 40), "len": len(c.Input), "result": o.Status, "consumed": o.Consumed})
	}
}
