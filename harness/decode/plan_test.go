package decode

import (
	"bytes"
	"encoding/binary"
	"encoding/hex"
	"fmt"
	"math"
	"os"
	"sort"
	"strconv"
	"strings"

	"verif/harness/codec/cat"
)

// planSeed is one seed of a shard with the families that are enumerated from it.
type planSeed struct {
	Idx   int    `json:"idx"` // index in cat.Seeds()
	Name  string `json:"name"`
	Kind  string `json:"kind"`
	Rep   bool   `json:"rep"`
	Bytes []byte `json:"bytes"`
	// Fields: (offset, width) of the encoder's 1-, 2-, 4- and 8-byte writes (native) or the
	// frame length prefix (protobuf): the candidate length / count / identifier fields.
	Fields [][2]int `json:"fields"`
	// TruncFrom: prefix lengths TruncFrom..len-1 are run from this seed (shorter prefixes are
	// prefixes of an earlier seed of the same decoder and run there); -1: none.
	TruncFrom int `json:"trunc_from"`
	// Own: this shard runs the seed's control and truncations (and everything of an unstable seed).
	// The dense and protobuf tree families of a stable seed are dealt to ALL shards in blocks of
	// blockSize consecutive cases, so that one heavy seed does not make one shard the last to finish.
	Own      bool `json:"own"`
	Unstable bool `json:"unstable"`
	Dense    bool `json:"dense"`    // families subst and field
	PB       bool `json:"pb"`       // protobuf tree, single mutations
	PBPairs  bool `json:"pb_pairs"` // protobuf tree, pairs
}

// plan is the work of one shard; the parent builds it once (building the catalogue takes
// seconds), the children read it from a file.
type plan struct {
	Tier    string     `json:"tier"`
	Shard   int        `json:"shard"`
	NShards int        `json:"nshards"`
	Seeds   []planSeed `json:"seeds"`
	Limits  []int      `json:"limits"` // indices into limitCases()
	Notes   []string   `json:"notes"`
	// informational totals over all shards
	TotalSeeds, DenseSeeds, TruncSeeds, PBSeeds, PBPairSeeds int
}

// recorder remembers where every Write of an encoder started.
type recorder struct {
	buf    bytes.Buffer
	writes [][2]int
}

func (r *recorder) Write(p []byte) (int, error) {
	if len(p) > 0 {
		r.writes = append(r.writes, [2]int{r.buf.Len(), len(p)})
	}
	return r.buf.Write(p)
}

// groupOf: decoder kind, and for envelopes the message type.
func groupOf(s *cat.Seed) string {
	if strings.HasSuffix(s.Kind, "-envelope") {
		p := strings.SplitN(s.Name, "/", 3)
		if len(p) >= 2 {
			return s.Kind + "/" + p[1]
		}
	}
	return s.Kind
}

// blockSize consecutive cases of a seed's dense / tree families go to the same shard.
const blockSize = 4

// tier parameters
type tierCfg struct {
	// extra dense seeds per (decoder kind, message type), all of distinct encoding length:
	// native kinds get the shortest and further ones evenly spaced up to (not including) the
	// longest - on a tree whose address map decoders allocate what a damaged length announces,
	// about 0.6 % of the damaged native inputs take seconds each, so native seeds are expensive;
	// protobuf seeds are evenly spaced from the shortest to the longest
	perGroupNative, perGroupPB int
	maxDense                   int  // longest seed that gets the dense families
	truncAll                   bool // truncations of every seed of the catalogue (else of the dense seeds)
	pbAllDense                 bool // protobuf tree mutations of every dense protobuf seed (else representatives only)
	pairMax                    int  // pairs of tree mutations for representatives with at most this many single mutations (0: none)
}

func cfgOf(tier string) tierCfg {
	c := tierCfg{perGroupPB: 2, maxDense: 2048}
	if tier == "thorough" {
		c = tierCfg{perGroupNative: 2, perGroupPB: 8, maxDense: 5200, truncAll: true, pbAllDense: true, pairMax: 420}
	}
	if v, err := strconv.Atoi(os.Getenv("VERIF_DECODE_PERGROUP_NATIVE")); err == nil {
		c.perGroupNative = v
	}
	if v, err := strconv.Atoi(os.Getenv("VERIF_DECODE_PERGROUP_PB")); err == nil {
		c.perGroupPB = v
	}
	return c
}

// fieldsOf re-encodes the catalogue entry of a native seed through a recording writer and
// returns the candidate fields; nil if the recorded encoding is not the seed (unstable encoder).
func fieldsOf(s *cat.Seed, envs map[string]cat.Envelope, vals map[string]cat.Value) ([][2]int, bool) {
	if s.Kind == "protobuf-envelope" {
		return [][2]int{{0, 2}}, true // the body is written in one piece: only the frame length is visible
	}
	for try := 0; try < 24; try++ {
		rec := &recorder{}
		err := func() (err error) {
			defer func() {
				if r := recover(); r != nil {
					err = fmt.Errorf("panic: %v", r)
				}
			}()
			if s.Kind == "native-envelope" {
				e, ok := envs[strings.TrimPrefix(s.Name, "native-envelope/")]
				if !ok {
					return fmt.Errorf("no catalogue entry")
				}
				return cat.Native.Serializer().Encode(rec, e.New())
			}
			v, ok := vals[strings.TrimPrefix(s.Name, "value:")]
			if !ok {
				return fmt.Errorf("no catalogue entry")
			}
			return v.New().Encode(rec)
		}()
		if err != nil {
			return nil, false
		}
		if !bytes.Equal(rec.buf.Bytes(), s.Bytes) {
			continue
		}
		var out [][2]int
		for _, w := range rec.writes {
			if w[1] == 1 || w[1] == 2 || w[1] == 4 || w[1] == 8 {
				out = append(out, w)
			}
		}
		return out, true
	}
	return nil, false
}

func lcp(a, b []byte) int {
	n := 0
	for n < len(a) && n < len(b) && a[n] == b[n] {
		n++
	}
	return n
}

// buildPlan selects the seeds of the tier, decides the families of each, and deals them to the
// shards (longest processing time first on an estimate of the work, deterministic).
func buildPlan(tier string, shard, nshards int) *plan {
	cfg := cfgOf(tier)
	seeds := cat.Seeds()
	p := &plan{Tier: tier, Shard: shard, NShards: nshards, TotalSeeds: len(seeds)}

	envs := map[string]cat.Envelope{}
	for _, e := range cat.Envelopes() {
		envs[e.Name] = e
	}
	vals := map[string]cat.Value{}
	for _, v := range cat.Values() {
		vals[v.Name] = v
	}
	// Seeds whose bytes may differ from process to process: an encoder that iterates a Go map
	// with two entries (the protobuf converters, and the native address map encoders of trees
	// without the ordering fix). cat's Unstable flag is itself an observation that varies from
	// run to run, so the criterion here is structural: the entry contains a two-entry address
	// map. The shards must agree on everything that is dealt between them, so such a seed is
	// never selected for the dense families (unless representative), is never a reference for
	// the prefix sharing of the truncations, and is run by one shard as a whole.
	unst := make([]bool, len(seeds))
	for i := range seeds {
		s := &seeds[i]
		if j := strings.Index(s.Name, "-envelope/"); j >= 0 && strings.HasSuffix(s.Kind, "-envelope") {
			unst[i] = envs[s.Name[j+len("-envelope/"):]].Addr2 || strings.Contains(s.Name, "two")
		} else {
			unst[i] = strings.Contains(s.Name, "two")
		}
	}

	// dense seeds: every representative, plus per (decoder, message type) seeds of distinct
	// encoding length, evenly spaced over the lengths
	dense := map[int]bool{}
	groups := map[string][]int{}
	var gkeys []string
	for i := range seeds {
		s := &seeds[i]
		if s.Rep {
			dense[i] = true
		}
		if unst[i] || s.Unstable || len(s.Bytes) > cfg.maxDense {
			continue
		}
		g := groupOf(s)
		if groups[g] == nil {
			gkeys = append(gkeys, g)
		}
		groups[g] = append(groups[g], i)
	}
	for _, g := range gkeys {
		seenLen := map[int]bool{}
		for _, i := range groups[g] {
			if seeds[i].Rep { // dense seeds of one decoder and message type all have different lengths
				seenLen[len(seeds[i].Bytes)] = true
			}
		}
		var cand []int
		for _, i := range groups[g] {
			if l := len(seeds[i].Bytes); !seenLen[l] {
				seenLen[l] = true
				cand = append(cand, i)
			}
		}
		sort.SliceStable(cand, func(a, b int) bool { return len(seeds[cand[a]].Bytes) < len(seeds[cand[b]].Bytes) })
		k, div := cfg.perGroupNative, 0
		if strings.HasPrefix(g, "protobuf-envelope") {
			k = cfg.perGroupPB
			div = -1
		}
		if k > len(cand) {
			k = len(cand)
		}
		for j := 0; j < k; j++ {
			r := 0
			if k+div > 0 {
				r = j * (len(cand) - 1) / (k + div) // protobuf: up to the longest; native: below it
			}
			dense[cand[r]] = true
		}
	}

	// truncation: within each decoder kind sort the participating seeds; a seed runs only the
	// prefixes that are longer than what it shares with its predecessor (each distinct prefix once)
	truncFrom := map[int]int{}
	byKind := map[string][]int{}
	for i := range seeds {
		if (cfg.truncAll || dense[i]) && !unst[i] {
			byKind[seeds[i].Kind] = append(byKind[seeds[i].Kind], i)
		}
	}
	for _, idx := range byKind {
		sort.SliceStable(idx, func(a, b int) bool { return bytes.Compare(seeds[idx[a]].Bytes, seeds[idx[b]].Bytes) < 0 })
		for j, i := range idx {
			from := 0
			if j > 0 {
				from = lcp(seeds[i].Bytes, seeds[idx[j-1]].Bytes) + 1
			}
			if from < len(seeds[i].Bytes) {
				truncFrom[i] = from
			}
		}
	}
	// a possibly unstable seed runs the prefixes that it shares with no stable seed of its kind
	for i := range seeds {
		if !unst[i] || !(cfg.truncAll || dense[i]) {
			continue
		}
		idx := byKind[seeds[i].Kind]
		pos := sort.Search(len(idx), func(k int) bool { return bytes.Compare(seeds[idx[k]].Bytes, seeds[i].Bytes) >= 0 })
		from := 0
		if pos > 0 {
			from = lcp(seeds[i].Bytes, seeds[idx[pos-1]].Bytes) + 1
		}
		if pos < len(idx) {
			if l := lcp(seeds[i].Bytes, seeds[idx[pos]].Bytes) + 1; l > from {
				from = l
			}
		}
		if from < len(seeds[i].Bytes) {
			truncFrom[i] = from
		}
	}

	// Participating seeds. Truncations (and unstable seeds as a whole) are dealt to the shards
	// seed by seed, longest processing time first on an estimate of the work (deterministic);
	// every shard gets every stable dense seed and runs its blocks of their cases.
	type item struct {
		ps   planSeed
		cost float64
	}
	var items []item
	for i := range seeds {
		s := &seeds[i]
		tf, hasT := truncFrom[i]
		if !hasT && !dense[i] {
			continue
		}
		ps := planSeed{Idx: i, Name: s.Name, Kind: s.Kind, Rep: s.Rep, Bytes: s.Bytes, TruncFrom: -1, Unstable: unst[i]}
		// a decode costs about 2 us plus 20 ns per byte (the few very long seeds are long strings, which are copied much faster)
		per := 2e-6 + 20e-9*math.Min(float64(len(s.Bytes)), 4096)
		cost := per
		if hasT {
			ps.TruncFrom = tf
			p.TruncSeeds++
			if unst[i] {
				tf = 0 // the estimate must not depend on bytes that vary from process to process
			}
			cost += float64(len(s.Bytes)-tf) * per
		}
		if dense[i] {
			ps.Dense = true
			p.DenseSeeds++
			f, ok := fieldsOf(s, envs, vals)
			if !ok {
				p.Notes = append(p.Notes, fmt.Sprintf("seed %s: the encoder's writes could not be recorded (unstable encoding); no field family for it", s.Name))
			}
			ps.Fields = f
			if s.Kind == "protobuf-envelope" && (s.Rep || cfg.pbAllDense) {
				ps.PB = true
				p.PBSeeds++
				if n := pbCount(s.Bytes); s.Rep && cfg.pairMax > 0 && n <= cfg.pairMax {
					ps.PBPairs = true
					p.PBPairSeeds++
				}
			}
			if unst[i] {
				cost += 12 * float64(len(s.Bytes)) * per
			}
		}
		items = append(items, item{ps, cost})
	}
	sort.SliceStable(items, func(a, b int) bool {
		if items[a].cost != items[b].cost {
			return items[a].cost > items[b].cost
		}
		return items[a].ps.Idx < items[b].ps.Idx
	})
	load := make([]float64, nshards)
	for _, it := range items {
		best := 0
		for k := 1; k < nshards; k++ {
			if load[k] < load[best] {
				best = k
			}
		}
		load[best] += it.cost
		it.ps.Own = best == shard
		if it.ps.Own || (it.ps.Dense && !it.ps.Unstable) {
			p.Seeds = append(p.Seeds, it.ps)
		}
	}
	sort.SliceStable(p.Seeds, func(a, b int) bool { return p.Seeds[a].Idx < p.Seeds[b].Idx })
	for j := range limitCases() {
		if j%nshards == shard {
			p.Limits = append(p.Limits, j)
		}
	}
	return p
}

// substitution values of the byte b, in a fixed order, without b itself and without repeats.
func substValues(b byte) []byte {
	cand := [...]byte{0x00, 0x01, 0x02, 0x7f, 0x80, 0xfe, 0xff, b ^ 0x01, b ^ 0x80}
	out := make([]byte, 0, 9)
	for _, v := range cand {
		if v == b || bytes.IndexByte(out, v) >= 0 {
			continue
		}
		out = append(out, v)
	}
	return out
}

// the documented limits: MaxNumAssets = MaxNumParts = MaxNumSubAllocations = 1024,
// MaxBigIntLength = 128, MaxNonceLen = 32
var fieldLimits = []int64{32, 128, 1024}

// fieldValues returns the distinct byte strings written over a field of width w whose current
// content is cur: every value of {0, 1, limit-1, limit, limit+1 for the documented limits,
// 0x7fff, 0xffff, -1, MinInt32, MaxInt32, (8 bytes: MinInt64, MaxInt64), current-1, current+1}
// in little-endian (perunio) and in big-endian (AuthResponseMsg, protobuf frame) byte order
// (for 4 and 8 byte fields only in the order in which the field holds a small number, if that is unambiguous).
func fieldValues(cur []byte, limits []int64) [][]byte {
	w := len(cur)
	var le, be uint64
	for i := 0; i < w; i++ {
		le |= uint64(cur[i]) << (8 * i)
		be = be<<8 | uint64(cur[i])
	}
	vals := []int64{0, 1}
	for _, l := range limits {
		vals = append(vals, l-1, l, l+1)
	}
	vals = append(vals, 0x7fff, 0xffff, -1, math.MinInt32, math.MaxInt32)
	if w == 8 {
		vals = append(vals, math.MinInt64, math.MaxInt64)
	}
	var out [][]byte
	add := func(b []byte) {
		if bytes.Equal(b, cur) {
			return
		}
		for _, o := range out {
			if bytes.Equal(o, b) {
				return
			}
		}
		out = append(out, b)
	}
	enc := func(v uint64, big bool) []byte {
		var full [8]byte
		if big {
			binary.BigEndian.PutUint64(full[:], v)
			return append([]byte{}, full[8-w:]...)
		}
		binary.LittleEndian.PutUint64(full[:], v)
		return append([]byte{}, full[:w]...)
	}
	// Byte order: both, unless the field is 4 or 8 bytes wide and its current content reads as a
	// small number (< 65536) in exactly one order - then that is the field's order, and the
	// other order would only produce more arbitrary huge values like MaxInt32.
	useLE, useBE := true, true
	if w >= 4 && le != be {
		if le < 65536 && be >= 65536 {
			useBE = false
		} else if be < 65536 && le >= 65536 {
			useLE = false
		}
	}
	for _, v := range vals {
		if useLE {
			add(enc(uint64(v), false))
		}
		if useBE {
			add(enc(uint64(v), true))
		}
	}
	if useLE {
		add(enc(le-1, false))
		add(enc(le+1, false))
	}
	if useBE {
		add(enc(be-1, true))
		add(enc(be+1, true))
	}
	return out
}

// coveredBySubst: writing v over cur changes exactly one byte to a value of the substitution
// set - that input is already a case of family (2).
func coveredBySubst(cur, v []byte) bool {
	at := -1
	for i := range cur {
		if cur[i] != v[i] {
			if at >= 0 {
				return false
			}
			at = i
		}
	}
	return at >= 0 && bytes.IndexByte(substValues(cur[at]), v[at]) >= 0
}

// visitor is called for every case of the shard in a fixed order with its index; mk builds the
// case (the input is valid until the next call of the visitor). Returning false stops.
type visitor func(idx int, mk func() *testCase) bool

// each enumerates every case of the plan: per seed the undamaged seed, the truncations, the
// byte substitutions, the field writes, the protobuf tree mutations; then the limit cases.
func (p *plan) each(visit visitor) {
	idx := 0
	emit := func(mk func() *testCase) bool {
		i := idx
		idx++
		return visit(i, func() *testCase {
			c := mk()
			c.Idx = i
			return c
		})
	}
	for si := range p.Seeds {
		s := &p.Seeds[si]
		base := func(fam string) *testCase {
			return &testCase{Seed: s.Name, Kind: s.Kind, Family: fam, Changed: true}
		}
		// the dense and tree families of a stable seed are dealt to the shards in blocks
		nth := 0
		emitShared := func(mk func() *testCase) bool {
			k := nth
			nth++
			if s.Unstable {
				if !s.Own {
					return true
				}
			} else if (k/blockSize+s.Idx)%p.NShards != p.Shard {
				return true
			}
			return emit(mk)
		}
		// control: the undamaged seed
		if s.Own && !emit(func() *testCase {
			c := base("seed")
			c.Input, c.Expect, c.Changed, c.Site, c.Mut = s.Bytes, "seed", false, "seed", mutation{Op: "none"}
			return c
		}) {
			return
		}
		// (1) truncations
		if s.Own && s.TruncFrom >= 0 {
			for l := s.TruncFrom; l < len(s.Bytes); l++ {
				l := l
				if !emit(func() *testCase {
					c := base("truncate")
					c.Input, c.MutOff, c.Site, c.Mut = s.Bytes[:l], l, "truncate", mutation{Op: "truncate", Off: l}
					return c
				}) {
					return
				}
			}
		}
		if s.Dense {
			buf := append([]byte{}, s.Bytes...)
			fieldAt := make([]int, len(buf)) // width of the candidate field covering each offset
			for _, f := range s.Fields {
				for k := f[0]; k < f[0]+f[1] && k < len(fieldAt); k++ {
					fieldAt[k] = f[1]
				}
			}
			// (2) single byte substitutions
			for off := 0; off < len(buf); off++ {
				for _, v := range substValues(s.Bytes[off]) {
					off, v := off, v
					if !emitShared(func() *testCase {
						copy(buf, s.Bytes)
						buf[off] = v
						c := base("subst")
						c.Input, c.MutOff, c.Mut = buf, off, mutation{Op: "subst", Off: off, Len: 1, Val: hex.EncodeToString([]byte{v})}
						c.Site = "byte"
						if fieldAt[off] > 0 {
							c.Site = fmt.Sprintf("field%d", fieldAt[off])
						}
						return c
					}) {
						return
					}
				}
			}
			// (3) multi-byte writes over every candidate field
			for _, f := range s.Fields {
				off, w := f[0], f[1]
				limits := fieldLimits
				if s.Kind == "protobuf-envelope" {
					limits = []int64{int64(len(s.Bytes) - 2)} // the limit of the frame prefix is the real body length
				}
				for _, v := range fieldValues(s.Bytes[off:off+w], limits) {
					v := v
					if coveredBySubst(s.Bytes[off:off+w], v) {
						continue
					}
					if !emitShared(func() *testCase {
						copy(buf, s.Bytes)
						copy(buf[off:], v)
						c := base("field")
						c.Input, c.MutOff, c.Site = buf, off, fmt.Sprintf("field%d", w)
						c.Mut = mutation{Op: "write", Off: off, Len: w, Val: hex.EncodeToString(v)}
						return c
					}) {
						return
					}
				}
			}
		}
		// (5) protobuf tree mutations
		if s.PB {
			if !pbCases(s, base, emitShared) {
				return
			}
		}
	}
	// (4) encodings at and beyond the documented limits
	lcs := limitCases()
	for _, j := range p.Limits {
		lc := lcs[j]
		if !emit(func() *testCase { return lc.build() }) {
			return
		}
	}
}

// count returns the number of cases of the plan.
func (p *plan) count() int {
	n := 0
	p.each(func(idx int, mk func() *testCase) bool { n = idx + 1; return true })
	return n
}

// caseAt builds the case with the given index.
func (p *plan) caseAt(k int) *testCase {
	var out *testCase
	p.each(func(idx int, mk func() *testCase) bool {
		if idx == k {
			c := mk()
			c.Input = append([]byte{}, c.Input...)
			out = c
			return false
		}
		return true
	})
	return out
}
