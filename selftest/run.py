#!/usr/bin/env python3
"""Self-test of the verification framework: deliberately wrong variants of go-perun.

    python3 selftest/run.py [--only ID-PREFIX[,ID-PREFIX..]] [--skip-repo-tests] [--in-place] [--tier quick]

Every entry of selftest/mutants.json is one small, realistic defect (one file, a few
tokens). It is applied WITHOUT touching /repo: the mutated copy of the file is written to
/verif/.build/selftest/<id>/ together with a go overlay file, and both the repository's own
tests (`go test -overlay`) and the framework's check (`VERIF_OVERLAY=... ./check <ID>`)
are run against that variant. For each mutant the runner records

  (a) whether the repository's own tests of the touched package still pass
      (a mutant they catch is marked caught_by_repo_tests; the interesting ones pass),
  (b) exit status, violation signatures and wall time of `./check <property> --tier quick`,
  (c) whether `./check <property> --replay <first replay file>` reproduces (exit 1).

Where the checks run. `./check` keeps evidence and replays under its own directory (ROOT =
directory of the script) under names that do not depend on VERIF_OVERLAY: evidence/<ID>.json,
replays/<ID>-*.json; until framework commit bec2417 this was also true of the test binaries
(.build/bin/<harness>[.sched].test, shared by all properties of a harness, e.g. clients.sched.test
for C03 C04 C06 C07 C08 C12), so that a variant build REPLACED the binary an unrelated `./check`
running at the same time was about to start for its next work unit - and the other way round
(since bec2417 every run has private binaries under .build/run-<pid>/). To keep the self-test from
contaminating real runs (and from being contaminated), the default is to run the checks from a
private mirror of the framework, /verif/.build/selftest/_root (copies of check, engine/, harness/,
go.mod, known_findings.json taken when run.py starts; evidence and replays of the mutants stay
there). `--in-place` runs `./check` in /verif itself as a user would; then the evidence file and the
replay files of the property are copied aside before each check and put back / deleted right after
it (a real run of the same property that finishes inside that window would still lose its
evidence file to the restore - one more reason for the mirror).

Baseline. Before the first mutant of a property, the unmodified tree is checked once in the same
place (`./check <ID>` without overlay); exit status and signatures are stored under "baselines"
(re-used by later invocations as long as /repo and the harness sources are unchanged). A mutant
counts as detected only if its check exits 1 AND reports a signature the baseline did not.

Output: selftest/results.json (machine readable, merged by mutant id when --only is used)
and selftest/RESULTS.md. Exit status 0 iff every non-pending, non-stale mutant that was run
was detected (check exit 1).
"""
import argparse, glob, hashlib, json, os, re, shutil, subprocess, sys, time

HERE = os.path.dirname(os.path.abspath(__file__))
VERIF = os.path.dirname(HERE)
REPO = "/repo"
WORK = os.path.join(VERIF, ".build", "selftest")
MIRROR = os.path.join(WORK, "_root")
BASE_ENV = dict(os.environ, GOFLAGS="-mod=mod", GOPROXY="off", GOSUMDB="off", GOTOOLCHAIN="local")
REPO_TEST_TIMEOUT = 600
CHECK_TIMEOUT = 900
REPLAY_TIMEOUT = 600


def log(*a):
    print("[selftest]", *a, file=sys.stderr, flush=True)


def run(cmd, cwd, env, timeout):
    """Runs cmd in its own process group; returns (rc, output, wall); rc=None on timeout."""
    t0 = time.time()
    p = subprocess.Popen(cmd, cwd=cwd, env=env, stdout=subprocess.PIPE, stderr=subprocess.STDOUT,
                         text=True, errors="replace", start_new_session=True)
    try:
        out, _ = p.communicate(timeout=timeout)
        rc = p.returncode
    except subprocess.TimeoutExpired:
        try:
            os.killpg(p.pid, 9)
        except ProcessLookupError:
            pass
        out, _ = p.communicate()
        rc = None
        out = (out or "") + "\n[selftest] killed after %ss" % timeout
    return rc, out, time.time() - t0


def make_mirror():
    """Private copy of the framework so that variant binaries never meet real check runs."""
    os.makedirs(MIRROR, exist_ok=True)
    for d in ("engine", "harness"):
        dst = os.path.join(MIRROR, d)
        shutil.rmtree(dst, ignore_errors=True)
        shutil.copytree(os.path.join(VERIF, d), dst,
                        ignore=shutil.ignore_patterns("*.test", "__pycache__", "*.tmp*"))
    for f in ("check", "go.mod", "go.sum", "known_findings.json"):
        shutil.copy2(os.path.join(VERIF, f), os.path.join(MIRROR, f))
    for d in ("evidence", "replays"):
        shutil.rmtree(os.path.join(MIRROR, d), ignore_errors=True)
    return MIRROR


def prepare(m):
    """Writes the mutated copy and the overlay; returns (overlay path | None, status, note)."""
    src = os.path.join(REPO, m["file"])
    if not os.path.exists(src):
        return None, "stale", "file %s does not exist" % m["file"]
    text = open(src).read()
    n = text.count(m["old"])
    if n != 1:
        return None, "stale", "'old' occurs %d times in %s (expected exactly once)" % (n, m["file"])
    d = os.path.join(WORK, m["id"])
    os.makedirs(d, exist_ok=True)
    mutated = os.path.join(d, os.path.basename(m["file"]))
    open(mutated, "w").write(text.replace(m["old"], m["new"], 1))
    ov = os.path.join(d, "overlay.json")
    json.dump({"Replace": {src: mutated}}, open(ov, "w"), indent=1)
    return ov, "ok", ""


def repo_tests(m, ov):
    """Runs the repository's tests against the variant. Some of the repository's tests are
    timing dependent and fail now and then on a loaded machine also WITHOUT any mutant
    (client.TestSubChannelDispute failed 3 of 6 runs on the unmodified tree while checks were
    running). Therefore the tests that failed are repeated on their own, up to three times; the
    mutant counts as caught only if some test failed in every attempt (a run that hit the
    timeout is not repeated)."""
    r = repo_tests_once(m, ov, m["repo_tests"], None)
    if r["pass"] or r["build_failed"] or r["rc"] is None:
        return r
    first = {k: r[k] for k in ("rc", "wall_s", "failed_tests", "failed_packages")}
    pkgs = ["./" + p[len("perun.network/go-perun/"):] for p in r["failed_packages"]] or m["repo_tests"]
    tops = sorted({t.split("/")[0] for t in r["failed_tests"]})
    still = set(tops) if tops else None
    wall, attempts, last = r["wall_s"], 0, r
    for _ in range(3):
        attempts += 1
        last = repo_tests_once(m, ov, pkgs, "^(%s)$" % "|".join(sorted(still)) if still else None)
        wall += last["wall_s"]
        if last["pass"]:
            still = set()
            break
        if still is not None:
            again = {t.split("/")[0] for t in last["failed_tests"]}
            still = (still & again) if again else still
            if not still:
                break
        if last["rc"] is None:
            break
    caught = not last["pass"] and (still is None or bool(still))
    out = dict(last)
    out.update({"pass": not caught, "wall_s": round(wall, 1), "first_attempt": first, "retries": attempts,
                "flaky": not caught, "failed_tests": sorted(still) if still else ([] if not caught else last["failed_tests"])})
    if not caught:
        out["tail"] = ""
    return out


def repo_tests_once(m, ov, pkgs, only):
    cmd = ["go", "test", "-vet=off", "-count=1", "-overlay", ov] + (["-run", only] if only else []) + pkgs
    rc, out, wall = run(cmd, REPO, BASE_ENV, REPO_TEST_TIMEOUT)
    failed = sorted(set(re.findall(r"^--- FAIL: (\S+)", out, re.M)))
    failed_pkgs = sorted(set(re.findall(r"^(?:FAIL|---)\s+(perun\.network/\S+)", out, re.M)))
    build_failed = "[build failed]" in out or "[setup failed]" in out
    return {"pass": rc == 0, "rc": rc, "wall_s": round(wall, 1), "failed_tests": failed[:12],
            "failed_packages": failed_pkgs[:8], "build_failed": build_failed,
            "tail": "" if rc == 0 else out[-1500:]}


class Guard:
    """--in-place only: puts evidence/<ID>.json and replays/<ID>-*.json back as they were."""

    def __init__(self, root, pid, active):
        self.root, self.pid, self.active = root, pid, active

    def __enter__(self):
        if not self.active:
            return self
        self.ev = os.path.join(self.root, "evidence", self.pid + ".json")
        self.ev_old = (open(self.ev, "rb").read(), os.stat(self.ev)) if os.path.exists(self.ev) else None
        self.rp_old = {p: (open(p, "rb").read(), os.stat(p)) for p in glob.glob(os.path.join(self.root, "replays", self.pid + "-*.json"))}
        return self

    @staticmethod
    def put(path, old):
        data, st = old
        with open(path, "wb") as f:
            f.write(data)
        os.utime(path, ns=(st.st_atime_ns, st.st_mtime_ns))

    def __exit__(self, *exc):
        if not self.active:
            return False
        if self.ev_old is None:
            if os.path.exists(self.ev):
                os.remove(self.ev)
        else:
            self.put(self.ev, self.ev_old)
        for p in glob.glob(os.path.join(self.root, "replays", self.pid + "-*.json")):
            if p in self.rp_old:
                self.put(p, self.rp_old[p])
            else:
                os.remove(p)
        for p in self.rp_old:
            if not os.path.exists(p):
                self.put(p, self.rp_old[p])
        return False


def run_check(m, ov, root, tier, in_place, base_sigs):
    pid = m["property"]
    env = dict(BASE_ENV, VERIF_OVERLAY=ov)
    res = {}
    with Guard(root, pid, in_place):
        rc, out, wall = run(["./check", pid, "--tier", tier], root, env, CHECK_TIMEOUT)
        open(os.path.join(WORK, m["id"], "check.out"), "w").write(out)
        res["check_exit"] = rc if rc is not None else "timeout"
        res["check_wall_s"] = round(wall, 1)
        res["signatures"] = re.findall(r"^  signature: (.*)$", out, re.M)
        viol = re.findall(r"^VIOLATION property=(\S+) replay=(\S+)", out, re.M)
        res["violations"] = len(viol)
        res["known_findings_reported"] = len(re.findall(r"^KNOWN-FINDING:", out, re.M))
        summ = re.findall(r"^%s tier=.*$" % pid, out, re.M)
        res["summary"] = summ[-1] if summ else ""
        res["new_signatures"] = [x for x in res["signatures"] if x not in base_sigs]
        res["detected"] = rc == 1 and bool(res["new_signatures"])
        if rc not in (0, 1):
            res["check_tail"] = out[-3000:]
        first = re.search(r"^  detail: (.*)$", out, re.M)
        res["first_detail"] = first.group(1)[:400] if first else ""
        res["replay_reproduces"] = None
        if viol:
            rrc, rout, rwall = run(["./check", pid, "--tier", tier, "--replay", viol[0][1]], root, env, REPLAY_TIMEOUT)
            open(os.path.join(WORK, m["id"], "replay.out"), "w").write(rout)
            res["replay_exit"] = rrc if rrc is not None else "timeout"
            res["replay_reproduces"] = rrc == 1
            res["replay_wall_s"] = round(rwall, 1)
            rs = re.findall(r"^REPLAY reproduces: (\S+)", rout, re.M)
            res["replay_signature"] = rs[0] if rs else ""
            if rrc != 1:
                res["replay_tail"] = rout[-1500:]
        # the instrumented copy of the variant (SCHED checks) is not needed any more
        h = hashlib.sha1(open(ov, "rb").read()).hexdigest()[:10]
        shutil.rmtree(os.path.join(root, ".build", "ov-" + h), ignore_errors=True)
    return res


def tree_key():
    """Identifies the state of /repo and of the framework sources a baseline belongs to."""
    h = hashlib.sha1()
    for cmd in (["git", "-C", REPO, "rev-parse", "HEAD"], ["git", "-C", REPO, "status", "--porcelain"]):
        h.update(subprocess.run(cmd, stdout=subprocess.PIPE).stdout)
    for d in ("engine", "harness"):
        for base, dirs, files in sorted(os.walk(os.path.join(VERIF, d))):
            dirs.sort()
            for f in sorted(files):
                if f.endswith((".go", ".py", ".json")):
                    h.update(f.encode())
                    h.update(open(os.path.join(base, f), "rb").read())
    h.update(open(os.path.join(VERIF, "check"), "rb").read())
    h.update(open(os.path.join(VERIF, "known_findings.json"), "rb").read())
    return h.hexdigest()[:16]


def run_baseline(pid, root, tier, in_place):
    with Guard(root, pid, in_place):
        rc, out, wall = run(["./check", pid, "--tier", tier], root, BASE_ENV, CHECK_TIMEOUT)
    summ = re.findall(r"^%s tier=.*$" % pid, out, re.M)
    b = {"check_exit": rc if rc is not None else "timeout", "wall_s": round(wall, 1),
         "signatures": re.findall(r"^  signature: (.*)$", out, re.M),
         "known_findings_reported": len(re.findall(r"^KNOWN-FINDING:", out, re.M)),
         "summary": summ[-1] if summ else ""}
    if rc != 0:
        b["tail"] = out[-2000:]
    return b


def yn(v):
    return {True: "yes", False: "NO", None: "-"}[v]


def write_md(results, meta, baselines):
    L = ["# Self-test of the framework: mutants of go-perun", "",
         "Generated by `selftest/run.py` (%s). Mutants are applied through a go build overlay; `/repo` is never modified." % meta["when"],
         "`/repo` HEAD: `%s`; framework HEAD when the harnesses were copied: `%s`. Tier: %s. Checks run %s. Total wall time of the last full run: %s." % (
             meta["repo_head"], meta.get("verif_head", "?"), meta["tier"], meta["where"], meta.get("full_run_wall", "n/a")), ""]
    run_ = [r for r in results if not r.get("pending") and r["status"] == "ok"]
    det = [r for r in run_ if r.get("detected")]
    L.append("**%d mutants run, %d detected by the targeted check, %d not detected; %d pass the repository's own tests (of these %d detected); %d pending (property has no check yet); %d stale.**" % (
        len(run_), len(det), len(run_) - len(det),
        sum(1 for r in run_ if r.get("repo_tests", {}).get("pass")),
        sum(1 for r in det if r.get("repo_tests", {}).get("pass")),
        sum(1 for r in results if r.get("pending")), sum(1 for r in results if r["status"] == "stale")))
    L += ["", "## Per property", "", "| property | mutants | detected | missed | detected and not caught by the repo's tests |", "|---|---|---|---|---|"]
    for pid in sorted({r["property"] for r in results}):
        rs = [r for r in run_ if r["property"] == pid]
        if not rs:
            L.append("| %s | %d pending | - | - | - |" % (pid, sum(1 for r in results if r["property"] == pid)))
            continue
        L.append("| %s | %d | %d | %s | %d |" % (pid, len(rs), sum(1 for r in rs if r["detected"]),
                 ", ".join(r["id"] for r in rs if not r["detected"]) or "-",
                 sum(1 for r in rs if r["detected"] and r.get("repo_tests", {}).get("pass"))))
    L += ["", "## Baselines (unmodified tree, same place, same tier, run before the first mutant of a property)", "",
          "| property | baseline exit seen by its mutants | newest stored baseline: exit | violations | known findings reported | wall s |", "|---|---|---|---|---|---|"]
    for pid in sorted({r["property"] for r in run_}):
        seen = sorted({str(r.get("baseline_exit")) for r in run_ if r["property"] == pid})
        b = baselines.get(pid)
        if b:
            L.append("| %s | %s | %s | %s | %d | %s |" % (pid, ", ".join(seen), b["check_exit"], "<br>".join("`%s`" % x for x in b["signatures"][:3]) or "-", b["known_findings_reported"], b["wall_s"]))
        else:
            L.append("| %s | %s | (not stored) | | | |" % (pid, ", ".join(seen)))
    L += ["", "## Mutants", "",
          "| mutant | property | what | repo tests pass? | check exit | detected? | signatures (first 3 of n) | replay reproduces? | wall s |",
          "|---|---|---|---|---|---|---|---|---|"]
    for r in results:
        if r.get("pending"):
            L.append("| %s | %s | %s | - | - | pending | - | - | - |" % (r["id"], r["property"], r["what"]))
            continue
        if r["status"] != "ok":
            L.append("| %s | %s | %s | - | - | %s: %s | - | - | - |" % (r["id"], r["property"], r["what"], r["status"], r.get("note", "")))
            continue
        rt = r.get("repo_tests")
        if rt is None:
            rts = "not run"
        elif rt["pass"]:
            rts = "yes" + (" (first attempt failed in %s, passed when repeated: timing-dependent test)" % ", ".join(rt["first_attempt"]["failed_tests"][:2]) if rt.get("flaky") else "")
        elif rt["build_failed"]:
            rts = "BUILD FAILED"
        else:
            why = ", ".join(rt["failed_tests"][:3]) or ("timeout after %ds" % REPO_TEST_TIMEOUT if rt["rc"] is None else
                                                          "panic/exit %s in %s" % (rt["rc"], ", ".join(p.replace("perun.network/go-perun/", "") for p in rt["failed_packages"][:2])))
            rts = "no (%s)" % why
        sigs = r.get("signatures", [])
        s = "<br>".join("`%s`" % x.replace("|", "\\|") for x in sigs[:3])
        if len(sigs) > 3:
            s += "<br>(%d in total)" % len(sigs)
        L.append("| %s | %s | %s | %s | %s | %s | %s | %s | %s |" % (
            r["id"], r["property"], r["what"].replace("|", "\\|"), rts, r.get("check_exit"),
            "yes" if r.get("detected") else "**NO**", s or "-", yn(r.get("replay_reproduces")), r.get("check_wall_s", "-")))
    spec = json.load(open(os.path.join(HERE, "mutants.json")))
    ana = {m["id"]: m.get("miss_analysis") for m in spec["mutants"]}
    missed = [r for r in results if not r.get("pending") and r["status"] == "ok" and "check_exit" in r and not r.get("detected")]
    L += ["", "## Mutants that are not detected: why, and what the check would need", "",
          "(Analyses are written by hand after reading the harness of the property - field `miss_analysis` of mutants.json. No harness was edited for the self-test.)", ""]
    for r in missed:
        L += ["### %s (%s, %s)" % (r["id"], r["property"], r["file"]), "", "%s. Check: exit %s, %d known finding(s) reported, `%s`" % (
            r["what"], r.get("check_exit"), r.get("known_findings_reported", 0), r.get("summary", "")), "",
            ana.get(r["id"]) or "**not analysed yet**", ""]
    if not missed:
        L += ["none", ""]
    L += ["## Mutants dropped as equivalent", ""]
    for d in spec.get("dropped_as_equivalent", []):
        L.append("* `%s` (%s): %s" % (d["id"], d["what"], d["why_equivalent"]))
    L += ["", "## History", ""]
    for h in spec.get("history", []):
        L.append("* " + h)
    open(os.path.join(HERE, "RESULTS.md"), "w").write("\n".join(L) + "\n")


def main():
    ap = argparse.ArgumentParser()
    ap.add_argument("--only", default="", help="comma separated id prefixes")
    ap.add_argument("--skip-repo-tests", action="store_true")
    ap.add_argument("--repo-tests-only", action="store_true", help="refresh only the repository-test column (keeps the check results of results.json)")
    ap.add_argument("--in-place", action="store_true", help="run ./check in /verif itself (evidence/replays are restored afterwards)")
    ap.add_argument("--render-only", action="store_true", help="only rewrite RESULTS.md from results.json and mutants.json")
    ap.add_argument("--tier", default="quick")
    ap.add_argument("--rebaseline", action="store_true", help="re-run the baselines even if /repo and the harnesses are unchanged")
    a = ap.parse_args()
    t_all = time.time()
    if a.render_only:
        j = json.load(open(os.path.join(HERE, "results.json")))
        ids = [m["id"] for m in json.load(open(os.path.join(HERE, "mutants.json")))["mutants"]]
        by = {r["id"]: r for r in j["results"]}
        write_md([by[i] for i in ids if i in by], j["meta"], j.get("baselines", {}))
        return
    mutants = json.load(open(os.path.join(HERE, "mutants.json")))["mutants"]
    ids = [m["id"] for m in mutants]
    assert len(ids) == len(set(ids)), "duplicate mutant ids"
    only = [p for p in a.only.split(",") if p]
    sel = [m for m in mutants if not only or any(m["id"].startswith(p) for p in only)]
    root = VERIF if (a.in_place or a.repo_tests_only) else make_mirror()
    vhead = subprocess.run(["git", "-C", VERIF, "log", "-1", "--format=%h %s"], stdout=subprocess.PIPE, text=True).stdout.strip()
    if subprocess.run(["git", "-C", VERIF, "status", "--porcelain", "--", "harness", "engine", "check"], stdout=subprocess.PIPE, text=True).stdout.strip():
        vhead += " (+ uncommitted changes)"
    res_path = os.path.join(HERE, "results.json")
    old = {}
    old_meta = {}
    if os.path.exists(res_path):
        try:
            j = json.load(open(res_path))
            old = {r["id"]: r for r in j["results"]}
            old_meta = j.get("meta", {})
        except Exception:
            pass
    key = tree_key() + ("-inplace" if a.in_place else "") + "-" + a.tier
    baselines, baselines_old = {}, {}
    try:
        baselines_old = json.load(open(res_path)).get("baselines", {})  # kept for the report only
    except Exception:
        pass
    if not a.rebaseline:
        baselines = {p: b for p, b in baselines_old.items() if b.get("key") == key}
    new = {}
    for i, m in enumerate(sel):
        r = {k: m[k] for k in ("id", "property", "file", "what", "needs")}
        r["pending"] = bool(m.get("pending"))
        r["status"] = "ok"
        r["repo_head"] = subprocess.run(["git", "-C", REPO, "rev-parse", "--short", "HEAD"], stdout=subprocess.PIPE, text=True).stdout.strip()
        if r["pending"]:
            ov, st, note = prepare(m)  # still say whether the text is current
            r["status"], r["note"] = ("ok", "") if st == "ok" else (st, note)
            new[m["id"]] = r
            continue
        ov, st, note = prepare(m)
        if st != "ok":
            r["status"], r["note"] = st, note
            log("%s: %s (%s)" % (m["id"], st, note))
            new[m["id"]] = r
            continue
        log("(%d/%d) %s [%s]" % (i + 1, len(sel), m["id"], m["property"]))
        if not a.skip_repo_tests:
            r["repo_tests"] = repo_tests(m, ov)
            r["caught_by_repo_tests"] = not r["repo_tests"]["pass"]
            log("   repo tests %s: %s in %.0fs %s" % (" ".join(m["repo_tests"]), "pass" if r["repo_tests"]["pass"] else "FAIL",
                                                   r["repo_tests"]["wall_s"], r["repo_tests"]["failed_tests"][:3]))
        elif m["id"] in old and "repo_tests" in old[m["id"]]:
            r["repo_tests"] = old[m["id"]]["repo_tests"]
            r["caught_by_repo_tests"] = old[m["id"]].get("caught_by_repo_tests")
        if a.repo_tests_only:
            keep = dict(old.get(m["id"], {}))
            keep.update(r)
            new[m["id"]] = keep
            continue
        if r.get("repo_tests", {}).get("build_failed"):
            r["status"], r["note"] = "does-not-compile", r["repo_tests"]["tail"][-400:]
            new[m["id"]] = r
            continue
        if m["property"] not in baselines:
            log("   baseline of %s (unmodified tree)" % m["property"])
            baselines[m["property"]] = dict(run_baseline(m["property"], root, a.tier, a.in_place), key=key)
            log("   baseline exit=%s sigs=%d wall=%.0fs" % (baselines[m["property"]]["check_exit"],
                len(baselines[m["property"]]["signatures"]), baselines[m["property"]]["wall_s"]))
        r["baseline_exit"] = baselines[m["property"]]["check_exit"]
        r.update(run_check(m, ov, root, a.tier, a.in_place, set(baselines[m["property"]]["signatures"])))
        log("   check exit=%s detected=%s sigs=%d replay=%s wall=%.0fs" % (
            r["check_exit"], r["detected"], len(r["signatures"]), r["replay_reproduces"], r["check_wall_s"]))
        new[m["id"]] = r
        # keep partial results on disk
        merged = [new.get(x["id"]) or old.get(x["id"]) for x in mutants]
        json.dump({"meta": old_meta, "baselines": dict(baselines_old, **baselines), "results": [x for x in merged if x]}, open(res_path, "w"), indent=1)
    wall = time.time() - t_all
    head = subprocess.run(["git", "-C", REPO, "log", "-1", "--format=%h %s"], stdout=subprocess.PIPE, text=True).stdout.strip()
    meta = dict(old_meta)
    meta.update({"when": time.strftime("%Y-%m-%d %H:%M:%S"), "repo_head": head, "verif_head": vhead, "tier": a.tier,
                 "where": "in /verif (--in-place)" if a.in_place else "in a private mirror of the framework (.build/selftest/_root)"})
    if not only and not a.skip_repo_tests and not a.repo_tests_only:
        meta["full_run_wall"] = "%.0f s (%.1f min)" % (wall, wall / 60)
    merged = [new.get(x["id"]) or old.get(x["id"]) for x in mutants]
    merged = [x for x in merged if x]
    json.dump({"meta": meta, "baselines": dict(baselines_old, **baselines), "results": merged}, open(res_path, "w"), indent=1)
    write_md(merged, meta, dict(baselines_old, **baselines))
    ran = [r for r in new.values() if not r["pending"] and r["status"] == "ok" and "check_exit" in r]
    missed = [r["id"] for r in ran if not r.get("detected")]
    log("ran %d mutants in %.0fs: %d detected, missed: %s" % (len(ran), wall, len(ran) - len(missed), missed or "none"))
    sys.exit(0 if not missed else 1)


if __name__ == "__main__":
    main()
