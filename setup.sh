#!/bin/bash
# setup_cmd: builds everything the checks need from files on disk (offline), warming the Go build cache.
set -e
cd "$(dirname "$0")"
export GOFLAGS=-mod=mod GOPROXY=off GOSUMDB=off GOTOOLCHAIN=local
mkdir -p .build/bin .build/out evidence replays
cat /repo/go.sum > go.sum
[ -f engine/go.sum.extra ] && cat engine/go.sum.extra >> go.sum
for h in harness/*/; do
  h=$(basename "$h")
  ls harness/$h/*_test.go >/dev/null 2>&1 || continue
  if [ -f harness/$h/.sched ]; then continue; fi
  go1.26.8 test -c -vet=off -tags verif -o .build/bin/$h.test ./harness/$h
done
if [ -f engine/instrument.py ]; then
  ov=$(python3 engine/instrument.py | tail -1)
  for h in harness/*/; do
    h=$(basename "$h")
    [ -f harness/$h/.sched ] || continue
    go1.26.8 test -c -vet=off -tags verif -overlay "$ov" -modfile go.sched.mod -o .build/bin/$h.sched.test ./harness/$h
  done
fi
echo setup done
