#!/usr/bin/env python3
"""Validates MANIFEST.json and every evidence file against the schemas (uses the tooling venv)."""
import json, glob, sys, jsonschema
ok = True
def v(path, schema):
    global ok
    try:
        jsonschema.validate(json.load(open(path)), json.load(open(schema)))
        print("valid  ", path)
    except Exception as e:
        ok = False
        print("INVALID", path, str(e)[:300])
v('/verif/MANIFEST.json', '/root/.vp/MANIFEST.schema.json')
for f in sorted(glob.glob('/verif/evidence/*.json')):
    v(f, '/root/.vp/EVIDENCE.schema.json')
sys.exit(0 if ok else 1)
