// Package verrgroup: golang.org/x/sync/errgroup on top of vsched threads (engine SCHED).
// The whole API is provided (Go, TryGo, SetLimit, WithContext, Wait) so that a variant of the
// tree that uses more of it than the pinned one still builds under the scheduler.
package verrgroup

import (
	"context"
	"fmt"

	"verif/engine/vsched"
	"verif/engine/vsync"
)

type Group struct {
	cancel func(error)
	wg     vsync.WaitGroup
	mu     vsync.Mutex
	err    error
	// limit > 0: at most limit functions are active; threads are cooperative, so the counters
	// need no lock of their own (there is no scheduling point between test and update)
	limited bool
	limit   int
	active  int
}

// WithContext returns a Group whose context is cancelled when a function returns an error or
// Wait returns.
func WithContext(ctx context.Context) (*Group, context.Context) {
	ctx, cancel := context.WithCancelCause(ctx)
	return &Group{cancel: cancel}, ctx
}

func (g *Group) start(f func() error) {
	g.wg.Add(1)
	vsched.Go(func() {
		defer func() {
			if g.limited {
				g.active--
			}
			g.wg.Done()
		}()
		if err := f(); err != nil {
			g.mu.Lock()
			if g.err == nil {
				g.err = err
				if g.cancel != nil {
					g.cancel(g.err)
				}
			}
			g.mu.Unlock()
		}
	})
}

// Go blocks while the limit of active functions is reached.
func (g *Group) Go(f func() error) {
	if g.limited {
		vsched.WaitCond("errgroup.limit", func() bool { return g.active < g.limit })
		g.active++
	}
	g.start(f)
}

// TryGo starts f only if the limit of active functions is not reached.
func (g *Group) TryGo(f func() error) bool {
	if g.limited {
		vsched.PointOp("errgroup.trygo")
		if g.active >= g.limit {
			return false
		}
		g.active++
	}
	g.start(f)
	return true
}

// SetLimit limits the number of active functions; a negative value removes the limit.
func (g *Group) SetLimit(n int) {
	if n < 0 {
		g.limited = false
		return
	}
	if g.active != 0 {
		panic(fmt.Errorf("errgroup: modify limit while %v goroutines in the group are still active", g.active))
	}
	g.limited, g.limit = true, n
}

func (g *Group) Wait() error {
	g.wg.Wait()
	if g.cancel != nil {
		g.cancel(g.err)
	}
	return g.err
}
