// Package verrgroup: errgroup on top of vsched threads (engine SCHED).
package verrgroup

import (
	"verif/engine/vsched"
	"verif/engine/vsync"
)

type Group struct {
	wg  vsync.WaitGroup
	mu  vsync.Mutex
	err error
}

func (g *Group) Go(f func() error) {
	g.wg.Add(1)
	vsched.Go(func() {
		defer g.wg.Done()
		if err := f(); err != nil {
			g.mu.Lock()
			if g.err == nil {
				g.err = err
			}
			g.mu.Unlock()
		}
	})
}

func (g *Group) Wait() error {
	g.wg.Wait()
	return g.err
}
