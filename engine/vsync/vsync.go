// Package vsync: scheduler-aware replacements for package sync (engine SCHED; pass-through to package sync when no execution is active).
package vsync

import (
	"sync"

	"verif/engine/vsched"
)

type Locker = sync.Locker
type Pool = sync.Pool
type Map = sync.Map

type Mutex struct {
	real   sync.Mutex
	locked bool
}

func (m *Mutex) Lock() {
	if !vsched.Active() {
		m.real.Lock()
		return
	}
	vsched.WaitCond("mutex.lock", func() bool { return !m.locked })
	m.locked = true
}
func (m *Mutex) TryLock() bool {
	if !vsched.Active() {
		return m.real.TryLock()
	}
	vsched.PointOp("mutex.trylock")
	if m.locked {
		return false
	}
	m.locked = true
	return true
}
func (m *Mutex) Unlock() {
	if !vsched.Active() {
		m.real.Unlock()
		return
	}
	vsched.PointOp("mutex.unlock")
	if !m.locked {
		panic("sync: unlock of unlocked mutex")
	}
	m.locked = false
}

type RWMutex struct {
	real    sync.RWMutex
	writer  bool
	readers int
}

func (m *RWMutex) Lock() {
	if !vsched.Active() {
		m.real.Lock()
		return
	}
	vsched.WaitCond("rw.lock", func() bool { return !m.writer && m.readers == 0 })
	m.writer = true
}
func (m *RWMutex) Unlock() {
	if !vsched.Active() {
		m.real.Unlock()
		return
	}
	vsched.PointOp("rw.unlock")
	m.writer = false
}
func (m *RWMutex) RLock() {
	if !vsched.Active() {
		m.real.RLock()
		return
	}
	vsched.WaitCond("rw.rlock", func() bool { return !m.writer })
	m.readers++
}
func (m *RWMutex) RUnlock() {
	if !vsched.Active() {
		m.real.RUnlock()
		return
	}
	vsched.PointOp("rw.runlock")
	m.readers--
}

type Once struct {
	real sync.Once
	done bool
	busy bool
}

func (o *Once) Do(f func()) {
	if !vsched.Active() {
		o.real.Do(f)
		return
	}
	vsched.WaitCond("once", func() bool { return !o.busy })
	if o.done {
		return
	}
	o.busy = true
	defer func() { o.busy = false; o.done = true }()
	f()
}

type WaitGroup struct {
	real sync.WaitGroup
	n    int
}

func (w *WaitGroup) Add(d int) {
	if !vsched.Active() {
		w.real.Add(d)
		return
	}
	vsched.PointOp("wg.add")
	w.n += d
	if w.n < 0 {
		panic("sync: negative WaitGroup counter")
	}
}
func (w *WaitGroup) Done() { w.Add(-1) }
func (w *WaitGroup) Wait() {
	if !vsched.Active() {
		w.real.Wait()
		return
	}
	vsched.WaitCond("wg.wait", func() bool { return w.n == 0 })
}

// OnceFunc, OnceValue, OnceValues: the functions of package sync (their internal Once is not a
// scheduling point: the first caller runs f, as under any schedule that lets it get there first).
func OnceFunc(f func()) func()                                 { return sync.OnceFunc(f) }
func OnceValue[T any](f func() T) func() T                     { return sync.OnceValue(f) }
func OnceValues[T1, T2 any](f func() (T1, T2)) func() (T1, T2) { return sync.OnceValues(f) }

// Cond is sync.Cond on top of the scheduler: waiters take tickets; Signal releases the oldest
// waiting ticket, Broadcast all of them. Which released waiter continues first is a scheduler
// choice (they compete for L).
type Cond struct {
	L        Locker
	next     int // next ticket
	released int // tickets below this number may continue
	once     sync.Once
	real     *sync.Cond // pass-through (no execution active)
}

func NewCond(l Locker) *Cond { return &Cond{L: l} }

func (c *Cond) plain() *sync.Cond {
	c.once.Do(func() { c.real = sync.NewCond(c.L) })
	return c.real
}

func (c *Cond) Wait() {
	if !vsched.Active() {
		c.plain().Wait()
		return
	}
	t := c.next
	c.next++
	c.L.Unlock()
	vsched.WaitCond("cond.wait", func() bool { return c.released > t })
	c.L.Lock()
}

func (c *Cond) Signal() {
	if !vsched.Active() {
		c.plain().Signal()
		return
	}
	vsched.PointOp("cond.signal")
	if c.released < c.next {
		c.released++
	}
}

func (c *Cond) Broadcast() {
	if !vsched.Active() {
		c.plain().Broadcast()
		return
	}
	vsched.PointOp("cond.broadcast")
	c.released = c.next
}
