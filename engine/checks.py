"""Table of checks: property id -> harness stages, evidence level, rule text, assumptions.

One JSON file per property under engine/checks.d/<ID>.json with the keys
  level        evidence level category (model_checking | exploration | fault_enumeration | ...)
  engine       SEQ | FAULT | SCHED | ENUM
  technique    a few words naming the deciding method
  claim        MANIFEST level_claimed.text
  note         MANIFEST level_note (assumptions / what is not covered)
  rule         evidence coverage.rule (how cases are enumerated, what counts as distinct / non-trivial)
  assumptions  list of strings for the evidence file
  stages       list of {harness, mode: plain|sched, sharding: single|shards|units, env, budget_s:{quick,thorough},
               nshards:{quick,thorough}, memlimit_kb, tier (run only in that tier), workers}
"""
import glob, json, os

_D = os.path.join(os.path.dirname(os.path.abspath(__file__)), "checks.d")
CHECKS = {}
for _f in sorted(glob.glob(os.path.join(_D, "C*.json"))):
    CHECKS[os.path.basename(_f)[:-5]] = json.load(open(_f))

ENGINES = [
    {"name": "SEQ", "path": "harness/machine, harness/store", "serves_properties": ["C01", "C09", "C11"],
     "kind_free_text": "explicit-state BFS to a fixpoint over a real sequential object, each transition executed on the implementation and on a Go reference model"},
    {"name": "FAULT", "path": "harness/store", "serves_properties": ["C10"],
     "kind_free_text": "SEQ plus enumeration of every write/batch boundary of every transition as a crash point, restore compared with before/after"},
    {"name": "SCHED", "path": "engine/instrument, engine/vsched, engine/vsync, harness/relay, harness/multi, harness/watcher, harness/clients",
     "serves_properties": ["C03", "C04", "C05", "C06", "C07", "C08", "C12", "C18", "C20"],
     "kind_free_text": "stateless DFS over all schedules of the real concurrent code up to a preemption/delay bound, under a cooperative scheduler in a testing/synctest bubble; sources instrumented at build time through go's -overlay"},
    {"name": "ENUM", "path": "harness/trans, harness/values, harness/codec, harness/decode", "serves_properties": ["C02", "C13", "C14", "C15", "C16", "C17", "C19"],
     "kind_free_text": "bounded-exhaustive enumeration of structurally generated inputs (all shapes up to small dimensions, all single/pair mutations, all truncations/cuts) against an independent oracle"},
]

# Properties without a registered check, with the reason (kept current by hand).
NOT_APPLICABLE = {}
