"""Table of checks: property id -> harness stages, evidence level, rule text, assumptions."""

SEQ_ASSUME = [
    "sim backend (ECDSA P-256 over the state encoding) as the only wallet/channel backend",
    "operations are offered from the finite alphabet listed in DESIGN.md section 3; versions are capped (cap in coverage.notes), the search runs to a fixpoint below the cap",
    "canonical state = (phase, current state bytes, adopted-by-progression flag, staged state bytes, per-slot signature validity); prevTXs and logger are write-only and dropped",
]

ENGINES = [
    {"name": "SEQ", "path": "harness/machine, harness/store", "serves_properties": ["C01", "C09", "C11"], "kind_free_text": "explicit-state BFS to a fixpoint over a real sequential object, each transition executed on the implementation and on a Go reference model"},
]

NOT_APPLICABLE = {}

CHECKS = {
    "C01": {
        "level": "model_checking", "engine": "SEQ",
        "technique": "explicit-state model checking (BFS to fixpoint) of the real state machine, invariant checked in every state",
        "claim": "Every canonical state of the real channel.StateMachine reachable through the 49-operation alphabet (all phase setters, init/update/forced update, own signature, add-signature with valid/sibling-state/current-state/foreign/garbage/empty signatures at every index, enable, discard) below the version cap satisfies: the current transaction is signed by every participant over exactly the current state unless adopted from a progression event, and every stored staging signature verifies over exactly the staged state. Fixpoint, so operation sequences of every length within the alphabet are covered.",
        "note": "Trusted: sim backend signature scheme, the harness' canonical-state abstraction (argued in DESIGN.md C01/K). Not covered: versions above the cap, apps other than NoApp/payment, more than 3 participants.",
        "rule": "BFS to a fixpoint over canonical states of the real channel.StateMachine; evaluations = transitions executed on the real machine (every one also stepped on the reference automaton and checked for the full-signature invariant); distinct_nontrivial = distinct canonical states discovered (each reached by at least one state-changing operation, re-validated by replay of its history on a fresh machine)",
        "assumptions": SEQ_ASSUME,
        "stages": [{"harness": "machine"}],
    },
    "C09": {
        "level": "model_checking", "engine": "SEQ",
        "technique": "explicit-state model checking (BFS to fixpoint) of the real state machine against a reference automaton, every transition compared",
        "claim": "For every reachable canonical state and every operation of the alphabet the real call succeeds exactly when the documented precondition (phase, signatures present, final flag, validity class of the argument) holds, ends in the documented phase with the documented staged/current effect, and a call that returns an error leaves phase, staged and current transaction byte-identical. Own signatures only in signing phases and only over the staged state.",
        "note": "The reference automaton is a hand transcription of the doc comments of machine.go/statemachine.go, independent of validPhaseTransitions. Not covered: ActionMachine, versions above the cap.",
        "rule": "BFS to a fixpoint over canonical states of the real channel.StateMachine; evaluations = transitions executed on the real machine and compared with the reference automaton transcribed from the documentation (accept/refuse, post-phase, staged/current effect, byte-identical snapshot after a refused call); distinct_nontrivial = distinct canonical states discovered",
        "assumptions": SEQ_ASSUME,
        "stages": [{"harness": "machine"}],
    },
}
