#!/usr/bin/env python3
"""Regenerates /verif/MANIFEST.json from engine/checks.py (run after editing the table)."""
import json, os, sys
ROOT = os.path.dirname(os.path.dirname(os.path.abspath(__file__)))
sys.path.insert(0, os.path.join(ROOT, "engine"))
from checks import CHECKS, NOT_APPLICABLE, ENGINES

props = [json.loads(l)["id"] for l in open(os.path.join(ROOT, "properties.jsonl"))]
checks = []
for pid in props:
    if pid not in CHECKS:
        continue
    c = CHECKS[pid]
    checks.append({
        "property_id": pid,
        "quick_cmd": "./check %s --tier quick" % pid,
        "thorough_cmd": "./check %s --tier thorough" % pid,
        "evidence_file": "/verif/evidence/%s.json" % pid,
        "replay_cmd_template": "./check %s --replay {path}" % pid,
        "engine": c.get("engine", "SEQ"),
        "level_claimed": {"category": c["level"], "text": c["claim"], "design_ref": c.get("design_ref", "DESIGN.md section 3, " + pid)},
        "level_note": c["note"],
        "technique": c["technique"],
    })
na = [{"property_id": p, "reason": NOT_APPLICABLE.get(p, "no check registered yet (machinery under construction; see DESIGN.md section 8)")} for p in props if p not in CHECKS]
m = {
    "version": 1,
    "setup_cmd": "./setup.sh",
    "hooks": {
        "guard": "verif",
        "enable": "checks build with `-tags verif`; scheduling hooks are NOT in /repo: engine/instrument rewrites the current working tree of /repo into a build overlay (.build/ov) at check time (go test -overlay), so no guarded source change exists",
        "baseline_off_cmd": "cd /repo && GOFLAGS=-mod=mod GOPROXY=off go test -json -vet=off -count=1 -timeout 25m ./...",
        "source_commits": [],
        "add_only": True,
    },
    "engines": ENGINES,
    "checks": checks,
    "not_applicable": na,
    "notes": "All checks are bounded-exhaustive enumerations over the real code (engines SEQ, FAULT, SCHED, ENUM of DESIGN.md). known_findings.json lists genuine defects (status known/fixed). VERIF_SEED only selects test keys.",
}
json.dump(m, open(os.path.join(ROOT, "MANIFEST.json"), "w"), indent=1)
print("MANIFEST.json: %d checks, %d not_applicable" % (len(checks), len(na)))
