#!/usr/bin/env python3
"""Rewrites the block between the AS-BUILT markers of DESIGN.md (section 10.6) from
engine/checks.d/*.json (what each check claims) and evidence/*.json (what the last quick run
covered). Run after the evidence has been refreshed."""
import json, os, glob, re
ROOT = os.path.dirname(os.path.dirname(os.path.abspath(__file__)))
B, E = "<!-- BEGIN AS-BUILT -->", "<!-- END AS-BUILT -->"
rows = []
for f in sorted(glob.glob(os.path.join(ROOT, "engine", "checks.d", "C*.json"))):
    pid = os.path.basename(f)[:-5]
    d = json.load(open(f))
    ev = {}
    p = os.path.join(ROOT, "evidence", pid + ".json")
    if os.path.exists(p):
        ev = json.load(open(p))
    cov = ev.get("coverage", {})
    stages = ", ".join("%s%s" % (s["harness"], {"sched": " (SCHED)", "race": " (race audit)"}.get(s.get("mode", ""), "")) for s in d["stages"])
    nums = "evaluations %s" % cov.get("evaluations", "-")
    if cov.get("states"):
        nums += ", states %s, transitions %s" % (cov.get("states"), cov.get("transitions"))
    nums += ", exhaustive %s, %.0f s" % (cov.get("exhaustive"), ev.get("wall_s", 0))
    rows.append("#### %s - engine %s, level `%s`\n\nHarness: %s. Technique: %s.\n\n%s\n\n*Limits:* %s\n\n*Last quick run (tier %s):* %s.\n" % (
        pid, d["engine"], d["level"], stages, d["technique"], d["claim"], d["note"], ev.get("tier", "-"), nums))
text = "\n".join(rows)
p = os.path.join(ROOT, "DESIGN.md")
s = open(p).read()
assert B in s and E in s
s = s[:s.index(B) + len(B)] + "\n\n" + text + "\n" + s[s.index(E):]
open(p, "w").write(s)
print("DESIGN.md: section 10.6 rewritten for %d checks" % len(rows))
